(* C04 — Indexed assignment changes exactly the addressed elements.
   Property theorems only; proofs live in Proofs/AssignP.v, definitions in Model/Assign.v. *)
From Coq Require Import List Arith ZArith.
From Coq Require String.
From MechV Require Import Base.Sexp Base.Obs Model.Assign Proofs.AssignP.
Import ListNotations.

(* ---- A. the update primitive, any element type, any list of positions ---- *)

(* 1. assign_sets / opassign_relative: through DISTINCT positions the i-th addressed element becomes
      f old (i-th source element)  (f = "take the source" for `=`, old+v ... for op-assign). *)
Theorem C04_update_sets : forall (A : Type) (f : A -> A -> option A) (ps : list nat) (vs d d' : list A),
  NoDup ps -> length ps = length vs -> app_each f ps vs d = Some d' ->
  forall i p v, nth_error ps i = Some p -> nth_error vs i = Some v ->
    exists old new, nth_error d p = Some old /\ f old v = Some new /\ nth_error d' p = Some new.
Proof. exact (@app_each_sets). Qed.
Print Assumptions C04_update_sets.

(* 2. a scalar assigned to any list of positions (repeats allowed) is at every one of them afterwards *)
Theorem C04_scalar_sets : forall (A : Type) (ps : list nat) (v : A) (d d' : list A) (p : nat),
  set_all ps v d = Some d' -> In p ps -> nth_error d' p = Some v.
Proof. exact (@set_all_sets). Qed.
Print Assumptions C04_scalar_sets.

(* 3. assign_frame: every position that is not addressed keeps its element; the length is kept *)
Theorem C04_update_frame : forall (A : Type) (f : A -> A -> option A) (ps : list nat) (vs d d' : list A) (q : nat),
  app_each f ps vs d = Some d' -> ~ In q ps -> nth_error d' q = nth_error d q.
Proof. exact (@app_each_frame). Qed.
Print Assumptions C04_update_frame.

Theorem C04_update_length : forall (A : Type) (f : A -> A -> option A) (ps : list nat) (vs d d' : list A),
  app_each f ps vs d = Some d' -> length d' = length d.
Proof. exact (@app_each_length). Qed.
Print Assumptions C04_update_length.

(* 4. the result of `x[...] = scalar` depends only on WHICH positions are addressed (not on order/repeats) *)
Theorem C04_scalar_order_irrelevant : forall (A : Type) (ps ps' : list nat) (v : A) (d d1 d2 : list A),
  set_all ps v d = Some d1 -> set_all ps' v d = Some d2 -> (forall p, In p ps <-> In p ps') -> d1 = d2.
Proof. exact (@set_all_ext). Qed.
Print Assumptions C04_scalar_order_irrelevant.

(* 5. read_after_write on lists *)
Theorem C04_read_back_scalar : forall (A : Type) (ps : list nat) (v : A) (d d' : list A),
  set_all ps v d = Some d' -> read_at ps d' = Some (repeat v (length ps)).
Proof. exact (@set_all_read_back). Qed.
Print Assumptions C04_read_back_scalar.

Theorem C04_read_back_vector : forall (A : Type) (ps : list nat) (vs d d' : list A),
  NoDup ps -> length ps = length vs -> app_each f_set ps vs d = Some d' -> read_at ps d' = Some vs.
Proof. exact (@assign_vec_read_back). Qed.
Print Assumptions C04_read_back_vector.

(* ---- B. index forms: 1-based, column-major, every addressed position inside the matrix ---- *)
Theorem C04_index_scalar : forall n z ps,
  comp_status n (IS z) = CValid ps <-> ((1 <= z <= Z.of_nat n)%Z /\ ps = [Z.to_nat (z - 1)]).
Proof. exact comp_status_scalar. Qed.
Print Assumptions C04_index_scalar.

Theorem C04_index_vector : forall n l ps,
  comp_status n (IV l) = CValid ps <->
  (Forall (fun z => (1 <= z <= Z.of_nat n)%Z) l /\ ps = map (fun z => Z.to_nat (z - 1)) l).
Proof. exact comp_status_vector. Qed.
Print Assumptions C04_index_vector.

Theorem C04_index_mask : forall n l ps, comp_status n (IM l) = CValid ps <-> (length l = n /\ ps = mask_pos 0 l).
Proof. exact comp_status_mask. Qed.
Print Assumptions C04_index_mask.

Theorem C04_mask_positions : forall l i p, In p (mask_pos i l) <-> (i <= p /\ nth_error l (p - i) = Some true).
Proof. exact mask_pos_spec. Qed.
Print Assumptions C04_mask_positions.

Theorem C04_index_2d : forall r c i j ps,
  target_status r c (T2 i j) = CValid ps ->
  exists ri cj, comp_status r i = CValid ri /\ comp_status c j = CValid cj /\
    forall p, In p ps <-> exists rr cc, In rr ri /\ In cc cj /\ p = cc * r + rr.
Proof. exact target_status_T2_meaning. Qed.
Print Assumptions C04_index_2d.

Theorem C04_positions_in_range : forall r c t ps,
  target_status r c t = CValid ps -> Forall (fun p => p < r * c) ps.
Proof. exact target_status_lt. Qed.
Print Assumptions C04_positions_in_range.

(* ---- C. the property at statement level (any kind, shape, index form, source) ---- *)
(* 6. `x[...] = scalar`: every addressed element is the scalar, every other element and the shape unchanged *)
Theorem C04_assign_scalar : forall k x t k' e d,
  spec_step k x (SAsg OSet t (SSc k' e)) = OkNew d ->
  exists ps, target_status (mrows x) (mcols x) t = CValid ps /\
    (forall p, In p ps -> nth_error d p = Some e) /\
    (forall q, ~ In q ps -> nth_error d q = nth_error (mdata x) q) /\
    length d = length (mdata x).
Proof. exact assign_scalar_sets_frame. Qed.
Print Assumptions C04_assign_scalar.

(* 7. op-assign with a scalar operand: new = old op v exactly on the addressed elements *)
Theorem C04_opassign_scalar : forall k x o t k' e d,
  is_set o = false ->
  spec_step k x (SAsg o t (SSc k' e)) = OkNew d ->
  exists ps, target_status (mrows x) (mcols x) t = CValid ps /\ NoDup ps /\
    (forall p, In p ps -> exists old new, nth_error (mdata x) p = Some old /\ arith k o old e = Some new /\
                                          nth_error d p = Some new) /\
    (forall q, ~ In q ps -> nth_error d q = nth_error (mdata x) q) /\
    length d = length (mdata x).
Proof. exact opassign_scalar_relative. Qed.
Print Assumptions C04_opassign_scalar.

(* 8. vector sources (`=` and op-assign): i-th addressed element from i-th source element, frame *)
Theorem C04_assign_vector : forall k x o t k' col vs d,
  spec_step k x (SAsg o t (SVec k' col vs)) = OkNew d ->
  exists ps, target_status (mrows x) (mcols x) t = CValid ps /\ NoDup ps /\ length ps = length vs /\
    (forall i p v, nth_error ps i = Some p -> nth_error vs i = Some v ->
       exists old new, nth_error (mdata x) p = Some old /\ arith k o old v = Some new /\ nth_error d p = Some new) /\
    (forall q, ~ In q ps -> nth_error d q = nth_error (mdata x) q) /\
    length d = length (mdata x).
Proof. exact assign_vector_sets_frame. Qed.
Print Assumptions C04_assign_vector.

(* 9. read after write at statement level *)
Theorem C04_read_after_write : forall k x t k' e d,
  spec_step k x (SAsg OSet t (SSc k' e)) = OkNew d ->
  forall ps, target_status (mrows x) (mcols x) t = CValid ps -> ps <> [] ->
    spec_read (Mat (mrows x) (mcols x) d) t = Some (repeat e (length ps)).
Proof. exact spec_read_after_write. Qed.
Print Assumptions C04_read_after_write.

Theorem C04_read_after_write_vector : forall k x t k' col vs d,
  spec_step k x (SAsg OSet t (SVec k' col vs)) = OkNew d ->
  forall ps, target_status (mrows x) (mcols x) t = CValid ps -> read_at ps d = Some vs.
Proof. exact read_after_write_vector. Qed.
Print Assumptions C04_read_after_write_vector.

(* 10. errors: an out-of-range target never succeeds; a source of a kind the matrix cannot hold is an error *)
Theorem C04_out_of_range_is_error : forall k x o t src,
  src_kind src = k -> target_status (mrows x) (mcols x) t = COut ->
  match spec_step k x (SAsg o t src) with OkNew _ => False | _ => True end.
Proof. exact out_of_range_is_error. Qed.
Print Assumptions C04_out_of_range_is_error.

Theorem C04_wrong_kind_is_error : forall k x o t src,
  src_kind src <> k -> andb (is_numeric (src_kind src)) (is_numeric k) = false ->
  spec_step k x (SAsg o t src) = MustErr.
Proof. exact wrong_kind_is_error. Qed.
Print Assumptions C04_wrong_kind_is_error.

(* 11. assign_error_atomic: a statement that is not a success leaves kind, shape and every element *)
Theorem C04_error_atomic : forall st s,
  (forall d, spec_step (fst st) (snd st) s <> OkNew d) -> spec_exec st s = st.
Proof. exact assign_error_atomic. Qed.
Print Assumptions C04_error_atomic.

(* 12. histories: after ANY sequence of statements kind and shape are those of the definition *)
Theorem C04_history_invariant : forall ss st,
  wf_mat (snd st) ->
  let st' := spec_run st ss in
  fst st' = fst st /\ mrows (snd st') = mrows (snd st) /\ mcols (snd st') = mcols (snd st) /\ wf_mat (snd st').
Proof. exact assign_history_inv. Qed.
Print Assumptions C04_history_invariant.

(* ---- D. the tie to the implementation ---- *)
(* 13. the judge is sound: `ok` means the observed session satisfies the property step by step *)
Theorem C04_judge_sound : forall cs steps tag, judge_case cs steps = v_ok tag -> C04_spec cs steps.
Proof. exact judge_case_sound. Qed.
Print Assumptions C04_judge_sound.

Theorem C04_judge_line_sound : forall c steps tag,
  judge_assign (session_line c steps) = v_ok tag ->
  exists cs os, decode_case c = Some cs /\ map_opt decode_step steps = Some os /\ C04_spec cs os.
Proof. exact judge_assign_sound. Qed.
Print Assumptions C04_judge_line_sound.

(* ---- E. known findings: the faithful model of mech violates the property on these classes ---- *)
(* [refutes id w] speaks about the model of the tree BEFORE the repairs (fx = false).  Three of the classes
   (opassign-scalar-index-overwrites, mask-rows-all-off-by-one, div-assign-rows-all-divides-every-element)
   have since been repaired in /repo by `fix:` commits 8f97ba0, 7b872ae, 3989fe2 (the fx = true model);
   they are no longer listed as open findings, so a (kf ...) verdict with one of these ids is a VIOLATION
   again, i.e. the check now guards the repairs against regression. *)
Theorem C04_refuted_opassign_scalar_index : exists w, refutes id_opassign_scalar w.
Proof. exact (ex_intro _ _ refuted_opassign_scalar). Qed.
Print Assumptions C04_refuted_opassign_scalar_index.
Theorem C04_refuted_partial_write : exists w, refutes id_partial_write w.
Proof. exact (ex_intro _ _ refuted_partial_write). Qed.
Print Assumptions C04_refuted_partial_write.
Theorem C04_refuted_whole_opassign_short_source : exists w, refutes id_whole_short w.
Proof. exact (ex_intro _ _ refuted_whole_short). Qed.
Print Assumptions C04_refuted_whole_opassign_short_source.
Theorem C04_refuted_mask_rows_all : exists w, refutes id_mask_rows_all w.
Proof. exact (ex_intro _ _ refuted_mask_rows_all). Qed.
Print Assumptions C04_refuted_mask_rows_all.
Theorem C04_refuted_rows_ignored_with_column_mask : exists w, refutes id_rows_ignored w.
Proof. exact (ex_intro _ _ refuted_rows_ignored). Qed.
Print Assumptions C04_refuted_rows_ignored_with_column_mask.
Theorem C04_refuted_mask_vector_source : exists w, refutes id_mask_vector w.
Proof. exact (ex_intro _ _ refuted_mask_vector). Qed.
Print Assumptions C04_refuted_mask_vector_source.
Theorem C04_refuted_div_assign_rows_all : exists w, refutes id_div_all w.
Proof. exact (ex_intro _ _ refuted_div_all). Qed.
Print Assumptions C04_refuted_div_assign_rows_all.
Theorem C04_refuted_form_not_implemented : exists w, refutes id_not_implemented w.
Proof. exact (ex_intro _ _ refuted_not_implemented). Qed.
Print Assumptions C04_refuted_form_not_implemented.

(* ---- F. ... and satisfies it everywhere else ---- *)
(* C04_holds: for every kind, shape, statement and both models of mech (the tree as it is / with the
   proposed repairs): if the statement is in no known-finding class, the faithful model of mech does
   exactly what the property demands (new contents on success; error and unchanged otherwise). *)
Theorem C04_holds : forall fx k x s,
  wf_mat x -> 1 <= mrows x -> 1 <= mcols x ->
  kf_class fx k x s = None ->
  match spec_step k x s with
  | OkNew d => mech_step fx k x s = Some (true, map Some d)
  | MustErr => mech_step fx k x s = Some (false, map Some (mdata x))
  | NotFixed _ => True
  end.
Proof. exact mech_holds. Qed.
Print Assumptions C04_holds.

(* the core of it: wherever the property fixes the outcome and the statement has none of the structurally
   defective forms, the model of mech is defined, and whenever its kernel loop runs to completion the
   variable holds exactly the property's result (so the only other deviations are refusals and partial writes) *)
Theorem C04_model_success_is_correct : forall fx k x s,
  wf_mat x -> 1 <= mrows x -> 1 <= mcols x ->
  fixed (spec_step k x s) ->
  (forall o t src, s = SAsg o t src -> kf_structural fx k o t src (mrows x * mcols x) = None) ->
  exists fin pat, mech_step fx k x s = Some (fin, pat) /\
    (fin = true -> exists d, spec_step k x s = OkNew d /\ pat = map Some d).
Proof. exact mech_model_correct. Qed.
Print Assumptions C04_model_success_is_correct.

(* ---- non-vacuity ---- *)
Example C04_example :
  (* ~x := [1 2 3; 4 5 6] (i64); x[2,[1 3]] = 9 ; x[[1 4]] += [10 20] *)
  let x0 := Mat 2 3 (zs [1; 4; 2; 5; 3; 6]%Z) in
  let s1 := SAsg OSet (T2 (IS 2) (IV [1; 3]%Z)) (SSc (c_kind (Case id_i64 x0 [])) (Zx 9)) in
  let s2 := SAsg OAdd (T1 (IV [1; 4]%Z)) (SVec id_i64 false (zs [10; 20]%Z)) in
  wf_mat x0 /\
  spec_step id_i64 x0 s1 = OkNew (zs [1; 9; 2; 5; 3; 9]%Z) /\
  snd (spec_run (id_i64, x0) [s1; s2]) = Mat 2 3 (zs [11; 9; 2; 25; 3; 9]%Z) /\
  spec_step id_i64 x0 (SAsg OSet (T1 (IS 7)) (SSc id_i64 (Zx 1))) = MustErr.
Proof. vm_compute. repeat split. Qed.
Print Assumptions C04_example.

(* ---- F. the op-assignment kernels as they are in the source (regenerated table) -------------------------------
   Gen/OpAssignArms.v is rewritten from machines/math/src/op_assign/*.rs, mod.rs and src/core/src/stdlib.rs by
   translators/opassign_arms.py on every run of this check; the statements below are about THAT table, so a slip in
   one of the near-identical arms / kernel macros of one operator breaks them whether or not a generated case
   reaches the arm.  Definitions and the meaning of the checks: Proofs/OpAssignArmsP.v, Proofs/SrcArmsP.v. *)
From MechV Require Import Model.SrcArms Proofs.SrcArmsP Gen.OpAssignArms Proofs.OpAssignArmsP.
Import String.

(* F1. the translator recognised every construct it was pointed at (it cannot go blind silently) *)
Theorem C04_opassign_source_fully_read : oa_unrecognised = [].
Proof. exact oa_nothing_unrecognised. Qed.
Print Assumptions C04_opassign_source_fully_read.

(* F2. every compile() of + - * / and of the three forms (x op= e, x[ix] op= e, x[ix,:] op= e) is regular: operands
       bound to arguments[0], [1], the rest; direct call and every operand-form arm pass (sink, source[, ixes]) with every
       reference unwrapped; the four operators have the same arm lists *)
Theorem C04_opassign_compile_arms_regular :
  forallb compile_ok oa_compile = true /\ oa_compile_complete = true /\ oa_uniform = true.
Proof. exact (conj (proj1 oa_compile_regular) (conj (proj2 oa_compile_regular) oa_arm_lists_uniform)). Qed.
Print Assumptions C04_opassign_compile_arms_regular.

(* F3. kernel-level functions, arm macros (field `sink` <- sink pattern, `source` <- source pattern, `ixes` <- index
       pattern), solve() of the kernel structs and the instantiations (operator token of the file, kernel of the name) *)
Theorem C04_opassign_kernel_chain_regular :
  (forallb callee_ok oa_callees = true /\ callees_complete = true /\
   forallb range_macro_ok oa_range_macros = true /\ List.length oa_range_macros = 2) /\
  (forallb value_arm_ok oa_value_arms = true /\ oa_value_error_arms = 1 /\
   forallb (fun e => forallb range_arm_ok (snd (fst e))) oa_range_arms = true /\ range_arm_tables_ok = true) /\
  (forallb solve_ok oa_solves = true /\ List.length oa_solves = 5 /\
   forallb (fun e => list_eqb inst_eqb (map (fun x => (snd (fst x), snd x)) (insts_of (fst (fst e)))) (expected_insts (fst (fst e)))) oa_ops = true /\
   forallb wrapper_ok oa_wrappers = true /\ List.length oa_wrappers = 8).
Proof. exact (conj oa_callees_regular (conj oa_arms_regular oa_solves_regular)). Qed.
Print Assumptions C04_opassign_kernel_chain_regular.

(* F4. every kernel macro of every operator is the reference loop nest of its name with the operator token of its file
       (same bounds, same index expressions, `sink[..] OP= source[..]`) *)
Theorem C04_opassign_kernels_match_reference : forallb kernel_ok oa_kernels = true /\ kernels_complete = true.
Proof. exact oa_kernels_regular. Qed.
Print Assumptions C04_opassign_kernels_match_reference.

(* F5. the kernels an op-assignment can reach (the structs the arm macros build) are uniform over the four operators *)
Theorem C04_opassign_reachable_kernels_uniform :
  forall o k site params body, In (o, k, site, params, body) oa_kernels -> reachable_kernel k = true ->
    exists r, ref_kernel k (op_tok o) = Some r /\ norm body = r.
Proof. exact oa_reachable_kernels_uniform. Qed.
Print Assumptions C04_opassign_reachable_kernels_uniform.

(* F6. the element update of every kernel is `sink-place TOK= source-value` with the token of the operator's file, i.e.
       [lift_m kind op old-sink-element source-element] of the model (sink on the left, no reciprocal) *)
Theorem C04_opassign_update_is_lift_m :
  forall o k site params body, In (o, k, site, params, body) oa_kernels ->
    exists tok p v a,
      filter (fun x => match x with (_, L "src_i"%string, _) => false | _ => true end) (assignments (norm body)) = [(tok, p, v)] /\
      sink_place p = true /\ source_value v = true /\ tok = op_tok o /\ aop_of_op o = Some a /\
      (forall kind old e, elem_update kind tok old e = Some (lift_m kind a old e)) /\
      In (o, a) [("add"%string, OAdd); ("sub"%string, OSub); ("mul"%string, OMul); ("div"%string, ODiv)].
Proof. exact kernel_update_is_lift_m. Qed.
Print Assumptions C04_opassign_update_is_lift_m.

(* F7. meaning of F2 (general lemma Proofs/SrcArmsP.compile_model_correct instantiated): whatever mixture of plain values
       and references the operands are, compile() applies the kernel-level function of ITS operator and form to the
       contents of (sink, source[, ixes]) in this order *)
Theorem C04_opassign_compile_applies_kernel_to_sink_source :
  forall (A R : Type) (c : cfn) (o form : String.string) (k : String.string -> list (rval A) -> option R) (args : list (rval A)),
    In c oa_compile -> cf_tag c = [o; form] ->
    (forall f vs, existsb is_ref vs = true -> k f vs = None) ->
    List.length args = List.length (roles_of form) ->
    (forall v, nth_error args 2 = Some v -> is_ref v = false) ->
    exists r f, resolve_cfn c = Some r /\ callee_of o form = Some f /\ compile_model r k args = k f (map strip args).
Proof. exact oa_compile_applies_kernel_to_sink_source. Qed.
Print Assumptions C04_opassign_compile_applies_kernel_to_sink_source.

(* F8. the loop nests of the reachable kernels, INTERPRETED: for every operator the extracted macro of x[ix] op= s, x[ix] op= v and
       x[ix,:] op= s parses to a loop nest whose element accesses, in loop order and for all shapes / index vectors / sources, are
       exactly the attempt lists this model feeds to run_attempts for that statement form (None = the access panics).  A changed
       loop bound (ncols -> nrows), a dropped `- 1`, a swapped loop order or index changes the list.
       Definitions: Proofs/OpAssignKernelSemP.v *)
From MechV Require Import Proofs.OpAssignKernelSemP.
Theorem C04_opassign_kernels_make_model_accesses :
  forall (o site : string) (params : list string) (body : tm),
    (In (o, "1d_range"%string, site, params, body) oa_kernels ->
       exists n, parse_kernel body = Some n /\
         forall (r c : nat) (l : list Z) (e : sx) (vs : list sx),
           nest_attempts r c l e vs [] n = Some (with_src e (dim_attempts (r * c) (CU l)))) /\
    (In (o, "1d_range_vec"%string, site, params, body) oa_kernels ->
       exists n, parse_kernel body = Some n /\
         forall (r c : nat) (l : list Z) (e : sx) (vs : list sx),
           nest_attempts r c l e vs [] n = Some (zip_src 0 (dim_attempts (r * c) (CU l)) vs)) /\
    (In (o, "2d_vector_all"%string, site, params, body) oa_kernels ->
       exists n, parse_kernel body = Some n /\
         forall (r c : nat) (l : list Z) (e : sx) (vs : list sx),
           nest_attempts r c l e vs [] n = Some (with_src e (col_outer r (dim_attempts r (CU l)) (dim_attempts c CA)))).
Proof. exact extracted_kernels_make_model_accesses. Qed.
Print Assumptions C04_opassign_kernels_make_model_accesses.
