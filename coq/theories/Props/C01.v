(* C01 — Elementwise operators: same result for every shape, kind and broadcast form.
   Property theorems only; proofs live in Proofs/ElemwiseP.v. *)
From Coq Require Import List Arith ZArith.
From Coq Require String.
From MechV Require Import Base.Sexp Base.Obs Model.Elemwise Proofs.ElemwiseP.
Import ListNotations.

Theorem C01_bop_reject_incompatible : forall (A X : Type) (f : A -> A -> option X) (a b : operand A),
  bshape (oshape a) (oshape b) = None -> bop f a b = None.
Proof. exact (@bop_reject_incompatible). Qed.
Print Assumptions C01_bop_reject_incompatible.
