(* C01 — Elementwise operators: same result for every shape, kind and broadcast form.
   Property theorems only; proofs live in Proofs/ElemwiseP.v.

   Reading guide.  [bop f a b] is the SPECIFICATION of an elementwise operator whose scalar
   behaviour is the partial function [f] ([None] = the operator does not accept these scalars):
   broadcast shape by [bshape], then tabulation of [f] over the broadcast elements.
   [ibop dflt vk f a b] is the IMPLEMENTATION model: storage forms, the dispatch arms of
   impl_binop_match_arms! in their order with their guards, and the kernel loops.
   [sop] is the scalar model.  The judge compares the implementation with [bop] instantiated
   with the implementation's own scalar results, and those scalar results with [sop]. *)
From Coq Require Import List Arith ZArith Bool Reals.
From Coq Require Import String.
From Flocq Require Import Core IEEE754.Binary IEEE754.Bits.
From MechV Require Import Base.Sexp Base.Obs Model.Elemwise Proofs.ElemwiseP Gen.DispatchArms Proofs.DispatchArmsP.
Import ListNotations.

(* ---- broadcasting: every shape, every element list ---------------------------------- *)

(* 1. The result has the broadcast shape of the operands (and is a well-formed matrix). *)
Theorem C01_bop_shape : forall (A X : Type) (f : A -> A -> option X) (a b : operand A) (v : operand X),
  bop f a b = Some v -> bshape (oshape a) (oshape b) = Some (oshape v) /\ owf v = true.
Proof. exact (@bop_shape). Qed.
Print Assumptions C01_bop_shape.

(* 2. Each element equals the scalar operator applied to the corresponding (broadcast) scalar elements. *)
Theorem C01_bop_elem : forall (A X : Type) (f : A -> A -> option X) (a b : operand A) (v : operand X) (s : shape),
  bop f a b = Some v -> bshape (oshape a) (oshape b) = Some s ->
  forall i j, in_shape s i j ->
    exists x y r, bget a i j = Some x /\ bget b i j = Some y /\ f x y = Some r /\ oget v i j = Some r.
Proof. exact (@bop_elem). Qed.
Print Assumptions C01_bop_elem.

(* 3. If the scalar operator accepts the elements, then two matrices of one (any) shape, and a matrix
      with a scalar on either side, are accepted. *)
Theorem C01_bop_accept_uniform : forall (A X : Type) (f : A -> A -> option X) (a b : operand A),
  owf a = true -> owf b = true ->
  (forall x y, In x (odata a) -> In y (odata b) -> f x y <> None) ->
  (oshape a = oshape b \/ oshape a = Sc \/ oshape b = Sc) ->
  bop f a b <> None.
Proof. exact (@bop_accept_uniform). Qed.
Print Assumptions C01_bop_accept_uniform.

(* 4. Operands of incompatible shape are rejected. *)
Theorem C01_bop_reject_incompatible : forall (A X : Type) (f : A -> A -> option X) (a b : operand A),
  bshape (oshape a) (oshape b) = None -> bop f a b = None.
Proof. exact (@bop_reject_incompatible). Qed.
Print Assumptions C01_bop_reject_incompatible.

(* 5. ... and nothing else is: with compatible shapes an error comes from one scalar application. *)
Theorem C01_bop_none_inv : forall (A X : Type) (f : A -> A -> option X) (a b : operand A) (s : shape),
  owf a = true -> owf b = true ->
  bshape (oshape a) (oshape b) = Some s -> bop f a b = None ->
  exists i j x y, in_shape s i j /\ bget a i j = Some x /\ bget b i j = Some y /\ f x y = None.
Proof. exact (@bop_none_inv). Qed.
Print Assumptions C01_bop_none_inv.

(* ---- the dispatch of the code against the broadcast rule ------------------------------ *)

(* 6. Which shapes reach which generated arm (storage forms from (rows, cols), arm order, guards),
      and that no arm fires exactly for the incompatible shapes — but for the same-form arm,
      which tests nothing. *)
Theorem C01_dispatch_spec : forall a b : shape, pos_shape a -> pos_shape b ->
  match dispatch a b with
  | None => bshape a b = None
  | Some ASS => a = Sc /\ b = Sc
  | Some ASM => a = Sc /\ exists r c, b = Mx r c
  | Some AMS => b = Sc /\ exists r c, a = Mx r c
  | Some AVV => (exists r1 c1 r2 c2, a = Mx r1 c1 /\ b = Mx r2 c2) /\ (a = b \/ bshape a b = None)
  | Some AMV => exists R C, 2 <= R /\ 2 <= C /\ a = Mx R C /\ b = Mx R 1
  | Some AMR => exists R C, 2 <= R /\ 2 <= C /\ a = Mx R C /\ b = Mx 1 C
  | Some AVM => exists R C, 2 <= R /\ 2 <= C /\ b = Mx R C /\ a = Mx R 1
  | Some ARM => exists R C, 2 <= R /\ 2 <= C /\ b = Mx R C /\ a = Mx 1 C
  end.
Proof. exact dispatch_spec. Qed.
Print Assumptions C01_dispatch_spec.

(* 6b. The model's dispatch is its form-level table plus the numeric guards of the two wildcard arms ... *)
Theorem C01_dispatch_by_forms : forall a b : shape,
  dispatch a b = match fdispatch (form_of a) (form_of b) with
                 | Some (arm, g) => if guard_ok g a b then Some arm else None
                 | None => None
                 end.
Proof. exact dispatch_by_forms. Qed.
Print Assumptions C01_dispatch_by_forms.

(* 6c. ... and that table is what the match arms of impl_binop_match_arms! / impl_fxns! say in the CURRENT source
       (Gen/DispatchArms.v is regenerated from /repo/src/core/src/stdlib.rs on every run): for every pair of
       storage forms of the buildable configuration the first compiled-in matching arm builds the struct whose
       kernel macro is the model's arm class, under the model's shape guard (or no arm matches, in both). *)
Theorem C01_dispatch_table_matches_source : forall fa fb : form,
  src_dispatch_kernel fa fb = option_map (fun ag => (arm_kernel (fst ag), guard_text (snd ag))) (fdispatch fa fb).
Proof. exact dispatch_table_matches_source. Qed.
Print Assumptions C01_dispatch_table_matches_source.

(* 6d. Every kernel macro of every operator file was found, and the kernels of the non-commutative operators
       (- / % ^ < <= > >=, string concatenation) take the lhs element first (regenerated table). *)
Theorem C01_kernels_keep_operand_order :
  forallb (fun o => forallb (fun k =>
     existsb (fun e => let '(o', k', ord) := e in
                String.eqb o o' && String.eqb k k' && (commutative_op o || String.eqb ord "LR"%string)) kernel_order)
     kernel_names) op_names = true.
Proof. exact kernels_keep_operand_order. Qed.
Print Assumptions C01_kernels_keep_operand_order.

(* 7. C01 holds for the implementation model outside the known-finding class: arms + kernels compute
      exactly the specification, for every scalar function, kernel flavour, shape and element list. *)
Theorem C01_holds : forall (A X : Type) (dflt : X) (vk : vkern) (sc : A -> option X) (f : A -> A -> option X)
                          (a b : operand A),
  owf a = true -> owf b = true -> pos_shape (oshape a) -> pos_shape (oshape b) ->
  kf_samevec vk sc a b = false -> ibop dflt vk sc f a b = bop f a b.
Proof. exact (@ibop_eq_bop). Qed.
Print Assumptions C01_holds.

(* 8. The class consists of incompatible shapes only ... *)
Theorem C01_kf_class_incompatible : forall (A X : Type) (vk : vkern) (sc : A -> option X) (a b : operand A),
  pos_shape (oshape a) -> pos_shape (oshape b) ->
  kf_samevec vk sc a b = true -> bshape (oshape a) (oshape b) = None.
Proof. exact (@kf_samevec_incompatible). Qed.
Print Assumptions C01_kf_class_incompatible.

(* 9. ... and inside it the model (like the code: `[1 2 3 4] * [1 2 3]` = [1 4 9 0]) returns a value
      where the property demands an error. *)
Theorem C01_refuted_samevec_shape_unchecked :
  exists (a b : operand Z) (v : operand Z),
    owf a = true /\ owf b = true /\ pos_shape (oshape a) /\ pos_shape (oshape b) /\
    bshape (oshape a) (oshape b) = None /\ kf_samevec VZip (fun _ : Z => @None Z) a b = true /\
    ibop 0%Z VZip (fun _ => None) (fun x y => Some (x * y)%Z) a b = Some v.
Proof. exact refuted_samevec. Qed.
Print Assumptions C01_refuted_samevec_shape_unchecked.

(* ---- scalars --------------------------------------------------------------------------- *)

(* 10. Integers: the model is binding exactly where exact integer arithmetic has a result the kind
       represents, and then yields it (+ - * unary-, ^ for u8/u16/u32, / when the divisor divides,
       % on non-negative operands). *)
Theorem C01_sop_int_exact : forall (o : op) (sg : bool) (w a b z : Z),
  (0 < w)%Z -> in_range sg w a = true -> in_range sg w b = true ->
  is_arith o = true -> accepts o (KInt sg w) = true ->
  (sop o (KInt sg w) (Zx a) (Zx b) = SV true (Zx z) <-> zarith o a b = Some z /\ in_range sg w z = true).
Proof. exact sop_int_exact. Qed.
Print Assumptions C01_sop_int_exact.

Theorem C01_zarith_div_exact : forall a b q : Z, b <> 0%Z -> a = (b * q)%Z -> zarith Div a b = Some q.
Proof. exact zarith_div_exact. Qed.
Print Assumptions C01_zarith_div_exact.

(* 11. Integer comparisons are the order of Z. *)
Theorem C01_sop_int_cmp : forall (o : op) (sg : bool) (w a b : Z),
  in_range sg w a = true -> in_range sg w b = true -> is_cmp o = true ->
  sop o (KInt sg w) (Zx a) (Zx b) = SV true (bool_p (zcmp o a b)).
Proof. exact sop_int_cmp. Qed.
Print Assumptions C01_sop_int_cmp.

(* 12. Boolean algebra. *)
Theorem C01_sop_bool_algebra : forall a b : bool,
  sop And KBool (bool_p a) (bool_p b) = SV true (bool_p (a && b)) /\
  sop Or KBool (bool_p a) (bool_p b) = SV true (bool_p (a || b)) /\
  sop Xor KBool (bool_p a) (bool_p b) = SV true (bool_p (xorb a b)) /\
  sop Not KBool (bool_p a) (bool_p b) = SV true (bool_p (negb a)) /\
  sop Eq KBool (bool_p a) (bool_p b) = SV true (bool_p (Bool.eqb a b)) /\
  sop Ne KBool (bool_p a) (bool_p b) = SV true (bool_p (negb (Bool.eqb a b))).
Proof. exact sop_bool_algebra. Qed.
Print Assumptions C01_sop_bool_algebra.

(* 13. Rationals: a binding result is the exact value N/D of the operation in lowest terms with positive
       denominator, both parts within i64; and the model is binding whenever that reduced value fits. *)
Theorem C01_sop_rat_exact : forall (o : op) (n1 d1 n2 d2 N D : Z) (p : sx),
  (0 < d1)%Z -> (0 < d2)%Z -> qarith o n1 d1 n2 d2 = Some (N, D) ->
  sop o KR64 (Lx [Zx n1; Zx d1]) (Lx [Zx n2; Zx d2]) = SV true p ->
  D <> 0%Z /\ exists n d, p = Lx [Zx n; Zx d] /\ (0 < d)%Z /\ Z.gcd n d = 1%Z /\ (n * D = N * d)%Z /\
                         in_range true 64 n = true /\ in_range true 64 d = true.
Proof. exact sop_rat_exact. Qed.
Print Assumptions C01_sop_rat_exact.

Theorem C01_sop_rat_binding : forall (o : op) (n1 d1 n2 d2 N D : Z),
  (0 < d1)%Z -> (0 < d2)%Z -> qarith o n1 d1 n2 d2 = Some (N, D) -> D <> 0%Z ->
  in_range true 64 (fst (rnorm N D)) = true -> in_range true 64 (snd (rnorm N D)) = true ->
  exists p, sop o KR64 (Lx [Zx n1; Zx d1]) (Lx [Zx n2; Zx d2]) = SV true p.
Proof. exact sop_rat_binding. Qed.
Print Assumptions C01_sop_rat_binding.

Theorem C01_sop_rat_cmp : forall (o : op) (n1 d1 n2 d2 : Z),
  (0 < d1)%Z -> (0 < d2)%Z -> is_cmp o = true ->
  sop o KR64 (Lx [Zx n1; Zx d1]) (Lx [Zx n2; Zx d2]) = SV true (bool_p (zcmp o (n1 * d2) (n2 * d1))).
Proof. exact sop_rat_cmp. Qed.
Print Assumptions C01_sop_rat_cmp.

(* 14. Floats: + - * / are Flocq's IEEE-754 binary64 / binary32 operations (round to nearest even); for
       finite operands without overflow the result denotes the rounded exact real result. *)
Theorem C01_sop_f64_ieee : forall (o : op) (a b : Z),
  is_fop o = true -> (0 <= a < 2 ^ 64)%Z -> (0 <= b < 2 ^ 64)%Z ->
  let x := b64_of_bits a in
  let y := b64_of_bits b in
  exists r, sop o KF64 (Zx a) (Zx b) = SV true (Zx r) /\
    (is_finite 53 1024 x = true -> is_finite 53 1024 y = true ->
     (o = Div -> B2R 53 1024 y <> 0%R) ->
     Rlt_bool (Rabs (round64 (rop o (B2R 53 1024 x) (B2R 53 1024 y)))) (bpow radix2 1024) = true ->
     B2R 53 1024 (b64_of_bits r) = round64 (rop o (B2R 53 1024 x) (B2R 53 1024 y)) /\
     is_finite 53 1024 (b64_of_bits r) = true).
Proof. exact sop_f64_ieee. Qed.
Print Assumptions C01_sop_f64_ieee.

Theorem C01_sop_f32_ieee : forall (o : op) (a b : Z),
  is_fop o = true -> (0 <= a < 2 ^ 32)%Z -> (0 <= b < 2 ^ 32)%Z ->
  let x := b32_of_bits a in
  let y := b32_of_bits b in
  exists r, sop o KF32 (Zx a) (Zx b) = SV true (Zx r) /\
    (is_finite 24 128 x = true -> is_finite 24 128 y = true ->
     (o = Div -> B2R 24 128 y <> 0%R) ->
     Rlt_bool (Rabs (round32 (rop o (B2R 24 128 x) (B2R 24 128 y)))) (bpow radix2 128) = true ->
     B2R 24 128 (b32_of_bits r) = round32 (rop o (B2R 24 128 x) (B2R 24 128 y)) /\
     is_finite 24 128 (b32_of_bits r) = true).
Proof. exact sop_f32_ieee. Qed.
Print Assumptions C01_sop_f32_ieee.

Theorem C01_sop_f64_neg : forall a b : Z, (0 <= a < 2 ^ 64)%Z -> (0 <= b < 2 ^ 64)%Z ->
  exists r, sop Neg KF64 (Zx a) (Zx b) = SV true (Zx r) /\
            B2R 53 1024 (b64_of_bits r) = (- B2R 53 1024 (b64_of_bits a))%R.
Proof. exact sop_f64_neg. Qed.
Print Assumptions C01_sop_f64_neg.

(* 15. Float comparisons: the order of the denoted reals for finite operands; with a NaN only != holds. *)
Theorem C01_sop_f64_cmp : forall (o : op) (a b : Z),
  is_cmp o = true -> (0 <= a < 2 ^ 64)%Z -> (0 <= b < 2 ^ 64)%Z ->
  let x := b64_of_bits a in
  let y := b64_of_bits b in
  (is_finite 53 1024 x = true -> is_finite 53 1024 y = true ->
   sop o KF64 (Zx a) (Zx b) = SV true (bool_p (cmp_of o (Rcompare (B2R 53 1024 x) (B2R 53 1024 y))))) /\
  (is_nan 53 1024 x = true \/ is_nan 53 1024 y = true ->
   sop o KF64 (Zx a) (Zx b) = SV true (bool_p (match o with Ne => true | _ => false end))).
Proof. exact sop_f64_cmp. Qed.
Print Assumptions C01_sop_f64_cmp.

Theorem C01_sop_f32_cmp : forall (o : op) (a b : Z),
  is_cmp o = true -> (0 <= a < 2 ^ 32)%Z -> (0 <= b < 2 ^ 32)%Z ->
  let x := b32_of_bits a in
  let y := b32_of_bits b in
  (is_finite 24 128 x = true -> is_finite 24 128 y = true ->
   sop o KF32 (Zx a) (Zx b) = SV true (bool_p (cmp_of o (Rcompare (B2R 24 128 x) (B2R 24 128 y))))) /\
  (is_nan 24 128 x = true \/ is_nan 24 128 y = true ->
   sop o KF32 (Zx a) (Zx b) = SV true (bool_p (match o with Ne => true | _ => false end))).
Proof. exact sop_f32_cmp. Qed.
Print Assumptions C01_sop_f32_cmp.

(* ---- the judge ---------------------------------------------------------------------------- *)

(* 16. An `ok` of the judge means: every scalar evaluation the property fixes agrees with the scalar
       model, and `A op B` is an error iff the shapes are incompatible or one of its scalar evaluations
       is no value, and otherwise is bop over the implementation's own scalar results (hence, by 1-2,
       has the broadcast shape and the right element everywhere). *)
Theorem C01_judge_sound : forall (o : op) (k : kind) (kn : String.string) (a b : operand sx) (t : otable)
                                 (r : obs) (tag : String.string),
  judge_core o k kn a b t r = v_ok tag -> C01_spec o k kn a b t r.
Proof. exact judge_core_sound. Qed.
Print Assumptions C01_judge_sound.

(* ---- examples (non-vacuity) --------------------------------------------------------------- *)

(* a 2x3 i16 matrix subtracted from a scalar on the left: 10 - [1 2 3; 4 5 6] *)
Example C01_example_scalar_lhs :
  bop (sopf Sub (KInt true 16)) (OS (Zx 10)) (OM (Mat 2 3 [Zx 1; Zx 4; Zx 2; Zx 5; Zx 3; Zx 6]))
  = Some (OM (Mat 2 3 [Zx 9; Zx 6; Zx 8; Zx 5; Zx 7; Zx 4])).
Proof. vm_compute. reflexivity. Qed.
Print Assumptions C01_example_scalar_lhs.

(* a 3x1 column broadcast against a 3x4 matrix, non-commutative operator, through spec and implementation model *)
Example C01_example_col_broadcast :
  let a := OM (Mat 3 1 [Zx 100; Zx 200; Zx 300]) in
  let b := OM (Mat 3 4 [Zx 1; Zx 2; Zx 3; Zx 4; Zx 5; Zx 6; Zx 7; Zx 8; Zx 9; Zx 10; Zx 11; Zx 12]) in
  bshape (oshape a) (oshape b) = Some (Mx 3 4) /\ dispatch (oshape a) (oshape b) = Some AVM /\
  bop (sopf Sub (KInt true 32)) a b
  = Some (OM (Mat 3 4 [Zx 99; Zx 198; Zx 297; Zx 96; Zx 195; Zx 294; Zx 93; Zx 192; Zx 291; Zx 90; Zx 189; Zx 288])) /\
  ibop (Zx 0) VStrict (sc_of Sub) (sopf Sub (KInt true 32)) a b = bop (sopf Sub (KInt true 32)) a b.
Proof. vm_compute. repeat split; reflexivity. Qed.
Print Assumptions C01_example_col_broadcast.

(* an overflow lands in the advisory region; a row against a column is incompatible *)
Example C01_example_overflow_and_incompatible :
  sop Add (KInt false 8) (Zx 200) (Zx 100) = SAdv /\
  sop Add (KInt false 8) (Zx 200) (Zx 55) = SV true (Zx 255) /\
  bshape (Mx 1 3) (Mx 3 1) = None /\ dispatch (Mx 1 3) (Mx 3 1) = None /\
  bshape (Mx 1 1) (Mx 2 2) = None /\ dispatch (Mx 1 1) (Mx 2 2) = Some AVV.
Proof. vm_compute. repeat split; reflexivity. Qed.
Print Assumptions C01_example_overflow_and_incompatible.

(* 0.1 + 0.2 on f64 is 0.30000000000000004 (bit patterns), NaN != NaN *)
Example C01_example_float :
  sop Add KF64 (Zx 4591870180066957722) (Zx 4596373779694328218) = SV true (Zx 4599075939470750516) /\
  sop Eq KF64 (Zx 9221120237041090560) (Zx 9221120237041090560) = SV true (Zx 0) /\
  sop Ne KF64 (Zx 9221120237041090560) (Zx 9221120237041090560) = SV true (Zx 1).
Proof. vm_compute. repeat split; reflexivity. Qed.
Print Assumptions C01_example_float.

(* the judge on two observed lines: a correct broadcast, and the known wrong value of the finding *)
Local Open Scope string_scope.
Example C01_example_judge :
  run_line "((ew sub i16 s (2 3) ((0 0) (0 1) (0 2) (0 3) (0 4) (0 5))) (multi (tuple (s i16 10) (m i16 2 3 (1 4 2 5 3 6))) (m i16 2 3 (9 6 8 5 7 4)) (s i16 9) (s i16 6) (s i16 8) (s i16 5) (s i16 7) (s i16 4)))"
  = "(ok value)" /\
  run_line "((ew mul u8 (1 4) (1 3) ((0 0) (1 1) (2 2))) (multi (tuple (m u8 1 4 (1 2 3 4)) (m u8 1 3 (1 2 3))) (m u8 1 4 (1 4 9 0)) (s u8 1) (s u8 4) (s u8 9)))"
  = "(kf samevec-shape-unchecked)" /\
  run_line "((ew mul u8 (1 4) (1 3) ((0 0) (1 1) (2 2))) (multi (tuple (m u8 1 4 (1 2 3 4)) (m u8 1 3 (1 2 3))) (m u8 1 4 (1 4 9 7)) (s u8 1) (s u8 4) (s u8 9)))"
  = "(bad incompatible-shapes-accepted err)" /\
  (* `||` on a 1x3 and a 1x2: rhs[2] is never read because lhs[2] is true (short-circuit) — still the known class *)
  run_line "((ew or bool (1 3) (1 2) ((0 0) (1 1))) (multi (tuple (m bool 1 3 (0 0 1)) (m bool 1 2 (1 0))) (m bool 1 3 (1 0 1)) (s bool 1) (s bool 0)))"
  = "(kf samevec-shape-unchecked)" /\
  (* the harness lost the process: never silently accepted *)
  run_line "((ew add u8 s s ((0 0))) (abort -9))" = "(bad no-observation (abort -9))".
Proof. vm_compute. repeat split; reflexivity. Qed.
Print Assumptions C01_example_judge.

(* ---- the allocations of the result buffers as they are in the source (regenerated table) ---------------------------
   Gen/AllocArms.v is rewritten by translators/alloc_arms.py on every run of this check from every source file that calls
   DMatrix::from_element(rows, cols, fill) — among them the result buffers of the elementwise operators (impl_binop_match_arms!, impl_urnop_match_arms! in src/core/src/stdlib.rs).
   Each of the ~90 arms computes the two extents from its operands; the statements below say that no arm allocates its result
   transposed (first extent measuring the column axis or second the row axis), for EVERY arm, whether or not a generated case
   reaches it with a non-square shape.  Definitions and the classifier of extents: Proofs/AllocArmsP.v. *)
From MechV Require Import Model.SrcArms Gen.AllocArms Proofs.AllocArmsP.

Theorem C01_alloc_source_fully_read : al_unrecognised = [].
Proof. exact al_nothing_unrecognised. Qed.
Print Assumptions C01_alloc_source_fully_read.

(* every allocation site is classified and regular; the table is not empty (at least 80 sites) *)
Theorem C01_allocations_regular : forallb alloc_ok al_sites = true /\ Nat.leb 80 (List.length al_sites) = true.
Proof. exact al_allocations_regular. Qed.
Print Assumptions C01_allocations_regular.

(* for every site: the rows extent does not measure the column axis, the cols extent does not measure the row axis, and both
   extents are of a shape the classifier knows *)
Theorem C01_no_transposed_allocation :
  forall a : alloc_site, In a al_sites ->
    rows_axis a <> Ax1 /\ cols_axis a <> Ax0 /\ rows_axis a <> AxUnknown /\ cols_axis a <> AxUnknown.
Proof. exact al_no_transposed_allocation. Qed.
Print Assumptions C01_no_transposed_allocation.
