(* C19 — Re-evaluation is deterministic, and a no-op for programs without assignments. *)
From Coq Require Import List Arith String.
From MechV Require Import Model.Plan Proofs.PlanP.
Import ListNotations.
Open Scope string_scope.

(* n single steps equal one request for n steps (requests compose), for any plan and any store. *)
Theorem C19_steps_compose : forall (V : Type) (m n : nat) (p : list (@pstep V)) (s : @store V),
  steps (m + n) p s = steps n p (steps m p s).
Proof. exact (@steps_compose). Qed.
Print Assumptions C19_steps_compose.

Theorem C19_steps_singles : forall (V : Type) (n : nat) (p : list (@pstep V)) (s : @store V),
  steps (S n) p s = steps 1 p (steps n p s).
Proof. exact (@steps_singles). Qed.
Print Assumptions C19_steps_singles.

(* For a plan in which every cell is written by at most one step and every step reads only cells
   written earlier or never written, re-running the plan any number of times after the first
   evaluation leaves every cell exactly as the first evaluation left it. *)
Theorem C19_steps_noop : forall (V : Type) (p : list (@pstep V)) (s0 : @store V),
  plan_pure p -> forall n c, steps n p (resolve p s0) c = resolve p s0 c.
Proof. exact (@steps_noop). Qed.
Print Assumptions C19_steps_noop.

(* The boolean check the judge runs on the dataflow read back from the real plan implies plan_pure. *)
Theorem C19_plan_pureb_sound : forall (V : Type) (fn : rstep -> list V -> V) (p : list rstep),
  plan_pureb p = true -> plan_pure (abstract fn p).
Proof. exact (@plan_pureb_sound). Qed.
Print Assumptions C19_plan_pureb_sound.

(* non-vacuity: x := 1 + 2 ; z := x * x  (cells 0,1 constants; 2 := 0+1; 3 := 2*2) is pure; an accumulating step is not *)
Example C19_example_pure :
  plan_pureb [ {| r_name := "AddSS"; r_structured := true; r_outs := [2]; r_ins := [0;1] |};
               {| r_name := "VariableDefineF64"; r_structured := true; r_outs := []; r_ins := [5;6;2] |};
               {| r_name := "MulSS"; r_structured := true; r_outs := [3]; r_ins := [2;2] |} ] = true
  /\ plan_pureb [ {| r_name := "AddAssignVS"; r_structured := true; r_outs := []; r_ins := [7;8] |} ] = false.
Proof. split; reflexivity. Qed.
Print Assumptions C19_example_pure.
