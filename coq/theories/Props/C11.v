(* C11 — Matrix construction by concatenation places every block where it is written.
   Property theorems only; proofs live in Proofs/CatP.v. *)
From Coq Require Import List Arith.
From Coq Require String.
From MechV Require Import Base.Sexp Base.Obs Model.Cat Proofs.CatP.
Import ListNotations.

(* 1. Placement: element (i,j) of block q of block row p sits at the block's
      prefix-sum offset in the result (any element type, any block sizes). *)
Theorem C11_literal_get : forall (A : Type) (rows : list (list (mat A))) (m : mat A),
  blocks_wf rows -> literal rows = Some m ->
  forall p q row b i j, nth_error rows p = Some row -> nth_error row q = Some b ->
    i < mrows b -> j < mcols b ->
    mget m (row_off rows p + i) (col_off row q + j) = mget b i j.
Proof. exact (@literal_get). Qed.
Print Assumptions C11_literal_get.

(* 2. Shape of the result. *)
Theorem C11_literal_shape : forall (A : Type) (rows : list (list (mat A))) (m : mat A),
  blocks_wf rows -> literal rows = Some m ->
  mrows m = sum_by row_height rows /\ mcols m = row_width (hd [] rows) /\ wf_mat m.
Proof. exact (@literal_shape). Qed.
Print Assumptions C11_literal_shape.

(* 3. Nothing else is in the result: every position belongs to a block. *)
Theorem C11_literal_covered : forall (A : Type) (rows : list (list (mat A))) (m : mat A),
  blocks_wf rows -> literal rows = Some m ->
  forall i j, i < mrows m -> j < mcols m ->
    exists p q row b i' j', nth_error rows p = Some row /\ nth_error row q = Some b /\
      i' < mrows b /\ j' < mcols b /\ i = row_off rows p + i' /\ j = col_off row q + j'.
Proof. exact (@literal_covered). Qed.
Print Assumptions C11_literal_covered.

(* 4. Defined exactly for tilings whose heights agree within a row and whose row widths agree. *)
Theorem C11_literal_defined_iff : forall (A : Type) (rows : list (list (mat A))),
  blocks_wf rows -> (literal rows <> None <-> tiling_okb rows = true).
Proof. exact (@literal_defined_iff). Qed.
Print Assumptions C11_literal_defined_iff.

(* 5. The judge applied to the implementation's observation is sound for the property. *)
Theorem C11_judge_sound : forall (rs : list (list (String.string * mat sx))) (o : obs) (tag : String.string),
  blocks_wf (blocks rs) -> judge_rows rs o = v_ok tag -> C11_spec rs o.
Proof. exact judge_rows_sound. Qed.
Print Assumptions C11_judge_sound.

(* non-vacuity: a concrete 2x2-next-to-2x1 over 1x3 tiling is well-formed, defined and placed *)
Example C11_example :
  let a := Mat 2 2 [1; 3; 2; 4] in let b := Mat 2 1 [5; 6] in let c := Mat 1 3 [7; 8; 9] in
  blocks_wf [[a; b]; [c]] /\ tiling_okb [[a; b]; [c]] = true /\
  literal [[a; b]; [c]] = Some (Mat 3 3 [1; 3; 7; 2; 4; 8; 5; 6; 9]).
Proof.
  cbv zeta. split; [|split; reflexivity].
  repeat constructor.
Qed.
Print Assumptions C11_example.

(* ---- the offset bookkeeping of the concatenation kernels as it is in the source (regenerated table) -----------------
   Gen/CatArms.v is rewritten from src/interpreter/src/stdlib/{horzcat,vertcat}.rs and src/core/src/structures/matrix.rs
   (copy_mat!) by translators/cat_arms.py on every run of this check; the statements below are about THAT table, so a slip in
   the offset chain of ONE of the hand-written N-block kernels or in one arm of the dispatch breaks them whether or not a
   generated case has that number / kind of blocks.  Definitions: Proofs/CatArmsP.v. *)
From MechV Require Import Model.SrcArms Gen.CatArms Proofs.CatArmsP.
Import String.

Theorem C11_cat_source_fully_read : ca_unrecognised = [].
Proof. exact ca_nothing_unrecognised. Qed.
Print Assumptions C11_cat_source_fully_read.

(* every block-copying solve() places its blocks e0, e1, .. in order, block k at the sum of what the copies of blocks 0..k-1
   returned, with a horizontal (copy_into, copy_into_r) resp. vertical (copy_into_row_major, copy_into_v) copy method; the
   dynamic-vector arms of the dispatch advance by 1 per scalar and by the block's COLUMNS (horizontal) / ROWS (vertical);
   the four CopyMat methods are the reference ones (linear copies return the element count, the row-major copy the row count) *)
Theorem C11_cat_kernels_regular :
  (forallb chain_ok ca_solves = true /\ solves_complete = true) /\
  (forallb advance_ok ca_advances = true /\ advances_complete = true) /\
  (forallb copy_ok ca_copy_methods = true /\
   map (fun e : copy_entry => let '(m, _, _, _) := e in m) ca_copy_methods
   = ["copy_into"; "copy_into_v"; "copy_into_r"; "copy_into_row_major"]%string).
Proof. exact ca_regular. Qed.
Print Assumptions C11_cat_kernels_regular.

(* meaning of the chain check, for ANY list of copies that passes it and ANY return values: block j is copied at
   ret(0) + .. + ret(j-1) *)
Theorem C11_cat_chain_offsets_are_prefix_sums :
  forall (direction m0 : String.string) (cps : list cp), list_eqb (cp_ok direction m0) cps (seq 0 (List.length cps)) = true ->
    forall (ret : nat -> nat) (j : nat) (c : cp), nth_error cps j = Some c ->
      let '(Cp b m off) := c in b = j /\ m = m0 /\ offset_value ret off = prefix_sum ret j.
Proof. exact chain_offsets_are_prefix_sums. Qed.
Print Assumptions C11_cat_chain_offsets_are_prefix_sums.
