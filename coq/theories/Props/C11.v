(* C11 — Matrix construction by concatenation places every block where it is written.
   Property theorems only; proofs live in Proofs/CatP.v. *)
From Coq Require Import List Arith.
From Coq Require String.
From MechV Require Import Base.Sexp Base.Obs Model.Cat Proofs.CatP.
Import ListNotations.

(* 1. Placement: element (i,j) of block q of block row p sits at the block's
      prefix-sum offset in the result (any element type, any block sizes). *)
Theorem C11_literal_get : forall (A : Type) (rows : list (list (mat A))) (m : mat A),
  blocks_wf rows -> literal rows = Some m ->
  forall p q row b i j, nth_error rows p = Some row -> nth_error row q = Some b ->
    i < mrows b -> j < mcols b ->
    mget m (row_off rows p + i) (col_off row q + j) = mget b i j.
Proof. exact (@literal_get). Qed.
Print Assumptions C11_literal_get.

(* 2. Shape of the result. *)
Theorem C11_literal_shape : forall (A : Type) (rows : list (list (mat A))) (m : mat A),
  blocks_wf rows -> literal rows = Some m ->
  mrows m = sum_by row_height rows /\ mcols m = row_width (hd [] rows) /\ wf_mat m.
Proof. exact (@literal_shape). Qed.
Print Assumptions C11_literal_shape.

(* 3. Nothing else is in the result: every position belongs to a block. *)
Theorem C11_literal_covered : forall (A : Type) (rows : list (list (mat A))) (m : mat A),
  blocks_wf rows -> literal rows = Some m ->
  forall i j, i < mrows m -> j < mcols m ->
    exists p q row b i' j', nth_error rows p = Some row /\ nth_error row q = Some b /\
      i' < mrows b /\ j' < mcols b /\ i = row_off rows p + i' /\ j = col_off row q + j'.
Proof. exact (@literal_covered). Qed.
Print Assumptions C11_literal_covered.

(* 4. Defined exactly for tilings whose heights agree within a row and whose row widths agree. *)
Theorem C11_literal_defined_iff : forall (A : Type) (rows : list (list (mat A))),
  blocks_wf rows -> (literal rows <> None <-> tiling_okb rows = true).
Proof. exact (@literal_defined_iff). Qed.
Print Assumptions C11_literal_defined_iff.

(* 5. The judge applied to the implementation's observation is sound for the property. *)
Theorem C11_judge_sound : forall (rs : list (list (String.string * mat sx))) (o : obs) (tag : String.string),
  blocks_wf (blocks rs) -> judge_rows rs o = v_ok tag -> C11_spec rs o.
Proof. exact judge_rows_sound. Qed.
Print Assumptions C11_judge_sound.

(* non-vacuity: a concrete 2x2-next-to-2x1 over 1x3 tiling is well-formed, defined and placed *)
Example C11_example :
  let a := Mat 2 2 [1; 3; 2; 4] in let b := Mat 2 1 [5; 6] in let c := Mat 1 3 [7; 8; 9] in
  blocks_wf [[a; b]; [c]] /\ tiling_okb [[a; b]; [c]] = true /\
  literal [[a; b]; [c]] = Some (Mat 3 3 [1; 3; 7; 2; 4; 8; 5; 6; 9]).
Proof.
  cbv zeta. split; [|split; reflexivity].
  repeat constructor.
Qed.
Print Assumptions C11_example.
