(* C15 — Ranges are the arithmetic progressions they denote.
   Property theorems only; proofs live in Proofs/RangeP.v, definitions in Model/Range.v.

   [range_spec incl a s b]  is the specification over unbounded Z (incl = `..=`; s = 1 when the step is omitted);
   rationals (r64) and the exact dyadic values of f32/f64 bit patterns are scaled to that integer grid by the
   common denominator (theorem 12).  [impl_int]/[impl_case] model what machines/range does in the dev profile and
   are used only to recognise the known findings (theorems 15-21). *)
From Coq Require Import String.
From Coq Require Import List ZArith QArith.
From MechV Require Import Base.Sexp Base.Obs Model.Range Proofs.RangeP.
Import ListNotations.
Open Scope string_scope.
Open Scope Z_scope.

(* 1. The specified value is the list a, a+s, a+2s, ... of n terms, n = zcount (closed form). *)
Theorem C15_spec_is_progression : forall incl a s b,
  range_spec incl a s b = map (fun i : nat => a + Z.of_nat i * s) (seq 0 (Z.to_nat (zcount incl a s b))).
Proof. exact range_spec_is_map. Qed.
Print Assumptions C15_spec_is_progression.

(* 2. The closed form equals the recursive reading "start at a, add s while the current term is before / up to b"
      (all integers, any step sign, no bound on the length). *)
Theorem C15_walk_eq : forall incl a s b, range_walk incl a s b = range_spec incl a s b.
Proof. exact range_walk_eq. Qed.
Print Assumptions C15_walk_eq.

(* 3. Soundness: every element is a term a + i*s lying before b (exclusive) / up to b (inclusive), in the
      direction of the step. *)
Theorem C15_sound : forall incl a s b t, In t (range_spec incl a s b) ->
  exists i : nat, t = a + Z.of_nat i * s /\ Before incl s t b.
Proof. exact range_sound. Qed.
Print Assumptions C15_sound.

(* 4. Completeness: every term before / up to b is in the list. *)
Theorem C15_complete : forall incl a s b (i : nat),
  Before incl s (a + Z.of_nat i * s) b -> In (a + Z.of_nat i * s) (range_spec incl a s b).
Proof. exact range_complete. Qed.
Print Assumptions C15_complete.

(* 5. No other element, in order: position i holds exactly a + i*s, and the length is the count. *)
Theorem C15_nth : forall incl a s b (i : nat), (i < Z.to_nat (zcount incl a s b))%nat ->
  nth_error (range_spec incl a s b) i = Some (a + Z.of_nat i * s).
Proof. exact range_spec_nth. Qed.
Print Assumptions C15_nth.

Theorem C15_length : forall incl a s b,
  List.length (range_spec incl a s b) = Z.to_nat (zcount incl a s b).
Proof. exact range_spec_length. Qed.
Print Assumptions C15_length.

(* 6. The count is the number of indices whose term is before / up to b; the next term is not. *)
Theorem C15_count : forall incl a s b i, s <> 0 -> 0 <= i ->
  (i < zcount incl a s b <-> Before incl s (a + i * s) b).
Proof. exact zcount_spec. Qed.
Print Assumptions C15_count.

Theorem C15_maximal : forall incl a s b, ~ Before incl s (a + zcount incl a s b * s) b.
Proof. exact range_maximal. Qed.
Print Assumptions C15_maximal.

(* 7. Kind preservation: with both bounds inside the kind's range [lo,hi], so is every element. *)
Theorem C15_in_kind : forall lo hi incl a s b t,
  lo <= a <= hi -> lo <= b <= hi -> In t (range_spec incl a s b) -> lo <= t <= hi.
Proof. exact range_in_kind. Qed.
Print Assumptions C15_in_kind.

(* 8. Ranges that cannot be built (zero step, bounds in the wrong order for the step) have no terms;
      a..a is empty, a..=a is [a]. *)
Theorem C15_bad_ranges_empty : forall incl a s b,
  s = 0 \/ (0 < s /\ b < a) \/ (s < 0 /\ a < b) -> range_spec incl a s b = [].
Proof. exact range_bad. Qed.
Print Assumptions C15_bad_ranges_empty.

Theorem C15_excl_equal_bounds : forall a s, range_spec false a s a = [].
Proof. exact range_excl_equal_bounds. Qed.
Print Assumptions C15_excl_equal_bounds.

Theorem C15_incl_equal_bounds : forall a s, s <> 0 -> range_spec true a s a = [a].
Proof. exact range_incl_equal_bounds. Qed.
Print Assumptions C15_incl_equal_bounds.

(* 12. Rational / float cases: the i-th expected element (A + i*S)/D is a + i*s, B/D is b, S/D is s, and the
       order on the grid is the order of the rationals — so theorems 1-8 read verbatim for r64 and for the exact
       values of float operands. *)
Theorem C15_scaled_grid : forall (c : rcase) (i : nat),
  (Qmake (zterm (scA c) (scS c) i) (scD c) == ra c + inject_Z (Z.of_nat i) * step_of c)%Q /\
  (Qmake (scB c) (scD c) == rb c)%Q /\ (Qmake (scS c) (scD c) == step_of c)%Q.
Proof. exact (fun c i => conj (scaled_term c i) (conj (scaled_bound c) (scaled_step c))). Qed.
Print Assumptions C15_scaled_grid.

Theorem C15_scaled_order : forall (x y : Z) (d : positive),
  ((Qmake x d < Qmake y d)%Q <-> x < y) /\ ((Qmake x d <= Qmake y d)%Q <-> x <= y).
Proof. exact scaled_order. Qed.
Print Assumptions C15_scaled_order.

Theorem C15_spec_terms_nth : forall (c : rcase) (i : nat), (i < Z.to_nat (spec_count c))%nat ->
  nth_error (spec_terms c) i = Some (Qmake (zterm (scA c) (scS c) i) (scD c)).
Proof. exact spec_terms_nth. Qed.
Print Assumptions C15_spec_terms_nth.

(* 14. The judge applied to the implementation's observation is sound: `ok` means the observation is the
       1 x n row vector of the operands' kind whose elements denote exactly the specified terms (n >= 1), or,
       when there is no term, an error or an empty vector. *)
Theorem C15_judge_sound : forall (c : rcase) (o : obs) (tag : String.string),
  judge_case c o = v_ok tag -> C15_spec c o.
Proof. exact judge_case_sound. Qed.
Print Assumptions C15_judge_sound.

(* 15. C15_holds: for every integer kind, outside the known-finding classes the modelled implementation
       (typed subtraction with overflow check, f64 size, fill loop with the trailing add) returns exactly the
       specified progression, and an error when there is no term. *)
Theorem C15_holds : forall lo hi incl stepf a s b,
  lo <= 0 -> lo <= a <= hi -> lo <= b <= hi -> (stepf = false -> s = 1) ->
  zcount incl a s b < 2 ^ 64 ->
  kf_desc_int a s b = false ->
  kf_diffov_int hi incl stepf a s b = false ->
  kf_fpsize_int hi incl stepf a s b = false ->
  kf_trail_int lo hi incl stepf a s b = false ->
  impl_int lo hi incl stepf a s b =
    if 0 <? zcount incl a s b then Some (range_spec incl a s b) else None.
Proof. exact impl_int_holds. Qed.
Print Assumptions C15_holds.

Theorem C15_holds_case : forall c lo hi, int_case c lo hi -> kf_class c = None -> impl_meets_specb c = true.
Proof. exact holds_int. Qed.
Print Assumptions C15_holds_case.

(* 16-21. Inside each known-finding class there is a binding case with a non-empty specified progression on
          which the modelled behaviour (which the judge only accepts as `kf` when it equals the observation)
          is not that progression. *)
Theorem C15_refuted_trailing_add : refuted "trailing-add".
Proof. exact refuted_trailing_add. Qed.
Print Assumptions C15_refuted_trailing_add.

Theorem C15_refuted_diff_overflow : refuted "diff-overflow".
Proof. exact refuted_diff_overflow. Qed.
Print Assumptions C15_refuted_diff_overflow.

Theorem C15_refuted_descending : refuted "descending".
Proof. exact refuted_descending. Qed.
Print Assumptions C15_refuted_descending.

Theorem C15_refuted_fp_size : refuted "fp-size".
Proof. exact refuted_fp_size. Qed.
Print Assumptions C15_refuted_fp_size.

Theorem C15_refuted_excl_float_trunc : refuted "excl-float-trunc".
Proof. exact refuted_excl_float_trunc. Qed.
Print Assumptions C15_refuted_excl_float_trunc.

Theorem C15_refuted_r64_unsupported : refuted "r64-unsupported".
Proof. exact refuted_r64_unsupported. Qed.
Print Assumptions C15_refuted_r64_unsupported.

(* ---- non-vacuity ---- *)
Example C15_example_values :
  range_spec false 1 1 5 = [1; 2; 3; 4] /\ range_spec true 1 1 5 = [1; 2; 3; 4; 5] /\
  range_spec false 1 2 10 = [1; 3; 5; 7; 9] /\ range_spec true 1 2 9 = [1; 3; 5; 7; 9] /\
  range_spec true 1 2 10 = [1; 3; 5; 7; 9] /\
  range_spec true 10 (-3) 0 = [10; 7; 4; 1] /\ range_spec false 10 (-5) 0 = [10; 5] /\
  range_spec true 250 1 255 = [250; 251; 252; 253; 254; 255] /\
  range_spec true 5 0 9 = [] /\ range_spec true 5 1 3 = [] /\ range_spec false 3 (-1) 7 = [] /\
  range_walk true 10 (-3) 0 = [10; 7; 4; 1].
Proof. vm_compute. repeat split. Qed.
Print Assumptions C15_example_values.

(* the judge answers ok on a correct observation, kf on the modelled defect, bad on a wrong vector *)
Example C15_example_judge :
  let c := RCase "u8" (KInt 0 255) FIn (inject_Z 250) (inject_Z 1) (inject_Z 255) in
  judge_case c (OVal (KM "u8" (Mat 1 6 [Zx 250; Zx 251; Zx 252; Zx 253; Zx 254; Zx 255]))) = v_ok "progression" /\
  judge_case c OErr = v_kf "trailing-add" /\
  (exists e, judge_case c (OVal (KM "u8" (Mat 1 5 [Zx 250; Zx 251; Zx 252; Zx 253; Zx 254]))) = v_bad "not-the-progression" e) /\
  (exists e, judge_case c (OVal (KM "u16" (Mat 1 6 [Zx 250; Zx 251; Zx 252; Zx 253; Zx 254; Zx 255]))) = v_bad "not-the-progression" e) /\
  (exists e, judge_case c (OVal (KM "u8" (Mat 6 1 [Zx 250; Zx 251; Zx 252; Zx 253; Zx 254; Zx 255]))) = v_bad "not-the-progression" e).
Proof. vm_compute. repeat split; eexists; reflexivity. Qed.
Print Assumptions C15_example_judge.

(* a float case: 0..0.25..=1 as f64 bit patterns is binding and judged on exact values *)
Example C15_example_float :
  let c := RCase "f64" (KFlt 52 11) FInS 0%Q (Qmake 1 4) 1%Q in
  binding c = true /\
  judge_case c (OVal (KM "f64" (Mat 1 5 [Zx 0; Zx 4598175219545276416; Zx 4602678819172646912;
                                          Zx 4604930618986332160; Zx 4607182418800017408]))) = v_ok "progression".
Proof. vm_compute. split; reflexivity. Qed.
Print Assumptions C15_example_float.

Example C15_example_holds_hypotheses :
  exists c, int_case c (- 2 ^ 7) (2 ^ 7 - 1) /\ kf_class c = None /\ spec_terms c <> [].
Proof.
  exists (RCase "i8" (KInt (- 2 ^ 7) (2 ^ 7 - 1)) FInS (inject_Z (-5)) (inject_Z 3) (inject_Z 100)).
  unfold int_case. vm_compute. repeat split; discriminate.
Qed.
Print Assumptions C15_example_holds_hypotheses.

(* ---- the range kernels as they are in the source (regenerated table) -------------------------------------------
   Gen/RangeArms.v is rewritten from machines/range/src/{exclusive,inclusive,exclusive_increment,inclusive_increment}.rs
   and lib.rs by translators/range_arms.py on every run of this check; the statements below are about THAT table, so a
   slip in one of the near-identical operand-form arms, count expressions, struct initialisers or fill loops of ONE
   form breaks them whether or not a generated case reaches it.  Definitions: Proofs/RangeArmsP.v, Proofs/SrcArmsP.v. *)
From MechV Require Import Model.SrcArms Proofs.SrcArmsP Gen.RangeArms Proofs.RangeArmsP.

(* the translator recognised every construct it was pointed at *)
Theorem C15_range_source_fully_read : rg_unrecognised = [].
Proof. exact rg_nothing_unrecognised. Qed.
Print Assumptions C15_range_source_fully_read.

(* every compile() binds arg1.. = arguments[0].., calls the kernel-level function of its own form with the operands in order,
   directly and in each of its 2^n - 1 operand-form arms, unwrapping every reference *)
Theorem C15_range_compile_arms_regular : forallb rg_compile_ok rg_compile = true /\ rg_compile_complete = true.
Proof. exact rg_compile_regular. Qed.
Print Assumptions C15_range_compile_arms_regular.

(* meaning: whatever mixture of plain values and references (from, step, to) are, the kernel-level function of the form
   receives their contents in this order *)
Theorem C15_range_compile_applies_kernel_in_order :
  forall (A R : Type) (c : cfn) (form : String.string) (k : String.string -> list (rval A) -> option R) (args : list (rval A)),
    In c rg_compile -> cf_tag c = [form] ->
    (forall f vs, existsb is_ref vs = true -> k f vs = None) ->
    List.length args = nargs_of form ->
    exists r f, resolve_cfn c = Some r /\ rcallee_of form = Some f /\ compile_model r k args = k f (map strip args).
Proof. exact rg_compile_applies_kernel_in_order. Qed.
Print Assumptions C15_range_compile_applies_kernel_in_order.

(* kernel-level functions, arm macros (matched tuple, component names, the statements computing the element count = the
   reference ones of the form, the arms of `match size` with from <- from, step <- step, to <- to), kernel structs (field
   order, new(), the fill loop, operand order of the emitted instruction), range_size_to_usize! *)
Theorem C15_range_tables_regular :
  (forallb rcallee_ok rg_callees = true /\ map (fun e : rcallee_entry => let '(f, _, _, _, _, _, _) := e in f) rg_callees = rg_forms) /\
  (forallb macro_ok rg_macros = true /\ map (fun e : macro_entry => let '(f, _, _, _, _, _, _, _) := e in f) rg_macros = rg_forms) /\
  (forallb size_arm_ok rg_size_arms = true /\ size_arms_complete = true) /\
  (forallb RangeArmsP.kernel_ok rg_kernels = true /\ map (fun e : RangeArmsP.kernel_entry => let '(f, _, _, _, _, _) := e in f) rg_kernels = rg_forms) /\
  (forallb size_macro_ok rg_size_macro = true /\
   map (fun e : String.string * String.string * tm => snd (fst e)) rg_size_macro
   = ["$diff:expr,f32"; "$diff:expr,f64"; "$diff:expr,$ty:ty"]%string).
Proof. exact rg_tables_regular. Qed.
Print Assumptions C15_range_tables_regular.

(* composition of the tables: arguments[0] lands in field `from`, the last argument in `to`, arguments[1] of the increment
   forms in `step` *)
Theorem C15_range_operands_reach_their_fields : chain_ok = true.
Proof. exact rg_chain_positions. Qed.
Print Assumptions C15_range_operands_reach_their_fields.

(* the element-count expression of the increment forms, EVALUATED as a term with f64 arithmetic = rounding to 53 bits, is
   the count function [fp_size] of the implementation model (for integer kinds: [int_fp_size], see the corollary in
   Proofs/RangeArmsP.v), which theorems 5/6 above relate to the specification *)
Theorem C15_increment_count_is_fp_size :
  forall e : macro_entry, In e rg_macros ->
    let '(form, _, _, _, _, _, prelude, _) := e in
    is_step form = true ->
    exists t, size_block prelude = Some t /\
              forall (to64 : Q -> Q) (a s b : Q),
                eval_size to64 t a s b = fp_size (is_incl form) (rnd 53 (to64 b - to64 a)) (to64 s).
Proof. exact increment_count_is_fp_size. Qed.
Print Assumptions C15_increment_count_is_fp_size.
