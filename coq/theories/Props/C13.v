(* C13 — Numeric literals denote the number they spell.
   Property theorems only; proofs live in Proofs/LiteralP.v, definitions in Model/Literal.v.

   Reading guide.  A finite float of a format f is  (-1)^s * M * 2^(e - fscale f)  with (M, e) canonical
   ([canon]: 0 <= M < 2^prec, 0 <= e <= emax, M >= 2^(prec-1) unless e = 0; e = 0 holds the subnormals and
   the lowest normal binade); [fin_Q f s M e] is that number as a rational.  [is_nearest f v q] is the
   executable checker the judge applies to the bit pattern the implementation returned; [rounds_to f v q]
   is the mathematical statement "v is a correctly rounded image of q". *)
From Coq Require Import Reals Qreals.
From Flocq Require Import Core.Zaux Core.Raux Core.Defs Core.Generic_fmt Core.FLT Core.Round_NE.
From Coq Require Import List ZArith QArith Qabs String.
From MechV Require Import Base.Sexp Base.Obs Model.Literal Proofs.LiteralP Proofs.LiteralRoundP Proofs.LiteralFlocqP Proofs.LiteralFlocqInfP.
Import ListNotations.
Local Open Scope Z_scope.

(* ---------------------------------------------------------------- the checker *)

(* 1. Soundness of the checker, all finite floats of the format (subnormals and power-of-two boundaries
      included) and infinity: if the checker accepts (s, M, e) for q then (M, e) is canonical, NO finite float
      of the format is closer to q, a tie with a different float is only accepted at an even mantissa, and the
      sign is the sign of q (unless the float is zero); infinity is accepted exactly from
      (2^prec - 1/2) * 2^emax (largest finite + half an ulp) on. *)
Theorem C13_is_nearest_sound : forall (f : fmt), fmt_ok f -> forall (v : fval) (q : Q),
  is_nearest f v q = true -> rounds_to f v q.
Proof. exact is_nearest_sound. Qed.
Print Assumptions C13_is_nearest_sound.

(* the same, spelled out for binary64 and a finite result *)
Theorem C13_is_nearest64_closest : forall (s : bool) (M e : Z) (q : Q),
  is_nearest f64 (FFin s M e) q = true ->
  canon f64 M e /\
  (forall s' M' e', canon f64 M' e' ->
     (Qabs (q - fin_Q f64 s M e) <= Qabs (q - fin_Q f64 s' M' e'))%Q) /\
  (forall s' M' e', canon f64 M' e' -> ~ (fin_Q f64 s' M' e' == fin_Q f64 s M e)%Q ->
     (Qabs (q - fin_Q f64 s M e) == Qabs (q - fin_Q f64 s' M' e'))%Q -> Z.even M = true) /\
  (M = 0 \/ s = (Qnum q <? 0)).
Proof. exact (is_nearest_fin_sound f64 f64_ok). Qed.
Print Assumptions C13_is_nearest64_closest.

(* 2. Uniqueness: two values the checker accepts for the same q are the same float (up to the sign of zero). *)
Theorem C13_is_nearest_unique : forall (f : fmt), fmt_ok f -> forall (v1 v2 : fval) (q : Q),
  is_nearest f v1 q = true -> is_nearest f v2 q = true -> fval_eqv v1 v2.
Proof. exact is_nearest_unique. Qed.
Print Assumptions C13_is_nearest_unique.

(* 3. The integer facts behind 1: the neighbours of a canonical float M*2^e are (M+1)*2^e above and, below,
      at distance 2^e — or 2^e / 2 at a power of two above the lowest binade (all scaled by 4). *)
Theorem C13_float_neighbours : forall (f : fmt) (M e M' e' : Z),
  fmt_ok f -> canon f M e -> canon f M' e' ->
  (M * 2 ^ e < M' * 2 ^ e' -> (M + 1) * 2 ^ e <= M' * 2 ^ e') /\
  (M' * 2 ^ e' < M * 2 ^ e -> 4 * (M' * 2 ^ e') <= (4 * M - 2 * hl_of f M e) * 2 ^ e).
Proof. exact (fun f M e M' e' Hf Hc Hc' => conj (succ_claim f Hf M e M' e' Hc Hc') (pred_claim f Hf M e M' e' Hc Hc')). Qed.
Print Assumptions C13_float_neighbours.

(* ---------------------------------------------------------------- denotation *)

(* 4. Underscores are ignored; digits are positional. *)
Theorem C13_underscores_ignored : forall b s, dval b (strip_us s) = dval b s.
Proof. exact dval_underscores_ignored. Qed.
Print Assumptions C13_underscores_ignored.

Theorem C13_digits_positional : forall b s1 s2 a c,
  dval b s1 = Some a -> dval b s2 = Some c -> dval b (s1 ++ s2) = Some (a * b ^ ndig s2 + c).
Proof. exact dval_app. Qed.
Print Assumptions C13_digits_positional.

Theorem C13_literal_underscores_ignored : forall w f,
  body_Q (BInt (strip_us w)) = body_Q (BInt w) /\ body_Q (BFloat (strip_us w) (strip_us f)) = body_Q (BFloat w f).
Proof. exact (fun w f => conj (body_Q_int_underscores w) (body_Q_float_underscores w f)). Qed.
Print Assumptions C13_literal_underscores_ignored.

(* 5. The exponent shifts by powers of ten: mantissa m with k fraction digits and exponent x is m * 10^(x-k),
      i.e. the value of the mantissa times 10^x. *)
Theorem C13_exponent_shifts : forall m k x,
  (sci_Q m k x == inject_Z m * Qpower (inject_Z 10) (x - k))%Q /\
  (sci_Q m k x == sci_Q m k 0 * Qpower (inject_Z 10) x)%Q.
Proof. exact (fun m k x => conj (sci_Q_val m k x) (sci_Q_shift m k x)). Qed.
Print Assumptions C13_exponent_shifts.

Theorem C13_scientific_denotes : forall w f e sg ew m k x s,
  mant_parts w f = Some (m, k) -> dval 10 ew = Some x -> exp_sign sg = Some s ->
  exists q, body_Q (BSci w f e sg ew None) = Some q /\
            (q == sci_Q m k 0 * Qpower (inject_Z 10) (if s then - x else x))%Q.
Proof. exact body_Q_sci. Qed.
Print Assumptions C13_scientific_denotes.

(* ---------------------------------------------------------------- the judge *)

(* 6. Soundness of the judge: an `ok` verdict means that the observation of the implementation satisfies the
      property for this literal ([C13_spec], spelled out by the lemmas 7-11 for each form). *)
Theorem C13_judge_sound : forall (l : lit) (o : obs) (tag : string),
  judge_lit l o = v_ok tag -> C13_spec l o.
Proof. exact judge_lit_sound. Qed.
Print Assumptions C13_judge_sound.

(* 7. Unannotated decimal integers and floats: a double that is a correctly rounded image of the digits. *)
Theorem C13_decimal_nearest : forall (neg : bool) (b : body) (q : Q) (o : obs),
  (is_int_body b = true \/ (exists w f, b = BFloat w f)) -> body_gram b = GOk -> body_Q b = Some q ->
  C13_spec (LReal neg b ANone) o ->
  exists bits v, o = OVal (KS "f64" (Zx bits)) /\ decode_bits f64 bits = Some v /\ rounds_to f64 v (Qneg_if neg q).
Proof.
  exact (fun neg b q o Hf Hg Hq H =>
           eq_ind _ (fun x => spec_holds x o) H _ (decimal_expected neg b q Hf Hg Hq)).
Qed.
Print Assumptions C13_decimal_nearest.

(* 8. Based literals (0d 0x 0o 0b) of the documented grammar: exactly their value, kind i64; beyond i64 the
      bound of i64 or an error. *)
Theorem C13_based_exact : forall (neg : bool) p w base n o,
  base_of_prefix p = Some base -> wf_plain base w = true -> dval base w = Some n ->
  i64_fits (if neg then - n else n) = true ->
  C13_spec (LReal neg (BBased p w) ANone) o -> o = OVal (KS "i64" (Zx (if neg then - n else n))).
Proof. exact based_exact. Qed.
Print Assumptions C13_based_exact.

Theorem C13_based_too_big : forall (neg : bool) p w base n o,
  base_of_prefix p = Some base -> wf_plain base w = true -> dval base w = Some n ->
  i64_fits (if neg then - n else n) = false ->
  C13_spec (LReal neg (BBased p w) ANone) o ->
  o = OVal (KS "i64" (Zx (clamp (kind_lo i64sb) (kind_hi i64sb) (if neg then - n else n)))) \/ is_rejected o = true.
Proof. exact based_too_big. Qed.
Print Assumptions C13_based_too_big.

(* 9. Suffixed / annotated integers (style 0: 42u8, 1: 42<u8>, 2: x<u8> := 42): exact if the value fits,
      otherwise the nearest bound of the kind or an error — never another value. *)
Theorem C13_suffixed_exact_or_clamped : forall (neg : bool) w n style k sb o,
  wf_dseq 10 w = true -> dval 10 w = Some n -> int_kind k = Some sb ->
  andb neg (andb (negb (is_define (ann_of style k))) (andb (negb (fst sb)) (n =? 0))) = false ->
  C13_spec (LReal neg (BInt w) (ann_of style k)) o ->
  let v := if neg then - n else n in
  (fits sb v = true /\ o = OVal (KS k (Zx v))) \/
  (fits sb v = false /\ (o = OVal (KS k (Zx (clamp (kind_lo sb) (kind_hi sb) v))) \/ is_rejected o = true)).
Proof. exact suffixed_exact_or_clamped. Qed.
Print Assumptions C13_suffixed_exact_or_clamped.

(* 10. Rationals: the fraction in lowest terms with positive denominator (an error only beyond i64). *)
Theorem C13_rational_reduced : forall (neg : bool) ns ds n d o,
  wf_dseq 10 ns = true -> wf_dseq 10 ds = true -> dval 10 ns = Some n -> dval 10 ds = Some d -> d <> 0 ->
  C13_spec (LReal neg (BRat ns ds) ANone) o ->
  let v := if neg then - n else n in
  (exists a b, o = OVal (KS "r64" (Lx [Zx a; Zx b])) /\ 0 < b /\ Z.gcd a b = 1 /\ a * d = v * b) \/
  (is_rejected o = true /\ (i64_fits v = false \/ i64_fits d = false)).
Proof. exact rational_reduced. Qed.
Print Assumptions C13_rational_reduced.

(* 11. Zero denominator: an error. *)
Theorem C13_zero_denominator_err : forall (neg : bool) ns ds n o,
  wf_dseq 10 ns = true -> wf_dseq 10 ds = true -> dval 10 ns = Some n -> dval 10 ds = Some 0 ->
  C13_spec (LReal neg (BRat ns ds) ANone) o -> is_rejected o = true.
Proof. exact zero_denominator_err. Qed.
Print Assumptions C13_zero_denominator_err.

(* ---------------------------------------------------------------- known findings *)
(* For each class: a literal of the class, the observation the faithful model of the code predicts for it
   (it is the observation of the real implementation, see known-findings.json), a proof that this observation
   contradicts the property, and that the judge answers (kf <id>) for exactly this pair. *)

Theorem C13_refuted_sci_int_mantissa :
  exists l o, kf_name l = Some "sci-int-mantissa"%string /\ predicted l o = true /\ ~ C13_spec l o /\
              judge_lit l o = v_kf "sci-int-mantissa".
Proof. exact (ex_intro _ w_sci_int (ex_intro _ OErr refuted_sci_int_mantissa)). Qed.
Print Assumptions C13_refuted_sci_int_mantissa.

Theorem C13_refuted_sci_double_round :
  exists l o, kf_name l = Some "sci-double-round"%string /\ predicted l o = true /\ ~ C13_spec l o /\
              judge_lit l o = v_kf "sci-double-round".
Proof. exact (ex_intro _ w_sci_dr (ex_intro _ o_sci_dr refuted_sci_double_round)). Qed.
Print Assumptions C13_refuted_sci_double_round.

Theorem C13_refuted_int_via_f64 :
  exists l o, kf_name l = Some "int-via-f64"%string /\ predicted l o = true /\ ~ C13_spec l o /\
              judge_lit l o = v_kf "int-via-f64".
Proof. exact (ex_intro _ w_int_f64 (ex_intro _ o_int_f64 refuted_int_via_f64)). Qed.
Print Assumptions C13_refuted_int_via_f64.

Theorem C13_refuted_neg_after_typing :
  exists l o, kf_name l = Some "neg-after-typing"%string /\ predicted l o = true /\ ~ C13_spec l o /\
              judge_lit l o = v_kf "neg-after-typing".
Proof. exact (ex_intro _ w_neg (ex_intro _ o_neg refuted_neg_after_typing)). Qed.
Print Assumptions C13_refuted_neg_after_typing.

Theorem C13_refuted_based_via_i64 :
  exists l o, kf_name l = Some "based-via-i64"%string /\ predicted l o = true /\ ~ C13_spec l o /\
              judge_lit l o = v_kf "based-via-i64".
Proof. exact (ex_intro _ w_based (ex_intro _ o_based refuted_based_via_i64)). Qed.
Print Assumptions C13_refuted_based_via_i64.

Theorem C13_refuted_signed_suffix :
  exists l o, kf_name l = Some "signed-suffix"%string /\ predicted l o = true /\ ~ C13_spec l o /\
              judge_lit l o = v_kf "signed-suffix".
Proof. exact (ex_intro _ w_suffix (ex_intro _ o_suffix refuted_signed_suffix)). Qed.
Print Assumptions C13_refuted_signed_suffix.

Theorem C13_refuted_f32_via_f64 :
  exists l o, kf_name l = Some "f32-via-f64"%string /\ predicted l o = true /\ ~ C13_spec l o /\
              judge_lit l o = v_kf "f32-via-f64".
Proof. exact (ex_intro _ w_f32 (ex_intro _ o_f32 refuted_f32_via_f64)). Qed.
Print Assumptions C13_refuted_f32_via_f64.

Theorem C13_refuted_neg_complex :
  exists l o, kf_name l = Some "neg-complex"%string /\ predicted l o = true /\ ~ C13_spec l o /\
              judge_lit l o = v_kf "neg-complex".
Proof. exact (ex_intro _ w_cplx (ex_intro _ o_cplx refuted_neg_complex)). Qed.
Print Assumptions C13_refuted_neg_complex.

(* C13_holds: outside the known-finding classes ([kf_name l = None]) every observation the faithful model of
   the code predicts for the literal (str::parse correctly rounded, i64::from_str_radix, R64::new beyond i64,
   negation, complex assembly; Model/Literal.v §5) satisfies the property. *)
Theorem C13_holds : forall (l : lit) (o : obs),
  kf_name l = None -> predicted l o = true -> C13_spec l o.
Proof. exact holds_outside_classes. Qed.
Print Assumptions C13_holds.

(* every canonical (sign, M, e) of binary64 (and infinity) IS a bit pattern: the floats the checker's theorem
   quantifies over are exactly the finite doubles *)
Theorem C13_bits_roundtrip : forall v : fval, fval_wf f64 v -> decode_bits f64 (encode_bits f64 v) = Some v.
Proof. exact decode_encode_f64. Qed.
Print Assumptions C13_bits_roundtrip.

(* ---------------------------------------------------------------- non-vacuity *)
(* 0.1 is 0x3FB999999999999A; 5e-324-ish subnormals, the power-of-two boundary and the overflow threshold are decided;
   the judge accepts the implementation's answers for `0.1`, `300u8` (clamped) and `6/8`, and refuses 434.99999999999994 for 435. *)
Example C13_example_checker :
  is_nearest_bits f64 4591870180066957722 (1 # 10) = true /\
  is_nearest_bits f64 4591870180066957721 (1 # 10) = false /\
  is_nearest_bits f64 1 (1 # Z.to_pos (2 ^ 1074)) = true /\                        (* smallest subnormal *)
  is_nearest_bits f64 0 (1 # Z.to_pos (2 ^ 1075)) = true /\                        (* half of it: tie to even = 0 *)
  is_nearest_bits f64 1 (1 # Z.to_pos (2 ^ 1075)) = false /\
  is_nearest_bits f64 4845873199050653696 (9007199254740993 # 1) = true /\         (* 2^53+1 -> 2^53 (tie, even) *)
  is_nearest_bits f64 4845873199050653697 (9007199254740993 # 1) = false /\
  is_nearest_bits f64 9218868437227405311 (2 ^ 1024 - 2 ^ 970 - 1 # 1) = true /\   (* just below the threshold: max *)
  is_nearest_bits f64 9218868437227405312 (2 ^ 1024 - 2 ^ 970 # 1) = true /\       (* threshold: +inf *)
  is_nearest_bits f32 1036831949 (1 # 10) = true.
Proof. vm_compute. repeat split; reflexivity. Qed.
Print Assumptions C13_example_checker.

Example C13_example_judge :
  judge_lit (LReal false (BFloat "0" "1") ANone) (OVal (KS "f64" (Zx 4591870180066957722))) = v_ok "nearest-f64" /\
  judge_lit (LReal false (BInt "300") (ASuffix "u8")) (OVal (KS "u8" (Zx 255))) = v_ok "clamped" /\
  judge_lit (LReal false (BRat "6" "8") ANone) (OVal (KS "r64" (Lx [Zx 3; Zx 4]))) = v_ok "rational-reduced" /\
  judge_lit (LReal false (BRat "6" "0") ANone) OErr = v_ok "zero-denominator-error" /\
  judge_lit (LReal false (BFloat "435" "0") ANone) (OVal (KS "f64" (Zx 4646360217120931839)))
    = v_bad "not-the-denoted-value" (Lx [Ax "nearest"; Ax "f64"; Zx 4350; Zx 10]).
Proof. vm_compute. repeat split; reflexivity. Qed.
Print Assumptions C13_example_judge.

(* ---------------------------------------------------------------- binary32 bit patterns *)
(* 12. The same round-trip for binary32: every canonical (sign, M, e) of f32 (and infinity) is a 32-bit pattern
       that decodes to itself; with C13_bits_roundtrip, for both float kinds at once. *)
Theorem C13_bits_roundtrip32 : forall v : fval, fval_wf f32 v -> decode_bits f32 (encode_bits f32 v) = Some v.
Proof. exact decode_encode_f32. Qed.
Print Assumptions C13_bits_roundtrip32.

Theorem C13_bits_roundtrip_both : forall (w32 : bool) (v : fval),
  fval_wf (fmt_of w32) v -> decode_bits (fmt_of w32) (encode_bits (fmt_of w32) v) = Some v.
Proof. exact decode_encode. Qed.
Print Assumptions C13_bits_roundtrip_both.

(* ---------------------------------------------------------------- the executable rounding function *)
(* 13. [round_ne] (the rounding function of the faithful model: log2 + one division, then at most one step up)
       is TOTAL and CORRECT for every format with at least 2 bits of precision and EVERY rational (zero, subnormal
       range, binade boundaries, overflow to infinity included): it returns a value, and that value is accepted
       by the checker — hence [rounds_to] by theorem 1.  By proof for all inputs, not by testing. *)
Theorem C13_round_ne_correct : forall (f : fmt), fmt_ok f -> 2 <= fprec f -> forall (q : Q),
  exists v, round_ne f q = Some v /\ is_nearest f v q = true.
Proof. exact round_ne_correct. Qed.
Print Assumptions C13_round_ne_correct.

Theorem C13_round_ne_rounds_to : forall (f : fmt), fmt_ok f -> 2 <= fprec f -> forall (q : Q),
  exists v, round_ne f q = Some v /\ rounds_to f v q.
Proof. exact round_ne_rounds_to. Qed.
Print Assumptions C13_round_ne_rounds_to.

(* ... and complete: whatever the checker accepts for q is what round_ne returns (up to the sign of zero). *)
Theorem C13_round_ne_complete : forall (f : fmt), fmt_ok f -> 2 <= fprec f -> forall (q : Q) (v' : fval),
  is_nearest f v' q = true -> exists v, round_ne f q = Some v /\ fval_eqv v v'.
Proof. exact round_ne_complete. Qed.
Print Assumptions C13_round_ne_complete.

(* consequence for C13_holds: for a decimal integer / float body the faithful model predicts exactly one double,
   the correctly rounded one (C13_holds is not vacuous there and does not rest on an untested round_ne). *)
Theorem C13_model_decimal_prediction : forall (b : body) (q : Q),
  (is_int_body b = true \/ exists w fr, b = BFloat w fr) -> body_Q b = Some q ->
  exists v, impl_f64_abs b = [v] /\ is_nearest f64 v q = true /\ rounds_to f64 v q.
Proof. exact impl_f64_abs_decimal. Qed.
Print Assumptions C13_model_decimal_prediction.

(* the finite clause of [rounds_to] does not mention the overflow threshold; the checker enforces it *)
Theorem C13_is_nearest_fin_in_range : forall (f : fmt) (s : bool) (M e : Z) (q : Q),
  fmt_ok f -> is_nearest f (FFin s M e) q = true -> (Qabs q < max_plus_half f)%Q.
Proof. exact is_nearest_fin_in_range. Qed.
Print Assumptions C13_is_nearest_fin_in_range.

(* ---------------------------------------------------------------- link to Flocq's standard rounding *)
(* These theorems live over Coq's classical real numbers: their Print Assumptions list the standard axioms of
   the Reals library (and nothing else); everything above is closed under the global context.
   Flocq's format for a fmt f is FLT with prec = fprec f and emin = - fscale f (binary64: 53 and
   3 - 1024 - 53 = -1074); [round radix2 (FLT_exp emin prec) ZnearestE] is Flocq's round-to-nearest-even with
   unbounded exponent range upwards, hence the hypothesis that q is below the overflow threshold
   (largest finite + half an ulp), which the checker enforces (C13_is_nearest_fin_in_range). *)

(* 14. Every format: if v = (s, M, e) is a correctly rounded image of q in the sense of [rounds_to], then the real
       value of v IS Flocq's rounding of q. *)
Theorem C13_rounds_to_flocq : forall (f : fmt) (s : bool) (M e : Z) (q : Q),
  fmt_ok f -> 2 <= fprec f ->
  rounds_to f (FFin s M e) q -> (Qabs q < max_plus_half f)%Q ->
  Q2R (fin_Q f s M e) = round radix2 (FLT_exp (- fscale f) (fprec f)) ZnearestE (Q2R q).
Proof. exact rounds_to_flocq. Qed.
Print Assumptions C13_rounds_to_flocq.

(* the same in predicate form: the value is a member of Flocq's format and THE nearest-even rounding point *)
Theorem C13_rounds_to_flocq_pt : forall (f : fmt) (s : bool) (M e : Z) (q : Q),
  fmt_ok f -> 2 <= fprec f ->
  rounds_to f (FFin s M e) q -> (Qabs q < max_plus_half f)%Q ->
  generic_format radix2 (FLT_exp (- fscale f) (fprec f)) (Q2R (fin_Q f s M e)) /\
  Rnd_NE_pt radix2 (FLT_exp (- fscale f) (fprec f)) (Q2R q) (Q2R (fin_Q f s M e)).
Proof. exact rounds_to_flocq_pt. Qed.
Print Assumptions C13_rounds_to_flocq_pt.

(* 15. binary64 (prec 53, emax 1024, emin = 3 - emax - prec) and binary32 (24, 128), numbers spelled out *)
Theorem C13_rounds_to_flocq64 : forall (s : bool) (M e : Z) (q : Q),
  rounds_to f64 (FFin s M e) q -> (Qabs q < max_plus_half f64)%Q ->
  Q2R (fin_Q f64 s M e) = round radix2 (FLT_exp (3 - 1024 - 53) 53) ZnearestE (Q2R q) /\
  Q2R (fin_Q f64 s M e) = F2R (Float radix2 (if s then - M else M) (e - 1074)).
Proof. exact rounds_to_flocq64. Qed.
Print Assumptions C13_rounds_to_flocq64.

Theorem C13_rounds_to_flocq32 : forall (s : bool) (M e : Z) (q : Q),
  rounds_to f32 (FFin s M e) q -> (Qabs q < max_plus_half f32)%Q ->
  Q2R (fin_Q f32 s M e) = round radix2 (FLT_exp (3 - 128 - 24) 24) ZnearestE (Q2R q) /\
  Q2R (fin_Q f32 s M e) = F2R (Float radix2 (if s then - M else M) (e - 149)).
Proof. exact rounds_to_flocq32. Qed.
Print Assumptions C13_rounds_to_flocq32.

(* 16. What the judge's `ok nearest-f64` means in Flocq's terms: the bit pattern is a finite double whose value is
       Flocq's rounding of the literal's rational, or an infinity of q's sign with |q| at/beyond the threshold. *)
Theorem C13_is_nearest_flocq : forall (f : fmt) (s : bool) (M e : Z) (q : Q),
  fmt_ok f -> 2 <= fprec f -> is_nearest f (FFin s M e) q = true ->
  Q2R (fin_Q f s M e) = round radix2 (FLT_exp (- fscale f) (fprec f)) ZnearestE (Q2R q).
Proof. exact is_nearest_flocq. Qed.
Print Assumptions C13_is_nearest_flocq.

Theorem C13_is_nearest_bits_flocq64 : forall (bits : Z) (q : Q),
  is_nearest_bits f64 bits q = true ->
  (exists s M e, decode_bits f64 bits = Some (FFin s M e) /\
     Q2R (fin_Q f64 s M e) = round radix2 (FLT_exp (3 - 1024 - 53) 53) ZnearestE (Q2R q)) \/
  (exists s, decode_bits f64 bits = Some (FInf s) /\ (max_plus_half f64 <= Qabs q)%Q /\ s = (Qnum q <? 0)).
Proof. exact is_nearest_bits_flocq64. Qed.
Print Assumptions C13_is_nearest_bits_flocq64.

(* 17. The executable rounding function of the model computes Flocq's rounding (finite results), and returns
       infinity exactly in the overflow region. *)
Theorem C13_round_ne_flocq : forall (f : fmt) (q : Q),
  fmt_ok f -> 2 <= fprec f ->
  exists v, round_ne f q = Some v /\
    match v with
    | FFin s M e => Q2R (fin_Q f s M e) = round radix2 (FLT_exp (- fscale f) (fprec f)) ZnearestE (Q2R q)
    | FInf s => (max_plus_half f <= Qabs q)%Q /\ s = (Qnum q <? 0)
    | FNan => False
    end.
Proof. exact round_ne_flocq. Qed.
Print Assumptions C13_round_ne_flocq.

(* non-vacuity of 14-16: 0.1 and its double 0x3FB999999999999A satisfy the hypotheses *)
Example C13_example_flocq :
  rounds_to f64 (FFin false 7205759403792794 1018) (1 # 10) /\ (Qabs (1 # 10) < max_plus_half f64)%Q /\
  decode_bits f64 4591870180066957722 = Some (FFin false 7205759403792794 1018).
Proof. exact flocq_example. Qed.
Print Assumptions C13_example_flocq.

(* 18. The overflow side of the link.  Flocq's [round] has no upper exponent bound; IEEE 754 defines overflow of
       round-to-nearest as "the result rounded with unbounded exponent range has magnitude >= 2^emax".  The checker
       agrees with that definition: whenever it accepts a finite float, Flocq's rounding equals its value and stays
       below 2^emax; whenever it accepts an infinity, Flocq's rounding has magnitude >= 2^emax (and the sign is q's).
       2^emax = bpow (femax + fprec - fscale); binary64: 2^1024. *)
Theorem C13_is_nearest_overflow_flocq : forall (f : fmt) (v : fval) (q : Q),
  fmt_ok f -> 2 <= fprec f -> is_nearest f v q = true ->
  let r := round radix2 (FLT_exp (- fscale f) (fprec f)) ZnearestE (Q2R q) in
  let two_emax := bpow radix2 (femax f + fprec f - fscale f) in
  match v with
  | FFin s M e => Q2R (fin_Q f s M e) = r /\ (Rabs r < two_emax)%R
  | FInf s => (two_emax <= Rabs r)%R /\ s = (Qnum q <? 0)
  | FNan => False
  end.
Proof. exact is_nearest_overflow_flocq. Qed.
Print Assumptions C13_is_nearest_overflow_flocq.

Theorem C13_is_nearest_overflow_flocq64 : forall (v : fval) (q : Q),
  is_nearest f64 v q = true ->
  let r := round radix2 (FLT_exp (3 - 1024 - 53) 53) ZnearestE (Q2R q) in
  match v with
  | FFin s M e => Q2R (fin_Q f64 s M e) = r /\ (Rabs r < bpow radix2 1024)%R
  | FInf s => (bpow radix2 1024 <= Rabs r)%R /\ s = (Qnum q <? 0)
  | FNan => False
  end.
Proof. exact is_nearest_overflow_flocq64. Qed.
Print Assumptions C13_is_nearest_overflow_flocq64.
