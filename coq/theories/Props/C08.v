(* C08 — Formatting a program does not change what it means.
   Property theorems only; proofs live in Proofs/Fmt2P.v and Proofs/Fmt2Q.v.

   Model/Fmt2.v (Model/Fmt.v extended by maps, tuple-struct values, table literals, comments, enum definitions, function
   definitions with arms, match expressions, patterns and set/matrix comprehensions):
   [fmt_prog false] is the canonical printer of the modelled subset, [fmt_prog true] the faithful model of
   src/syntax/src/formatter.rs (text mode) on that subset, [parse_tok] a recursive-descent parser over the same tokens
   (blanks and newlines are tokens).  Comparison (1) of the check ties the real formatter's text to [render (fmt_prog true p)],
   comparison (2) observes the round trip on the implementation itself. *)
From Coq Require Import List ZArith String.
From MechV Require Import Base.Sexp Base.Obs Model.Fmt2 Proofs.Fmt2P Proofs.Fmt2Q.
Import ListNotations.
Open Scope string_scope.
Open Scope list_scope.

(* 1. Round trip: for EVERY well-formed program of the subset the canonical text parses back to the same tree
      (structural induction over the whole syntax, all list lengths and nesting depths). *)
Theorem C08_fmt_parse : forall p : prog, wf_prog p = true -> parse_tok (fmt_prog false p) = Some p.
Proof. exact fmt_parse_thm. Qed.
Print Assumptions C08_fmt_parse.

(* 2. Formatting the formatted text again gives the same text. *)
Theorem C08_fmt_idempotent : forall p p' : prog,
  wf_prog p = true -> parse_tok (fmt_prog false p) = Some p' -> fmt_prog false p' = fmt_prog false p.
Proof. exact fmt_idempotent_thm. Qed.
Print Assumptions C08_fmt_idempotent.

(* 3. A matrix literal keeps its rows: an r x c literal is never printed so that it is read back with another shape. *)
Theorem C08_matrix_rows_preserved : forall rows rows' : list (list ex),
  wf (EMat rows) = true ->
  parse_tok (fmt_prog false [SExpr (EMat rows)]) = Some [SExpr (EMat rows')] ->
  map (@List.length ex) rows' = map (@List.length ex) rows /\ rows' = rows.
Proof. exact matrix_rows_preserved_thm. Qed.
Print Assumptions C08_matrix_rows_preserved.

(* 4. Outside the syntactic classes of the known defects the model of formatter.rs IS the canonical printer ... *)
Theorem C08_holds : forall p : prog, defect_free p = true -> fmt_prog true p = fmt_prog false p.
Proof. exact holds_thm. Qed.
Print Assumptions C08_holds.

(* ... hence the modelled formatter round-trips every well-formed program outside those classes. *)
Theorem C08_holds_roundtrip : forall p : prog,
  wf_prog p = true -> defect_free p = true -> parse_tok (fmt_prog true p) = Some p.
Proof. exact holds_roundtrip. Qed.
Print Assumptions C08_holds_roundtrip.

(* 5. Inside each class the faithful model of formatter.rs violates the property (witnesses; the first one is the
      2x3 literal that comes back as a 1x6 literal). *)
Theorem C08_refuted_matrix_rows : exists p, refutes "matrix-rows" p /\
  exists r1 r2 flat, p = [SExpr (EMat [r1; r2])] /\ List.length r1 = 3 /\ List.length r2 = 3 /\
    parse_tok (fmt_prog true p) = Some [SExpr (EMat [flat])] /\ List.length flat = 6.
Proof. exact refuted_ex_matrix_rows. Qed.
Print Assumptions C08_refuted_matrix_rows.

Theorem C08_refuted_named_arg_colon : exists p, refutes "named-arg-colon" p.
Proof. exact refuted_ex_named_arg. Qed.
Print Assumptions C08_refuted_named_arg_colon.

Theorem C08_refuted_range_increment_order : exists p, refutes "range-increment-order" p.
Proof. exact refuted_ex_range_inc. Qed.
Print Assumptions C08_refuted_range_increment_order.

Theorem C08_refuted_strict_neq_spelling : exists p, refutes "strict-neq-spelling" p.
Proof. exact refuted_ex_sneq. Qed.
Print Assumptions C08_refuted_strict_neq_spelling.

Theorem C08_refuted_subset_spelling : exists p, refutes "subset-spelling" p.
Proof. exact refuted_ex_subset. Qed.
Print Assumptions C08_refuted_subset_spelling.

Theorem C08_refuted_cross_spelling : exists p, refutes "cross-spelling" p.
Proof. exact refuted_ex_cross. Qed.
Print Assumptions C08_refuted_cross_spelling.

(* a jagged literal ([1 2; 3]) is a well-formed program that the canonical printer round-trips, but formatter.rs
   indexes the shorter row out of bounds (the model prints the panic marker) *)
Theorem C08_refuted_matrix_jagged_panic : exists p, wf_prog p = true /\ existsb is_panic (fmt_prog true p) = true /\
  parse_tok (fmt_prog false p) = Some p.
Proof. exact refuted_ex_jagged. Qed.
Print Assumptions C08_refuted_matrix_jagged_panic.

(* 6. Tokens are determined by their text: two different symbols of the vocabulary never print alike. *)
Theorem C08_symbols_unambiguous : forall a b : sym,
  in_vocab a = true -> in_vocab b = true -> sym_text a = sym_text b -> a = b.
Proof. exact sym_text_inj. Qed.
Print Assumptions C08_symbols_unambiguous.

(* 7. The judge is sound: `ok` on a modelled case means the implementation re-parsed its own output to the same tree
      and re-formatted it to the same text, and (tag `roundtrip`) that output is exactly the canonical text of the model. *)
Theorem C08_judge_sound : forall (p : prog) (o : obs8) (tag : string),
  judge_prog p o = v_ok tag ->
  observed_roundtrip o /\
  (tag = "roundtrip" -> exists ob, o = O8Fmt ob /\ o_text ob = render (fmt_prog false p)).
Proof. exact judge_prog_sound. Qed.
Print Assumptions C08_judge_sound.

Theorem C08_judge_diff_sound : forall cls (o : obs8) (tag : string),
  judge_diff cls o = v_ok tag -> observed_roundtrip o.
Proof. exact judge_diff_sound. Qed.
Print Assumptions C08_judge_diff_sound.

(* non-vacuity: a program using most of the subset is well-formed, outside every defect class, and round-trips *)
Example C08_example :
  let n1 := ELit (LNum "1") None in let va := EVar "a" None in
  let p := [SDefine true "x" (Some (KMatrix "u8" ["1"; "3"]))
              (EMat [[ETerm n1 [(OAdd, ETerm va [(OMul, EParen (ETerm va [(OSub, ENeg n1)]))])];
                      ETrans va; ECall "f" [(None, ERange n1 None true va)]]]);
            SAssign "x" [EBrk [EAll; n1]; EDot "b"] (ERec [("k", Some (KScalar "u8"), ETup [n1; ESet [va]])])] in
  wf_prog p = true /\ defect_free p = true /\ parse_tok (fmt_prog true p) = Some p /\
  render (fmt_prog true p) = ("~x<[u8]:1,3> := [1 + a * (a - -1) a' f(1..=a)]" ++ nl ++ "x[:,1].b = {k<u8>: (1,{a})}" ++ nl)%string.
Proof. cbv zeta. repeat split; vm_compute; reflexivity. Qed.
Print Assumptions C08_example.

(* 8. The extension of the subset (second round).  C08_fmt_parse above now quantifies over programs that may also contain
      map literals, tuple-struct values `:ok(200)`, comment statements, enum definitions, function definitions with
      match arms, and — as the right-hand side of a define / assign / op-assign / expression statement — table literals,
      match expressions with guards and set / matrix comprehensions.  The component round trips, for all sizes: *)

(* every well-formed pattern (wildcard, literal, variable, tuple, enum variant `:some(p, q)`, array `[h | t]`, `[a … z]`,
   arbitrarily nested tuples / variants) is read back from its text, whatever follows it *)
Theorem C08_pattern_roundtrip : forall (p : pat) (n : nat) (rest : list tok),
  wf_pat p = true -> List.length (fmt_pat p) <= n -> post0 rest = true ->
  ppat n (fmt_pat p ++ rest) = Some (p, rest).
Proof. exact (fun p n rest Hw => pat_all_ok p Hw n rest). Qed.
Print Assumptions C08_pattern_roundtrip.

(* the token list of an array pattern determines prefix, spread / rest binding and suffix *)
Theorem C08_array_pattern_parts : forall (pre : list pitem) (tl : atail), assemble (parts pre tl) = Some (pre, tl).
Proof. exact assemble_parts. Qed.
Print Assumptions C08_array_pattern_parts.

(* every well-formed right-hand side (expression, table, match, comprehension) is read back from its text *)
Theorem C08_rhs_roundtrip : forall (r : rhs) (n : nat) (rest : list tok),
  wf_rhs r = true -> List.length (fmt_rhs false r) <= n ->
  prhs n (fmt_rhs false r ++ TNl :: rest) = Some (r, TNl :: rest).
Proof. exact prhs_ok. Qed.
Print Assumptions C08_rhs_roundtrip.

(* a table literal keeps its header and its rows (an r-row table is never read back with another row structure) *)
Theorem C08_table_rows_preserved : forall mu x k fs rows s',
  wf_rhs (RTable fs rows) = true ->
  parse_tok (fmt_prog false [SDefine mu x k (RTable fs rows)]) = Some [s'] ->
  s' = SDefine mu x k (RTable fs rows).
Proof. exact table_rows_preserved_thm. Qed.
Print Assumptions C08_table_rows_preserved.

(* formatter.rs and the canonical printer agree on every right-hand side whose expressions are outside the defect classes *)
Theorem C08_holds_rhs : forall r : rhs, Forall clean (rhs_exprs r) -> fmt_rhs true r = fmt_rhs false r.
Proof. exact fmt_rhs_agree. Qed.
Print Assumptions C08_holds_rhs.

(* non-vacuity of the extension: one program with every new construct is well-formed, lexically fine, outside the defect
   classes, round-trips, and has exactly this text *)
Example C08_example_extension :
  let n1 := ELit (LNum "1") None in let va := EVar "a" None in
  let p := [ SComment " hello";
             SEnum "color" [("red", None); ("ok", Some (KScalar "u64"))];
             SDefine false "x" None (RTable [("a", KScalar "f64"); ("b", KScalar "u8")] [[n1; va]; [va; n1]]);
             SDefine false "m" None (EMap [(n1, va); (ELit (LStr "k") None, ETupS "ok" n1)]);
             SDefine false "e" None (EMap []);
             SFun "f" [("x", KScalar "u64")] (KScalar "u64")
               [(false, PItem (ILit (LNum "0") None), n1);
                (true, PTup [PItem (IVar "n" None); PItem IWild], ETerm va [(OMul, n1)])];
             SDefine false "y" None
               (RMatch va [(false, PArr [IVar "h" None] (ARest (IVar "t" None)), Some (ETerm va [(OGt, n1)]), n1);
                           (false, PTupS "some" [PItem (IVar "v" None)], None, va);
                           (true, PItem IWild, None, n1)]);
             SExpr (RCompr false (ETerm va [(OMul, n1)])
                      [QGen (PItem (IVar "a" None)) va; QFilt (ETerm va [(OGt, n1)]); QLet "z" None n1]);
             SExpr (RCompr true va [QGen (PArr [] (ASpread [IVar "z" None])) (EMat [[n1; n1]])]) ] in
  wf_prog p = true /\ lex_ok p = true /\ defect_free p = true /\ parse_tok (fmt_prog true p) = Some p /\
  render (fmt_prog true p) =
    ("-- hello" ++ nl ++ "<color> := :red | :ok<u64>" ++ nl ++ "x := | a<f64> b<u8> | 1 a | a 1 |" ++ nl ++
     "m := {1: a, ""k"": :ok(1)}" ++ nl ++ "e := {:}" ++ nl ++
     "f(x<u64>) => <u64>" ++ nl ++ "  ├ 0 => 1" ++ nl ++ "  └ (n, *) => a * 1." ++ nl ++
     "y := a?" ++ nl ++ nl ++ "├[h | t], a > 1 ⇒ 1" ++ nl ++ "├:some(v) ⇒ a" ++ nl ++ "└* ⇒ 1." ++ nl ++ nl ++
     "{ a * 1 | a ← a, a > 1, z := 1 }" ++ nl ++ "[ a | [… z] ← [1 1] ]" ++ nl)%string.
Proof. cbv zeta. repeat split; vm_compute; reflexivity. Qed.
Print Assumptions C08_example_extension.
