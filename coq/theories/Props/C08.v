(* C08 — Formatting a program does not change what it means.
   Property theorems only; proofs live in Proofs/FmtP.v. *)
From Coq Require Import List ZArith.
From Coq Require Import String.
From MechV Require Import Base.Sexp Base.Obs Model.Fmt Proofs.FmtP.
Import ListNotations.

(* The judge is sound: an `ok` on a modelled case means the implementation's formatter emitted (for tag `roundtrip`)
   exactly the canonical text of the model and the implementation re-parsed it to the same tree and re-formatted it
   to the same text. *)
Theorem C08_judge_sound : forall (p : prog) (o : obs8) (tag : string),
  judge_prog p o = v_ok tag ->
  observed_roundtrip o /\
  (tag = "roundtrip"%string -> exists ob, o = O8Fmt ob /\ o_text ob = render (fmt_prog false p)).
Proof. exact judge_prog_sound. Qed.
Print Assumptions C08_judge_sound.

Theorem C08_judge_diff_sound : forall cls (o : obs8) (tag : string),
  judge_diff cls o = v_ok tag -> observed_roundtrip o.
Proof. exact judge_diff_sound. Qed.
Print Assumptions C08_judge_diff_sound.
