(* C08 — Formatting a program does not change what it means.
   Property theorems only; proofs live in Proofs/Fmt3P.v and Proofs/Fmt3Q.v.

   Model/Fmt3.v (Model/Fmt.v extended by maps, tuple-struct values, table literals, comments, enum definitions, function
   definitions with arms, match expressions, patterns and set/matrix comprehensions — second round — and by STATE MACHINES:
   specification, implementation with transition / output / asynchronous arms and guard lists, instance expressions —
   third round, section 9 below):
   [fmt_prog false] is the canonical printer of the modelled subset, [fmt_prog true] the faithful model of
   src/syntax/src/formatter.rs (text mode) on that subset, [parse_tok] a recursive-descent parser over the same tokens
   (blanks and newlines are tokens).  Comparison (1) of the check ties the real formatter's text to [render (fmt_prog true p)],
   comparison (2) observes the round trip on the implementation itself. *)
From Coq Require Import List ZArith String.
From MechV Require Import Base.Sexp Base.Obs Model.Fmt3 Proofs.Fmt3P Proofs.Fmt3Q.
Import ListNotations.
Open Scope string_scope.
Open Scope list_scope.

(* 1. Round trip: for EVERY well-formed program of the subset the canonical text parses back to the same tree
      (structural induction over the whole syntax, all list lengths and nesting depths). *)
Theorem C08_fmt_parse : forall p : prog, wf_prog p = true -> parse_tok (fmt_prog false p) = Some p.
Proof. exact fmt_parse_thm. Qed.
Print Assumptions C08_fmt_parse.

(* 2. Formatting the formatted text again gives the same text. *)
Theorem C08_fmt_idempotent : forall p p' : prog,
  wf_prog p = true -> parse_tok (fmt_prog false p) = Some p' -> fmt_prog false p' = fmt_prog false p.
Proof. exact fmt_idempotent_thm. Qed.
Print Assumptions C08_fmt_idempotent.

(* 3. A matrix literal keeps its rows: an r x c literal is never printed so that it is read back with another shape. *)
Theorem C08_matrix_rows_preserved : forall rows rows' : list (list ex),
  wf (EMat rows) = true ->
  parse_tok (fmt_prog false [SExpr (EMat rows)]) = Some [SExpr (EMat rows')] ->
  map (@List.length ex) rows' = map (@List.length ex) rows /\ rows' = rows.
Proof. exact matrix_rows_preserved_thm. Qed.
Print Assumptions C08_matrix_rows_preserved.

(* 4. Outside the syntactic classes of the known defects the model of formatter.rs IS the canonical printer ... *)
Theorem C08_holds : forall p : prog, defect_free p = true -> fmt_prog true p = fmt_prog false p.
Proof. exact holds_thm. Qed.
Print Assumptions C08_holds.

(* ... hence the modelled formatter round-trips every well-formed program outside those classes. *)
Theorem C08_holds_roundtrip : forall p : prog,
  wf_prog p = true -> defect_free p = true -> parse_tok (fmt_prog true p) = Some p.
Proof. exact holds_roundtrip. Qed.
Print Assumptions C08_holds_roundtrip.

(* 5. Inside each class the faithful model of formatter.rs violates the property (witnesses; the first one is the
      2x3 literal that comes back as a 1x6 literal). *)
Theorem C08_refuted_matrix_rows : exists p, refutes "matrix-rows" p /\
  exists r1 r2 flat, p = [SExpr (EMat [r1; r2])] /\ List.length r1 = 3 /\ List.length r2 = 3 /\
    parse_tok (fmt_prog true p) = Some [SExpr (EMat [flat])] /\ List.length flat = 6.
Proof. exact refuted_ex_matrix_rows. Qed.
Print Assumptions C08_refuted_matrix_rows.

Theorem C08_refuted_named_arg_colon : exists p, refutes "named-arg-colon" p.
Proof. exact refuted_ex_named_arg. Qed.
Print Assumptions C08_refuted_named_arg_colon.

Theorem C08_refuted_range_increment_order : exists p, refutes "range-increment-order" p.
Proof. exact refuted_ex_range_inc. Qed.
Print Assumptions C08_refuted_range_increment_order.

Theorem C08_refuted_strict_neq_spelling : exists p, refutes "strict-neq-spelling" p.
Proof. exact refuted_ex_sneq. Qed.
Print Assumptions C08_refuted_strict_neq_spelling.

Theorem C08_refuted_subset_spelling : exists p, refutes "subset-spelling" p.
Proof. exact refuted_ex_subset. Qed.
Print Assumptions C08_refuted_subset_spelling.

Theorem C08_refuted_cross_spelling : exists p, refutes "cross-spelling" p.
Proof. exact refuted_ex_cross. Qed.
Print Assumptions C08_refuted_cross_spelling.

(* a jagged literal ([1 2; 3]) is a well-formed program that the canonical printer round-trips, but formatter.rs
   indexes the shorter row out of bounds (the model prints the panic marker) *)
Theorem C08_refuted_matrix_jagged_panic : exists p, wf_prog p = true /\ existsb is_panic (fmt_prog true p) = true /\
  parse_tok (fmt_prog false p) = Some p.
Proof. exact refuted_ex_jagged. Qed.
Print Assumptions C08_refuted_matrix_jagged_panic.

(* 6. Tokens are determined by their text: two different symbols of the vocabulary never print alike. *)
Theorem C08_symbols_unambiguous : forall a b : sym,
  in_vocab a = true -> in_vocab b = true -> sym_text a = sym_text b -> a = b.
Proof. exact sym_text_inj. Qed.
Print Assumptions C08_symbols_unambiguous.

(* 7. The judge is sound: `ok` on a modelled case means the implementation re-parsed its own output to the same tree
      and re-formatted it to the same text, and (tag `roundtrip`) that output is exactly the canonical text of the model. *)
Theorem C08_judge_sound : forall (p : prog) (o : obs8) (tag : string),
  judge_prog p o = v_ok tag ->
  observed_roundtrip o /\
  (tag = "roundtrip" -> exists ob, o = O8Fmt ob /\ o_text ob = render (fmt_prog false p)).
Proof. exact judge_prog_sound. Qed.
Print Assumptions C08_judge_sound.

Theorem C08_judge_diff_sound : forall cls (o : obs8) (tag : string),
  judge_diff cls o = v_ok tag -> observed_roundtrip o.
Proof. exact judge_diff_sound. Qed.
Print Assumptions C08_judge_diff_sound.

(* non-vacuity: a program using most of the subset is well-formed, outside every defect class, and round-trips *)
Example C08_example :
  let n1 := ELit (LNum "1") None in let va := EVar "a" None in
  let p := [SDefine true "x" (Some (KMatrix "u8" ["1"; "3"]))
              (EMat [[ETerm n1 [(OAdd, ETerm va [(OMul, EParen (ETerm va [(OSub, ENeg n1)]))])];
                      ETrans va; ECall "f" [(None, ERange n1 None true va)]]]);
            SAssign "x" [EBrk [EAll; n1]; EDot "b"] (ERec [("k", Some (KScalar "u8"), ETup [n1; ESet [va]])])] in
  wf_prog p = true /\ defect_free p = true /\ parse_tok (fmt_prog true p) = Some p /\
  render (fmt_prog true p) = ("~x<[u8]:1,3> := [1 + a * (a - -1) a' f(1..=a)]" ++ nl ++ "x[:,1].b = {k<u8>: (1,{a})}" ++ nl)%string.
Proof. cbv zeta. repeat split; vm_compute; reflexivity. Qed.
Print Assumptions C08_example.

(* 8. The extension of the subset (second round).  C08_fmt_parse above now quantifies over programs that may also contain
      map literals, tuple-struct values `:ok(200)`, comment statements, enum definitions, function definitions with
      match arms, and — as the right-hand side of a define / assign / op-assign / expression statement — table literals,
      match expressions with guards and set / matrix comprehensions.  The component round trips, for all sizes: *)

(* every well-formed pattern (wildcard, literal, variable, tuple, enum variant `:some(p, q)`, array `[h | t]`, `[a … z]`,
   arbitrarily nested tuples / variants) is read back from its text, whatever follows it *)
Theorem C08_pattern_roundtrip : forall (p : pat) (n : nat) (rest : list tok),
  wf_pat p = true -> List.length (fmt_pat p) <= n -> post0 rest = true ->
  ppat n (fmt_pat p ++ rest) = Some (p, rest).
Proof. exact (fun p n rest Hw => pat_all_ok p Hw n rest). Qed.
Print Assumptions C08_pattern_roundtrip.

(* the token list of an array pattern determines prefix, spread / rest binding and suffix *)
Theorem C08_array_pattern_parts : forall (pre : list pitem) (tl : atail), assemble (parts pre tl) = Some (pre, tl).
Proof. exact assemble_parts. Qed.
Print Assumptions C08_array_pattern_parts.

(* every well-formed right-hand side (expression, table, match, comprehension) is read back from its text *)
Theorem C08_rhs_roundtrip : forall (r : rhs) (n : nat) (rest : list tok),
  wf_rhs r = true -> List.length (fmt_rhs false r) <= n ->
  prhs n (fmt_rhs false r ++ TNl :: rest) = Some (r, TNl :: rest).
Proof. exact prhs_ok. Qed.
Print Assumptions C08_rhs_roundtrip.

(* a table literal keeps its header and its rows (an r-row table is never read back with another row structure) *)
Theorem C08_table_rows_preserved : forall mu x k fs rows s',
  wf_rhs (RTable fs rows) = true ->
  parse_tok (fmt_prog false [SDefine mu x k (RTable fs rows)]) = Some [s'] ->
  s' = SDefine mu x k (RTable fs rows).
Proof. exact table_rows_preserved_thm. Qed.
Print Assumptions C08_table_rows_preserved.

(* formatter.rs and the canonical printer agree on every right-hand side whose expressions are outside the defect classes *)
Theorem C08_holds_rhs : forall r : rhs, Forall clean (rhs_exprs r) -> fmt_rhs true r = fmt_rhs false r.
Proof. exact fmt_rhs_agree. Qed.
Print Assumptions C08_holds_rhs.

(* non-vacuity of the extension: one program with every new construct is well-formed, lexically fine, outside the defect
   classes, round-trips, and has exactly this text *)
Example C08_example_extension :
  let n1 := ELit (LNum "1") None in let va := EVar "a" None in
  let p := [ SComment " hello";
             SEnum "color" [("red", None); ("ok", Some (KScalar "u64"))];
             SDefine false "x" None (RTable [("a", KScalar "f64"); ("b", KScalar "u8")] [[n1; va]; [va; n1]]);
             SDefine false "m" None (EMap [(n1, va); (ELit (LStr "k") None, ETupS "ok" n1)]);
             SDefine false "e" None (EMap []);
             SFun "f" [("x", KScalar "u64")] (KScalar "u64")
               [(false, PItem (ILit (LNum "0") None), n1);
                (true, PTup [PItem (IVar "n" None); PItem IWild], ETerm va [(OMul, n1)])];
             SDefine false "y" None
               (RMatch va [(false, PArr [IVar "h" None] (ARest (IVar "t" None)), Some (ETerm va [(OGt, n1)]), n1);
                           (false, PTupS "some" [PItem (IVar "v" None)], None, va);
                           (true, PItem IWild, None, n1)]);
             SExpr (RCompr false (ETerm va [(OMul, n1)])
                      [QGen (PItem (IVar "a" None)) va; QFilt (ETerm va [(OGt, n1)]); QLet "z" None n1]);
             SExpr (RCompr true va [QGen (PArr [] (ASpread [IVar "z" None])) (EMat [[n1; n1]])]) ] in
  wf_prog p = true /\ lex_ok p = true /\ defect_free p = true /\ parse_tok (fmt_prog true p) = Some p /\
  render (fmt_prog true p) =
    ("-- hello" ++ nl ++ "<color> := :red | :ok<u64>" ++ nl ++ "x := | a<f64> b<u8> | 1 a | a 1 |" ++ nl ++
     "m := {1: a, ""k"": :ok(1)}" ++ nl ++ "e := {:}" ++ nl ++
     "f(x<u64>) => <u64>" ++ nl ++ "  ├ 0 => 1" ++ nl ++ "  └ (n, *) => a * 1." ++ nl ++
     "y := a?" ++ nl ++ nl ++ "├[h | t], a > 1 ⇒ 1" ++ nl ++ "├:some(v) ⇒ a" ++ nl ++ "└* ⇒ 1." ++ nl ++ nl ++
     "{ a * 1 | a ← a, a > 1, z := 1 }" ++ nl ++ "[ a | [… z] ← [1 1] ]" ++ nl)%string.
Proof. cbv zeta. repeat split; vm_compute; reflexivity. Qed.
Print Assumptions C08_example_extension.

(* 9. State machines (third round).  C08_fmt_parse, C08_fmt_idempotent, C08_holds and C08_holds_roundtrip above now
      quantify over programs that may also contain
        * the specification   #name(in<k>, …) ⇒ <k> :=  ├ :State(x<k>, …)  …  └ :State.        (SFsmSpec)
        * the implementation  #name(in<k>, …) -> start   followed by the state arms
              :State(p, …) -> :Next(e, …) => e ~> :Other(e)          (ATrans: one or more transitions)
              :State(p, …)   ├ guard -> …   ├ guard => …   └ * -> …   (AGuard: one or more guards)       (SFsmImpl)
        * the instance        #name   /   #name(e, k: e)   as an expression (EFsm) wherever the grammar takes an
          `expression`: statement right-hand sides, matrix / set / tuple elements, record / map values, call arguments.
      The patterns of a state machine ([fpat]) have arbitrary expressions as leaves (Pattern::Expression), tuples,
      tuple-structs `:State(…)` and array patterns with spread / rest; [wf_fpat true] is the value syntax of
      state_machines.rs::fsm_value (no wildcard, no spread / rest).  The component round trips, for all sizes: *)

(* every well-formed state-machine pattern is read back from its text, whatever follows it (an expression may follow) *)
Theorem C08_fsm_pattern_roundtrip : forall (p : fpat) (v : bool) (n : nat) (rest : list tok),
  wf_fpat v p = true -> List.length (fmt_fpat false p) < n -> R_exp rest ->
  pfpat n (fmt_fpat false p ++ rest) = Some (p, rest).
Proof. exact (fun p v n rest Hw => fpat_all_ok p v Hw n rest). Qed.
Print Assumptions C08_fsm_pattern_roundtrip.

(* every well-formed arm (transitions or guards) is read back, followed by the next arm or by the final period *)
Theorem C08_fsm_arm_roundtrip : forall (a : arm) (n : nat) (rest : list tok),
  wf_arm a = true -> List.length (fmt_arm false a) < n -> arm_follow n rest ->
  parm n (fmt_arm false a ++ rest) = Some (a, rest).
Proof. exact (fun a n rest => parm_ok n a rest). Qed.
Print Assumptions C08_fsm_arm_roundtrip.

(* an instance is read back as an `expression` (never as a formula: `#m(1) + 2` is not in the grammar) *)
Theorem C08_fsm_instance_roundtrip : forall (e : ex) (n : nat) (rest : list tok),
  wf e = true -> is_exprF e = true -> List.length (fmt false e) <= n -> R_exp rest ->
  pexpr n (fmt false e ++ rest) = Some (e, rest).
Proof. exact pexprF_at. Qed.
Print Assumptions C08_fsm_instance_roundtrip.

(* formatter.rs prints an arm as the canonical printer does when its expressions are outside the defect classes and it
   has no output transition directly after `-> target` inside a guard *)
Theorem C08_holds_fsm_arm : forall a : arm,
  Forall clean (arm_exprs a) -> arm_koutd a = false -> fmt_arm true a = fmt_arm false a.
Proof. exact fmt_arm_agree. Qed.
Print Assumptions C08_holds_fsm_arm.

(* ... and inside that class the faithful model of formatter.rs violates the property: state_machines.rs::fsm_guard tries
   a statement transition first, so `├ z > 1 -> a => 1` is read as the assignment `a = > 1` and the text does not parse;
   the canonical printer writes the output operator `⇒` there and round-trips *)
Theorem C08_refuted_fsm_guard_arrow_reads_as_assignment :
  exists p, refutes "fsm-guard-arrow-reads-as-assignment" p /\ parse_tok (fmt_prog true p) = None /\
            parse_tok (fmt_prog false p) = Some p.
Proof. exact refuted_ex_guardout. Qed.
Print Assumptions C08_refuted_fsm_guard_arrow_reads_as_assignment.

(* the witness in full: well-formed, lexically fine, in the class; the text formatter.rs prints; that text does not parse *)
Theorem C08_refuted_fsm_guard_arrow_witness :
  wf_prog w_guardout = true /\ lex_ok w_guardout = true /\
  class_of w_guardout = Some "fsm-guard-arrow-reads-as-assignment" /\
  render (fmt_prog true w_guardout) =
    ("#A(x) -> :S(x)" ++ nl ++ "  :T(x)" ++ nl ++ "    ├ z > 1 -> a => 1" ++ nl ++ "    └ * => 1." ++ nl)%string /\
  parse_tok (fmt_prog true w_guardout) = None /\
  render (fmt_prog false w_guardout) =
    ("#A(x) -> :S(x)" ++ nl ++ "  :T(x)" ++ nl ++ "    ├ z > 1 -> a ⇒ 1" ++ nl ++ "    └ * => 1." ++ nl)%string /\
  parse_tok (fmt_prog false w_guardout) = Some w_guardout.
Proof. exact refuted_guardout. Qed.
Print Assumptions C08_refuted_fsm_guard_arrow_witness.

(* Two clashes below the token level that the state machines brought to light (class predicates c_arrwild / c_guardassign,
   recognised on the tree by [lex_class_of] like comma-swizzle; the judge answers `kf` only when the formatter's text is
   the canonical text and the implementation's own round trip failed):
   (a) Formatter::pattern_array joins the parts of an array pattern with blanks; the text of the three-item pattern
       [a, *, b] is the text of the one-item pattern whose item is the product a * b, which is how the grapheme-level
       grammar reads it (patterns.rs::pattern_array_item parses an expression); *)
Theorem C08_refuted_array_pattern_item_then_wildcard :
  wf_prog w_arrwild = true /\ lex_ok w_arrwild = true /\ defect_free w_arrwild = true /\
  lex_class_of w_arrwild = Some "array-pattern-item-then-wildcard" /\
  render (fmt_prog true w_arrwild) = ("y := x?" ++ nl ++ nl ++ "├[a * b] ⇒ 1" ++ nl ++ "└* ⇒ 2." ++ nl ++ nl)%string /\
  fmt_pat (PArr [IVar "a" None; IWild; IVar "b" None] ANone)
    = TSym LB :: fmt false (ETerm (EVar "a" None) [(OMul, EVar "b" None)]) ++ [TSym RB].
Proof. exact clash_arrwild. Qed.
Print Assumptions C08_refuted_array_pattern_item_then_wildcard.

(* (b) in a guard, `-> a =:= true` (a formula beginning with an assignable target followed by an operator whose text begins
       with `=`) is read as the statement transition `a = :=…` (the same finding as above, in its lexical form) *)
Theorem C08_refuted_fsm_guard_arrow_lexical :
  wf_prog w_guardassign = true /\ lex_ok w_guardassign = true /\ defect_free w_guardassign = true /\
  lex_class_of w_guardassign = Some "fsm-guard-arrow-reads-as-assignment" /\
  render (fmt_prog true w_guardassign) =
    ("#A(x) -> :S(x)" ++ nl ++ "  :T(x)" ++ nl ++ "    ├ z > 1 -> a =:= true" ++ nl ++ "    └ * => 1." ++ nl)%string.
Proof. exact clash_guardassign. Qed.
Print Assumptions C08_refuted_fsm_guard_arrow_lexical.

(* non-vacuity of the third round: the Counter machine of docs/reference/state-machine.mec (specification, implementation
   with a guarded arm and an output arm, instance) plus a second machine with every other form is well-formed, lexically
   fine, outside the defect classes, round-trips, and has exactly this text *)
Example C08_example_fsm :
  let u := fun s => ELit (LNum s) None in let vn := EVar "n" None in let k64 := Some (KScalar "u64") in
  let S := fun nm ps => FTupS nm (map FExp ps) in
  let p := [ SFsmSpec "Counter" [("n", k64)] (Some (KScalar "u64"))
               [(false, "Count", Some [("n", k64)]); (true, "Done", Some [("n", k64)])];
             SFsmImpl "Counter" [("n", k64)] (S "Count" [vn])
               [ AGuard (S "Count" [vn])
                   [(false, FExp (ETerm vn [(OGt, u "0u64")]), [(KNext, S "Count" [ETerm vn [(OSub, u "1u64")]])]);
                    (true, FExp (ETerm vn [(OEq, u "0u64")]), [(KNext, S "Done" [u "0u64"])])];
                 ATrans (S "Done" [vn]) [(KOut, FExp vn)] ];
             SExpr (EFsm "Counter" (Some [(None, u "5u64")]));
             SFsmSpec "m" [] None [(true, "T", None)];
             SFsmImpl "m" [("a", None); ("b", Some (KMatrix "u8" []))] (FExp (ELit (LAtom "T") None))
               [ ATrans (FTupS "P" [FArr [IVar "h" None] (ARest (IVar "t" None)); FTup [FExp vn; FWild]; FWild])
                   [(KNext, FTupS "P" [FArr [IVar "h" None; IVar "t" None] ANone; FTup [FExp vn; FExp (u "1")]; FExp (ENeg vn)]);
                    (KAsync, FExp (ELit (LAtom "T") None)); (KOut, FExp (ETerm vn [(OAdd, u "1")]))];
                 AGuard (FExp (ELit (LAtom "T") None)) [(false, FWild, [(KOut, FExp (u "1"))])] ];
             SDefine false "y" None (EMat [[EFsm "m" None; EFsm "m" (Some [(None, vn); (Some "k", u "2")])]]) ] in
  wf_prog p = true /\ lex_ok p = true /\ defect_free p = true /\ lex_class_of p = None /\
  parse_tok (fmt_prog true p) = Some p /\
  render (fmt_prog true p) =
    ("#Counter(n<u64>) ⇒ <u64> :=" ++ nl ++ "    ├ :Count(n<u64>)" ++ nl ++ "    └ :Done(n<u64>)." ++ nl ++ nl ++
     "#Counter(n<u64>) -> :Count(n)" ++ nl ++ "  :Count(n)" ++ nl ++ "    ├ n > 0u64 -> :Count(n - 1u64)" ++ nl ++
     "    └ n ⩵ 0u64 -> :Done(0u64)" ++ nl ++ "  :Done(n) => n." ++ nl ++ "#Counter(5u64)" ++ nl ++
     "#m() :=" ++ nl ++ "    └ :T." ++ nl ++ nl ++
     "#m(a, b<[u8]>) -> :T" ++ nl ++ "  :P([h | t], (n, *), *) -> :P([h t], (n, 1), -n) ~> :T => n + 1" ++ nl ++
     "  :T" ++ nl ++ "    ├ * => 1" ++ nl ++ "." ++ nl ++ "y := [#m #m(n, k: 2)]" ++ nl)%string.
Proof. cbv zeta. repeat split; vm_compute; reflexivity. Qed.
Print Assumptions C08_example_fsm.
