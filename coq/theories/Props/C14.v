(* C14 — Sets hold distinct elements of one kind and obey set algebra.
   Property theorems only; proofs live in Proofs/SetMP.v.
   veq = canonical equality of values (numbers by value with +0 = -0, tuples componentwise, nested sets by
   mutual inclusion); memb veq v l = true  means  "v is (equal to) an element of l";
   of_list veq l = the set built from the elements written in l (MechSet::from_vec). *)
From Coq Require Import List ZArith Bool Permutation SetoidList.
From Coq Require Import String.
From MechV Require Import Base.Sexp Base.Obs Model.SetM Proofs.SetMP.
Import ListNotations.

(* 1. the canonical equality is an equivalence relation ... *)
Theorem C14_veq_equivalence : Equivalence veqP.
Proof. exact veqP_equiv. Qed.
Print Assumptions C14_veq_equivalence.

(* ... for which a nested set equals each of its reorderings, and +0.0 = -0.0 *)
Theorem C14_veq_nested_set_order : forall k n l k' n' l',
  Permutation l l' -> veq (VSet k n l) (VSet k' n' l') = true.
Proof. exact veq_set_perm. Qed.
Print Assumptions C14_veq_nested_set_order.

(* 2. the set invariant (no two equal elements) holds for every set that is built ... *)
Theorem C14_set_inv_of_list : forall l, NoDupA veqP (of_list veq l).
Proof. exact (fun l => proj1 (vnodupb_NoDupA _) (vnodupb_of_list l)). Qed.
Print Assumptions C14_set_inv_of_list.

(* ... and for the result of every operator, whatever the operands *)
Theorem C14_set_inv_ops : forall o a b, NoDupA veqP (set_op o a b).
Proof. exact (fun o a b => proj1 (vnodupb_NoDupA _) (set_op_nodup o a b)). Qed.
Print Assumptions C14_set_inv_ops.

(* 3. a built set contains exactly the written elements *)
Theorem C14_mem_spec : forall v l,
  memb veq v (of_list veq l) = true <-> exists x, In x l /\ veq v x = true.
Proof. exact (fun v l => eq_ind_r (fun b => b = true <-> _) (inS_iff v l) (vmemb_of_list v l)). Qed.
Print Assumptions C14_mem_spec.

(* 4. the operators are the mathematical ones *)
Theorem C14_In_union : forall v a b, memb veq v (union veq a b) = memb veq v a || memb veq v b.
Proof. exact vmemb_union. Qed.
Print Assumptions C14_In_union.

Theorem C14_In_inter : forall v a b, memb veq v (inter veq a b) = memb veq v a && memb veq v b.
Proof. exact vmemb_inter. Qed.
Print Assumptions C14_In_inter.

Theorem C14_In_diff : forall v a b, memb veq v (diff veq a b) = memb veq v a && negb (memb veq v b).
Proof. exact vmemb_diff. Qed.
Print Assumptions C14_In_diff.

Theorem C14_In_symdiff : forall v a b, memb veq v (symdiff veq a b) = xorb (memb veq v a) (memb veq v b).
Proof. exact vmemb_symdiff. Qed.
Print Assumptions C14_In_symdiff.

(* 5. the relations are the mathematical ones *)
Theorem C14_subset_spec : forall a b,
  subset veq a b = true <-> (forall v, memb veq v a = true -> memb veq v b = true).
Proof. exact vsubset_spec. Qed.
Print Assumptions C14_subset_spec.

Theorem C14_psubset_spec : forall a b,
  psubset veq a b = true <->
  (forall v, memb veq v a = true -> memb veq v b = true) /\ (exists v, memb veq v b = true /\ memb veq v a = false).
Proof. exact vpsubset_spec. Qed.
Print Assumptions C14_psubset_spec.

Theorem C14_superset_spec : forall a b,
  superset veq a b = true <-> (forall v, memb veq v b = true -> memb veq v a = true).
Proof. exact vsuperset_spec. Qed.
Print Assumptions C14_superset_spec.

Theorem C14_psuperset_spec : forall a b,
  psuperset veq a b = true <->
  (forall v, memb veq v b = true -> memb veq v a = true) /\ (exists v, memb veq v a = true /\ memb veq v b = false).
Proof. exact vpsuperset_spec. Qed.
Print Assumptions C14_psuperset_spec.

(* what proper_subset.rs computes — subset and strictly fewer elements — is the proper-subset relation on sets *)
Theorem C14_psubset_as_computed : forall a b,
  nodupb veq a = true -> nodupb veq b = true -> psubset_len veq a b = psubset veq a b.
Proof. exact vpsubset_len_spec. Qed.
Print Assumptions C14_psubset_as_computed.

(* 6. the size of a set is determined by its elements (two lists without repetitions and with the same
      elements have the same length), so "number of elements" is well defined *)
Theorem C14_size_is_length : forall a b,
  nodupb veq a = true -> nodupb veq b = true -> (forall v, memb veq v a = memb veq v b) ->
  List.length a = List.length b.
Proof. exact vsame_elems_length. Qed.
Print Assumptions C14_size_is_length.

(* 7. the order (and repetition) in which elements are written is irrelevant: same elements, same size ... *)
Theorem C14_order_irrelevant : forall l l', Permutation l l' ->
  (forall v, memb veq v (of_list veq l) = memb veq v (of_list veq l')) /\
  List.length (of_list veq l) = List.length (of_list veq l').
Proof. exact (fun l l' H => conj (fun v => vof_list_perm_elems l l' v H) (vof_list_perm_size l l' H)). Qed.
Print Assumptions C14_order_irrelevant.

(* ... for every operator, relation and membership test *)
Theorem C14_order_irrelevant_ops : forall o a a' b b', Permutation a a' -> Permutation b b' ->
  (forall v, memb veq v (set_op o (of_list veq a) (of_list veq b)) =
             memb veq v (set_op o (of_list veq a') (of_list veq b'))) /\
  List.length (set_op o (of_list veq a) (of_list veq b)) = List.length (set_op o (of_list veq a') (of_list veq b')).
Proof. exact order_irrelevant_ops. Qed.
Print Assumptions C14_order_irrelevant_ops.

Theorem C14_order_irrelevant_rels : forall r a a' b b', Permutation a a' -> Permutation b b' ->
  rel_op r (of_list veq a) (of_list veq b) = rel_op r (of_list veq a') (of_list veq b').
Proof. exact order_irrelevant_rels. Qed.
Print Assumptions C14_order_irrelevant_rels.

(* 8. the judge applied to the implementation's observations is sound for the property
      (C14_spec: no two equal elements, reported size = number of elements, exactly the mathematically
      expected elements, every element of the reported kind, nested sets well formed; relations and
      membership = the mathematical truth value) *)
Theorem C14_judge_sound : forall (c : case) (os : list sobs) (tag : String.string),
  judge_case c os = v_ok tag -> Forall (C14_spec c) os.
Proof. exact judge_case_sound. Qed.
Print Assumptions C14_judge_sound.

(* 9. the faithful model of IndexSet<Value> with the hand-written Hash violates the property on each
      known-finding class (witnesses: {{1,2},{2,1}};  {0.0,-0.0};  {1} ∪ {"a"};  a := 1, {a} ∪ {1}) *)
Theorem C14_refuted_nested_set_order :
  exists o, wf_case wit_nested = true /\ kf_class wit_nested = Some "nested-set-order"%string /\
            faithful wit_nested = Some o /\ ~ C14_spec wit_nested o.
Proof. exact refuted_nested_set_order. Qed.
Print Assumptions C14_refuted_nested_set_order.

Theorem C14_refuted_signed_zero :
  exists o, wf_case wit_zero = true /\ kf_class wit_zero = Some "signed-zero"%string /\
            faithful wit_zero = Some o /\ ~ C14_spec wit_zero o.
Proof. exact refuted_signed_zero. Qed.
Print Assumptions C14_refuted_signed_zero.

Theorem C14_refuted_mixed_kind_operands :
  exists o, wf_case wit_mixed = true /\ kf_class wit_mixed = Some "mixed-kind-operands"%string /\
            faithful wit_mixed = Some o /\ ~ C14_spec wit_mixed o.
Proof. exact refuted_mixed_kind_operands. Qed.
Print Assumptions C14_refuted_mixed_kind_operands.

Theorem C14_refuted_variable_elements :
  exists o, wf_case wit_var = true /\ kf_class wit_var = Some "variable-elements"%string /\
            faithful wit_var = Some o /\ ~ C14_spec wit_var o.
Proof. exact refuted_variable_elements. Qed.
Print Assumptions C14_refuted_variable_elements.
