(* C14 — Sets hold distinct elements of one kind and obey set algebra.
   Property theorems only; proofs live in Proofs/SetMP.v.
   veq = canonical equality of values (numbers by value with +0 = -0, tuples componentwise, nested sets by
   mutual inclusion); memb veq v l = true  means  "v is (equal to) an element of l";
   of_list veq l = the set built from the elements written in l (MechSet::from_vec). *)
From Coq Require Import List ZArith Bool Permutation SetoidList.
From Coq Require Import String.
From MechV Require Import Base.Sexp Base.Obs Model.SetM Proofs.SetMP.
Import ListNotations.

(* 1. the canonical equality is an equivalence relation ... *)
Theorem C14_veq_equivalence : Equivalence veqP.
Proof. exact veqP_equiv. Qed.
Print Assumptions C14_veq_equivalence.

(* ... for which a nested set equals each of its reorderings, and +0.0 = -0.0 *)
Theorem C14_veq_nested_set_order : forall k n l k' n' l',
  Permutation l l' -> veq (VSet k n l) (VSet k' n' l') = true.
Proof. exact veq_set_perm. Qed.
Print Assumptions C14_veq_nested_set_order.

(* 2. the set invariant (no two equal elements) holds for every set that is built ... *)
Theorem C14_set_inv_of_list : forall l, NoDupA veqP (of_list veq l).
Proof. exact (fun l => proj1 (vnodupb_NoDupA _) (vnodupb_of_list l)). Qed.
Print Assumptions C14_set_inv_of_list.

(* ... and for the result of every operator, whatever the operands *)
Theorem C14_set_inv_ops : forall o a b, NoDupA veqP (set_op o a b).
Proof. exact (fun o a b => proj1 (vnodupb_NoDupA _) (set_op_nodup o a b)). Qed.
Print Assumptions C14_set_inv_ops.

(* 3. a built set contains exactly the written elements *)
Theorem C14_mem_spec : forall v l,
  memb veq v (of_list veq l) = true <-> exists x, In x l /\ veq v x = true.
Proof. exact (fun v l => eq_ind_r (fun b => b = true <-> _) (inS_iff v l) (vmemb_of_list v l)). Qed.
Print Assumptions C14_mem_spec.

(* 4. the operators are the mathematical ones *)
Theorem C14_In_union : forall v a b, memb veq v (union veq a b) = memb veq v a || memb veq v b.
Proof. exact vmemb_union. Qed.
Print Assumptions C14_In_union.

Theorem C14_In_inter : forall v a b, memb veq v (inter veq a b) = memb veq v a && memb veq v b.
Proof. exact vmemb_inter. Qed.
Print Assumptions C14_In_inter.

Theorem C14_In_diff : forall v a b, memb veq v (diff veq a b) = memb veq v a && negb (memb veq v b).
Proof. exact vmemb_diff. Qed.
Print Assumptions C14_In_diff.

Theorem C14_In_symdiff : forall v a b, memb veq v (symdiff veq a b) = xorb (memb veq v a) (memb veq v b).
Proof. exact vmemb_symdiff. Qed.
Print Assumptions C14_In_symdiff.

(* 5. the relations are the mathematical ones *)
Theorem C14_subset_spec : forall a b,
  subset veq a b = true <-> (forall v, memb veq v a = true -> memb veq v b = true).
Proof. exact vsubset_spec. Qed.
Print Assumptions C14_subset_spec.

Theorem C14_psubset_spec : forall a b,
  psubset veq a b = true <->
  (forall v, memb veq v a = true -> memb veq v b = true) /\ (exists v, memb veq v b = true /\ memb veq v a = false).
Proof. exact vpsubset_spec. Qed.
Print Assumptions C14_psubset_spec.

Theorem C14_superset_spec : forall a b,
  superset veq a b = true <-> (forall v, memb veq v b = true -> memb veq v a = true).
Proof. exact vsuperset_spec. Qed.
Print Assumptions C14_superset_spec.

Theorem C14_psuperset_spec : forall a b,
  psuperset veq a b = true <->
  (forall v, memb veq v b = true -> memb veq v a = true) /\ (exists v, memb veq v a = true /\ memb veq v b = false).
Proof. exact vpsuperset_spec. Qed.
Print Assumptions C14_psuperset_spec.

(* what proper_subset.rs computes — subset and strictly fewer elements — is the proper-subset relation on sets *)
Theorem C14_psubset_as_computed : forall a b,
  nodupb veq a = true -> nodupb veq b = true -> psubset_len veq a b = psubset veq a b.
Proof. exact vpsubset_len_spec. Qed.
Print Assumptions C14_psubset_as_computed.

(* 6. the size of a set is determined by its elements (two lists without repetitions and with the same
      elements have the same length), so "number of elements" is well defined *)
Theorem C14_size_is_length : forall a b,
  nodupb veq a = true -> nodupb veq b = true -> (forall v, memb veq v a = memb veq v b) ->
  List.length a = List.length b.
Proof. exact vsame_elems_length. Qed.
Print Assumptions C14_size_is_length.

(* 7. the order (and repetition) in which elements are written is irrelevant: same elements, same size ... *)
Theorem C14_order_irrelevant : forall l l', Permutation l l' ->
  (forall v, memb veq v (of_list veq l) = memb veq v (of_list veq l')) /\
  List.length (of_list veq l) = List.length (of_list veq l').
Proof. exact (fun l l' H => conj (fun v => vof_list_perm_elems l l' v H) (vof_list_perm_size l l' H)). Qed.
Print Assumptions C14_order_irrelevant.

(* ... for every operator, relation and membership test *)
Theorem C14_order_irrelevant_ops : forall o a a' b b', Permutation a a' -> Permutation b b' ->
  (forall v, memb veq v (set_op o (of_list veq a) (of_list veq b)) =
             memb veq v (set_op o (of_list veq a') (of_list veq b'))) /\
  List.length (set_op o (of_list veq a) (of_list veq b)) = List.length (set_op o (of_list veq a') (of_list veq b')).
Proof. exact order_irrelevant_ops. Qed.
Print Assumptions C14_order_irrelevant_ops.

Theorem C14_order_irrelevant_rels : forall r a a' b b', Permutation a a' -> Permutation b b' ->
  rel_op r (of_list veq a) (of_list veq b) = rel_op r (of_list veq a') (of_list veq b').
Proof. exact order_irrelevant_rels. Qed.
Print Assumptions C14_order_irrelevant_rels.

(* 8. the judge applied to the implementation's observations is sound for the property
      (C14_spec: no two equal elements, reported size = number of elements, exactly the mathematically
      expected elements, every element of the reported kind, nested sets well formed; relations and
      membership = the mathematical truth value) *)
Theorem C14_judge_sound : forall (c : case) (os : list sobs) (tag : String.string),
  judge_case c os = v_ok tag -> Forall (C14_spec c) os.
Proof. exact judge_case_sound. Qed.
Print Assumptions C14_judge_sound.

(* 9. the faithful model of IndexSet<Value> with the hand-written Hash violates the property on each
      known-finding class (witnesses: {{1,2},{2,1}};  {0.0,-0.0};  {1} ∪ {"a"};  a := 1, {a} ∪ {1}) *)
Theorem C14_refuted_nested_set_order :
  exists o, wf_case wit_nested = true /\ kf_class wit_nested = Some "nested-set-order"%string /\
            faithful wit_nested = Some o /\ ~ C14_spec wit_nested o.
Proof. exact refuted_nested_set_order. Qed.
Print Assumptions C14_refuted_nested_set_order.

Theorem C14_refuted_signed_zero :
  exists o, wf_case wit_zero = true /\ kf_class wit_zero = Some "signed-zero"%string /\
            faithful wit_zero = Some o /\ ~ C14_spec wit_zero o.
Proof. exact refuted_signed_zero. Qed.
Print Assumptions C14_refuted_signed_zero.

Theorem C14_refuted_mixed_kind_operands :
  exists o, wf_case wit_mixed = true /\ kf_class wit_mixed = Some "mixed-kind-operands"%string /\
            faithful wit_mixed = Some o /\ ~ C14_spec wit_mixed o.
Proof. exact refuted_mixed_kind_operands. Qed.
Print Assumptions C14_refuted_mixed_kind_operands.

Theorem C14_refuted_variable_elements :
  exists o, wf_case wit_var = true /\ kf_class wit_var = Some "variable-elements"%string /\
            faithful wit_var = Some o /\ ~ C14_spec wit_var o.
Proof. exact refuted_variable_elements. Qed.
Print Assumptions C14_refuted_variable_elements.

(* 10. outside the four classes the faithful model satisfies the property: for every literal / operator /
       relation / membership case (any number and order of written elements) on which Hash, the
       implementation's == and the canonical equality agree pairwise, operands are of one kind and either
       all or none of the compared operands were written with variables *)
Theorem C14_holds : forall c o,
  wf_case c = true -> kf_class c = None -> faithful c = Some o -> C14_spec c o.
Proof. exact holds. Qed.
Print Assumptions C14_holds.

(* the faithful model's hash-table hit test: equal hash streams imply the implementation's == *)
Theorem C14_hash_equal_implies_eq : forall a b, heq a b = true -> feq a b = true.
Proof. exact heq_feq. Qed.
Print Assumptions C14_hash_equal_implies_eq.

(* 11. comprehensions: the qualifier machinery (generators left to right, repeated variables join,
       filters; [QGen]: a generator over a constant collection) computes, for all lists, ... the elements themselves, *)
Theorem C14_comp_identity : forall x A, comp_values (TVar x) [QGen (PVar x) A] = Some A.
Proof. exact comp_identity. Qed.
Print Assumptions C14_comp_identity.

(* ... the cartesian product for two generators, *)
Theorem C14_comp_product : forall x y A B, String.eqb x y = false ->
  comp_values (TPair (TVar x) (TVar y)) [QGen (PVar x) A; QGen (PVar y) B] =
  Some (flat_map (fun a => map (fun b => VTup [a; b]) B) A).
Proof. exact comp_product. Qed.
Print Assumptions C14_comp_product.

(* ... the intersection for a repeated variable, *)
Theorem C14_comp_join : forall x A B,
  comp_values (TVar x) [QGen (PVar x) A; QGen (PVar x) B] =
  Some (flat_map (fun a => map (fun _ => a) (filter (veq a) B)) A) /\
  forall v, inS v (flat_map (fun a => map (fun _ => a) (filter (veq a) B)) A) <-> inS v A /\ inS v B.
Proof. exact (fun x A B => conj (comp_join x A B) (comp_join_is_inter A B)). Qed.
Print Assumptions C14_comp_join.

(* ... and the elements satisfying the comparison for a filter *)
Theorem C14_comp_filter : forall x o c A,
  (forall a, In a A -> eval_cmp o a c <> None) ->
  comp_values (TVar x) [QGen (PVar x) A; QFilter o (TVar x) (TConst c)] =
  Some (filter (fun a => match eval_cmp o a c with Some true => true | _ => false end) A).
Proof. exact comp_filter_const. Qed.
Print Assumptions C14_comp_filter.

(* 12. dependent generators: a generator whose collection is a set literal over earlier variables
       ([KSet]) or a variable bound earlier to a set ([KVar]).  The environments after it are the
       concatenation, over the environments before it IN ORDER, of the matches against the collection
       evaluated IN THAT environment ([coll_elems e c]: once per environment, not once per generator) ... *)
Theorem C14_dependent_generator_per_environment : forall p c envs (cs : env -> list val),
  (forall e, In e envs -> coll_elems e c = Some (cs e)) ->
  step_qual envs (QGenD p c) = Some (flat_map (fun e => gen_matches p e (cs e)) envs).
Proof. exact gend_per_environment. Qed.
Print Assumptions C14_dependent_generator_per_environment.

(* ... one environment at a time, the first error aborting, no environment meaning no evaluation at all ... *)
Theorem C14_dependent_generator_unfold : forall p c,
  step_qual [] (QGenD p c) = Some [] /\
  forall e envs,
    step_qual (e :: envs) (QGenD p c) =
    match coll_elems e c, step_qual envs (QGenD p c) with
    | Some l, Some r => Some (gen_matches p e l ++ r)
    | _, _ => None
    end.
Proof. exact (fun p c => conj (gend_nil p c) (gend_cons p c)). Qed.
Print Assumptions C14_dependent_generator_unfold.

(* ... so that it raises an error exactly when the collection is no set / unbound / of mixed kinds in one of
   the environments that reach it (an empty list of environments never does) *)
Theorem C14_dependent_generator_error : forall p c envs,
  step_qual envs (QGenD p c) = None <-> exists e, In e envs /\ coll_elems e c = None.
Proof. exact gend_error. Qed.
Print Assumptions C14_dependent_generator_error.

(* evaluating the collection once (in the first environment) is the same function only while the collection
   does not depend on the environment ... *)
Theorem C14_hoisted_agrees_on_constant_collections : forall p c envs,
  (forall e e', In e envs -> In e' envs -> coll_elems e c = coll_elems e' c) ->
  step_hoisted envs (QGenD p c) = step_qual envs (QGenD p c).
Proof. exact hoisted_agrees_on_constant_collections. Qed.
Print Assumptions C14_hoisted_agrees_on_constant_collections.

(* ... and is refuted by { y | x <- {{1,2},{3,4}}, y <- x } = {1,2,3,4}: the hoisted reading loses 3 *)
Theorem C14_refuted_hoisted_generator :
  wf_case wit_flatten = true /\
  expected wit_flatten = ESet [u8 1; u8 2; u8 3; u8 4] /\
  exists out qs vs vs', wit_flatten = CComp out qs /\
  comp_values out qs = Some vs /\ comp_values_hoisted out qs = Some vs' /\
  inS (u8 3) vs /\ ~ inS (u8 3) vs'.
Proof. exact hoisting_refuted. Qed.
Print Assumptions C14_refuted_hoisted_generator.

(* 13. the set-builder reading, for EVERY qualifier list (any number of generators of either sort, any
       patterns, filters anywhere): the environments produced are exactly those reached by choosing for each
       generator in turn an element of its collection as evaluated under the choices made so far ([qsteps]) ... *)
Theorem C14_comp_environments : forall qs envs envs', run_from envs qs = Some envs' ->
  forall e', In e' envs' <-> exists e, In e envs /\ qsteps e qs e'.
Proof. exact run_spec. Qed.
Print Assumptions C14_comp_environments.

(* ... a comprehension that has a value denotes a set: no two equal elements; v is an element iff
   v = out[e] for bindings e reachable through the qualifiers; every listed element is such an out[e] (hence has
   its kind); and every duplicate-free listing of these elements has the same size ... *)
Theorem C14_comp_set_builder : forall out qs E, expected (CComp out qs) = ESet E ->
  NoDupA veqP E /\
  (forall v, inS v E <-> builder_reading out qs v) /\
  (forall w, In w E -> exists e, qsteps [] qs e /\ eval_term e out = Some w) /\
  (forall E', nodupb veq E' = true -> (forall v, inS v E' <-> builder_reading out qs v) ->
              List.length E' = List.length E).
Proof. exact comp_expected_spec. Qed.
Print Assumptions C14_comp_set_builder.

(* ... and it has NO value (error) exactly when some dependent generator's collection cannot be evaluated
   under bindings reached through the qualifiers before it *)
Theorem C14_comp_error : forall qs envs,
  run_from envs qs = None <->
  exists qs1 p c qs2 e0 e,
    qs = qs1 ++ QGenD p c :: qs2 /\ In e0 envs /\ qsteps e0 qs1 e /\ coll_elems e c = None.
Proof. exact run_error. Qed.
Print Assumptions C14_comp_error.

Theorem C14_comp_error_expected : forall out qs, expected (CComp out qs) = EErr ->
  exists qs1 p c qs2 e, qs = qs1 ++ QGenD p c :: qs2 /\ qsteps [] qs1 e /\ coll_elems e c = None.
Proof. exact comp_error_spec. Qed.
Print Assumptions C14_comp_error_expected.

(* 14. the dependent shapes, for all lists: flattening a list of sets is their union, *)
Theorem C14_comp_flatten : forall x y S, String.eqb x y = false ->
  (forall s, In s S -> exists k n l, s = VSet k n l) ->
  comp_values (TVar y) [QGen (PVar x) S; QGenD (PVar y) (KVar x)] = Some (flat_map elems_of S) /\
  forall v, inS v (flat_map elems_of S) <-> exists s, In s S /\ inS v (elems_of s).
Proof. exact (fun x y S H1 H2 => conj (comp_flatten x y S H1 H2) (comp_flatten_is_union S)). Qed.
Print Assumptions C14_comp_flatten.

(* ... { y | x <- A, y <- {x, c} } lists {a, c} for every a of A, *)
Theorem C14_comp_dependent_literal : forall x y c A, String.eqb x y = false ->
  (forall a, In a A -> kind_text c = kind_text a) ->
  comp_values (TVar y) [QGen (PVar x) A; QGenD (PVar y) (KSet [TVar x; TConst c])] =
  Some (flat_map (fun a => of_list veq [a; c]) A).
Proof. exact comp_dep_literal. Qed.
Print Assumptions C14_comp_dependent_literal.

(* ... and { (x,y) | x <- A, y <- {x} } is the diagonal *)
Theorem C14_comp_dependent_diagonal : forall x y A, String.eqb x y = false ->
  comp_values (TPair (TVar x) (TVar y)) [QGen (PVar x) A; QGenD (PVar y) (KSet [TVar x])] =
  Some (map (fun a => VTup [a; a]) A).
Proof. exact comp_dep_diagonal. Qed.
Print Assumptions C14_comp_dependent_diagonal.

(* ---- non-vacuity ---- *)
(* the judge on real lines: a correct union written out of order with repetitions is accepted ... *)
Example C14_example_ok :
  run_line "((bin union 0 0 ((s u8 2) (s u8 1) (s u8 2)) ((s u8 3) (s u8 2))) (multi (set ""u8"" 3 ((s u8 2) (s u8 1) (s u8 3)))))"
  = "(ok set)"%string.
Proof. vm_compute. reflexivity. Qed.
Print Assumptions C14_example_ok.

(* ... a duplicate is rejected ... *)
Example C14_example_bad :
  run_line "((bin union 0 0 ((s u8 2) (s u8 1) (s u8 2)) ((s u8 3) (s u8 2))) (multi (set ""u8"" 4 ((s u8 2) (s u8 1) (s u8 3) (s u8 2)))))"
  = "(bad duplicate-elements (set-of 3))"%string.
Proof. vm_compute. reflexivity. Qed.
Print Assumptions C14_example_bad.

(* ... and {0.0, -0.0} with two elements is recognised as the known finding, but only in that exact form *)
Example C14_example_kf :
  run_line "((lit 0 ((s f64 0) (s f64 9223372036854775808))) (multi (set ""f64"" 2 ((s f64 0) (s f64 9223372036854775808)))))"
  = "(kf signed-zero)"%string /\
  run_line "((lit 0 ((s f64 0) (s f64 9223372036854775808))) (multi (set ""f64"" 2 ((s f64 9223372036854775808) (s f64 0)))))"
  = "(bad duplicate-elements (set-of 1))"%string.
Proof. split; vm_compute; reflexivity. Qed.
Print Assumptions C14_example_kf.

(* a dependent generator on real lines: { y | x <- {{1,2},{3,4}}, y <- x } must be {1,2,3,4}; the value obtained by
   evaluating `x` once is rejected; where the model predicts an error the verdict is advisory;
   { y | (k,s) <- {(1,{1,2}),(2,{3,4})}, y <- s, k > 1 } = {3,4} *)
Example C14_example_dependent_generator :
  run_line "((comp (v y) ((gen (v x) ((set """" 0 ((s u8 1) (s u8 2))) (set """" 0 ((s u8 3) (s u8 4))))) (gend (v y) (var x)))) (multi (set ""u8"" 4 ((s u8 1) (s u8 2) (s u8 3) (s u8 4)))))"
  = "(ok set)"%string /\
  run_line "((comp (v y) ((gen (v x) ((set """" 0 ((s u8 1) (s u8 2))) (set """" 0 ((s u8 3) (s u8 4))))) (gend (v y) (var x)))) (multi (set ""u8"" 2 ((s u8 1) (s u8 2)))))"
  = "(bad wrong-elements (set-of 4))"%string /\
  run_line "((comp (v y) ((gen (v x) ((s u8 1) (s u8 2))) (gend (v y) (var x)))) (multi (err ""ComprehensionGenerator"")))"
  = "(adv generator-error)"%string /\
  run_line "((comp (v y) ((gen (pair (v k) (v s)) ((tuple (s u8 1) (set """" 0 ((s u8 1) (s u8 2)))) (tuple (s u8 2) (set """" 0 ((s u8 3) (s u8 4)))))) (gend (v y) (var s)) (flt gt (v k) (c (s u8 1))))) (multi (set ""u8"" 2 ((s u8 3) (s u8 4)))))"
  = "(ok set)"%string.
Proof. repeat split; vm_compute; reflexivity. Qed.
Print Assumptions C14_example_dependent_generator.

(* the hypotheses of C14_holds are satisfiable: {1,2,1} ∪ {2,3} over u8 *)
Example C14_example_holds :
  let c := CBin OUnion false false [VInt "u8" 1; VInt "u8" 2; VInt "u8" 1] [VInt "u8" 2; VInt "u8" 3] in
  wf_case c = true /\ kf_class c = None /\
  faithful c = Some (SSet "u8" 3 [VInt "u8" 1; VInt "u8" 2; VInt "u8" 3]).
Proof. cbv zeta. repeat split; vm_compute; reflexivity. Qed.
Print Assumptions C14_example_holds.

(* ---- the binary set functions as they are in the source (regenerated table) --------------------------------------
   Gen/SetOpArms.v is rewritten from machines/set/src/{operations,relations}/*.rs by translators/setop_arms.py on every run
   of this check; the statements below are about THAT table, so a slip in one operand-form arm or in the solve() of ONE
   of the copies breaks them whether or not a generated case reaches it.  Definitions: Proofs/SetOpArmsP.v, Proofs/SrcArmsP.v. *)
From MechV Require Import Model.SrcArms Proofs.SrcArmsP Gen.SetOpArms Proofs.SetOpArmsP.

(* the translator recognised every construct it was pointed at; powerset is the only compiled-in module it does not model *)
Theorem C14_setops_source_fully_read :
  so_unrecognised = [] /\
  map (fun e : String.string * String.string * String.string => (fst (fst e), snd (fst e))) so_other = [("operations", "powerset")]%string.
Proof. exact so_nothing_unrecognised. Qed.
Print Assumptions C14_setops_source_fully_read.

(* every compile() (5 operations, 7 relations) binds lhs, rhs = arguments[0], [1] and calls its own kernel-level function
   with (lhs, rhs) directly and in each of the three operand-form arms, unwrapping every reference *)
Theorem C14_setops_compile_arms_regular : forallb so_compile_ok so_compile = true /\ so_compile_complete = true.
Proof. exact so_compile_regular. Qed.
Print Assumptions C14_setops_compile_arms_regular.

(* meaning: whatever mixture of plain values and references the operands are, the kernel-level function receives the
   contents of (lhs, rhs) in this order *)
Theorem C14_setops_compile_applies_kernel_to_lhs_rhs :
  forall (A R : Type) (c : cfn) (g m : String.string) (k : String.string -> list (rval A) -> option R) (a b : rval A),
    In c so_compile -> cf_tag c = [g; m] ->
    (forall f vs, existsb is_ref vs = true -> k f vs = None) ->
    exists r f, resolve_cfn c = Some r /\ scallee_of g m = Some f /\ compile_model r k [a; b] = k f [strip a; strip b].
Proof. exact so_compile_applies_kernel_to_lhs_rhs. Qed.
Print Assumptions C14_setops_compile_applies_kernel_to_lhs_rhs.

(* kernel-level functions (struct built with lhs <- lhs, rhs <- rhs; element-kind guard for union / symmetric difference
   only; allocation of the result) and kernel structs (field order, new(), solve() = the reference body of the function,
   out(), operand order of the emitted instruction) *)
Theorem C14_setops_tables_regular :
  forallb kfn_ok so_kernel_fns = true /\ forallb SetOpArmsP.kernel_ok so_kernels = true /\ tables_complete = true.
Proof. exact so_tables_regular. Qed.
Print Assumptions C14_setops_tables_regular.

(* every operation recomputes the metadata of its result from the result: num_elements = len, kind = the kind of an element
   of the result (Empty for the empty set) — not the kind the result was allocated with (lhs' kind) *)
Theorem C14_setops_result_kind_from_result_elements :
  forall e : SetOpArmsP.kernel_entry, In e so_kernels ->
    let '(g, _, _, _, _, (_, sv), _, _) := e in g = "operations"%string -> ends_with_metadata sv = true.
Proof. exact so_result_kind_from_result_elements. Qed.
Print Assumptions C14_setops_result_kind_from_result_elements.

(* the extracted solve() of union / intersection / difference / symmetric difference, read as a term, is the faithful model's
   [Fop] of THAT operation applied to (self.lhs, self.rhs) in this order (A ∖ B, never B ∖ A) *)
Theorem C14_operation_solve_is_Fop :
  forall e : SetOpArmsP.kernel_entry, In e so_kernels ->
    let '(g, m, _, _, _, (_, sv), _, _) := e in
    forall o, g = "operations"%string -> setop_of m = Some o ->
      forall lhs rhs : list tval, denote_solve_op lhs rhs sv = Some (Fop o lhs rhs).
Proof. exact operation_solve_is_Fop. Qed.
Print Assumptions C14_operation_solve_is_Fop.

(* the extracted boolean expression of subset / proper subset / superset / proper superset, evaluated as a term, is the
   faithful model's [Frel] of THAT relation on (self.lhs, self.rhs) *)
Theorem C14_relation_solve_is_Frel :
  forall e : SetOpArmsP.kernel_entry, In e so_kernels ->
    let '(g, m, _, _, _, (_, sv), _, _) := e in
    forall r, g = "relations"%string -> relop_of m = Some r ->
      forall lhs rhs : list tval, denote_solve_rel lhs rhs sv = Some (Frel r lhs rhs).
Proof. exact relation_solve_is_Frel. Qed.
Print Assumptions C14_relation_solve_is_Frel.
