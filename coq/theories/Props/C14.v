(* C14 — Sets hold distinct elements of one kind and obey set algebra. *)
From Coq Require Import List ZArith Bool.
From Coq Require String.
From MechV Require Import Base.Sexp Base.Obs Model.SetM Proofs.SetMP.
Import ListNotations.

Theorem C14_stub : True.
Proof. exact stub_true. Qed.
Print Assumptions C14_stub.
