(* C10 — Literate documents: prose is inert and named code blocks are isolated.
   Property theorems only; proofs live in Proofs/DocP.v.

   [run_doc exec cmt init d] (Model/Doc.v) mirrors src/interpreter/src/mechdown.rs: the elements of a document
   in order; Code and unnamed fences run in the main store and the first error there ends the document; a fence
   named n runs in n's own store (created from [init] on first use) and its first error ends that fence only;
   prose, non-mech code blocks and disabled fences do nothing.  All theorems of sections 1-5 hold for EVERY
   statement semantics [exec], every comment effect [cmt] and every initial store [init], and for all documents. *)
From Coq Require Import List ZArith String.
From MechV Require Import Base.Sexp Base.Obs Model.Doc Proofs.DocP.
Import ListNotations.

(* 1. Prose is inert: titles, paragraphs, lists, quotes, tables, other-language / disabled fences can be
      removed (or inserted anywhere) without changing any store, the halting state included. *)
Theorem C10_prose_inert : forall (S stmt prose : Type) (exec : S -> stmt -> res S) (cmt : S -> S) (init : S)
  (d : list (elem stmt prose)),
  run_doc exec cmt init (strip_prose d) = run_doc exec cmt init d.
Proof. exact (@prose_inert). Qed.
Print Assumptions C10_prose_inert.

Theorem C10_inert_insert : forall (S stmt prose : Type) (exec : S -> stmt -> res S) (cmt : S -> S) (init : S)
  (d1 d2 : list (elem stmt prose)) e,
  is_inert e = true -> run_doc exec cmt init (d1 ++ e :: d2) = run_doc exec cmt init (d1 ++ d2).
Proof. exact (@inert_insert). Qed.
Print Assumptions C10_inert_insert.

(* 2. The main store is the fold of exec over the concatenation of the main code (top-level code and unnamed
      fences) in document order, stopping at its first error; nothing else influences it. *)
Theorem C10_main_is_code_in_order : forall (S stmt prose : Type) (exec : S -> stmt -> res S) (cmt : S -> S) (init : S)
  (d : list (elem stmt prose)),
  d_main (run_doc exec cmt init d) = fst (run_items exec cmt init (main_items d)) /\
  d_halted (run_doc exec cmt init d) = negb (snd (run_items exec cmt init (main_items d))).
Proof. exact (@main_is_code_in_order). Qed.
Print Assumptions C10_main_is_code_in_order.

Theorem C10_main_depends_only_on_main_code : forall (S stmt prose : Type) (exec : S -> stmt -> res S) (cmt : S -> S) (init : S)
  (d1 d2 : list (elem stmt prose)),
  main_items d1 = main_items d2 ->
  d_main (run_doc exec cmt init d1) = d_main (run_doc exec cmt init d2) /\
  d_halted (run_doc exec cmt init d1) = d_halted (run_doc exec cmt init d2).
Proof. exact (@main_depends_only_on_main_code). Qed.
Print Assumptions C10_main_depends_only_on_main_code.

(* an error in main code ends the document (what the real code does; the property does not fix this case) *)
Theorem C10_main_error_stops_document : forall (S stmt prose : Type) (exec : S -> stmt -> res S) (cmt : S -> S) (init : S)
  (d1 d2 : list (elem stmt prose)),
  d_halted (run_doc exec cmt init d1) = true -> run_doc exec cmt init (d1 ++ d2) = run_doc exec cmt init d1.
Proof. exact (@main_error_stops_document). Qed.
Print Assumptions C10_main_error_stops_document.

Theorem C10_only_the_evaluated_part_matters : forall (S stmt prose : Type) (exec : S -> stmt -> res S) (cmt : S -> S) (init : S)
  (d : list (elem stmt prose)),
  run_doc exec cmt init (live exec cmt init d) = run_doc exec cmt init d.
Proof. exact (@run_doc_live). Qed.
Print Assumptions C10_only_the_evaluated_part_matters.

(* 3. Namespaces: the store of name n is the fold over the fences named n that are reached, each up to its
      first error, starting from a fresh store; it exists iff there is such a fence; it depends on nothing else. *)
Theorem C10_namespace_is_its_fences : forall (S stmt prose : Type) (exec : S -> stmt -> res S) (cmt : S -> S) (init : S)
  n (d : list (elem stmt prose)),
  lookup n (d_subs (run_doc exec cmt init d)) = ns_result exec cmt init n (live exec cmt init d).
Proof. exact (@namespace_is_its_fences). Qed.
Print Assumptions C10_namespace_is_its_fences.

Theorem C10_namespaces_disjoint : forall (S stmt prose : Type) (exec : S -> stmt -> res S) (cmt : S -> S) (init : S)
  n (d1 d2 : list (elem stmt prose)),
  ns_fences n (live exec cmt init d1) = ns_fences n (live exec cmt init d2) ->
  lookup n (d_subs (run_doc exec cmt init d1)) = lookup n (d_subs (run_doc exec cmt init d2)).
Proof. exact (@namespaces_disjoint). Qed.
Print Assumptions C10_namespaces_disjoint.

(* 4. A named fence — whatever happens inside it, errors included — is invisible to the main program and to
      every other name, and the rest of the document is evaluated exactly as without it. *)
Theorem C10_named_fence_invisible : forall (S stmt prose : Type) (exec : S -> stmt -> res S) (cmt : S -> S) (init : S)
  (d1 d2 : list (elem stmt prose)) n l,
  let A := run_doc exec cmt init (d1 ++ Fence (FNamed n) l :: d2) in
  let B := run_doc exec cmt init (d1 ++ d2) in
  d_main A = d_main B /\ d_halted A = d_halted B /\
  forall m, m <> n -> lookup m (d_subs A) = lookup m (d_subs B).
Proof. exact (@named_fence_invisible). Qed.
Print Assumptions C10_named_fence_invisible.

(* an error inside a named fence ends that fence only: the lines after the failing one are never executed
   (the document equals the one without them), the fence leaves the store the failing line left, and the
   document is not halted *)
Theorem C10_named_error_isolated : forall (S stmt prose : Type) (exec : S -> stmt -> res S) (cmt : S -> S) (init : S)
  (d1 d2 : list (elem stmt prose)) n l1 a l2 s1 s2,
  run_items exec cmt (sub_or_init init n (d_subs (run_doc exec cmt init d1))) l1 = (s1, true) ->
  step exec cmt s1 a = Err s2 ->
  run_doc exec cmt init (d1 ++ Fence (FNamed n) (l1 ++ a :: l2) :: d2)
    = run_doc exec cmt init (d1 ++ Fence (FNamed n) (l1 ++ [a]) :: d2) /\
  (d_halted (run_doc exec cmt init d1) = false ->
     lookup n (d_subs (run_doc exec cmt init (d1 ++ [Fence (FNamed n) (l1 ++ a :: l2)]))) = Some s2 /\
     d_halted (run_doc exec cmt init (d1 ++ [Fence (FNamed n) (l1 ++ a :: l2)])) = false).
Proof. exact (@named_error_cuts_suffix). Qed.
Print Assumptions C10_named_error_isolated.

(* 5. Comments.  They are code lines in the implementation (MechCode::Comment).  Where a comment leaves the
      store alone they are inert ... *)
Theorem C10_holds_comments_inert : forall (S stmt prose : Type) (exec : S -> stmt -> res S) (cmt : S -> S) (init : S)
  (d : list (elem stmt prose)),
  (forall s, cmt s = s) -> run_doc exec cmt init (strip_cmts d) = run_doc exec cmt init d.
Proof. exact (@comments_inert_if). Qed.
Print Assumptions C10_holds_comments_inert.

(* ... and in general they are inert up to any relation R that [cmt] respects and no statement can observe *)
Theorem C10_holds_comments_inert_upto : forall (S stmt prose : Type) (exec : S -> stmt -> res S) (cmt : S -> S) (init : S)
  (R : S -> S -> Prop),
  (forall s, R s s) -> (forall s t, R s t -> R (cmt s) t) ->
  (forall s t a, R s t ->
     match exec s a, exec t a with
     | Ok s', Ok t' => R s' t' | Err s', Err t' => R s' t' | _, _ => False end) ->
  forall d : list (elem stmt prose), ds_rel R (run_doc exec cmt init d) (run_doc exec cmt init (strip_cmts d)).
Proof. exact (@comments_inert_upto). Qed.
Print Assumptions C10_holds_comments_inert_upto.

(* 6. Known finding `comment-resets-ans`: in the implementation's semantics a comment is NOT inert — mech_code()
      sends the Empty result of a comment through update_ans_symbol.  With the concrete store (variables + ans)
      of Model/Doc.v: the document `x := 5 / -- note` differs from its comment-free version ... *)
Theorem C10_refuted_comment_resets_ans :
  (exists d : list (elem tstmt string), trun d <> trun (strip_cmts d)) /\
  t_ans (d_main (trun refute_doc)) = None /\
  t_ans (d_main (trun (strip_cmts refute_doc))) = Some 5%Z.
Proof. exact (conj comments_not_inert (conj (proj1 comment_resets_ans) (proj1 (proj2 comment_resets_ans)))). Qed.
Print Assumptions C10_refuted_comment_resets_ans.

(* ... but only in `ans`: all variables agree, in main and in every namespace, and so does halting *)
Theorem C10_holds_upto_ans : forall d : list (elem tstmt string),
  ds_rel same_vars (trun d) (trun (strip_cmts d)).
Proof. exact toy_comments_inert_upto_ans. Qed.
Print Assumptions C10_holds_upto_ans.

(* 7. The judge.  `ok`: the echoed sources are the ones the model renders / prescribes, the document parsed,
      and its main table, result and every namespace table equal those of the code-only documents. *)
Theorem C10_judge_sound : forall stream jd os tag,
  judge_doc stream jd os = Some (v_ok tag) -> C10_spec jd os.
Proof. exact judge_doc_sound. Qed.
Print Assumptions C10_judge_sound.

(* `kf comment-resets-ans` is answered only if every table equals its code-only table or, where the model says
   the last executed line of that interpreter is a comment, that table with ans := Empty *)
Theorem C10_judge_kf_comment_sound : forall stream jd os,
  judge_doc stream jd os = Some (v_kf "comment-resets-ans") -> C10_spec_kf jd os.
Proof. exact judge_doc_kf_sound. Qed.
Print Assumptions C10_judge_kf_comment_sound.

(* `kf list-then-dash-line` is answered only inside the class and only for a parse error *)
Theorem C10_judge_kf_list_dash_sound : forall stream jd os,
  judge_doc stream jd os = Some (v_kf "list-then-dash-line") ->
  kf_list_dash (doc_of jd) = true /\ exists D M rest, os = D :: M :: rest /\ is_perr (o_res D) = true.
Proof. exact judge_kf_list_dash. Qed.
Print Assumptions C10_judge_kf_list_dash_sound.

(* ---- non-vacuity ---- *)
Open Scope string_scope.
(* x := 5 | prose | ```mech:a  a := x (fails: main is invisible)  b := 1 ``` | ```mech:a  c := 2 ```
   | ```mech:b  d := c (fails: a is invisible) ``` | disabled fence | y := x + 1 *)
Definition example_doc : list (elem tstmt string) :=
  [ Code [Stmt (TDef "x" (TLit 5))];
    Prose "Some words.";
    Fence (FNamed "a") [Stmt (TDef "a" (TVar "x")); Stmt (TDef "b" (TLit 1))];
    Fence (FNamed "a") [Stmt (TDef "c" (TLit 2))];
    Fence (FNamed "b") [Stmt (TDef "d" (TVar "c"))];
    Fence FDisabled [Stmt (TDef "x" (TLit 99))];
    NonMech "x = 99";
    Code [Stmt (TDef "y" (TAdd (TVar "x") (TLit 1)))] ].

Example C10_example :
  trun example_doc =
  DS (TS [("x", 5%Z); ("y", 6%Z)] (Some 6%Z))
     [("a", TS [("c", 2%Z)] (Some 2%Z)); ("b", TS [] None)] false /\
  trun example_doc = trun (strip_prose example_doc).
Proof. split; reflexivity. Qed.
Print Assumptions C10_example.

(* the hypotheses of C10_named_error_isolated are satisfiable: the first fence of example_doc *)
Example C10_example_isolated :
  run_items texec tcmt (sub_or_init tinit "a" (d_subs (trun [Code [Stmt (TDef "x" (TLit 5))]]))) [] = (tinit, true) /\
  step texec tcmt tinit (Stmt (TDef "a" (TVar "x"))) = Err tinit.
Proof. split; reflexivity. Qed.
Print Assumptions C10_example_isolated.

(* the extracted judge on two small lines: equal tables -> ok; a trailing comment that reset ans -> kf *)
Example C10_example_judge :
  run_line "((docase plain (el """" """" ""```"" ""mech"" (code (stmt ""x := 5"" 0)))) (docs (doc ""x := 5\n"" (val) (syms (""ans"" 0 0 (s f64 1)) (""x"" 0 0 (s f64 1))) (subs)) (doc ""x := 5\n"" (val) (syms (""ans"" 0 1 (s f64 1)) (""x"" 0 0 (s f64 1))) (subs))))"
    = "(ok plain)" /\
  run_line "((docase plain (el """" """" ""```"" ""mech"" (code (stmt ""x := 5"" 0) (cmt ""-- c"")))) (docs (doc ""x := 5\n-- c\n"" (val) (syms (""ans"" 0 0 (empty)) (""x"" 0 1 (s f64 1))) (subs)) (doc ""x := 5\n"" (val) (syms (""ans"" 0 0 (s f64 1)) (""x"" 0 0 (s f64 1))) (subs))))"
    = "(kf comment-resets-ans)" /\
  run_line "((docase plain (el """" """" ""```"" ""mech"" (code (stmt ""x := 5"" 0)))) (docs (doc ""x := 5\n"" (val) (syms (""ans"" 0 0 (s f64 1)) (""x"" 0 0 (s f64 2))) (subs)) (doc ""x := 5\n"" (val) (syms (""ans"" 0 1 (s f64 1)) (""x"" 0 0 (s f64 1))) (subs))))"
    = "(bad main-table-differs ((""ans"" 0 (s f64 1)) (""x"" 0 (s f64 1))))".
Proof. repeat split; vm_compute; reflexivity. Qed.
Print Assumptions C10_example_judge.
