(* C10 — Literate documents: prose is inert and named code blocks are isolated.
   Property theorems only; proofs live in Proofs/DocP.v. *)
From Coq Require Import List ZArith String.
From MechV Require Import Base.Sexp Base.Obs Model.Doc Proofs.DocP.
Import ListNotations.

Theorem C10_prose_inert : forall (S stmt prose : Type) (exec : S -> stmt -> res S) (cmt : S -> S) (init : S)
  (d : list (elem stmt prose)),
  run_doc exec cmt init (strip_prose d) = run_doc exec cmt init d.
Proof. exact (@prose_inert). Qed.
Print Assumptions C10_prose_inert.
