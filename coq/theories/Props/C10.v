(* C10 — Literate documents: prose is inert and named code blocks are isolated.
   Property theorems only; proofs live in Proofs/DocP.v.

   [run_doc exec cmt init d] (Model/Doc.v) mirrors src/interpreter/src/mechdown.rs: the elements of a document
   in order; Code and unnamed fences run in the main store and the first error there ends the document; a fence
   named n runs in n's own store (created from [init] on first use) and its first error ends that fence only;
   prose, non-mech code blocks and disabled fences do nothing.  All theorems of sections 1-5 hold for EVERY
   statement semantics [exec], every comment effect [cmt] and every initial store [init], and for all documents.

   Sections 8-12: the block-level classification of a document at the granularity of lines (Model/DocScan.v mirrors
   src/syntax/src/mechdown.rs code_block / section and src/syntax/src/parser.rs mech_code): which line opens a fence,
   which closes it, how the info string is split, and what the scanned document executes. *)
From Coq Require Import List ZArith String.
From MechV Require Import Base.Sexp Base.Obs Model.Doc Proofs.DocP Model.DocScan Proofs.DocScanP.
Import ListNotations.

(* 1. Prose is inert: titles, paragraphs, lists, quotes, tables, other-language / disabled fences can be
      removed (or inserted anywhere) without changing any store, the halting state included. *)
Theorem C10_prose_inert : forall (S stmt prose : Type) (exec : S -> stmt -> res S) (cmt : S -> S) (init : S)
  (d : list (elem stmt prose)),
  run_doc exec cmt init (strip_prose d) = run_doc exec cmt init d.
Proof. exact (@prose_inert). Qed.
Print Assumptions C10_prose_inert.

Theorem C10_inert_insert : forall (S stmt prose : Type) (exec : S -> stmt -> res S) (cmt : S -> S) (init : S)
  (d1 d2 : list (elem stmt prose)) e,
  is_inert e = true -> run_doc exec cmt init (d1 ++ e :: d2) = run_doc exec cmt init (d1 ++ d2).
Proof. exact (@inert_insert). Qed.
Print Assumptions C10_inert_insert.

(* 2. The main store is the fold of exec over the concatenation of the main code (top-level code and unnamed
      fences) in document order, stopping at its first error; nothing else influences it. *)
Theorem C10_main_is_code_in_order : forall (S stmt prose : Type) (exec : S -> stmt -> res S) (cmt : S -> S) (init : S)
  (d : list (elem stmt prose)),
  d_main (run_doc exec cmt init d) = fst (run_items exec cmt init (main_items d)) /\
  d_halted (run_doc exec cmt init d) = negb (snd (run_items exec cmt init (main_items d))).
Proof. exact (@main_is_code_in_order). Qed.
Print Assumptions C10_main_is_code_in_order.

Theorem C10_main_depends_only_on_main_code : forall (S stmt prose : Type) (exec : S -> stmt -> res S) (cmt : S -> S) (init : S)
  (d1 d2 : list (elem stmt prose)),
  main_items d1 = main_items d2 ->
  d_main (run_doc exec cmt init d1) = d_main (run_doc exec cmt init d2) /\
  d_halted (run_doc exec cmt init d1) = d_halted (run_doc exec cmt init d2).
Proof. exact (@main_depends_only_on_main_code). Qed.
Print Assumptions C10_main_depends_only_on_main_code.

(* an error in main code ends the document (what the real code does; the property does not fix this case) *)
Theorem C10_main_error_stops_document : forall (S stmt prose : Type) (exec : S -> stmt -> res S) (cmt : S -> S) (init : S)
  (d1 d2 : list (elem stmt prose)),
  d_halted (run_doc exec cmt init d1) = true -> run_doc exec cmt init (d1 ++ d2) = run_doc exec cmt init d1.
Proof. exact (@main_error_stops_document). Qed.
Print Assumptions C10_main_error_stops_document.

Theorem C10_only_the_evaluated_part_matters : forall (S stmt prose : Type) (exec : S -> stmt -> res S) (cmt : S -> S) (init : S)
  (d : list (elem stmt prose)),
  run_doc exec cmt init (live exec cmt init d) = run_doc exec cmt init d.
Proof. exact (@run_doc_live). Qed.
Print Assumptions C10_only_the_evaluated_part_matters.

(* 3. Namespaces: the store of name n is the fold over the fences named n that are reached, each up to its
      first error, starting from a fresh store; it exists iff there is such a fence; it depends on nothing else. *)
Theorem C10_namespace_is_its_fences : forall (S stmt prose : Type) (exec : S -> stmt -> res S) (cmt : S -> S) (init : S)
  n (d : list (elem stmt prose)),
  lookup n (d_subs (run_doc exec cmt init d)) = ns_result exec cmt init n (live exec cmt init d).
Proof. exact (@namespace_is_its_fences). Qed.
Print Assumptions C10_namespace_is_its_fences.

Theorem C10_namespaces_disjoint : forall (S stmt prose : Type) (exec : S -> stmt -> res S) (cmt : S -> S) (init : S)
  n (d1 d2 : list (elem stmt prose)),
  ns_fences n (live exec cmt init d1) = ns_fences n (live exec cmt init d2) ->
  lookup n (d_subs (run_doc exec cmt init d1)) = lookup n (d_subs (run_doc exec cmt init d2)).
Proof. exact (@namespaces_disjoint). Qed.
Print Assumptions C10_namespaces_disjoint.

(* 4. A named fence — whatever happens inside it, errors included — is invisible to the main program and to
      every other name, and the rest of the document is evaluated exactly as without it. *)
Theorem C10_named_fence_invisible : forall (S stmt prose : Type) (exec : S -> stmt -> res S) (cmt : S -> S) (init : S)
  (d1 d2 : list (elem stmt prose)) n l,
  let A := run_doc exec cmt init (d1 ++ Fence (FNamed n) l :: d2) in
  let B := run_doc exec cmt init (d1 ++ d2) in
  d_main A = d_main B /\ d_halted A = d_halted B /\
  forall m, m <> n -> lookup m (d_subs A) = lookup m (d_subs B).
Proof. exact (@named_fence_invisible). Qed.
Print Assumptions C10_named_fence_invisible.

(* an error inside a named fence ends that fence only: the lines after the failing one are never executed
   (the document equals the one without them), the fence leaves the store the failing line left, and the
   document is not halted *)
Theorem C10_named_error_isolated : forall (S stmt prose : Type) (exec : S -> stmt -> res S) (cmt : S -> S) (init : S)
  (d1 d2 : list (elem stmt prose)) n l1 a l2 s1 s2,
  run_items exec cmt (sub_or_init init n (d_subs (run_doc exec cmt init d1))) l1 = (s1, true) ->
  step exec cmt s1 a = Err s2 ->
  run_doc exec cmt init (d1 ++ Fence (FNamed n) (l1 ++ a :: l2) :: d2)
    = run_doc exec cmt init (d1 ++ Fence (FNamed n) (l1 ++ [a]) :: d2) /\
  (d_halted (run_doc exec cmt init d1) = false ->
     lookup n (d_subs (run_doc exec cmt init (d1 ++ [Fence (FNamed n) (l1 ++ a :: l2)]))) = Some s2 /\
     d_halted (run_doc exec cmt init (d1 ++ [Fence (FNamed n) (l1 ++ a :: l2)])) = false).
Proof. exact (@named_error_cuts_suffix). Qed.
Print Assumptions C10_named_error_isolated.

(* 5. Comments.  They are code lines in the implementation (MechCode::Comment).  Where a comment leaves the
      store alone they are inert ... *)
Theorem C10_holds_comments_inert : forall (S stmt prose : Type) (exec : S -> stmt -> res S) (cmt : S -> S) (init : S)
  (d : list (elem stmt prose)),
  (forall s, cmt s = s) -> run_doc exec cmt init (strip_cmts d) = run_doc exec cmt init d.
Proof. exact (@comments_inert_if). Qed.
Print Assumptions C10_holds_comments_inert.

(* ... and in general they are inert up to any relation R that [cmt] respects and no statement can observe *)
Theorem C10_holds_comments_inert_upto : forall (S stmt prose : Type) (exec : S -> stmt -> res S) (cmt : S -> S) (init : S)
  (R : S -> S -> Prop),
  (forall s, R s s) -> (forall s t, R s t -> R (cmt s) t) ->
  (forall s t a, R s t ->
     match exec s a, exec t a with
     | Ok s', Ok t' => R s' t' | Err s', Err t' => R s' t' | _, _ => False end) ->
  forall d : list (elem stmt prose), ds_rel R (run_doc exec cmt init d) (run_doc exec cmt init (strip_cmts d)).
Proof. exact (@comments_inert_upto). Qed.
Print Assumptions C10_holds_comments_inert_upto.

(* 6. Known finding `comment-resets-ans`: in the implementation's semantics a comment is NOT inert — mech_code()
      sends the Empty result of a comment through update_ans_symbol.  With the concrete store (variables + ans)
      of Model/Doc.v: the document `x := 5 / -- note` differs from its comment-free version ... *)
Theorem C10_refuted_comment_resets_ans :
  (exists d : list (elem tstmt string), trun d <> trun (strip_cmts d)) /\
  t_ans (d_main (trun refute_doc)) = None /\
  t_ans (d_main (trun (strip_cmts refute_doc))) = Some 5%Z.
Proof. exact (conj comments_not_inert (conj (proj1 comment_resets_ans) (proj1 (proj2 comment_resets_ans)))). Qed.
Print Assumptions C10_refuted_comment_resets_ans.

(* ... but only in `ans`: all variables agree, in main and in every namespace, and so does halting *)
Theorem C10_holds_upto_ans : forall d : list (elem tstmt string),
  ds_rel same_vars (trun d) (trun (strip_cmts d)).
Proof. exact toy_comments_inert_upto_ans. Qed.
Print Assumptions C10_holds_upto_ans.

(* 7. The judge.  `ok`: the echoed sources are the ones the model renders / prescribes, the document parsed,
      and its main table, result and every namespace table equal those of the code-only documents. *)
Theorem C10_judge_sound : forall stream jd os tag,
  judge_doc stream jd os = Some (v_ok tag) -> C10_spec jd os.
Proof. exact judge_doc_sound. Qed.
Print Assumptions C10_judge_sound.

(* `kf comment-resets-ans` is answered only if every table equals its code-only table or, where the model says
   the last executed line of that interpreter is a comment, that table with ans := Empty *)
Theorem C10_judge_kf_comment_sound : forall stream jd os,
  judge_doc stream jd os = Some (v_kf "comment-resets-ans") -> C10_spec_kf jd os.
Proof. exact judge_doc_kf_sound. Qed.
Print Assumptions C10_judge_kf_comment_sound.

(* `kf list-then-dash-line` is answered only inside the class and only for a parse error *)
Theorem C10_judge_kf_list_dash_sound : forall stream jd os,
  judge_doc stream jd os = Some (v_kf "list-then-dash-line") ->
  kf_list_dash (doc_of jd) = true /\ exists D M rest, os = D :: M :: rest /\ is_perr (o_res D) = true.
Proof. exact judge_kf_list_dash. Qed.
Print Assumptions C10_judge_kf_list_dash_sound.

(* ---- non-vacuity ---- *)
Open Scope string_scope.
(* x := 5 | prose | ```mech:a  a := x (fails: main is invisible)  b := 1 ``` | ```mech:a  c := 2 ```
   | ```mech:b  d := c (fails: a is invisible) ``` | disabled fence | y := x + 1 *)
Definition example_doc : list (elem tstmt string) :=
  [ Code [Stmt (TDef "x" (TLit 5))];
    Prose "Some words.";
    Fence (FNamed "a") [Stmt (TDef "a" (TVar "x")); Stmt (TDef "b" (TLit 1))];
    Fence (FNamed "a") [Stmt (TDef "c" (TLit 2))];
    Fence (FNamed "b") [Stmt (TDef "d" (TVar "c"))];
    Fence FDisabled [Stmt (TDef "x" (TLit 99))];
    NonMech "x = 99";
    Code [Stmt (TDef "y" (TAdd (TVar "x") (TLit 1)))] ].

Example C10_example :
  trun example_doc =
  DS (TS [("x", 5%Z); ("y", 6%Z)] (Some 6%Z))
     [("a", TS [("c", 2%Z)] (Some 2%Z)); ("b", TS [] None)] false /\
  trun example_doc = trun (strip_prose example_doc).
Proof. split; reflexivity. Qed.
Print Assumptions C10_example.

(* the hypotheses of C10_named_error_isolated are satisfiable: the first fence of example_doc *)
Example C10_example_isolated :
  run_items texec tcmt (sub_or_init tinit "a" (d_subs (trun [Code [Stmt (TDef "x" (TLit 5))]]))) [] = (tinit, true) /\
  step texec tcmt tinit (Stmt (TDef "a" (TVar "x"))) = Err tinit.
Proof. split; reflexivity. Qed.
Print Assumptions C10_example_isolated.

(* the extracted judge on two small lines: equal tables -> ok; a trailing comment that reset ans -> kf *)
Example C10_example_judge :
  run_line "((docase plain (el """" """" ""```"" ""mech"" (code (stmt ""x := 5"" 0)))) (docs (doc ""x := 5\n"" (val) (syms (""ans"" 0 0 (s f64 1)) (""x"" 0 0 (s f64 1))) (subs)) (doc ""x := 5\n"" (val) (syms (""ans"" 0 1 (s f64 1)) (""x"" 0 0 (s f64 1))) (subs))))"
    = "(ok plain)" /\
  run_line "((docase plain (el """" """" ""```"" ""mech"" (code (stmt ""x := 5"" 0) (cmt ""-- c"")))) (docs (doc ""x := 5\n-- c\n"" (val) (syms (""ans"" 0 0 (empty)) (""x"" 0 1 (s f64 1))) (subs)) (doc ""x := 5\n"" (val) (syms (""ans"" 0 0 (s f64 1)) (""x"" 0 0 (s f64 1))) (subs))))"
    = "(kf comment-resets-ans)" /\
  run_line "((docase plain (el """" """" ""```"" ""mech"" (code (stmt ""x := 5"" 0)))) (docs (doc ""x := 5\n"" (val) (syms (""ans"" 0 0 (s f64 1)) (""x"" 0 0 (s f64 2))) (subs)) (doc ""x := 5\n"" (val) (syms (""ans"" 0 1 (s f64 1)) (""x"" 0 0 (s f64 1))) (subs))))"
    = "(bad main-table-differs ((""ans"" 0 (s f64 1)) (""x"" 0 (s f64 1))))".
Proof. repeat split; vm_compute; reflexivity. Qed.
Print Assumptions C10_example_judge.

(* ====================================================================================================
   8. The line-level scanner.  [scan is_code ls] reads the fence structure from the TEXT of the lines; [is_code]
      of a line's annotation only says whether the parser consumes the blanks in front of the next line.
      A fence is opened by a line that starts with ``` or ~~~ (after blanks only where they have been consumed),
      its body ends at the first line that CONTAINS the same sigil, the other sigil type is body text. *)

(* (a) written and read back: every list of blocks whose fence bodies contain no line with the fence's own sigil
       (and whose lines outside fences do not start with a sigil) is recovered exactly - for all documents,
       all annotations; in particular bodies may contain complete fences of the other sigil type *)
Theorem C10_scan_round_trip : forall (A : Type) (is_code : A -> bool) (dflt : A) (bs : list (block A)),
  wf_blocks is_code true bs -> scan is_code (render dflt bs) = Closed bs.
Proof. exact (@scan_render_doc). Qed.
Print Assumptions C10_scan_round_trip.

(* a complete fence line of the OTHER type - blanks, the other sigil, any info string such as `mech:x` - satisfies
   the hypothesis of (a) on body lines: it never closes the fence *)
Theorem C10_other_sigil_stays_inside : forall sg ind raw,
  all_blank ind = true -> find_sig sg raw = None ->
  find_sig sg (ind ++ sig_str (other_sig sg) ++ raw) = None.
Proof. exact find_sig_other_line. Qed.
Print Assumptions C10_other_sigil_stays_inside.

(* a line `blanks sigil rest` closes the fence of that sigil, whatever follows the sigil *)
Theorem C10_own_sigil_closes : forall sg pre post,
  all_blank pre = true -> find_sig sg (pre ++ sig_str sg ++ post) = Some (pre, post).
Proof. exact find_sig_blank_prefix. Qed.
Print Assumptions C10_own_sigil_closes.

(* an opening line followed only by lines without its sigil: the fence is never closed, the scan says so (and the
   real parser rejects the whole document: judge, section 11) *)
Theorem C10_scan_unclosed : forall (A : Type) (is_code : A -> bool) (dflt : A) (bs : list (block A)) ind sg raw body,
  wf_blocks is_code true bs -> all_blank ind = true -> (eat_after is_code true bs = true \/ ind = "") ->
  (forall l, In l body -> find_sig sg (fst l) = None) ->
  scan is_code (render dflt bs ++ ((ind ++ sig_str sg ++ raw)%string, dflt) :: body)%list = Unclosed bs ind sg raw body.
Proof. exact (@scan_unclosed). Qed.
Print Assumptions C10_scan_unclosed.

(* for EVERY list of lines (no hypothesis): the blocks the scanner returns, written out again, are the lines -
   no text is lost, moved or invented *)
Theorem C10_scan_loses_nothing : forall (A : Type) (is_code : A -> bool) (dflt : A) (ls : list (string * A)),
  res_lines dflt (scan is_code ls) = map fst ls.
Proof. exact (@scan_loses_nothing). Qed.
Print Assumptions C10_scan_loses_nothing.

(* ====================================================================================================
   9. What a scanned document executes (connection to the document algebra of sections 1-5).
      [elems_of norm bs] are the elements of Model/Doc.v that the blocks are; [norm] is the reading of a tag
      ([keep_tag] = the code, [rtrim] = without the blanks at its end; the theorems hold for every reading). *)

(* (b) the main program = the code lines outside fences and the bodies of the `mech` / `mech:hidden` fences, in
       document order; prose, blank lines, plain / other-language / disabled fences and named fences contribute nothing *)
Theorem C10_scanned_main_program : forall (S stmt : Type) (exec : S -> stmt -> res S) (cmt : S -> S) (init : S)
  (norm : string -> string) (bs : list (block (role stmt))),
  main_items (elems_of norm bs) = flat_map (main_of_block norm) bs /\
  d_main (run_doc exec cmt init (elems_of norm bs)) = fst (run_items exec cmt init (flat_map (main_of_block norm) bs)) /\
  d_halted (run_doc exec cmt init (elems_of norm bs)) = negb (snd (run_items exec cmt init (flat_map (main_of_block norm) bs))).
Proof. intros. split; [apply main_of_blocks|apply scanned_main_store]. Qed.
Print Assumptions C10_scanned_main_program.

(* the program of the namespace n = the bodies of the fences whose name is n, in document order, and the store of n
   is the fold over those that are reached *)
Theorem C10_scanned_namespace_program : forall (S stmt : Type) (exec : S -> stmt -> res S) (cmt : S -> S) (init : S)
  (norm : string -> string) n (bs : list (block (role stmt))),
  ns_fences n (elems_of norm bs) = flat_map (ns_of_block norm n) bs /\
  lookup n (d_subs (run_doc exec cmt init (elems_of norm bs))) =
    ns_result exec cmt init n (live exec cmt init (elems_of norm bs)).
Proof. intros. split; [apply ns_of_blocks|apply scanned_namespace_store]. Qed.
Print Assumptions C10_scanned_namespace_program.

Theorem C10_inert_blocks_contribute_nothing : forall (S stmt : Type) (exec : S -> stmt -> res S) (cmt : S -> S) (init : S)
  (norm : string -> string) (bs : list (block (role stmt))),
  run_doc exec cmt init (elems_of norm (filter (block_executes norm) bs)) = run_doc exec cmt init (elems_of norm bs).
Proof. exact (@inert_blocks_contribute_nothing). Qed.
Print Assumptions C10_inert_blocks_contribute_nothing.

(* (a)+(b): a document written from blocks executes exactly what the blocks say; one that ends inside a fence
   does not parse *)
Theorem C10_written_document_executes_its_blocks : forall (stmt : Type) (norm : string -> string)
  (bs : list (block (role stmt))),
  wf_blocks role_is_code true bs -> doc_elems norm (render RFence bs) = Some (elems_of norm bs).
Proof. exact (@doc_elems_render). Qed.
Print Assumptions C10_written_document_executes_its_blocks.

Theorem C10_unclosed_document_does_not_parse : forall (stmt : Type) (norm : string -> string)
  (bs : list (block (role stmt))) ind sg raw body,
  wf_blocks role_is_code true bs -> all_blank ind = true -> (eat_after role_is_code true bs = true \/ ind = "") ->
  (forall l, In l body -> find_sig sg (fst l) = None) ->
  doc_elems norm (render RFence bs ++ ((ind ++ sig_str sg ++ raw)%string, RFence) :: body)%list = None.
Proof. exact (@doc_elems_unclosed). Qed.
Print Assumptions C10_unclosed_document_does_not_parse.

(* ====================================================================================================
   10. (c) Names.  The name of a fence is everything after `mech:` (or `mec:`): the splitter
       trim_start_matches("mech") . ("mec") . (robot) . (":") removes nothing of a name that does not start with a
       colon - names made of the letters m, e, c, h included. *)
Theorem C10_name_is_everything_after_the_colon : forall n,
  no_colon_head n -> mech_rest ("mech:" ++ n) = n /\ mech_rest ("mec:" ++ n) = n.
Proof. exact mech_rest_name. Qed.
Print Assumptions C10_name_is_everything_after_the_colon.

Theorem C10_named_tag : forall n,
  no_colon_head n -> reserved_name n = false ->
  classify_tag ("mech:" ++ n) = TNamed n /\ classify_tag ("mec:" ++ n) = TNamed n.
Proof. exact classify_named. Qed.
Print Assumptions C10_named_tag.

(* injective over the identifier alphabet (letters, digits, dash, underscore), the reserved words `disabled` and
   `hidden` excepted *)
Theorem C10_names_injective : forall n1 n2,
  ident_chars n1 = true -> ident_chars n2 = true -> reserved_name n1 = false -> reserved_name n2 = false ->
  (classify_tag ("mech:" ++ n1) = classify_tag ("mech:" ++ n2) <-> n1 = n2) /\
  classify_tag ("mech:" ++ n1) = TNamed n1.
Proof. exact classify_ident_injective. Qed.
Print Assumptions C10_names_injective.

(* two named fences feed the same interpreter iff their names are equal as strings (the interpreter keys them by
   hash_str(name): assumption "no collision of the 64-bit hash among the names of one document") *)
Theorem C10_same_namespace_iff_same_name : forall (stmt : Type) (norm : string -> string) (f1 f2 : fence (role stmt)) n1 n2,
  fence_kind norm f1 = TNamed n1 -> fence_kind norm f2 = TNamed n2 ->
  ((exists n, ns_of_block norm n (BFence f1) <> [] /\ ns_of_block norm n (BFence f2) <> []) <-> n1 = n2).
Proof. exact (@same_namespace_iff). Qed.
Print Assumptions C10_same_namespace_iff_same_name.

(* ====================================================================================================
   11. The judge of the line cases.  `ok`: the echoed document is exactly the lines; either the model finds a fence
       that is never closed and the real parser rejected the document, or every block is of a modelled shape, the
       parsed tree has exactly the model's fenced blocks and top-level code runs (kinds, names, disabled / hidden
       flags, items, plain bodies as text) and all tables equal those of the code-only documents of the SCANNED
       elements. *)
Theorem C10_judge_lines_sound : forall stream listed ls os tag,
  judge_lines stream listed ls os = Some (v_ok tag) -> C10_scan_spec ls os.
Proof. exact judge_lines_sound. Qed.
Print Assumptions C10_judge_lines_sound.

(* ====================================================================================================
   12. Finding `fence-info-trailing-blank`: code_id keeps the blanks at the end of the opening line.
       Refutation (the model of the code's reading): "```mech " is the namespace " " and not the main program,
       "```mech:disabled " is executed, "```mech:a " and "```mech:a" are different namespaces ... *)
Theorem C10_refuted_fence_info_trailing_blank :
  classify_tag (keep_tag "mech ") = TNamed " " /\ classify_tag (rtrim "mech ") = TUnnamed /\
  classify_tag (keep_tag "mech:disabled ") = TNamed "disabled " /\ classify_tag (rtrim "mech:disabled ") = TDisabled /\
  classify_tag (keep_tag "mech:a ") <> classify_tag (keep_tag "mech:a") /\
  classify_tag (rtrim "mech:a ") = classify_tag (rtrim "mech:a").
Proof. exact trailing_blank_refuted. Qed.
Print Assumptions C10_refuted_fence_info_trailing_blank.

(* ... and outside the class (no fence whose tag classifies differently without those blanks) both readings see the
   same document *)
Theorem C10_holds_outside_trailing_blank : forall (stmt : Type) (bs : list (block (role stmt))),
  existsb block_in_class bs = false -> elems_of keep_tag bs = elems_of rtrim bs.
Proof. exact (@readings_agree). Qed.
Print Assumptions C10_holds_outside_trailing_blank.

(* the verdict `kf fence-info-trailing-blank` is given only inside the class, only if the reading without the blanks
   does NOT explain the observation and the code's reading explains it completely (tree and tables) *)
Theorem C10_judge_lines_kf_sound : forall stream listed ls os,
  judge_lines stream listed ls os = Some (v_kf "fence-info-trailing-blank") ->
  exists D got rest bs n, os = (D, Some got) :: rest /\ scan_doc (prep ls) = Closed bs /\
    kf_trailing_blank bs = true /\ variant_spec keep_tag (prep ls) bs D got (skipn n rest).
Proof. exact judge_lines_kf_sound. Qed.
Print Assumptions C10_judge_lines_kf_sound.

(* ====================================================================================================
   13. Finding `quote-swallows-after-whitespace-line`: a block quote (quote_block: +paragraph_newline) does not end at
       a line of blanks only - that line is read as a paragraph of blanks - and swallows the lines after it up to the
       next empty line, code included ("~y := 1 / / > Quote. / <tab> / y = 2" leaves y = 1).  What the swallowed lines
       become is not modelled; the judge only downgrades: inside the class (outside fences, a prose line starting
       with ">" directly followed by a non-empty line of blanks) a verdict that would be a violation is reported as
       `adv finding-quote-swallows-after-whitespace-line`; every other verdict - `ok` in particular - is untouched. *)
Theorem C10_judge_quote_class_sound : forall stream listed ls os v,
  judge_lines stream listed ls os = Some v ->
  judge_lines0 stream listed ls os = Some v \/
  (v = v_adv "finding-quote-swallows-after-whitespace-line" /\ quote_ws_doc ls = true /\
   exists w, judge_lines0 stream listed ls os = Some w /\ is_violation w = true).
Proof. exact judge_lines_inv. Qed.
Print Assumptions C10_judge_quote_class_sound.

(* ---- non-vacuity of sections 8-12 ---- *)
(* x := 1 | ~~~ / ```mech:x / x := 2 / ``` / ~~~ (a plain fence showing a mech fence) | ```mech:me / a := 1 / ```
   |   ```mech:disabled / x := 9 /   ``` (indented, after a fence) | a paragraph | y := x *)
Definition example_lines : list (string * role tstmt) :=
  [ ("x := 1", RStmt (TDef "x" (TLit 1))); ("", RBlank);
    ("~~~", RFence); ("```mech:x", RProse); ("x := 2", RProse); ("```", RProse); ("~~~", RFence);
    ("```mech:me", RFence); ("a := 1", RStmt (TDef "a" (TLit 1))); ("```", RFence);
    ("  ```mech:disabled", RFence); ("  x := 9", RStmt (TDef "x" (TLit 9))); ("  ``` ", RFence);
    ("Some words.", RProse); ("", RBlank);
    ("y := x", RStmt (TDef "y" (TVar "x"))) ].

Example C10_example_scan :
  exists bs, scan_doc example_lines = Closed bs /\ wf_blocks role_is_code true bs /\
    render RFence bs = example_lines /\
    elems_of keep_tag bs =
      [ Code [Stmt (TDef "x" (TLit 1))];
        NonMech "```mech:x
x := 2
```
";
        Fence (FNamed "me") [Stmt (TDef "a" (TLit 1))];
        Fence FDisabled [Stmt (TDef "x" (TLit 9))];
        Prose "Some words.";
        Code [Stmt (TDef "y" (TVar "x"))] ] /\
    trun (elems_of keep_tag bs) =
      DS (TS [("x", 1%Z); ("y", 1%Z)] (Some 1%Z)) [("me", TS [("a", 1%Z)] (Some 1%Z))] false.
Proof.
  eexists. split; [vm_compute; reflexivity|]. split.
  - cbn. repeat split; try reflexivity; try (left; reflexivity); try (right; reflexivity);
      intros l Hl; cbn in Hl; repeat (destruct Hl as [<-|Hl]; [reflexivity|]); contradiction.
  - repeat split; vm_compute; reflexivity.
Qed.
Print Assumptions C10_example_scan.

(* an unclosed fence: the `~~~` line does not close a ``` fence *)
Example C10_example_unclosed :
  doc_elems keep_tag [("x := 1", RStmt (TDef "x" (TLit 1))); ("```python", RFence); ("y = 2", RProse); ("~~~", RProse)] = None.
Proof. reflexivity. Qed.
Print Assumptions C10_example_unclosed.

(* the extracted judge on line cases: a document with a nested fence of the other type -> ok; the same observation
   with a fence name that lost its first letter (the seeded defect) -> bad; an unclosed fence and (perr) -> ok *)
Example C10_example_judge_lines :
  DocScan.run_line "((lncase scan (listed) (s """" ""x := 1"" 0) (f """" ""~~~"") (p """" ""```mech:x"") (p """" ""x := 2"") (p """" ""```"") (f """" ""~~~"") (f """" ""```mech:me"") (s """" ""a := 1"" 0) (f """" ""```"")) (docs (doc ""x := 1\n~~~\n```mech:x\nx := 2\n```\n~~~\n```mech:me\na := 1\n```\n"" (val) (syms (""x"" 0 0 (s f64 1))) (subs (""me"" (syms (""a"" 0 0 (s f64 1))))) (blocks (mc (items s)) (cb ""```mech:x\nx := 2\n```\n"") (fm ""me"" 1 0 0 (items s)))) (doc ""x := 1\n"" (val) (syms (""x"" 0 0 (s f64 1))) (subs) (blocks (mc (items s)))) (doc ""```mech:me\na := 1\n```\n"" (val) (syms) (subs (""me"" (syms (""a"" 0 0 (s f64 1))))) (blocks)) (doc ""a := 1\n"" (val) (syms (""a"" 0 0 (s f64 1))) (subs) (blocks))))"
    = "(ok scan)" /\
  DocScan.run_line "((lncase scan (listed) (f """" ""```mech:me"") (s """" ""a := 1"" 0) (f """" ""```"")) (docs (doc ""```mech:me\na := 1\n```\n"" (val) (syms) (subs (""me"" (syms (""a"" 0 0 (s f64 1))))) (blocks (fm ""e"" 1 0 0 (items s)))) (doc """" (val) (syms) (subs) (blocks)) (doc ""```mech:me\na := 1\n```\n"" (val) (syms) (subs (""me"" (syms (""a"" 0 0 (s f64 1))))) (blocks)) (doc ""a := 1\n"" (val) (syms (""a"" 0 0 (s f64 1))) (subs) (blocks))))"
    = "(bad fence-structure-differs ((fm ""me"" 1 0 0 (s))))" /\
  DocScan.run_line "((lncase scan (listed) (s """" ""x := 1"" 0) (f """" ""```python"") (p """" ""y = 2"") (p """" ""~~~"")) (docs (doc ""x := 1\n```python\ny = 2\n~~~\n"" (perr) (syms) (subs) (blocks))))"
    = "(ok unclosed-fence-is-a-parse-error)".
Proof. repeat split; vm_compute; reflexivity. Qed.
Print Assumptions C10_example_judge_lines.
