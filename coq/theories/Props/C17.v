(* C17 — State machines run their declared transitions to the terminal state.
   Property theorems only; proofs live in Proofs/FsmP.v. *)
From Coq Require Import List Arith ZArith.
From Coq Require String.
From MechV Require Import Base.Sexp Base.Obs Model.Fsm Proofs.FsmP.
Import ListNotations.

Theorem C17_never_hangs_run : forall (arms : list arm) fuel e st, List.length (fst (run arms fuel e st)) <= fuel.
Proof. exact run_length. Qed.
Print Assumptions C17_never_hangs_run.
