(* C17 — State machines run their declared transitions to the terminal state.
   Property theorems only; proofs live in Proofs/FsmP.v, the model in Model/Fsm.v.

   Reading guide.  [run_fsm max d args] is the model of invoking machine [d]:
     RReject why   - rejected before any state is visited (argument count / kind, undefined state)
     RRun tr o     - the list of visits (state, arm and guard that fired) and how the run ended:
                     ODone v (an output arm returned v), OLimit st (stopped by the transition limit),
                     OStuck (no arm applies), OErr (an expression failed, e.g. u64 overflow).
   [fires e st arms i gi e' t] is the DECLARATIVE reading of "the first transition whose guard
   holds": arm i matches state st, every earlier arm is passed over (pattern mismatch, or a guard
   arm all of whose guards are false), and gi is the first guard of arm i that is true. *)
From Coq Require Import String.
From Coq Require Import List Arith ZArith.
From MechV Require Import Base.Sexp Base.Obs Model.Fsm Proofs.FsmP.
Import ListNotations.
Open Scope string_scope.
Open Scope list_scope.

(* 1. The executable choice of a transition is exactly "the first arm/guard that is enabled". *)
Theorem C17_select_is_first_enabled : forall e st arms i gi e' t,
  select e st arms 0 = Sel i gi e' t <-> fires e st arms i gi e' t.
Proof. exact select_fires_iff. Qed.
Print Assumptions C17_select_is_first_enabled.

Theorem C17_halts_iff_no_arm_enabled : forall e st arms,
  select e st arms 0 = SelNone <-> Forall (arm_skipped e st) arms.
Proof. exact select_none_iff. Qed.
Print Assumptions C17_halts_iff_no_arm_enabled.

(* 2. The run loop computes the run the declaration determines (relation [Run]), for every fuel. *)
Theorem C17_run_is_declared_run : forall arms n e st tr o,
  run arms n e st = (tr, o) <-> Run arms n e st tr o.
Proof. exact run_iff_Run. Qed.
Print Assumptions C17_run_is_declared_run.

Theorem C17_deterministic : forall arms n e st tr o tr' o',
  Run arms n e st tr o -> Run arms n e st tr' o' -> tr = tr' /\ o = o'.
Proof. exact Run_deterministic. Qed.
Print Assumptions C17_deterministic.

(* 3. trace_is_first_enabled: every consecutive pair of visited states is connected by the first
      transition of the current state whose pattern matches and whose guard holds. *)
Theorem C17_trace_is_first_enabled : forall max d args tr o,
  run_fsm max d args = RRun tr o ->
  forall k v1 v2, nth_error tr k = Some v1 -> nth_error tr (S k) = Some v2 -> step_ok (d_arms d) v1 v2.
Proof. exact run_fsm_trace_first_enabled. Qed.
Print Assumptions C17_trace_is_first_enabled.

(* 4. starts_at_start: the first visit is the declared start state with the payload computed from the arguments. *)
Theorem C17_starts_at_start : forall max d args tr o,
  run_fsm max d args = RRun tr o ->
  exists vals vs,
    map_opt arg_value args = Some vals /\
    eval_list (bind_inputs [] (map fst (d_inputs d)) vals) (snd (d_start d)) = Ok vs /\
    (forall v rest, tr = v :: rest -> v_state v = (fst (d_start d), vs)) /\
    (tr = [] -> max = 0).
Proof. exact run_fsm_starts_at_start. Qed.
Print Assumptions C17_starts_at_start.

(* 5. ends_at_output_arm: a returned value is the value of an output arm that fired (as the first
      enabled one) in the last visited state. *)
Theorem C17_ends_at_output_arm : forall max d args tr v,
  run_fsm max d args = RRun tr (ODone v) ->
  exists pre lv e1 e2 i gi x,
    tr = pre ++ [lv] /\ fires e1 (v_state lv) (d_arms d) i gi e2 (TOut x) /\ eval e2 x = Ok v /\
    v_arm lv = Some (i, gi).
Proof. exact run_fsm_ends_at_output. Qed.
Print Assumptions C17_ends_at_output_arm.

(* 6. output_kind: a machine that respects its declared payload/output kinds returns a value of the declared output kind. *)
Theorem C17_output_kind : forall max d args tr v out,
  wt_decl d = true -> out_ty d = Some out ->
  run_fsm max d args = RRun tr (ODone v) -> has_ty v out = true.
Proof. exact output_kind. Qed.
Print Assumptions C17_output_kind.

(* 6b. lexical scoping: the interpreter keeps one environment for the whole run (variables bound by one arm
       stay visible later); for a well-scoped declaration (every arm uses only its own pattern's variables and
       inputs that no pattern rebinds) this is unobservable: the run equals the lexically scoped run. *)
Theorem C17_lexical_scoping : forall d,
  well_scoped d = true ->
  forall n e0 st, run (d_arms d) n e0 st = run_lex (d_arms d) n e0 st.
Proof. exact lexical_scoping. Qed.
Print Assumptions C17_lexical_scoping.

(* 7. never_hangs / limit_stops: [run_fsm] is a total function; it makes at most max_steps visits; a run that
      needs more than max_steps iterations is cut off with the limit outcome after exactly max_steps of them;
      a run that ends by itself is not affected by a larger limit. *)
Theorem C17_never_hangs : forall max d args tr o,
  run_fsm max d args = RRun tr o -> List.length tr <= max.
Proof. exact run_fsm_never_hangs. Qed.
Print Assumptions C17_never_hangs.

Theorem C17_limit_stops : forall n d args tr o max,
  run_fsm n d args = RRun tr o -> max < List.length tr ->
  exists st, run_fsm max d args = RRun (firstn max tr) (OLimit st).
Proof. exact run_fsm_limit_stops. Qed.
Print Assumptions C17_limit_stops.

Theorem C17_limit_exact : forall max d args tr st,
  run_fsm max d args = RRun tr (OLimit st) -> List.length tr = max.
Proof. exact run_fsm_limit_exact. Qed.
Print Assumptions C17_limit_exact.

Theorem C17_larger_limit_same_run : forall n d args tr o m,
  run_fsm n d args = RRun tr o -> (forall st, o <> OLimit st) -> n <= m -> run_fsm m d args = RRun tr o.
Proof. exact run_fsm_fuel_stable. Qed.
Print Assumptions C17_larger_limit_same_run.

(* 8. ill_formed_rejected.  [ill_formed] is the PROPERTY's notion (a transition or the start names a state
      that is not declared, or a declared state has no arm; declared = listed in the specification).
      C17_holds: outside the two known-finding classes an ill-formed declaration never runs, and is
      rejected as soon as the arguments are acceptable; wrong arguments are always rejected;
      and the code rejects nothing that is well-formed. *)
Theorem C17_holds : forall max d args,
  ill_formed d = true -> kf_undeclared_with_arm d = false -> kf_armless_unreferenced d = false ->
  forall tr o, run_fsm max d args <> RRun tr o.
Proof. exact ill_formed_never_runs. Qed.
Print Assumptions C17_holds.

Theorem C17_ill_formed_rejected : forall max d args vals vs,
  ill_formed d = true -> kf_undeclared_with_arm d = false -> kf_armless_unreferenced d = false ->
  args_wrong d args = false -> map_opt arg_value args = Some vals ->
  eval_list (bind_inputs [] (map fst (d_inputs d)) vals) (snd (d_start d)) = Ok vs ->
  run_fsm max d args = RReject RjState.
Proof. exact ill_formed_rejected. Qed.
Print Assumptions C17_ill_formed_rejected.

Theorem C17_wrong_args_rejected : forall max d args,
  args_wrong d args = true -> exists w, run_fsm max d args = RReject w.
Proof. exact wrong_args_rejected. Qed.
Print Assumptions C17_wrong_args_rejected.

Theorem C17_rejection_only_if_ill_formed : forall d, validate d = false -> ill_formed d = true.
Proof. exact validate_false_ill_formed. Qed.
Print Assumptions C17_rejection_only_if_ill_formed.

(* 9. The faithful model VIOLATES the property on two classes (the code never consults the
      specification's state list): witnesses. *)
Theorem C17_refuted_undeclared_state_with_arm :
  exists d args max tr v,
    ill_formed d = true /\ kf_undeclared_with_arm d = true /\ run_fsm max d args = RRun tr (ODone v).
Proof.
  destruct kf1_refutes as (H1 & H2 & tr & H3).
  exact (ex_intro _ kf1_witness (ex_intro _ _ (ex_intro _ _ (ex_intro _ tr (ex_intro _ _ (conj H1 (conj H2 H3))))))).
Qed.
Print Assumptions C17_refuted_undeclared_state_with_arm.

Theorem C17_refuted_declared_state_without_arm :
  exists d args max tr v,
    ill_formed d = true /\ kf_armless_unreferenced d = true /\ run_fsm max d args = RRun tr (ODone v).
Proof.
  destruct kf2_refutes as (H1 & H2 & tr & H3).
  exact (ex_intro _ kf2_witness (ex_intro _ _ (ex_intro _ _ (ex_intro _ tr (ex_intro _ _ (conj H1 (conj H2 H3))))))).
Qed.
Print Assumptions C17_refuted_declared_state_without_arm.

(* 10. The judge applied to the implementation's observation is sound for the property, and a
       known-finding verdict is only given inside a class for exactly the modelled behaviour. *)
Theorem C17_judge_sound : forall (c : case) (ob : fobs) (tag : String.string),
  judge_case c ob = v_ok tag -> C17_spec c ob.
Proof. exact judge_case_sound. Qed.
Print Assumptions C17_judge_sound.

Theorem C17_judge_kf : forall (c : case) (ob : fobs) (id : String.string),
  judge_case c ob = v_kf id ->
  ill_formed (c_decl c) = true /\
  (kf_undeclared_with_arm (c_decl c) = true \/ kf_armless_unreferenced (c_decl c) = true) /\
  exists tr o, run_fsm (c_max c) (c_decl c) (c_args c) = RRun tr o /\ run_matchb tr o ob = true.
Proof. exact judge_case_kf. Qed.
Print Assumptions C17_judge_kf.

(* non-vacuity: the documented counter (full trace), the limit hit exactly, two guards true at once,
   an array-pattern machine, rejections, and a machine that never terminates (all limits, all n <= 100). *)
Example C17_example_counter :
  wt_decl counter = true /\ ill_formed counter = false /\
  run_fsm 40 counter [AS "u64" 2] =
    RRun [ Visit ("Count", [VNum 2]) (Some (0, Some 0));
           Visit ("Count", [VNum 1]) (Some (0, Some 0));
           Visit ("Count", [VNum 0]) (Some (0, Some 1));
           Visit ("Done", [VNum 0]) (Some (1, None)) ] (ODone (VNum 0)).
Proof. exact counter_example. Qed.
Print Assumptions C17_example_counter.

Example C17_example_two_guards_true :
  (exists tr, run_fsm 40 (overlap false) [AS "u64" 5] = RRun tr (ODone (VNum 105))) /\
  (exists tr, run_fsm 40 (overlap true) [AS "u64" 5] = RRun tr (ODone (VNum 205))).
Proof. exact overlap_example. Qed.
Print Assumptions C17_example_two_guards_true.

Example C17_example_array_pattern :
  wt_decl vsum = true /\
  exists tr, run_fsm 40 vsum [AM "u64" 1 3 [5; 3; 8]%Z] = RRun tr (ODone (VNum 16)) /\ List.length tr = 5.
Proof. exact vsum_example. Qed.
Print Assumptions C17_example_array_pattern.

Example C17_example_rejections :
  run_fsm 40 bad_target [AS "u64" 1] = RReject RjState /\
  run_fsm 40 counter [AS "f64" 3] = RReject RjArgKind /\
  run_fsm 40 counter [AS "u8" 3] = RReject RjArgKind /\
  run_fsm 40 vsum [AS "u64" 3] = RReject RjArgKind /\
  run_fsm 40 counter [] = RReject RjArgCount.
Proof. exact rejected_examples. Qed.
Print Assumptions C17_example_rejections.

Example C17_example_environment_leak :
  well_scoped counter = true /\ well_scoped vsum = true /\ well_scoped leak = false /\
  (exists tr, run_fsm 40 leak [AS "u64" 1; AS "u64" 10] = RRun tr (ODone (VNum 3))) /\
  snd (run_lex (d_arms leak) 40 [("m", VNum 10); ("n", VNum 1)] ("A", [VNum 1])) = ODone (VNum 12).
Proof. exact leak_example. Qed.
Print Assumptions C17_example_environment_leak.

Example C17_example_non_terminating : forall n max, (0 <= n <= 100)%Z ->
  exists tr st, run_fsm max spin [AS "u64" n] = RRun tr (OLimit st) /\ List.length tr = max.
Proof. exact spin_stopped. Qed.
Print Assumptions C17_example_non_terminating.
