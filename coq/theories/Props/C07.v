(* C07 — Bytecode files round-trip exactly and corrupted files are rejected. *)
From Coq Require Import List NArith Arith.
From MechV Require Import Model.Crc32 Proofs.Crc32P.
Import ListNotations.

(* Every file the encoder emits (payload followed by its little-endian CRC-32) verifies. *)
Theorem C07_verify_emitted : forall payload : list N, verify (payload ++ trailer payload) = true.
Proof. exact verify_emitted. Qed.
Print Assumptions C07_verify_emitted.

(* Any burst of 1..32 bits, anywhere in an emitted file of any length, is rejected. *)
Theorem C07_crc_burst_detected : forall (payload mask : list N) (a : nat) (w : list bool) (z : nat),
  length mask = length payload + 4 ->
  bits_of_bytes mask = zeros a ++ w ++ zeros z ->
  1 <= length w <= 32 -> hd false w = true ->
  verify (xor_bytes (payload ++ trailer payload) mask) = false.
Proof. exact crc_burst_detected. Qed.
Print Assumptions C07_crc_burst_detected.

Theorem C07_crc_single_bit_detected : forall (payload mask : list N) (a z : nat),
  length mask = length payload + 4 ->
  bits_of_bytes mask = zeros a ++ [true] ++ zeros z ->
  verify (xor_bytes (payload ++ trailer payload) mask) = false.
Proof. exact crc_single_bit_detected. Qed.
Print Assumptions C07_crc_single_bit_detected.

(* ---- container codec (Model/Loader.v) ---- *)
From MechV Require Import Model.Loader Proofs.LoaderP.

(* Decoding the header bytes the encoder writes yields the same 22 fields (any trailing bytes). *)
Theorem C07_header_roundtrip : forall (h : header) (rest : bytes),
  wf_fields header_widths h = true -> decode_header (encode_header h ++ rest) = Some h.
Proof. exact header_roundtrip. Qed.
Print Assumptions C07_header_roundtrip.

(* Decoding an encoded instruction stream of any length yields the same instructions
   (the compiler never emits the 5-byte Ret, which the decoder's "fewer than 8 bytes left" rule refuses). *)
Theorem C07_instr_stream_roundtrip : forall (is : list instr) (fuel : nat),
  Forall (fun i => wf_instr i = true) is -> Forall (fun i => is_ret i = false) is ->
  (length is < fuel)%nat ->
  decode_instrs fuel (encode_instrs is) = Ok is.
Proof. exact decode_encode_instrs. Qed.
Print Assumptions C07_instr_stream_roundtrip.

(* The model loader is total and never requests a buffer larger than the file (or the fixed header). *)
Theorem C07_load_ledger_bounded : forall (file : bytes) (n : nat),
  In n (snd (load file)) -> (n <= Nat.max HEADER_SIZE (length file))%nat.
Proof. exact load_ledger_bounded. Qed.
Print Assumptions C07_load_ledger_bounded.

Example C07_example_roundtrip :
  decode_instrs 10 (encode_instrs [IConstLoad 0 0; IBinOp 1234567890123 2 0 1; IVarArg 77 3 [0;1;2]])
  = Ok [IConstLoad 0 0; IBinOp 1234567890123 2 0 1; IVarArg 77 3 [0;1;2]].
Proof. vm_compute. reflexivity. Qed.
Print Assumptions C07_example_roundtrip.

(* Any non-zero corruption confined to at most 4 consecutive bytes (independent of bit-order convention). *)
Theorem C07_crc_burst_bytes : forall (payload : list N) (a : nat) (m : list N) (z : nat),
  (a + length m + z = length payload + 4)%nat ->
  (1 <= length m <= 4)%nat ->
  (exists b, In b m /\ (b < 256)%N /\ b <> 0%N) ->
  verify (xor_bytes (payload ++ trailer payload) (repeat 0%N a ++ m ++ repeat 0%N z)) = false.
Proof. exact crc_burst_bytes. Qed.
Print Assumptions C07_crc_burst_bytes.

(* ---- the whole container (Model/Container.v): header | features | types | constant table | constant blob |
   symbols | instruction stream | dictionary | CRC trailer ---- *)
From MechV Require Import Model.Container Proofs.ContainerP.

(* Loading the file CompileCtx::compile lays out for ANY well-formed program (any number of features, types,
   constants, symbols, instructions, dictionary entries; any payload sizes) yields exactly that program:
   same header, features, type entries, constant entries, blob, symbols, instructions and dictionary. *)
Theorem C07_codec_roundtrip : forall p : program,
  wf_program p = true -> fst (load_program (encode_program p)) = Ok p.
Proof. exact codec_roundtrip. Qed.
Print Assumptions C07_codec_roundtrip.

(* Re-encoding what the loader decoded from a canonical file (a file the encoder writes for some well-formed
   program) reproduces the file byte for byte. *)
Theorem C07_reencode : forall (bs : bytes) (p : program),
  fst (load_program bs) = Ok p -> (exists q, wf_program q = true /\ bs = encode_program q) -> encode_program p = bs.
Proof. exact reencode. Qed.
Print Assumptions C07_reencode.

(* The two encoders agree: ParsedProgram::to_bytes (stored header) = CompileCtx::compile (computed header). *)
Theorem C07_to_bytes_encode_program : forall p : program, wf_program p = true -> to_bytes p = encode_program p.
Proof. exact to_bytes_encode_program. Qed.
Print Assumptions C07_to_bytes_encode_program.

(* non-vacuity: a well-formed program with every section non-empty *)
Example C07_sample_wf : wf_program (relayout
    {| p_header := [MAGIC; 1; 773; 0; 2; 0; 0; 0; 0; 0; 0; 0; 0; 0; 0; 0; 0; 0; 0; 0; 0; 0]%N;
       p_features := [12; 16]%N; p_types := [(12, []); (32, [0; 0; 0; 0; 2; 0; 0; 0])]%N;
       p_consts := [[0; 1; 8; 0; 0; 0; 8]; [1; 1; 8; 0; 0; 8; 3]]%N; p_blob := [0; 0; 0; 0; 0; 0; 240; 63; 1; 2; 3]%N;
       p_symbols := [(5, true, 0); (9, false, 1)]%N; p_instrs := [IConstLoad 0 0; IBinOp 77 1 0 0; IVarArg 5 1 [0; 1]]%N;
       p_dict := [(5, [120]); (9, [195; 169])]%N |}) = true.
Proof. vm_compute. reflexivity. Qed.
Print Assumptions C07_sample_wf.

(* ---- constant payloads (Model/ConstCodec.v): ConstElem::write_le / from_le ---- *)
From Coq Require Import ZArith.
From MechV Require Import Model.ConstCodec Proofs.ConstCodecP.

(* from_le inverts write_le for every well-formed value of every modelled kind — u8..u128, i8..i128 (two's
   complement), f32/f64 bit patterns, bool, index, string (u32 length + UTF-8 bytes), r64 (reduced, positive
   denominator), c64 — and for dense matrices of any shape (rows, cols >= 1) of any of these kinds, through the
   TypeTag recorded for the constant. *)
Theorem C07_const_roundtrip : forall v : cval, wf_cval v = true -> decode_tagged (tag_of_kind v) (encode_const v) = DOk v.
Proof. exact const_roundtrip. Qed.
Print Assumptions C07_const_roundtrip.

(* ... and through a constant-table entry of a loaded program (decode_const_entries): Inline encoding, in
   bounds, aligned, type id resolving in the type section to the value's tag. *)
Theorem C07_const_entry_roundtrip : forall (types : list tentry) (pre post : bytes) (v : cval) (tid align fl rs : N) (tb : bytes),
  wf_cval v = true ->
  nth_error types (N.to_nat tid) = Some (tag_of_kind v, tb) ->
  (align <> 0)%N -> (N.of_nat (length pre) mod align = 0)%N ->
  (N.of_nat (length pre) + N.of_nat (length (encode_const v)) < 2 ^ 64)%N ->
  decode_entry types (pre ++ encode_const v ++ post)
    [tid; 1%N; align; fl; rs; N.of_nat (length pre); N.of_nat (length (encode_const v))] = DOk v.
Proof. exact const_entry_roundtrip. Qed.
Print Assumptions C07_const_entry_roundtrip.

Example C07_const_sample :
  wf_cval (CMatrix KI16 2 2 [VZ (-300)%Z; VZ 7%Z; VZ 32767%Z; VZ (-32768)%Z]) = true /\
  wf_cval (CScalar KR64 (VP (-3)%Z 4%Z)) = true /\ wf_cval (CScalar KString (VS [104; 195; 169]%N)) = true.
Proof. vm_compute. repeat split. Qed.
Print Assumptions C07_const_sample.

(* The whole-container loader is total and never requests a buffer larger than the file (or the fixed header):
   the CRC buffer, the header, every type payload, the constant table and its entry vector, the blob, the
   symbol, instruction and dictionary sections and every dictionary name are all bounds-checked first. *)
From MechV Require Import Proofs.ContainerLedgerP.
Theorem C07_load_program_ledger_bounded : forall (file : bytes) (n : nat),
  In n (snd (load_program file)) -> (n <= Nat.max HEADER_SIZE (length file))%nat.
Proof. exact load_program_ledger_bounded. Qed.
Print Assumptions C07_load_program_ledger_bounded.

(* ---- the per-instruction arms of the writers and the reader as they are in the source (regenerated table) --------
   [encode_instr] / [decode_instr] (Model/Loader.v) are the instruction codec of the theorems above.  Gen/InstrArms.v is
   rewritten from src/core/src/program/compiler/sections.rs (EncodedInstr::write_to, byte_len, OpCode) and
   src/core/src/program/program.rs (DecodedInstr::write_to, decode_instructions) by translators/instr_arms.py on every
   run of this check; the statements below tie every hand-written arm to that codec, so that ONE arm that writes a field
   twice, skips one or swaps two breaks them whether or not a generated file contains such an instruction.
   Definitions: Proofs/InstrArmsP.v. *)
From Coq Require Import String.
From MechV Require Import Model.SrcArms Gen.InstrArms Proofs.InstrArmsP.
Local Open Scope string_scope.

Theorem C07_instr_source_fully_read : ia_unrecognised = [].
Proof. exact ia_nothing_unrecognised. Qed.
Print Assumptions C07_instr_source_fully_read.

(* both writers: one arm per variant of the enum as declared; the arm writes the opcode of its kind, then every field exactly
   once in declaration order with the width of its type, little-endian (VarArg: count, then every argument); byte_len: 1 + the
   widths; reader: the arm of an opcode reads the fields of its variant in declaration order and binds each to its field *)
Theorem C07_instr_arms_regular :
  write_arms_diag "EncodedInstr" "EncodedInstr::write_to" = [] /\ write_arms_diag "DecodedInstr" "DecodedInstr::write_to" = [] /\
  len_arms_diag = [] /\ irregular (fun a : String.string * tm * tm => fst (fst a)) read_arm_ok (arms_of "decode_instructions") = [] /\
  run_arms_diag = [].
Proof. exact ia_arm_sites. Qed.
Print Assumptions C07_instr_arms_regular.

(* the two instruction enums declare the same kinds and fields; the discriminants of OpCode, OpCode::from_u8 and the opcode
   constants of the model agree; the reader handles exactly the eight opcodes *)
Theorem C07_instr_tables_regular :
  variants_ok = true /\ opcodes_ok = true /\
  forallb read_arm_ok (arms_of "decode_instructions") = true /\
  read_arm_opcodes = ["ConstLoad"; "Return"; "NullOp"; "Unop"; "Binop"; "Ternop"; "Quadop"; "VarArg"]%string.
Proof. exact ia_arms_regular. Qed.
Print Assumptions C07_instr_tables_regular.

(* meaning: the bytes the extracted arms of BOTH writers produce for any instruction are [encode_instr] *)
Theorem C07_source_writers_are_encode_instr : forall i : instr,
  src_encode "EncodedInstr" "EncodedInstr::write_to" i = Some (encode_instr i) /\
  src_encode "DecodedInstr" "DecodedInstr::write_to" i = Some (encode_instr i).
Proof. exact src_encode_is_encode_instr. Qed.
Print Assumptions C07_source_writers_are_encode_instr.

(* meaning: decoding with the extracted arm of a fixed-arity opcode is [decode_instr] (the VarArg arm is compared with its
   reference term) *)
Theorem C07_source_reader_is_decode_instr : forall (name : String.string) (op : N) (r : bytes),
  In (name, op) fixed_opcodes -> (8 <= List.length (op :: r))%nat ->
  src_decode_fixed name r = decode_instr (op :: r).
Proof. exact src_decode_is_decode_instr. Qed.
Print Assumptions C07_source_reader_is_decode_instr.
