(* C07 — Bytecode files round-trip exactly and corrupted files are rejected. *)
From Coq Require Import List NArith Arith.
From MechV Require Import Model.Crc32 Proofs.Crc32P.
Import ListNotations.

(* Every file the encoder emits (payload followed by its little-endian CRC-32) verifies. *)
Theorem C07_verify_emitted : forall payload : list N, verify (payload ++ trailer payload) = true.
Proof. exact verify_emitted. Qed.
Print Assumptions C07_verify_emitted.

(* Any burst of 1..32 bits, anywhere in an emitted file of any length, is rejected. *)
Theorem C07_crc_burst_detected : forall (payload mask : list N) (a : nat) (w : list bool) (z : nat),
  length mask = length payload + 4 ->
  bits_of_bytes mask = zeros a ++ w ++ zeros z ->
  1 <= length w <= 32 -> hd false w = true ->
  verify (xor_bytes (payload ++ trailer payload) mask) = false.
Proof. exact crc_burst_detected. Qed.
Print Assumptions C07_crc_burst_detected.

Theorem C07_crc_single_bit_detected : forall (payload mask : list N) (a z : nat),
  length mask = length payload + 4 ->
  bits_of_bytes mask = zeros a ++ [true] ++ zeros z ->
  verify (xor_bytes (payload ++ trailer payload) mask) = false.
Proof. exact crc_single_bit_detected. Qed.
Print Assumptions C07_crc_single_bit_detected.

(* ---- container codec (Model/Loader.v) ---- *)
From MechV Require Import Model.Loader Proofs.LoaderP.

(* Decoding the header bytes the encoder writes yields the same 22 fields (any trailing bytes). *)
Theorem C07_header_roundtrip : forall (h : header) (rest : bytes),
  wf_fields header_widths h = true -> decode_header (encode_header h ++ rest) = Some h.
Proof. exact header_roundtrip. Qed.
Print Assumptions C07_header_roundtrip.

(* Decoding an encoded instruction stream of any length yields the same instructions
   (the compiler never emits the 5-byte Ret, which the decoder's "fewer than 8 bytes left" rule refuses). *)
Theorem C07_instr_stream_roundtrip : forall (is : list instr) (fuel : nat),
  Forall (fun i => wf_instr i = true) is -> Forall (fun i => is_ret i = false) is ->
  (length is < fuel)%nat ->
  decode_instrs fuel (encode_instrs is) = Ok is.
Proof. exact decode_encode_instrs. Qed.
Print Assumptions C07_instr_stream_roundtrip.

(* The model loader is total and never requests a buffer larger than the file (or the fixed header). *)
Theorem C07_load_ledger_bounded : forall (file : bytes) (n : nat),
  In n (snd (load file)) -> (n <= Nat.max HEADER_SIZE (length file))%nat.
Proof. exact load_ledger_bounded. Qed.
Print Assumptions C07_load_ledger_bounded.

Example C07_example_roundtrip :
  decode_instrs 10 (encode_instrs [IConstLoad 0 0; IBinOp 1234567890123 2 0 1; IVarArg 77 3 [0;1;2]])
  = Ok [IConstLoad 0 0; IBinOp 1234567890123 2 0 1; IVarArg 77 3 [0;1;2]].
Proof. vm_compute. reflexivity. Qed.
Print Assumptions C07_example_roundtrip.

(* Any non-zero corruption confined to at most 4 consecutive bytes (independent of bit-order convention). *)
Theorem C07_crc_burst_bytes : forall (payload : list N) (a : nat) (m : list N) (z : nat),
  (a + length m + z = length payload + 4)%nat ->
  (1 <= length m <= 4)%nat ->
  (exists b, In b m /\ (b < 256)%N /\ b <> 0%N) ->
  verify (xor_bytes (payload ++ trailer payload) (repeat 0%N a ++ m ++ repeat 0%N z)) = false.
Proof. exact crc_burst_bytes. Qed.
Print Assumptions C07_crc_burst_bytes.
