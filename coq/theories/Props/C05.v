(* C05 — Bindings are isolated: immutable means unchanged, failures change nothing.
   Property theorems only; proofs live in Proofs/StoreP.v, definitions in Model/Store.v.

   Reading guide.  A symbol table is an association list name -> (mutable?, deep value); [find] looks a name
   up.  [step_ok T st ok T'] (Proofs/StoreP.v, four rules) is the property for ONE statement: from table T,
   statement st with outcome ok (true) / error (false) leads to table T'.  [trace_ok T tr] chains it over a
   history tr = [(statement, outcome, table after it); ...].  The judge checks [trace_ok] on the tables the
   real interpreter shows after every statement (theorem 7), [exec]/[impl_trace] is the heap model of what
   mech does (cells shared by cloning), theorems 8a-8f show that this model breaks the property on six classes
   of histories, theorem 9 that it satisfies it on every history outside them, and theorem 10 that the model of
   the interpreter with the three proposed patches satisfies it on every history but one class. *)
From Coq Require Import List ZArith String.
From MechV Require Import Base.Sexp Base.Obs Model.Store Proofs.StoreP.
Import ListNotations.
Open Scope string_scope.

(* 1. The decision procedure the judge runs is the property. *)
Theorem C05_step_reflect : forall (T : tab) (st : stmt) (ok : bool) (T' : tab),
  step_okb T st ok T' = true <-> step_ok T st ok T'.
Proof. exact step_okb_ok. Qed.
Print Assumptions C05_step_reflect.

(* 2. Immutable means unchanged: a binding made without ~ has the same value after every later statement of
      every history that satisfies the property step by step (valid or invalid statements, any number). *)
Theorem C05_isolation_immutable : forall (T : tab) (tr : list tstep) (x : string) (v : dv),
  trace_ok T tr -> find x T = Some (false, v) ->
  Forall (fun T' => find x T' = Some (false, v)) (states tr).
Proof. exact immutable_forever. Qed.
Print Assumptions C05_isolation_immutable.

(* 3. ... and that value is the one its right-hand side had when `x := e` ran. *)
Theorem C05_defined_value_kept : forall (T : tab) (x : string) (e : expr) (T1 : tab) (tr : list tstep) (v : dv),
  trace_ok T ((SDef false x e, true, T1) :: tr) -> seval T e = Some v ->
  Forall (fun T' => find x T' = Some (false, v)) (T1 :: states tr).
Proof. exact defined_value_forever. Qed.
Print Assumptions C05_defined_value_kept.

(* 4. Assigning to or through x (whole, indexed, op-assign, field, tuple element) changes nothing seen through
      any other name, defines and removes no name, and needs x to be mutable before and after. *)
Theorem C05_isolation_assign : forall (T : tab) (st : stmt) (T' : tab) (x : string),
  step_ok T st true T' -> assign_target st = Some x ->
  (forall n, n <> x -> find n T' = find n T) /\
  (forall n, find n T' = None <-> find n T = None) /\
  (exists v0 v1, find x T = Some (true, v0) /\ find x T' = Some (true, v1)).
Proof. exact assign_only_target. Qed.
Print Assumptions C05_isolation_assign.

(* 5. A statement that fails leaves every binding and the set of names exactly as before. *)
Theorem C05_failure_atomic : forall (T : tab) (st : stmt) (T' : tab),
  step_ok T st false T' -> forall n, find n T' = find n T.
Proof. exact failure_atomic. Qed.
Print Assumptions C05_failure_atomic.

(* 6. Redefining a name (by := or by a destructure), assigning to an undefined name or to an immutable one
      cannot succeed. *)
Theorem C05_errors : forall (T : tab) (st : stmt) (ok : bool) (T' : tab),
  step_ok T st ok T' -> must_fail T st -> ok = false.
Proof. exact errors_rejected. Qed.
Print Assumptions C05_errors.

(* 7. The judge is sound: `ok` means the observed session satisfies the property at every step (so 2-6 apply
      to what the interpreter really did). *)
Theorem C05_judge_sound : forall (h : list stmt) (os : list ostep) (tag : string),
  judge_hist h os = v_ok tag -> trace_ok [] (obs_trace h os).
Proof. exact judge_hist_sound. Qed.
Print Assumptions C05_judge_sound.

(* 8. The faithful heap model of mech violates the property; one witness per class of the judge
      ([refutes id h]: the model's trace of h is not property-conforming and its failing step is classified id). *)
Theorem C05_refuted_alias_define :          (* a := 1 ; ~b := a ; b = 5          => a is 5 *)
  ~ trace_ok [] (impl_trace cfg_cur store0 w_alias_define) /\
  classes cfg_cur store0 [] w_alias_define (model_obs cfg_cur w_alias_define) = Some ["alias-define"].
Proof. exact refuted_alias_define. Qed.
Print Assumptions C05_refuted_alias_define.

Theorem C05_refuted_alias_literal :         (* ~a := 1 ; t := (a, 2) ; a = 5     => t is (5, 2) *)
  ~ trace_ok [] (impl_trace cfg_cur store0 w_alias_literal) /\
  classes cfg_cur store0 [] w_alias_literal (model_obs cfg_cur w_alias_literal) = Some ["alias-literal"].
Proof. exact refuted_alias_literal. Qed.
Print Assumptions C05_refuted_alias_literal.

Theorem C05_refuted_destructure_mutable :   (* (p, q) := (1, 2)                  => p, q mutable *)
  ~ trace_ok [] (impl_trace cfg_cur store0 w_destructure_mutable) /\
  classes cfg_cur store0 [] w_destructure_mutable (model_obs cfg_cur w_destructure_mutable) = Some ["destructure-mutable"].
Proof. exact refuted_destructure_mutable. Qed.
Print Assumptions C05_refuted_destructure_mutable.

Theorem C05_refuted_destructure_partial :   (* a := 1 ; (p, a) := (1, 2)         => error, p defined *)
  ~ trace_ok [] (impl_trace cfg_cur store0 w_destructure_partial) /\
  classes cfg_cur store0 [] w_destructure_partial (model_obs cfg_cur w_destructure_partial) = Some ["destructure-partial"].
Proof. exact refuted_destructure_partial. Qed.
Print Assumptions C05_refuted_destructure_partial.

Theorem C05_refuted_table_column_partial :  (* ~t := |fa| 1 | 2 | ; t.fa = [5;6;7] => error, column 5 6 *)
  ~ trace_ok [] (impl_trace cfg_cur store0 w_table_column_partial) /\
  classes cfg_cur store0 [] w_table_column_partial (model_obs cfg_cur w_table_column_partial) = Some ["table-column-partial"].
Proof. exact refuted_table_column_partial. Qed.
Print Assumptions C05_refuted_table_column_partial.

Theorem C05_refuted_alias_destructure :     (* t := (1, 2) ; (p, q) := t ; p = 5 => t is (5, 2) *)
  ~ trace_ok [] (impl_trace cfg_cur store0 w_alias_destructure) /\
  classes cfg_cur store0 [] w_alias_destructure (model_obs cfg_cur w_alias_destructure)
    = Some ["destructure-mutable"; "alias-destructure"].
Proof. exact refuted_alias_destructure. Qed.
Print Assumptions C05_refuted_alias_destructure.

Theorem C05_refuted_int_op_partial :        (* ~m<[u8]:1,3> := [1 100 3] ; m += 200<u8>  => error, m is [201 100 3] *)
  ~ trace_ok [] (impl_trace cfg_cur store0 w_int_op_partial) /\
  classes cfg_cur store0 [] w_int_op_partial (model_obs cfg_cur w_int_op_partial) = Some ["int-op-partial"].
Proof. exact refuted_int_op_partial. Qed.
Print Assumptions C05_refuted_int_op_partial.

Theorem C05_refuted_int_div_partial :       (* ~m<[u8]:1,3> := [4 4 4] ; m /= [2<u8> 0<u8> 2<u8>]  => error, m is [2 4 4] *)
  ~ trace_ok [] (impl_trace cfg_cur store0 w_int_div_partial) /\
  classes cfg_cur store0 [] w_int_div_partial (model_obs cfg_cur w_int_div_partial) = Some ["int-op-partial"].
Proof. exact refuted_int_div_partial. Qed.
Print Assumptions C05_refuted_int_div_partial.

Theorem C05_refuted_r64_div_zero :          (* ~x := 3/2 ; x /= 0<r64>  => error, x is 1/0 *)
  ~ trace_ok [] (impl_trace cfg_cur store0 w_r64_div_zero) /\
  classes cfg_cur store0 [] w_r64_div_zero (model_obs cfg_cur w_r64_div_zero) = Some ["r64-div-zero-partial"].
Proof. exact refuted_r64_div_zero. Qed.
Print Assumptions C05_refuted_r64_div_zero.

(* 9. Outside the classes the model satisfies the property, for every history: no variable on the right of a
      definition (so nothing is shared), no destructure, no over-long table column and no integer op-assignment
      that panics midway (no kernel failing after it wrote).  All other statements are unrestricted: valid or invalid assignments of every form, with
      variables on their right-hand sides, redefinitions, undefined and immutable targets ... *)
Theorem C05_holds : forall h : list stmt,
  Forall safe_stmt h -> no_partial cfg_cur store0 h = true ->
  trace_ok [] (impl_trace cfg_cur store0 h).
Proof. exact holds_class_free. Qed.
Print Assumptions C05_holds.

(* 10. The model of the REPAIRED interpreter (proposed/C05-define-copies-variable.diff, C05-destructure-atomic-
       immutable.diff, C05-table-column-length.diff: `y := x` deep-copies, a destructure checks all targets first
       and binds immutable copies, a table column refuses an over-long source) satisfies the property on EVERY
       history whose definitions do not use a tuple/record literal with a variable element (class alias-literal,
       which the patches leave alone) and in which no op-assignment on integers panics after its first element
       (classes int-op-partial and r64-div-zero-partial: an integer overflow or division by zero midway through
       a matrix, a rational divided by zero; no patch proposed):
       bare-variable definitions, destructures of every shape, valid and invalid assignments of all forms and
       kinds are covered. *)
Theorem C05_repaired_holds : forall h : list stmt,
  Forall rep_safe h -> no_op_partial cfg_rep store0 h = true -> trace_ok [] (impl_trace cfg_rep store0 h).
Proof. exact repaired_holds. Qed.
Print Assumptions C05_repaired_holds.

(* non-vacuity of 10: the witnesses of 8a, 8c, 8d, 8e, 8f are such histories; under the repaired model
   a stays 1, the failing destructure defines nothing, p and q are immutable copies *)
Example C05_repaired_example :
  Forall rep_safe (w_alias_define ++ w_alias_destructure) /\
  Forall rep_safe w_destructure_partial /\ Forall rep_safe w_table_column_partial /\
  no_op_partial cfg_rep store0 (w_alias_define ++ w_alias_destructure) = true /\
  no_op_partial cfg_rep store0 w_destructure_partial = true /\ no_op_partial cfg_rep store0 w_table_column_partial = true /\
  last (states (impl_trace cfg_rep store0 w_alias_define)) [] =
    [("a", (false, DNum (dz 1))); ("b", (true, DNum (dz 5)))] /\
  map (fun t => snd (fst t)) (impl_trace cfg_rep store0 w_alias_destructure) = [true; true; false] /\
  last (states (impl_trace cfg_rep store0 w_alias_destructure)) [] =
    [("t", (false, DTup [DNum (dz 1); DNum (dz 2)])); ("p", (false, DNum (dz 1))); ("q", (false, DNum (dz 2)))] /\
  last (states (impl_trace cfg_rep store0 w_destructure_partial)) [] = [("a", (false, DNum (dz 1)))] /\
  last (states (impl_trace cfg_rep store0 w_table_column_partial)) [] = [("t", (true, DTab [("fa", [dz 1; dz 2])]))].
Proof.
  split; [repeat constructor|]. split; [repeat constructor|]. split; [repeat constructor|].
  repeat split; vm_compute; reflexivity.
Qed.
Print Assumptions C05_repaired_example.

(* non-vacuity: a class-free history with successful and failing statements of most forms; the model's
   trace conforms, ends with x = 7, m = [1 9; 3 4] and r.fa = 3, and contains errors *)
Example C05_example :
  let h := [SDef true "x" (ENum (dz 4)); SDef false "y" (ENum (dz 1)); SOp "x" OAdd (EVar "y");
            SAssign "y" (ENum (dz 2)); SDef false "x" (ENum (dz 0)); SOp "x" OAdd (ENum (dz 2));
            SDef true "m" (EMat 2 2 [dz 1; dz 3; dz 2; dz 4]); SIdx2 "m" 1 2 (SF (dz 9)); SIdx1 "m" 7 (SF (dz 9));
            SDef true "r" (ERec [("fa", ANum (dz 1)); ("fb", AMat 1 2 [dz 1; dz 2])]); SField "r" "fa" (ENum (dz 3));
            SAssign "z" (ENum (dz 1))] in
  Forall safe_stmt h /\ no_partial cfg_cur store0 h = true /\
  map (fun t => snd (fst t)) (impl_trace cfg_cur store0 h)
    = [true; true; true; false; false; true; true; true; false; true; true; false] /\
  last (states (impl_trace cfg_cur store0 h)) [] =
    [("x", (true, DNum (dz 7))); ("y", (false, DNum (dz 1))); ("m", (true, DMat 2 2 [dz 1; dz 3; dz 9; dz 4]));
     ("r", (true, DRec [("fa", DNum (dz 3)); ("fb", DMat 1 2 [dz 1; dz 2])]))].
Proof.
  cbv zeta. split; [repeat constructor|]. split; [vm_compute; reflexivity|]. split; vm_compute; reflexivity.
Qed.
Print Assumptions C05_example.

(* ---- the op-assignment compile() arms as they are in the source (regenerated table) ----------------------------
   `a op= b` keeps every binding but a's only if compile() hands the kernel (sink = a's cell, source = b's value) in this
   order for every combination of operand forms (plain value / reference to a variable's cell): a swapped pair in ONE of
   the hand-copied arms makes the statement write into b's cell (an immutable binding changes, another name changes).
   Gen/OpAssignArms.v is rewritten from machines/math/src/op_assign/*.rs by translators/opassign_arms.py on every run of
   this check; the statements are about THAT table (definitions: Proofs/OpAssignArmsP.v, general lemma: Proofs/SrcArmsP.v). *)
From MechV Require Import Model.SrcArms Proofs.SrcArmsP Gen.OpAssignArms Proofs.OpAssignArmsP.

(* 12. the translator recognised every construct it was pointed at *)
Theorem C05_opassign_source_fully_read : oa_unrecognised = [].
Proof. exact oa_nothing_unrecognised. Qed.
Print Assumptions C05_opassign_source_fully_read.

(* 13. every compile() of + - * / (whole variable, x[ix], x[ix,:]) binds sink = arguments[0], source = arguments[1], calls
       the kernel-level function of its own operator and form with (sink, source[, ixes]) directly and in every operand-form
       arm, unwrapping every reference; one compile() per operator and form; the four operators have the same arm lists *)
Theorem C05_opassign_compile_arms_regular :
  forallb compile_ok oa_compile = true /\ oa_compile_complete = true /\ oa_uniform = true.
Proof. exact (conj (proj1 oa_compile_regular) (conj (proj2 oa_compile_regular) oa_arm_lists_uniform)). Qed.
Print Assumptions C05_opassign_compile_arms_regular.

(* 14. what 13 means: for every operand-form combination the kernel-level function of the operator receives the CONTENTS of
       (sink, source[, ixes]) in this order — never (source, sink) *)
Theorem C05_opassign_compile_applies_kernel_to_sink_source :
  forall (A R : Type) (c : cfn) (o form : string) (k : string -> list (rval A) -> option R) (args : list (rval A)),
    In c oa_compile -> cf_tag c = [o; form] ->
    (forall f vs, existsb is_ref vs = true -> k f vs = None) ->
    List.length args = List.length (roles_of form) ->
    (forall v, nth_error args 2 = Some v -> is_ref v = false) ->
    exists r f, resolve_cfn c = Some r /\ callee_of o form = Some f /\ compile_model r k args = k f (map strip args).
Proof. exact oa_compile_applies_kernel_to_sink_source. Qed.
Print Assumptions C05_opassign_compile_applies_kernel_to_sink_source.

(* 15. the general lemma behind 14, for ANY table that passes the boolean check [rcfn_ok] *)
Theorem C05_regular_compile_unwraps_in_order :
  forall (A R : Type) (callee : string) (roles refpos : list nat) (c : rcfn)
         (k : string -> list (rval A) -> option R) (args : list (rval A)),
    rcfn_ok callee roles refpos c = true ->
    List.length args = rc_nargs c ->
    (forall i v, nth_error args i = Some v -> is_ref v = true -> nat_in i refpos = true) ->
    (forall f vs, existsb is_ref vs = true -> k f vs = None) ->
    compile_model c k args =
      match omap (fun i => option_map strip (nth_error args i)) roles with
      | Some vs => k callee vs
      | None => None
      end.
Proof. exact (@compile_model_correct). Qed.
Print Assumptions C05_regular_compile_unwraps_in_order.
