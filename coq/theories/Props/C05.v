(* C05 — Bindings are isolated: immutable means unchanged, failures change nothing. *)
From Coq Require Import List String.
From MechV Require Import Base.Sexp Base.Obs Model.Store Proofs.StoreP.
Import ListNotations.

Theorem C05_failure_frame : forall T st T', step_okb T st false T' = true -> frameb [] T T' = true.
Proof. exact step_err_frame. Qed.
Print Assumptions C05_failure_frame.
