(* C16 — Function and match arms: the first arm that matches is the one that runs.
   Property theorems only; definitions in Model/Fun.v, proofs in Proofs/FunP.v.

   Reading guide.  [select_at gd mt k arms] walks an arm list (pattern, optional guard, body)
   with a matcher [mt] (pattern -> matched? * environment) and a guard evaluator [gd]; it is the
   selection used by a user-function call ([tail_loop], matcher = [pm_args]: the argument list)
   and by the specification of a match expression ([match_step spec_q], matcher = [pm_m]: the
   source value).  [eval q P fuel depth ...] is the evaluator; with q = spec_q it is the
   specification, with q = impl_q a faithful model of the interpreter's code including its five
   deviations (known findings).  [depth] bounds nested activations: a self call in arm position
   stays at the same depth (the `loop` of execute_user_function). *)
From Coq Require Import List Arith ZArith Bool String.
From MechV Require Import Base.Sexp Base.Obs Model.Fun Proofs.FunP.
Import ListNotations.
Open Scope string_scope.

(* ---------------------------------------------------------------- 1. first match wins *)
(* The selection is arm i with environment e  <->  arm i's pattern matches binding e and its guard
   is true in e, and every earlier arm was passed over (pattern fails, or matches with a false guard). *)
Theorem C16_select_first : forall (gd : env -> option expr -> res bool) (mt : pat -> bool * env)
    (arms : list arm) (i : nat) (e : env) (b : expr),
  select_at gd mt 0 arms = SelArm i e b <->
  (exists a : arm, nth_error arms i = Some a /\ arm_body a = b /\ accepts gd mt a e /\
     (forall (j : nat) (a' : arm), j < i -> nth_error arms j = Some a' -> rejects gd mt a')).
Proof. exact select_first. Qed.
Print Assumptions C16_select_first.

(* With guards that always yield a bool: "... and no earlier arm both matches and has a true guard". *)
Theorem C16_select_first_total : forall (gd : env -> option expr -> res bool) (mt : pat -> bool * env),
  (forall (e : env) (g : option expr), exists b : bool, gd e g = ROk b) ->
  forall (arms : list arm) (i : nat) (e : env) (b : expr),
  select_at gd mt 0 arms = SelArm i e b <->
  (exists a : arm, nth_error arms i = Some a /\ arm_body a = b /\ accepts gd mt a e /\
     (forall (j : nat) (a' : arm), j < i -> nth_error arms j = Some a' -> ~ takes gd mt a')).
Proof. exact select_first_total. Qed.
Print Assumptions C16_select_first_total.

(* No arm is selected exactly when every arm is passed over. *)
Theorem C16_select_none : forall (gd : env -> option expr -> res bool) (mt : pat -> bool * env) (arms : list arm) (k : nat),
  select_at gd mt k arms = SelNone <-> Forall (rejects gd mt) arms.
Proof. exact select_none. Qed.
Print Assumptions C16_select_none.

(* No later arm runs: what follows the selected arm can be replaced by anything. *)
Theorem C16_no_later_arm_runs : forall (gd : env -> option expr -> res bool) (mt : pat -> bool * env)
    (l1 : list arm) (k i : nat) (e : env) (b : expr),
  select_at gd mt k l1 = SelArm i e b -> forall l2 : list arm, select_at gd mt k (l1 ++ l2)%list = SelArm i e b.
Proof. exact no_later_arm_runs. Qed.
Print Assumptions C16_no_later_arm_runs.

(* A function activation runs the body of exactly that arm (then converts to the declared output kind) ... *)
Theorem C16_fn_first_arm_runs : forall (q : quirks) (P : prog) (ev : evaluator) (n d : nat) (fd : fdef)
    (args : list value) (i : nat) (e : env) (body : expr),
  conforms_all P (fparams fd) args = true -> fn_exhaustive P fd = true ->
  select_at (guard_res (ev d (combine (map fst (fparams fd)) args))) (pm_args (q_multi_wild q) args) 0 (farms fd)
    = SelArm i e body ->
  self_tail_call fd body = None ->
  tail_loop q P ev (S n) d fd args = bind (ev d (combine (map fst (fparams fd)) args) e body) (coerce P (fout fd)).
Proof. exact fn_first_arm_runs. Qed.
Print Assumptions C16_fn_first_arm_runs.

(* ... and when that body is a direct self call the loop goes round with the new arguments, same depth. *)
Theorem C16_fn_tail_call_loops : forall (q : quirks) (P : prog) (ev : evaluator) (n d : nat) (fd : fdef)
    (args : list value) (i : nat) (e : env) (body : expr) (targs : list expr) (vs : list value),
  conforms_all P (fparams fd) args = true -> fn_exhaustive P fd = true ->
  select_at (guard_res (ev d (combine (map fst (fparams fd)) args))) (pm_args (q_multi_wild q) args) 0 (farms fd)
    = SelArm i e body ->
  self_tail_call fd body = Some targs ->
  map_res (ev d (combine (map fst (fparams fd)) args) e) targs = ROk vs ->
  tail_loop q P ev (S n) d fd args = tail_loop q P ev n d fd vs.
Proof. exact fn_tail_call_loops. Qed.
Print Assumptions C16_fn_tail_call_loops.

(* The specification of a match expression: the body of the selected arm, in its environment. *)
Theorem C16_match_first_arm_runs : forall (P : prog) (evb : env -> expr -> res value) (base : env) (v : value)
    (arms : list arm) (i : nat) (e : env) (b : expr),
  match_exhaustive P v arms = true ->
  select_at (guard_res evb) (pm_m false v base) 0 arms = SelArm i e b ->
  match_step spec_q P evb base v arms = evb e b.
Proof. exact match_first_arm_runs. Qed.
Print Assumptions C16_match_first_arm_runs.

Theorem C16_match_later_arms_irrelevant : forall (evb : env -> expr -> res value) (base : env) (v : value)
    (l1 l2 l2' : list arm) (i : nat) (e : env) (b : expr),
  select_at (guard_res evb) (pm_m false v base) 0 l1 = SelArm i e b ->
  match_main spec_q evb base v (l1 ++ l2)%list = match_main spec_q evb base v (l1 ++ l2')%list.
Proof. exact match_later_arms_irrelevant. Qed.
Print Assumptions C16_match_later_arms_irrelevant.

(* ---------------------------------------------------------------- 2. pattern variables are bound to the matched parts *)
(* Whenever the matcher succeeds, the resulting environment extends the incoming one and the pattern
   DESCRIBES the value in it ([holds]: a variable reads the sub-value at its position, a tuple pattern
   the components, [pre ... suf] a prefix and a suffix, a bound spread / rest the row of the middle,
   :t(p) the payload). *)
Theorem C16_pm_sound : forall (p : pat) (v : value) (e e' : env),
  pm false p v e = (true, e') -> extends e e' /\ holds e' p v.
Proof. exact pm_sound. Qed.
Print Assumptions C16_pm_sound.

Theorem C16_pmatch_sound : forall (p : pat) (v : value) (e : env), pmatch p v = Some e -> holds e p v.
Proof. exact pmatch_sound. Qed.
Print Assumptions C16_pmatch_sound.

(* head / tail: head = first element, tail = the row of the rest *)
Theorem C16_pmatch_head_tail : forall (h t : string) (r c : nat) (a : value) (l : list value), h <> t ->
  pmatch (PArr [PVar h] (Some (Some (PVar t))) []) (VMat r c (a :: l)) = Some [(t, VMat 1 (List.length l) l); (h, a)].
Proof. exact pmatch_head_tail. Qed.
Print Assumptions C16_pmatch_head_tail.

Theorem C16_holds_head_tail : forall (e : env) (h t : string) (r c : nat) (l : list value),
  holds e (PArr [PVar h] (Some (Some (PVar t))) []) (VMat r c l) ->
  exists (a : value) (l' : list value), l = a :: l' /\ lookup h e = Some a /\ lookup t e = Some (VMat 1 (List.length l') l').
Proof. exact holds_head_tail. Qed.
Print Assumptions C16_holds_head_tail.

Theorem C16_holds_last : forall (e : env) (x : string) (r c : nat) (l : list value),
  holds e (PArr [] (Some None) [PVar x]) (VMat r c l) ->
  exists (l' : list value) (a : value), l = (l' ++ [a])%list /\ lookup x e = Some a.
Proof. exact holds_last. Qed.
Print Assumptions C16_holds_last.

Theorem C16_pmatch_tuple_vars : forall (xs : list string) (vs : list value),
  List.length xs = List.length vs -> NoDup xs ->
  pmatch (PTuple (map PVar xs)) (VTuple vs) = Some (rev (combine xs vs)).
Proof. exact pmatch_tuple_vars. Qed.
Print Assumptions C16_pmatch_tuple_vars.

Theorem C16_pmatch_repeated : forall (x : string) (a b : value),
  pmatch (PTuple [PVar x; PVar x]) (VTuple [a; b]) = (if value_eqb a b then Some [(x, a)] else None).
Proof. exact pmatch_repeated. Qed.
Print Assumptions C16_pmatch_repeated.

Theorem C16_pmatch_enum_payload : forall (t x : string) (v : value),
  pmatch (PEnum t (Some (PVar x))) (VEnum t (Some v)) = Some [(x, v)].
Proof. exact pmatch_enum_payload. Qed.
Print Assumptions C16_pmatch_enum_payload.

Theorem C16_pmatch_lit_iff : forall (l v : value) (e : env), pmatch (PLit l) v = Some e <-> l = v /\ e = [].
Proof. exact pmatch_lit_iff. Qed.
Print Assumptions C16_pmatch_lit_iff.

(* ---------------------------------------------------------------- 3. broadcasting, arity, no arm, exhaustiveness *)
Theorem C16_broadcast_pointwise : forall (P : prog) (ev : evaluator) (n d : nat) (fd : fdef) (r c : nat) (l outs : list value),
  scalar_fn fd -> Forall (fun v : value => conforms P (param_kind1 fd) v = true) l ->
  (call_fn spec_q P ev n d fd [VMat r c l] = ROk (VMat r c outs) <->
   Forall2 (fun x y : value => call_fn spec_q P ev n d fd [x] = ROk y) l outs).
Proof. exact broadcast_pointwise. Qed.
Print Assumptions C16_broadcast_pointwise.

Theorem C16_arity_err : forall (q : quirks) (P : prog) (ev : evaluator) (n d : nat) (fd : fdef) (args : list value),
  List.length args <> List.length (fparams fd) -> call_fn q P ev n d fd args = RErr.
Proof. exact arity_err. Qed.
Print Assumptions C16_arity_err.

Theorem C16_arity_err_eval : forall (q : quirks) (P : prog) (f d : nat) (syms e : env) (fn : string) (fd : fdef)
    (args : list expr) (vs : list value),
  find_fn (pdefs P) fn = Some fd -> map_res (eval q P f (S d) syms e) args = ROk vs ->
  List.length args <> List.length (fparams fd) ->
  eval q P (S f) (S d) syms e (ECall fn args) = RErr.
Proof. exact arity_err_eval. Qed.
Print Assumptions C16_arity_err_eval.

Theorem C16_no_match_err : forall (q : quirks) (P : prog) (ev : evaluator) (n d : nat) (fd : fdef) (args : list value),
  conforms_all P (fparams fd) args = true ->
  Forall (rejects (guard_res (ev d (combine (map fst (fparams fd)) args))) (pm_args (q_multi_wild q) args)) (farms fd) ->
  tail_loop q P ev (S n) d fd args = RErr.
Proof. exact no_match_err. Qed.
Print Assumptions C16_no_match_err.

Theorem C16_match_no_arm_err : forall (P : prog) (evb : env -> expr -> res value) (base : env) (v : value) (arms : list arm),
  Forall (rejects (guard_res evb) (pm_m false v base)) arms -> match_step spec_q P evb base v arms = RErr.
Proof. exact match_no_arm_err. Qed.
Print Assumptions C16_match_no_arm_err.

(* rejected, under every combination of the switches (specification and code model alike) *)
Theorem C16_nonexhaustive_rejected : forall (P : prog) (evb : env -> expr -> res value) (q : quirks) (base : env)
    (v : value) (arms : list arm),
  match_exhaustive P v arms = false -> match_step q P evb base v arms = RErr.
Proof. exact nonexhaustive_rejected. Qed.
Print Assumptions C16_nonexhaustive_rejected.

(* accepted  <->  a wildcard arm, or the source is an enum value and the arms name every variant *)
Theorem C16_match_exhaustive_iff : forall (P : prog) (v : value) (arms : list arm),
  match_exhaustive P v arms = true <->
  (exists a : arm, In a arms /\ arm_pat a = PWild) \/
  ((exists (t : string) (p : option value), v = VEnum t p) /\ arm_tags arms <> [] /\
   (forall (t : string) (hp : bool), In (t, hp) (penum P) -> In t (arm_tags arms))).
Proof. exact match_exhaustive_iff. Qed.
Print Assumptions C16_match_exhaustive_iff.

Theorem C16_fn_nonexhaustive_rejected : forall (q : quirks) (P : prog) (ev : evaluator) (n d : nat) (fd : fdef) (args : list value),
  conforms_all P (fparams fd) args = true -> fn_exhaustive P fd = false -> tail_loop q P ev (S n) d fd args = RErr.
Proof. exact fn_nonexhaustive_rejected. Qed.
Print Assumptions C16_fn_nonexhaustive_rejected.

(* ---------------------------------------------------------------- 4. recursion = the mathematical recurrence
   For every integer kind k (range lo..hi), every switch setting q, every program P that defines the
   function (as gen/c16.py writes it: see the C16_gen_* examples), every n in the non-overflowing
   domain, with explicit fuel and depth bounds. *)
Theorem C16_factorial_correct : forall (q : quirks) (P : prog) (k : string) (lo hi : Z),
  kind_range k = Some (lo, hi) -> (lo <= 0)%Z -> find_fn (pdefs P) "fact" = Some (fact_def k) ->
  forall (n f d : nat) (syms e : env), 2 * n + 4 <= f -> n + 1 <= d -> (fact_Z n <= hi)%Z ->
  eval q P f d syms e (ECall "fact" [num k (Z.of_nat n)]) = ROk (VInt k (fact_Z n)).
Proof. exact factorial_correct. Qed.
Print Assumptions C16_factorial_correct.

Theorem C16_power_correct : forall (q : quirks) (P : prog) (k : string) (lo hi : Z),
  kind_range k = Some (lo, hi) -> (lo <= 0)%Z -> find_fn (pdefs P) "power" = Some (power_def k) ->
  forall (n : nat) (x : Z) (f d : nat) (syms e : env), 2 * n + 4 <= f -> n + 1 <= d ->
  (lo <= x <= hi)%Z -> (Z.of_nat n <= hi)%Z -> (forall m : nat, m <= n -> (lo <= x ^ Z.of_nat m <= hi)%Z) ->
  eval q P f d syms e (ECall "power" [num k x; num k (Z.of_nat n)]) = ROk (VInt k (x ^ Z.of_nat n)).
Proof. exact power_correct. Qed.
Print Assumptions C16_power_correct.

Theorem C16_fib_correct : forall (q : quirks) (P : prog) (k : string) (lo hi : Z),
  kind_range k = Some (lo, hi) -> (lo <= 0)%Z -> find_fn (pdefs P) "fib" = Some (fib_def k) ->
  forall (n f d : nat) (syms e : env), 2 * n + 4 <= f -> n + 1 <= d -> (Z.of_nat n <= hi)%Z -> (fib_Z n <= hi)%Z ->
  eval q P f d syms e (ECall "fib" [num k (Z.of_nat n)]) = ROk (VInt k (fib_Z n)).
Proof. exact fib_correct. Qed.
Print Assumptions C16_fib_correct.

Theorem C16_gcd_correct : forall (q : quirks) (P : prog) (k : string) (lo hi : Z),
  kind_range k = Some (lo, hi) -> (lo <= 0)%Z -> find_fn (pdefs P) "gcd" = Some (gcd_def k) ->
  forall (a b : Z) (f d : nat) (syms e : env), Z.to_nat b + 4 <= f -> 1 <= d -> (0 <= a <= hi)%Z -> (0 <= b <= hi)%Z ->
  eval q P f d syms e (ECall "gcd" [num k a; num k b]) = ROk (VInt k (Z.gcd a b)).
Proof. exact gcd_correct. Qed.
Print Assumptions C16_gcd_correct.

(* tail recursion of ANY depth: depth 2 (countdown + its accumulator function) suffices for every n *)
Theorem C16_countdown_correct : forall (q : quirks) (P : prog) (k : string) (lo hi : Z),
  kind_range k = Some (lo, hi) -> (lo <= 0)%Z ->
  find_fn (pdefs P) "countdown" = Some (countdown_def k) -> find_fn (pdefs P) "cdacc" = Some (cdacc_def k) ->
  forall (n f : nat) (syms e : env), n + 6 <= f -> (Z.of_nat n <= hi)%Z ->
  eval q P f 2 syms e (ECall "countdown" [num k (Z.of_nat n)]) = ROk (VInt k (Z.of_nat n)).
Proof. exact countdown_correct. Qed.
Print Assumptions C16_countdown_correct.

(* ---------------------------------------------------------------- 4b. declared parameter names *)
(* Scoping.  Every activation - and every iteration of the tail-call loop, see C16_fn_first_arm_runs and
   C16_fn_tail_call_loops: guards, bodies and the arguments of the tail call are evaluated with
   syms = combine (parameter names) (the CURRENT arguments), and the next iteration with the NEW ones -
   gives a declared parameter name the argument at its position, unless the pattern bound a variable
   of the same name, which shadows it. *)
Theorem C16_pattern_var_shadows_param : forall (q : quirks) (P : prog) (f d : nat) (syms e : env) (x : string) (v : value),
  lookup x e = Some v -> eval q P (S f) d syms e (EVar x) = ROk v.
Proof. exact pattern_var_shadows_param. Qed.
Print Assumptions C16_pattern_var_shadows_param.

Theorem C16_param_name_denotes_arg : forall (q : quirks) (P : prog) (f d : nat) (names : list string) (args : list value)
    (e : env) (i : nat) (x : string) (v : value),
  lookup x e = None -> NoDup names -> nth_error names i = Some x -> nth_error args i = Some v ->
  eval q P (S f) d (combine names args) e (EVar x) = ROk v.
Proof. exact param_name_denotes_arg. Qed.
Print Assumptions C16_param_name_denotes_arg.

(* ... in EVERY iteration: accumulator loops whose arms read `acc` (sumacc) resp. `n` and `acc` (sumname)
   by NAME, the pattern positions being `*`, return acc + n(n+1)/2 for every n, acc of the kind, at ONE
   activation of stack.  tri n = n(n+1)/2. *)
Theorem C16_sumacc_correct : forall (q : quirks) (P : prog) (k : string) (lo hi : Z),
  kind_range k = Some (lo, hi) -> (lo <= 0)%Z -> find_fn (pdefs P) "sumacc" = Some (sumacc_def k) ->
  forall (n : nat) (acc : Z) (f d : nat) (syms e : env), n + 4 <= f -> 1 <= d -> (0 <= acc)%Z -> (acc + tri n <= hi)%Z ->
  eval q P f d syms e (ECall "sumacc" [num k (Z.of_nat n); num k acc]) = ROk (VInt k (acc + tri n)).
Proof. exact sumacc_correct. Qed.
Print Assumptions C16_sumacc_correct.

Theorem C16_sumname_correct : forall (q : quirks) (P : prog) (k : string) (lo hi : Z),
  kind_range k = Some (lo, hi) -> (lo <= 0)%Z -> find_fn (pdefs P) "sumname" = Some (sumname_def k) ->
  forall (n : nat) (acc : Z) (f d : nat) (syms e : env), n + 4 <= f -> 1 <= d -> (0 <= acc)%Z -> (acc + tri n <= hi)%Z ->
  eval q P f d syms e (ECall "sumname" [num k (Z.of_nat n); num k acc]) = ROk (VInt k (acc + tri n)).
Proof. exact sumname_correct. Qed.
Print Assumptions C16_sumname_correct.

(* ---------------------------------------------------------------- 5. the judge *)
(* ok => the implementation's observation on this case IS the specified outcome (value or error) *)
Theorem C16_judge_sound : forall (c : case) (o : fobs) (tag : string), judge_case c o = v_ok tag -> C16_spec c o.
Proof. exact judge_case_sound. Qed.
Print Assumptions C16_judge_sound.

(* kf => the observation is exactly the code model's (different) prediction, attributed to a listed
   finding - or the process died on a recursion deeper than depth_safe *)
Theorem C16_judge_kf : forall (c : case) (o : fobs) (id : string), judge_case c o = v_kf id ->
  (id = "deep-recursion-abort" /\ o = FAbort /\ is_deep c = true) \/
  (obs_is (run impl_q (big_depth c) c) o = true /\
   res_eqb (run impl_q (big_depth c) c) (run spec_q (big_depth c) c) = false /\
   kf_class c (run spec_q (big_depth c) c) = Some id).
Proof. exact judge_case_kf. Qed.
Print Assumptions C16_judge_kf.

(* ---------------------------------------------------------------- 6. known findings: refuted on a witness, holds outside *)
Theorem C16_refuted_match_bool_literal :
  run spec_q 50 w_bool = ROk (u 1) /\ run impl_q 50 w_bool = ROk (u 2) /\ kf_class w_bool (ROk (u 1)) = Some "match-bool-literal".
Proof. exact refuted_bool. Qed.
Print Assumptions C16_refuted_match_bool_literal.

Theorem C16_refuted_multi_arg_wildcard :
  run spec_q 50 w_wild = ROk (u 1) /\ run impl_q 50 w_wild = RErr /\ kf_class w_wild (ROk (u 1)) = Some "multi-arg-wildcard".
Proof. exact refuted_wild. Qed.
Print Assumptions C16_refuted_multi_arg_wildcard.

Theorem C16_refuted_broadcast_kind_change :
  run spec_q 50 w_bcast = ROk (VMat 1 3 [VBool true; VBool false; VBool false]) /\ run impl_q 50 w_bcast = RErr /\
  kf_class w_bcast (run spec_q 50 w_bcast) = Some "broadcast-kind-change".
Proof. exact refuted_bcast. Qed.
Print Assumptions C16_refuted_broadcast_kind_change.

Theorem C16_refuted_guard_before_match :
  run spec_q 50 w_guard = ROk (u 0) /\ run impl_q 50 w_guard = RErr /\ kf_class w_guard (ROk (u 0)) = Some "guard-before-match".
Proof. exact refuted_guard. Qed.
Print Assumptions C16_refuted_guard_before_match.

Theorem C16_refuted_later_arm_evaluated :
  run spec_q 50 w_later = ROk (u 1) /\ run impl_q 50 w_later = RArith /\ kf_class w_later (ROk (u 1)) = Some "later-arm-evaluated".
Proof. exact refuted_later. Qed.
Print Assumptions C16_refuted_later_arm_evaluated.

(* non-tail recursion does consume depth: sumto(100) is fine with enough depth and runs out at depth_safe *)
Theorem C16_refuted_deep_recursion_abort :
  run spec_q 1000 w_deep = ROk (u 5050) /\ run spec_q depth_safe w_deep = RStack /\ is_deep w_deep = true.
Proof. exact refuted_deep. Qed.
Print Assumptions C16_refuted_deep_recursion_abort.

(* C16 holds for every program without match expressions, outside two syntactic classes (a bare `*`
   arm in a function with other than one parameter; a one-parameter scalar function whose output kind
   differs from its input kind): there the evaluator does not depend on the switches - the code model
   is the specification - whatever patterns, recursion, tail calls and broadcasting the program uses. *)
Theorem C16_holds_functions : forall (q1 q2 : quirks) (P : prog), prog_free P = true ->
  forall (fuel d : nat) (s e : env) (x : expr), nm x = true -> eval q1 P fuel d s e x = eval q2 P fuel d s e x.
Proof. exact eval_quirk_free. Qed.
Print Assumptions C16_holds_functions.

(* C16 holds for a match expression with a wildcard arm, no bool-literal pattern, guards that evaluate
   to a bool on this source, and other applicable arms whose bodies evaluate to the selected kind. *)
Theorem C16_holds_match : forall (P : prog) (evb : env -> expr -> res value) (base : env) (v : value) (arms : list arm),
  has_wild arms = true ->
  Forall (fun a : arm => no_bool_lit (arm_pat a) = true) arms ->
  Forall (guard_safe evb base v) arms ->
  (forall out : value, match_step spec_q P evb base v arms = ROk out -> Forall (arm_harmless evb base v out) arms) ->
  match_step impl_q P evb base v arms = match_step spec_q P evb base v arms.
Proof. exact match_impl_eq_spec. Qed.
Print Assumptions C16_holds_match.

Theorem C16_boolpat_only_bool_literals : forall p : pat, no_bool_lit p = true ->
  forall (v : value) (e : env), pm true p v e = pm false p v e.
Proof. exact pm_boolpat_free. Qed.
Print Assumptions C16_boolpat_only_bool_literals.

(* the code model of the broadcast deviation, for all scalar functions and matrices *)
Theorem C16_broadcast_impl_kind_change : forall (P : prog) (ev : evaluator) (n d : nat) (fd : fdef) (r c : nat) (l : list value),
  scalar_fn fd -> Forall (fun v : value => conforms P (param_kind1 fd) v = true) l ->
  pkind_eqb (param_kind1 fd) (fout fd) = false -> call_fn impl_q P ev n d fd [VMat r c l] = RErr.
Proof. exact broadcast_impl_kind_change. Qed.
Print Assumptions C16_broadcast_impl_kind_change.

(* ---------------------------------------------------------------- examples (non-vacuity, tie to the generator) *)
(* what gen/c16.py writes for the recursive definitions decodes to the definitions of section 4 *)
Example C16_gen_fact : prog_of "(c16 (enum) (defs (fn fact ((x (int u64))) (int u64) (arm (l (i u64 0)) - (val (i u64 1))) (arm (v n) - (op mul (var n) (call fact (op sub (var n) (val (i u64 1)))))))) (globals) (main (call fact (val (i u64 5)))) (fuel 600))"
  = Some {| penum := []; pdefs := [fact_def "u64"] |}.
Proof. exact gen_fact. Qed.
Print Assumptions C16_gen_fact.

Example C16_gen_power : prog_of "(c16 (enum) (defs (fn power ((x (int u64)) (y (int u64))) (int u64) (arm (t _ (l (i u64 0))) - (val (i u64 1))) (arm (t (v x) (v y)) - (op mul (var x) (call power (var x) (op sub (var y) (val (i u64 1)))))))) (globals) (main (call power (val (i u64 2)) (val (i u64 10)))) (fuel 600))"
  = Some {| penum := []; pdefs := [power_def "u64"] |}.
Proof. exact gen_power. Qed.
Print Assumptions C16_gen_power.

Example C16_gen_fib : prog_of "(c16 (enum) (defs (fn fib ((x (int u64))) (int u64) (arm (l (i u64 0)) - (val (i u64 0))) (arm (l (i u64 1)) - (val (i u64 1))) (arm (v n) - (op add (call fib (op sub (var n) (val (i u64 1)))) (call fib (op sub (var n) (val (i u64 2)))))))) (globals) (main (call fib (val (i u64 10)))) (fuel 600))"
  = Some {| penum := []; pdefs := [fib_def "u64"] |}.
Proof. exact gen_fib. Qed.
Print Assumptions C16_gen_fib.

Example C16_gen_gcd : prog_of "(c16 (enum) (defs (fn gcd ((a (int u64)) (b (int u64))) (int u64) (arm (t (v a) (l (i u64 0))) - (var a)) (arm (t (v a) (v b)) - (call gcd (var b) (op mod (var a) (var b)))))) (globals) (main (call gcd (val (i u64 12)) (val (i u64 18)))) (fuel 600))"
  = Some {| penum := []; pdefs := [gcd_def "u64"] |}.
Proof. exact gen_gcd. Qed.
Print Assumptions C16_gen_gcd.

Example C16_gen_countdown : prog_of "(c16 (enum) (defs (fn countdown ((n (int u64))) (int u64) (arm (v n) - (call cdacc (var n) (val (i u64 0))))) (fn cdacc ((n (int u64)) (acc (int u64))) (int u64) (arm (t (l (i u64 0)) (v acc)) - (var acc)) (arm (t (v n) (v acc)) - (call cdacc (op sub (var n) (val (i u64 1))) (op add (var acc) (val (i u64 1))))))) (globals) (main (call countdown (val (i u64 1000)))) (fuel 1400))"
  = Some {| penum := []; pdefs := [countdown_def "u64"; cdacc_def "u64"] |}.
Proof. exact gen_countdown. Qed.
Print Assumptions C16_gen_countdown.

Example C16_gen_sumacc : prog_of "(c16 (enum) (defs (fn sumacc ((n (int u64)) (acc (int u64))) (int u64) (arm (t (l (i u64 0)) _) - (var acc)) (arm (t (v k) _) - (call sumacc (op sub (var k) (val (i u64 1))) (op add (var acc) (var k)))))) (globals) (main (call sumacc (val (i u64 10)) (val (i u64 0)))) (fuel 110))"
  = Some {| penum := []; pdefs := [sumacc_def "u64"] |}.
Proof. exact gen_sumacc. Qed.
Print Assumptions C16_gen_sumacc.

Example C16_gen_sumname : prog_of "(c16 (enum) (defs (fn sumname ((n (int u64)) (acc (int u64))) (int u64) (arm (t (l (i u64 0)) _) - (var acc)) (arm (t _ _) - (call sumname (op sub (var n) (val (i u64 1))) (op add (var acc) (var n)))))) (globals) (main (call sumname (val (i u64 10)) (val (i u64 0)))) (fuel 110))"
  = Some {| penum := []; pdefs := [sumname_def "u64"] |}.
Proof. exact gen_sumname. Qed.
Print Assumptions C16_gen_sumname.

(* the hypotheses of the recurrence theorems are satisfiable: u64, 20! fits, countdown(3000) *)
Example C16_example_factorial_u64 :
  eval impl_q {| penum := []; pdefs := [fact_def "u64"] |} 100 30 [] [] (ECall "fact" [num "u64" 20])
  = ROk (VInt "u64" 2432902008176640000).
Proof.
  apply (C16_factorial_correct impl_q {| penum := []; pdefs := [fact_def "u64"] |} "u64" 0%Z (two64 - 1)%Z eq_refl (Z.le_refl 0) eq_refl 20);
    [apply Nat.leb_le; reflexivity | apply Nat.leb_le; reflexivity | vm_compute; discriminate].
Qed.
Print Assumptions C16_example_factorial_u64.

Example C16_example_countdown_u64 : forall f, 3006 <= f ->
  eval impl_q {| penum := []; pdefs := [countdown_def "u64"; cdacc_def "u64"] |} f 2 [] [] (ECall "countdown" [num "u64" (Z.of_nat 3000)])
  = ROk (VInt "u64" (Z.of_nat 3000)).
Proof.
  intros f Hf.
  apply (C16_countdown_correct impl_q {| penum := []; pdefs := [countdown_def "u64"; cdacc_def "u64"] |} "u64" 0%Z (two64 - 1)%Z eq_refl (Z.le_refl 0) eq_refl eq_refl 3000 f [] [] Hf).
  apply Z.leb_le. vm_compute. reflexivity.
Qed.
Print Assumptions C16_example_countdown_u64.

Example C16_example_judge_lines :
  run_line "((c16 (enum) (defs (fn fact ((x (int u64))) (int u64) (arm (l (i u64 0)) - (val (i u64 1))) (arm (v n) - (op mul (var n) (call fact (op sub (var n) (val (i u64 1)))))))) (globals) (main (call fact (val (i u64 5)))) (fuel 600)) (s u64 120))" = "(ok value)" /\
  run_line "((c16 (enum) (defs (fn fact ((x (int u64))) (int u64) (arm (l (i u64 0)) - (val (i u64 1))) (arm (v n) - (op mul (var n) (call fact (op sub (var n) (val (i u64 1)))))))) (globals) (main (call fact (val (i u64 5)))) (fuel 600)) (s u64 121))" = "(bad wrong-result (value (i u64 120)))".
Proof. exact (conj judge_line_ok judge_line_bad). Qed.
Print Assumptions C16_example_judge_lines.
