(* C18 — Table joins are the relational-algebra joins on the shared columns; row selection.
   Property theorems only; proofs live in Proofs/JoinP.v.

   Vocabulary (Model/Join.v): a table is a list of columns (name, kind text) and a list of rows, a row
   being the list of its cells along the columns; the cell type V is arbitrary (equality test veqb,
   empty value vempty).  [join_rows] is the model of build_joined_table (nested loop over left x right
   rows, rows_match on all commonly named columns, rhs_matched flags, trailing pass over unmatched right
   rows); [spec_rows] is relational algebra in comprehension form; [join_cols] is output_cols. *)
From Coq Require Import String.
From Coq Require Import List Arith ZArith Bool Permutation.
From MechV Require Import Base.Sexp Base.Obs Model.Join Proofs.JoinP.
Import ListNotations.

(* ---- 1. the code's nested loop computes the relational-algebra rows ---- *)

(* the loop with its matched-flags state is the stateless per-left-row form *)
Theorem C18_loop_refines : forall (V : Type) (veqb : V -> V -> bool) (vempty : V) (m : jmode) (lc rc : list col)
    (l r : list (list V)),
  join_rows veqb vempty m lc rc l r = join_fun veqb vempty m lc rc l r.
Proof. exact (@join_rows_fun). Qed.
Print Assumptions C18_loop_refines.

(* for every operator and all tables: model of the code = specification, as multisets of rows *)
Theorem C18_model_is_spec : forall (V : Type) (veqb : V -> V -> bool) (vempty : V) (m : jmode) (lc rc : list col)
    (l r : list (list V)),
  Permutation (join_rows veqb vempty m lc rc l r) (spec_rows veqb vempty m lc rc l r).
Proof. exact (@join_rows_perm_spec). Qed.
Print Assumptions C18_model_is_spec.

(* inner, right outer, semi, anti: even in the same order *)
Theorem C18_model_is_spec_ordered : forall (V : Type) (veqb : V -> V -> bool) (vempty : V) (m : jmode)
    (lc rc : list col) (l r : list (list V)),
  pads_right m = false -> join_rows veqb vempty m lc rc l r = spec_rows veqb vempty m lc rc l r.
Proof. exact (@join_rows_eq_spec). Qed.
Print Assumptions C18_model_is_spec_ordered.

(* ---- 2. inner join: every matching pair exactly once ---- *)
Theorem C18_inner_pairs : forall (V : Type) (veqb : V -> V -> bool) (lc rc : list col) (l r : list (list V)),
  inner_rows veqb lc rc l r =
  map (fun p : list V * list V => merge lc rc (fst p) (snd p))
      (filter (fun p : list V * list V => agree veqb lc rc (fst p) (snd p)) (list_prod l r)).
Proof. exact (@inner_rows_pairs). Qed.
Print Assumptions C18_inner_pairs.

(* counting form: the merged row of a matching pair occurs (#copies of a in l) * (#copies of b in r) times
   when no other pair merges to the same row ... *)
Theorem C18_inner_count : forall (V : Type) (veqb : V -> V -> bool) (lc rc : list col) (l r : list (list V))
    (a b : list V) (is_a is_b is_ab : list V -> bool),
  (forall x : list V, is_a x = true <-> x = a) ->
  (forall x : list V, is_b x = true <-> x = b) ->
  (forall x : list V, is_ab x = true <-> x = merge lc rc a b) ->
  agree veqb lc rc a b = true ->
  (forall a' b' : list V, In a' l -> In b' r -> agree veqb lc rc a' b' = true ->
                          merge lc rc a' b' = merge lc rc a b -> a' = a /\ b' = b) ->
  count is_ab (inner_rows veqb lc rc l r) = count is_a l * count is_b r.
Proof. exact (@inner_count). Qed.
Print Assumptions C18_inner_count.

(* ... which is the case for rows laid out along their columns (distinct right column names) *)
Theorem C18_merge_injective : forall (V : Type) (veqb : V -> V -> bool),
  (forall x y : V, veqb x y = true <-> x = y) ->
  forall (lc rc : list col) (a b a' b' : list V),
  NoDup (names rc) ->
  length a = length lc -> length a' = length lc -> length b = length rc -> length b' = length rc ->
  agree veqb lc rc a b = true -> agree veqb lc rc a' b' = true ->
  merge lc rc a b = merge lc rc a' b' -> a = a' /\ b = b'.
Proof. exact (@merge_injective). Qed.
Print Assumptions C18_merge_injective.

(* ---- 3. which rows each operator returns (soundness and completeness of the row set) ---- *)
Theorem C18_outer_rows : forall (V : Type) (veqb : V -> V -> bool) (vempty : V) (m : jmode) (lc rc : list col)
    (l r : list (list V)) (x : list V),
  m <> LeftSemi -> m <> LeftAnti ->
  (In x (spec_rows veqb vempty m lc rc l r) <->
   matched_row veqb lc rc l r x \/
   pads_right m = true /\ left_only_row veqb vempty lc rc l r x \/
   pads_left m = true /\ right_only_row veqb vempty lc rc l r x).
Proof. exact (@in_spec_rows_outer). Qed.
Print Assumptions C18_outer_rows.

Theorem C18_semi_rows : forall (V : Type) (veqb : V -> V -> bool) (lc rc : list col) (l r : list (list V)) (a : list V),
  In a (semi_rows veqb lc rc l r) <-> In a l /\ (exists b : list V, In b r /\ agree veqb lc rc a b = true).
Proof. exact (@in_semi_rows). Qed.
Print Assumptions C18_semi_rows.

Theorem C18_anti_rows : forall (V : Type) (veqb : V -> V -> bool) (lc rc : list col) (l r : list (list V)) (a : list V),
  In a (anti_rows veqb lc rc l r) <-> In a l /\ (forall b : list V, In b r -> agree veqb lc rc a b = false).
Proof. exact (@in_anti_rows). Qed.
Print Assumptions C18_anti_rows.

(* ---- 4. decompositions of what the code computes ---- *)
Theorem C18_left_outer_decomp : forall (V : Type) (veqb : V -> V -> bool) (vempty : V) (lc rc : list col)
    (l r : list (list V)),
  Permutation (join_rows veqb vempty LeftOuter lc rc l r)
              (inner_rows veqb lc rc l r ++ map (pad_right vempty lc rc) (anti_rows veqb lc rc l r)).
Proof. exact (@left_outer_decomp). Qed.
Print Assumptions C18_left_outer_decomp.

Theorem C18_right_outer_decomp : forall (V : Type) (veqb : V -> V -> bool) (vempty : V) (lc rc : list col)
    (l r : list (list V)),
  join_rows veqb vempty RightOuter lc rc l r =
  inner_rows veqb lc rc l r ++ map (pad_left vempty lc rc) (unmatched_right veqb lc rc l r).
Proof. exact (@right_outer_decomp). Qed.
Print Assumptions C18_right_outer_decomp.

Theorem C18_full_outer_decomp : forall (V : Type) (veqb : V -> V -> bool) (vempty : V) (lc rc : list col)
    (l r : list (list V)),
  Permutation (join_rows veqb vempty FullOuter lc rc l r)
              (inner_rows veqb lc rc l r ++ map (pad_right vempty lc rc) (anti_rows veqb lc rc l r)
               ++ map (pad_left vempty lc rc) (unmatched_right veqb lc rc l r)).
Proof. exact (@full_outer_decomp). Qed.
Print Assumptions C18_full_outer_decomp.

Theorem C18_inner_semi_anti_model : forall (V : Type) (veqb : V -> V -> bool) (vempty : V) (lc rc : list col)
    (l r : list (list V)),
  join_rows veqb vempty Inner lc rc l r = inner_rows veqb lc rc l r /\
  join_rows veqb vempty LeftSemi lc rc l r = semi_rows veqb lc rc l r /\
  join_rows veqb vempty LeftAnti lc rc l r = anti_rows veqb lc rc l r.
Proof. exact (@inner_semi_anti_model). Qed.
Print Assumptions C18_inner_semi_anti_model.

(* right outer join = left outer join of the swapped tables with the columns re-laid out by name *)
Theorem C18_right_outer_sym : forall (V : Type) (veqb : V -> V -> bool) (vempty : V),
  (forall x y : V, veqb x y = true <-> x = y) ->
  forall (lc rc : list col) (l r : list (list V)),
  NoDup (names lc) -> NoDup (names rc) -> rows_wf lc l -> rows_wf rc r ->
  Permutation (spec_rows veqb vempty RightOuter lc rc l r)
              (map (realign vempty (join_cols LeftOuter rc lc) (join_cols RightOuter lc rc))
                   (spec_rows veqb vempty LeftOuter rc lc r l)).
Proof. exact (@right_outer_sym). Qed.
Print Assumptions C18_right_outer_sym.

(* semi join and anti join split the left table *)
Theorem C18_semi_anti_partition : forall (V : Type) (veqb : V -> V -> bool) (lc rc : list col) (l r : list (list V)),
  Permutation (semi_rows veqb lc rc l r ++ anti_rows veqb lc rc l r) l.
Proof. exact (@semi_anti_partition). Qed.
Print Assumptions C18_semi_anti_partition.

(* ---- 5. columns: the union, each name once; kinds optional exactly on the side that may be padded ---- *)
Theorem C18_columns_are_union : forall (m : jmode) (lc rc : list col) (n : string),
  keeps_right m = true -> (In n (names (join_cols m lc rc)) <-> In n (names lc) \/ In n (names rc)).
Proof. exact columns_are_union. Qed.
Print Assumptions C18_columns_are_union.

Theorem C18_columns_nodup : forall (m : jmode) (lc rc : list col),
  NoDup (names lc) -> NoDup (names rc) -> NoDup (names (join_cols m lc rc)).
Proof. exact columns_nodup. Qed.
Print Assumptions C18_columns_nodup.

Theorem C18_columns_semi_anti : forall (m : jmode) (lc rc : list col), keeps_right m = false -> join_cols m lc rc = lc.
Proof. exact columns_semi_anti. Qed.
Print Assumptions C18_columns_semi_anti.

Theorem C18_columns_kinds : forall (m : jmode) (lc rc : list col) (n k : string),
  keeps_right m = true ->
  (In (n, k) (join_cols m lc rc) <->
   (exists k0 : string,
      In (n, k0) lc /\ k = (if negb (mem_str n (names rc)) && pads_left m then make_optional k0 else k0)) \/
   (exists k0 : string,
      In (n, k0) rc /\ mem_str n (names lc) = false /\ k = (if pads_right m then make_optional k0 else k0))).
Proof. exact columns_kinds. Qed.
Print Assumptions C18_columns_kinds.

(* result rows are laid out along the result columns *)
Theorem C18_rows_wf : forall (V : Type) (veqb : V -> V -> bool) (vempty : V) (m : jmode) (lc rc : list col)
    (l r : list (list V)),
  rows_wf lc l -> rows_wf rc r -> rows_wf (join_cols m lc rc) (spec_rows veqb vempty m lc rc l r).
Proof. exact (@spec_rows_wf). Qed.
Print Assumptions C18_rows_wf.

(* ---- 6. optional columns hold the empty value precisely in the unmatched rows ---- *)
Theorem C18_right_column_empty_iff : forall (V : Type) (veqb : V -> V -> bool) (vempty : V) (m : jmode)
    (lc rc : list col) (l r : list (list V)) (n : string) (x : list V),
  keeps_right m = true -> rows_wf lc l -> rows_full vempty r ->
  mem_str n (names lc) = false -> mem_str n (names rc) = true ->
  In x (spec_rows veqb vempty m lc rc l r) ->
  (lookup (join_cols m lc rc) x n = Some vempty <-> left_only_row veqb vempty lc rc l r x).
Proof. exact (@right_column_empty_iff). Qed.
Print Assumptions C18_right_column_empty_iff.

Theorem C18_left_column_empty_iff : forall (V : Type) (veqb : V -> V -> bool) (vempty : V) (m : jmode)
    (lc rc : list col) (l r : list (list V)) (n : string) (x : list V),
  keeps_right m = true -> rows_wf lc l -> rows_full vempty l ->
  mem_str n (names lc) = true -> mem_str n (names rc) = false ->
  In x (spec_rows veqb vempty m lc rc l r) ->
  (lookup (join_cols m lc rc) x n = Some vempty <-> right_only_row veqb vempty lc rc l r x).
Proof. exact (@left_column_empty_iff). Qed.
Print Assumptions C18_left_column_empty_iff.

Theorem C18_shared_column_present : forall (V : Type) (veqb : V -> V -> bool) (vempty : V) (m : jmode)
    (lc rc : list col) (l r : list (list V)) (n : string) (x : list V),
  keeps_right m = true -> rows_wf lc l -> rows_wf rc r -> rows_full vempty l -> rows_full vempty r ->
  mem_str n (names lc) = true -> mem_str n (names rc) = true ->
  In x (spec_rows veqb vempty m lc rc l r) ->
  exists v : V, lookup (join_cols m lc rc) x n = Some v /\ v <> vempty.
Proof. exact (@shared_column_present). Qed.
Print Assumptions C18_shared_column_present.

(* ---- 7. no shared column: the cross product ---- *)
Theorem C18_no_shared_column_is_cross_product : forall (V : Type) (veqb : V -> V -> bool) (lc rc : list col)
    (l r : list (list V)),
  shared lc rc = [] -> rows_wf rc r ->
  inner_rows veqb lc rc l r = map (fun p : list V * list V => fst p ++ snd p) (list_prod l r).
Proof. exact (@no_shared_column_is_cross_product). Qed.
Print Assumptions C18_no_shared_column_is_cross_product.

Theorem C18_no_shared_column_outer : forall (V : Type) (veqb : V -> V -> bool) (vempty : V) (m : jmode)
    (lc rc : list col) (l r : list (list V)),
  shared lc rc = [] -> l <> [] -> r <> [] -> keeps_right m = true ->
  spec_rows veqb vempty m lc rc l r = inner_rows veqb lc rc l r.
Proof. exact (@no_shared_column_outer). Qed.
Print Assumptions C18_no_shared_column_outer.

(* ---- 8. row selection: exactly those rows, in order ---- *)
Theorem C18_sel_vec_spec : forall (V : Type) (rows : list (list V)) (ixs : list Z) (out : list (list V)),
  sel_vec rows ixs = Some out ->
  length out = length ixs /\
  (forall (k : nat) (i : Z), nth_error ixs k = Some i ->
     (1 <= i <= Z.of_nat (length rows))%Z /\ nth_error out k = nth_error rows (Z.to_nat (i - 1))).
Proof. exact (@sel_vec_spec). Qed.
Print Assumptions C18_sel_vec_spec.

Theorem C18_sel_vec_defined : forall (V : Type) (rows : list (list V)) (ixs : list Z),
  (forall i : Z, In i ixs -> (1 <= i <= Z.of_nat (length rows))%Z) ->
  exists out : list (list V), sel_vec rows ixs = Some out.
Proof. exact (@sel_vec_defined). Qed.
Print Assumptions C18_sel_vec_defined.

(* a mask selects like the increasing vector of its set positions *)
Theorem C18_sel_mask_as_vec : forall (V : Type) (rows : list (list V)) (mask : list bool),
  length mask = length rows -> sel_vec rows (true_positions 1 mask) = Some (sel_mask rows mask).
Proof. exact (@sel_mask_as_vec). Qed.
Print Assumptions C18_sel_mask_as_vec.

(* ---- 9. the judge ---- *)
(* the model of the code satisfies, for all well-formed tables, the predicate the judge tests *)
Theorem C18_model_meets_spec : forall (m : jmode) (L R : table),
  NoDup (names (tcols L)) -> NoDup (names (tcols R)) -> wf_table L = true -> wf_table R = true ->
  table_equiv (spec_table m L R) (join_table m L R).
Proof. exact model_meets_spec. Qed.
Print Assumptions C18_model_meets_spec.

(* a binding verdict transports the property to the implementation's observed result *)
Theorem C18_judge_sound : forall (x : sx) (tag : string),
  judge_c18 x = v_ok tag -> exists c : c18case, decode_case x = Some c /\ C18_case_spec c.
Proof. exact judge_c18_sound. Qed.
Print Assumptions C18_judge_sound.

Theorem C18_judge_join_sound : forall (m : jmode) (L R : table) (o : sx) (tag : string),
  judge_join m L R o = v_ok tag -> join_region L R = None /\ C18_join_spec m L R o.
Proof. exact judge_join_sound. Qed.
Print Assumptions C18_judge_join_sound.

Theorem C18_judge_sel_sound : forall (T : table) (s : selector) (o : sx) (tag : string),
  judge_sel T s o = v_ok tag -> C18_sel_spec T s o.
Proof. exact judge_sel_sound. Qed.
Print Assumptions C18_judge_sel_sound.

Theorem C18_join_region_meaning : forall L R : table,
  join_region L R = None ->
  NoDup (names (tcols L)) /\ NoDup (names (tcols R)) /\
  shared_kinds_agree (tcols L) (tcols R) = true /\ plain_table L = true /\ plain_table R = true.
Proof. exact join_region_meaning. Qed.
Print Assumptions C18_join_region_meaning.

(* ---- 10. known finding sel-singleton ---- *)
(* the dispatch-by-shape of the implementation rejects a one-element index vector / mask although
   the property fixes the result *)
Theorem C18_refuted_sel_singleton :
  exists (rows : list (list sx)) (s : selector) (rs : list (list sx)),
    spec_select rows s = SRows rs /\ impl_select rows s = SNone.
Proof. exact refuted_sel_singleton. Qed.
Print Assumptions C18_refuted_sel_singleton.

Theorem C18_holds : forall (rows : list (list sx)) (s : selector),
  kf_sel_singleton s = false -> impl_select rows s = spec_select rows s.
Proof. exact select_holds. Qed.
Print Assumptions C18_holds.

(* the judge answers (kf ..) only inside the class, only for the predicted behaviour (an error) *)
Theorem C18_judge_kf_narrow : forall (T : table) (s : selector) (o : sx) (id : string),
  judge_sel T s o = v_kf id ->
  kf_sel_singleton s = true /\ is_err o = true /\ (exists rs : list (list sx), spec_select (trows T) s = SRows rs).
Proof. exact judge_sel_kf. Qed.
Print Assumptions C18_judge_kf_narrow.

(* ---- non-vacuity ---- *)
Local Open Scope string_scope.
Local Definition u (z : Z) : sx := Lx [Ax "s"; Ax "u64"; Zx z].
Local Definition exL : table := Tbl [("id", "u64"); ("x", "u64")] [[u 1; u 10]; [u 2; u 20]; [u 2; u 21]; [u 3; u 30]].
Local Definition exR : table := Tbl [("y", "u64"); ("id", "u64")] [[u 200; u 2]; [u 201; u 2]; [u 400; u 4]].

(* duplicate keys, many-to-many, unmatched rows on both sides, shared column at different positions *)
Example C18_example_full_outer :
  join_region exL exR = None /\ wf_table exL = true /\ wf_table exR = true /\
  join_table FullOuter exL exR =
  Tbl [("id", "u64"); ("x", "u64?"); ("y", "u64?")]
      [[u 1; u 10; empty_cell];
       [u 2; u 20; u 200]; [u 2; u 20; u 201]; [u 2; u 21; u 200]; [u 2; u 21; u 201];
       [u 3; u 30; empty_cell];
       [u 4; empty_cell; u 400]] /\
  same_table_upto (spec_table FullOuter exL exR) (join_table FullOuter exL exR) = true /\
  trows (join_table LeftSemi exL exR) = [[u 2; u 20]; [u 2; u 21]] /\
  trows (join_table LeftAnti exL exR) = [[u 1; u 10]; [u 3; u 30]].
Proof. repeat split; vm_compute; reflexivity. Qed.
Print Assumptions C18_example_full_outer.

(* the judge accepts the implementation's actual output for that case and rejects a wrong one *)
Example C18_example_judge :
  parse_sx "(table 2 (""id"" ""u64"" ((s u64 2) (s u64 2))) (""x"" ""u64"" ((s u64 20) (s u64 21))))"
  <> None /\
  (forall o, parse_sx "(table 2 (""x"" ""u64"" ((s u64 21) (s u64 20))) (""id"" ""u64"" ((s u64 2) (s u64 2))))" = Some o ->
             judge_join LeftSemi exL exR o = v_ok "join-reordered") /\
  (forall o, parse_sx "(table 1 (""id"" ""u64"" ((s u64 2))) (""x"" ""u64"" ((s u64 20))))" = Some o ->
             exists e, judge_join LeftSemi exL exR o = v_bad "wrong-join" e) /\
  judge_sel exL (SVec [3; 1; 1]%Z)
    (Lx [Ax "table"; Zx 3; Lx [Qx "id"; Qx "u64"; Lx [u 2; u 1; u 1]]; Lx [Qx "x"; Qx "u64"; Lx [u 21; u 10; u 10]]])
  = v_ok "rows" /\
  judge_sel exL (SVec [2]%Z) (Lx [Ax "err"; Qx "UnhandledFunctionArgumentKind2"]) = v_kf "sel-singleton".
Proof.
  split; [vm_compute; discriminate|]. split; [|split; [|split]].
  - intros o H. vm_compute in H. injection H as <-. vm_compute. reflexivity.
  - intros o H. vm_compute in H. injection H as <-. eexists. vm_compute. reflexivity.
  - vm_compute. reflexivity.
  - vm_compute. reflexivity.
Qed.
Print Assumptions C18_example_judge.
