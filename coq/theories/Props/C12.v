(* C12 — Kind annotations convert values faithfully and reshape in column-major order.
   Property theorems only; proofs live in Proofs/ConvertP.v.

   Vocabulary (Model/Convert.v):
   [denote k v]    the exact rational a value of kind k denotes (floats decoded from their IEEE bits);
   [repr k q]      kind k can hold q exactly;
   [conv_elem]     one element through the Rust conversion (`as` casts, Ratio::to_f64);
   [conv_impl fm hd k1 k2 v]  the same gated by the kind-pair tables of the form (scalar define,
                   annotated reference, option, matrix with/without explicit dims, matrix -> set);
   [demand_of k1 v k2]  what the property text fixes for annotating v : k1 with k2;
   [exact_result k2 c q]  c is a well-formed value of kind k2 denoting exactly q. *)
From Coq Require Import List Arith ZArith QArith.
From Coq Require Import String.
From MechV Require Import Base.Sexp Base.Obs Model.Convert Model.ConvertJ Proofs.ConvertP.
Import ListNotations.
Local Open Scope string_scope.
Local Open Scope Z_scope.

(* 1. A number converted to a kind that can represent it yields exactly that number
      (every pair of the integer and float kinds, r64 -> f64, and same-kind; every value). *)
Theorem C12_convert_exact : forall (k1 k2 : kind) (v : sval) (q : Q),
  modelled_pair k1 k2 = true -> wf_val k1 v = true -> denote k1 v = Some q -> repr k2 q = true ->
  exact_result k2 (conv_elem k1 k2 v) q.
Proof. exact convert_exact. Qed.
Print Assumptions C12_convert_exact.

(* 1b. [repr] means what it should for the float kinds: some finite bit pattern has that value. *)
Theorem C12_repr_float_iff : forall (k : kind) (q : Q), is_float k = true ->
  (repr k q = true <->
   exists b neg m e, 0 <= b < 2 ^ fwidth (fmt_of k) /\ fdecode (fmt_of k) b = FFin neg m e /\ fq neg m e == q).
Proof. exact repr_float_iff. Qed.
Print Assumptions C12_repr_float_iff.

(* 1c. every integer / float value is representable in its own kind *)
Theorem C12_repr_own_kind : forall (k : kind) (v : sval) (q : Q),
  is_prim k = true -> wf_val k v = true -> denote k v = Some q -> repr k q = true.
Proof. exact repr_denote. Qed.
Print Assumptions C12_repr_own_kind.

(* 2. Widening and then narrowing back is the identity: on the number for all integer/float pairs ... *)
Theorem C12_widen_narrow_id : forall (k1 k2 : kind) (v v' : sval) (q : Q),
  is_prim k1 = true -> is_prim k2 = true -> wf_val k1 v = true -> denote k1 v = Some q ->
  repr k2 q = true -> conv_elem k1 k2 v = CVal v' ->
  exact_result k1 (conv_elem k2 k1 v') q.
Proof. exact widen_narrow_id. Qed.
Print Assumptions C12_widen_narrow_id.

(* ... and on the very value for an integer source kind. *)
Theorem C12_widen_narrow_int : forall (k1 k2 : kind) (s : bool) (w z : Z) (v' : sval),
  int_sw k1 = Some (s, w) -> is_prim k2 = true -> in_range s w z = true ->
  repr k2 (inject_Z z) = true -> conv_elem k1 k2 (VInt z) = CVal v' ->
  conv_elem k2 k1 v' = CVal (VInt z).
Proof. exact widen_narrow_int. Qed.
Print Assumptions C12_widen_narrow_int.

(* 3. float -> integer: truncation toward zero, clamped to the target range, for every bit pattern
      (finite, infinite, NaN -> 0 as Rust `as` does). *)
Theorem C12_float_to_int_trunc_clamp : forall (k1 k2 : kind) (s : bool) (w b : Z),
  is_float k1 = true -> int_sw k2 = Some (s, w) ->
  as_cast k1 k2 (VFlt b) =
  CVal (VInt (match fdecode (fmt_of k1) b with
              | FNaN => 0
              | FInf neg => if neg then lo_of s w else hi_of s w
              | FFin neg m e => clamp (lo_of s w) (hi_of s w) (q_trunc (fq neg m e))
              end)).
Proof. exact float_to_int_trunc_clamp. Qed.
Print Assumptions C12_float_to_int_trunc_clamp.

(* [q_trunc] is truncation toward zero *)
Theorem C12_trunc_toward_zero : forall q : Q,
  (0 <= q -> inject_Z (q_trunc q) <= q /\ q < inject_Z (q_trunc q) + 1)%Q /\
  (q <= 0 -> inject_Z (q_trunc q) - 1 < q /\ q <= inject_Z (q_trunc q))%Q.
Proof. exact q_trunc_spec. Qed.
Print Assumptions C12_trunc_toward_zero.

Theorem C12_float_to_int_in_range : forall (k1 k2 : kind) (s : bool) (w b z : Z),
  is_float k1 = true -> int_sw k2 = Some (s, w) ->
  as_cast k1 k2 (VFlt b) = CVal (VInt z) -> in_range s w z = true.
Proof. exact float_to_int_in_range. Qed.
Print Assumptions C12_float_to_int_in_range.

(* 4. A matrix converts element by element with the scalar rule and keeps its shape
      (or takes the annotated shape of equal count, same column-major order). *)
Theorem C12_convert_mat_shape_elem : forall (k1 k2 : kind) (dims : option (nat * nat)) (m m' : mat sval),
  wf_mat m -> conv_mat_impl k1 k2 dims m = Some m' ->
  (mrows m', mcols m') = target_shape m dims /\ wf_mat m' /\ msize m' = msize m /\
  forall k, (k < msize m)%nat ->
    exists v v', mlin m k = Some v /\ mlin m' k = Some v' /\ conv_elem k1 k2 v = CVal v'.
Proof. exact convert_mat_shape_elem. Qed.
Print Assumptions C12_convert_mat_shape_elem.

Theorem C12_convert_mat_count_err : forall (k1 k2 : kind) (r c : nat) (m : mat sval),
  (r * c)%nat <> msize m -> conv_mat_impl k1 k2 (Some (r, c)) m = None.
Proof. exact convert_mat_count_err. Qed.
Print Assumptions C12_convert_mat_count_err.

(* 5. Reshape: any element type, any sizes: same elements in column-major linear order. *)
Theorem C12_reshape_colmajor : forall (A : Type) (m m' : mat A) (r c : nat),
  wf_mat m -> reshape m r c = Some m' ->
  mrows m' = r /\ mcols m' = c /\ wf_mat m' /\ msize m' = msize m /\
  forall k, mlin m' k = mlin m k.
Proof. exact (@reshape_colmajor). Qed.
Print Assumptions C12_reshape_colmajor.

Theorem C12_reshape_get : forall (A : Type) (m m' : mat A) (r c : nat),
  wf_mat m -> reshape m r c = Some m' ->
  forall i j, (i < r)%nat -> (j < c)%nat -> mget m' i j = mlin m (j * r + i).
Proof. exact (@reshape_get). Qed.
Print Assumptions C12_reshape_get.

Theorem C12_reshape_count_err : forall (A : Type) (m : mat A) (r c : nat),
  reshape m r c = None <-> (r * c)%nat <> msize m.
Proof. exact (@reshape_count_err). Qed.
Print Assumptions C12_reshape_count_err.

(* 6. matrix -> set keeps exactly the distinct converted elements *)
Theorem C12_to_set_distinct : forall (k1 k2 : kind) (m : mat sval) (l : list sval),
  to_set_impl k1 k2 m = Some l ->
  NoDup l /\ forall x, In x l <-> exists v, In v (mdata m) /\ conv_elem k1 k2 v = CVal x.
Proof. exact to_set_distinct. Qed.
Print Assumptions C12_to_set_distinct.

(* 7. Outside the known-finding classes the model of the implementation's conversion tables meets
      what the property fixes, for every form, kind pair and value: same kind -> same value,
      representable -> exact, float -> int truncated and clamped, infinities, no conversion -> error. *)
Theorem C12_holds : forall (fm : form) (hd : bool) (k1 k2 : kind) (v : sval),
  wf_val k1 v = true -> in_known_finding fm hd k1 k2 = false ->
  sat k2 (demand_of k1 v k2) (conv_impl fm hd k1 k2 v).
Proof. exact holds. Qed.
Print Assumptions C12_holds.

(* 8. ... and inside each class it does not (witnesses). *)
Theorem C12_refuted_rc_identity :
  exists v, wf_val R64 v = true /\ demand_of R64 v R64 = DSame v /\ conv_impl FScalar false R64 R64 v = CErr.
Proof. exact refuted_rc_identity. Qed.
Print Assumptions C12_refuted_rc_identity.

Theorem C12_refuted_rc_cross :
  exists v, wf_val I64 v = true /\ demand_of I64 v R64 = DExact (inject_Z 5) /\ conv_impl FScalar false I64 R64 v = CErr.
Proof. exact refuted_rc_cross. Qed.
Print Assumptions C12_refuted_rc_cross.

Theorem C12_refuted_gate_narrowing :
  exists v, wf_val U16 v = true /\ demand_of U16 v U8 = DExact (inject_Z 5) /\
            conv_impl FScalar false U16 U8 v = CVal v /\ conv_impl FOpt false U16 U8 v = CErr.
Proof. exact refuted_gate_narrowing. Qed.
Print Assumptions C12_refuted_gate_narrowing.

Theorem C12_refuted_bool_matrix :
  demand_of KBool (VBool true) U8 = DErr /\ conv_impl FScalar false KBool U8 (VBool true) = CErr /\
  conv_impl FMat false KBool U8 (VBool true) = CVal (VInt 1).
Proof. exact refuted_bool_matrix. Qed.
Print Assumptions C12_refuted_bool_matrix.

(* f64 3*2^-40 (bits 4433793833146253312): r64 can hold 3/2^40, the continued-fraction
   approximation of num-rational returns 1/366503875925 (Flocq model of the Rust code). *)
Theorem C12_refuted_float_r64_approx :
  (exists q, demand_of F64 (VFlt 4433793833146253312) R64 = DExact q /\ (q == 3 # 1099511627776)%Q) /\
  approx_r64 4433793833146253312 = Some (1, 366503875925) /\
  ~ (1 # 366503875925 == 3 # 1099511627776)%Q.
Proof.
  split; [eexists; split; [vm_compute; reflexivity|vm_compute; reflexivity]|].
  split; [vm_compute; reflexivity|]. intro H. vm_compute in H. discriminate H.
Qed.
Print Assumptions C12_refuted_float_r64_approx.

(* 9. The judges applied to the implementation's observation are sound for the property predicates
      (for any recogniser of the known wrong approximation). *)
Theorem C12_judge_value_sound : forall (kfa : kfa_t) (fm : form) (hd : bool) (k1 : kind) (v : sval) (k2 : kind)
                                       (o : obs) (tag : String.string),
  judge_value kfa fm hd k1 v k2 o = v_ok tag -> value_spec k1 v k2 o.
Proof. exact judge_value_sound. Qed.
Print Assumptions C12_judge_value_sound.

Theorem C12_judge_mat_sound : forall (kfa : kfa_t) (k1 : kind) (m : mat sx) (vs : list sval) (k2 : kind)
                                     (dims : option (nat * nat)) (o : obs) (tag : String.string),
  map_opt (decode_payload k1) (mdata m) = Some vs ->
  judge_mat kfa k1 m k2 dims o = v_ok tag -> mat_spec k1 m vs k2 dims o.
Proof. exact judge_mat_sound. Qed.
Print Assumptions C12_judge_mat_sound.

Theorem C12_judge_set_sound : forall (k1 : kind) (m : mat sx) (vs : list sval) (k2 : kind) (o2 : sx) (tag : String.string),
  map_opt (decode_payload k1) (mdata m) = Some vs ->
  judge_set k1 m k2 o2 = v_ok tag -> set_spec k1 vs k2 o2.
Proof. exact judge_set_sound. Qed.
Print Assumptions C12_judge_set_sound.

(* the judge of a whole case line (what ./check feeds it): an `ok` means the source value read from
   step 1 and the observation of step 2 satisfy the spec of the form *)
Theorem C12_judge_sound : forall (kfa : kfa_t) (fs ks : String.string) (dx t o1 s1 o2 s2 : sx) (tag : String.string),
  judge_convert kfa (Lx [Lx [Ax "conv"; Ax fs; Ax ks; dx; t];
                         Lx [Ax "session"; Lx [Ax "step"; o1; s1]; Lx [Ax "step"; o2; s2]]]) = v_ok tag ->
  exists fm k2 dims, form_of_string fs = Some fm /\ kind_of_string ks = Some k2 /\ decode_dims dx = Some dims /\
                     case_spec fm k2 dims o1 o2.
Proof. exact judge_convert_sound. Qed.
Print Assumptions C12_judge_sound.

(* ---- non-vacuity ---- *)
(* f64 300.75 -> u8 clamps to 255; -1.5 -> i8 truncates to -1; u8 255 -> f32 -> u8 round trip *)
Example C12_example_values :
  conv_elem F64 U8 (VFlt 4643998487338385408) = CVal (VInt 255) /\
  conv_elem F64 I8 (VFlt 13832806255468478464) = CVal (VInt (-1)) /\
  conv_elem U8 F32 (VInt 255) = CVal (VFlt 1132396544) /\
  conv_elem F32 U8 (VFlt 1132396544) = CVal (VInt 255) /\
  (exists q, denote F32 (VFlt 1132396544) = Some q /\ (q == inject_Z 255)%Q) /\
  repr F32 (inject_Z 16777217) = false /\ repr F32 (inject_Z 16777216) = true /\
  demand_of F64 (VFlt 4643998487338385408) U8 = DExact (inject_Z 255) /\
  demand_of KStr (VStr "a") U8 = DErr /\
  in_known_finding FScalar false F64 U8 = false.
Proof.
  repeat split; try (vm_compute; reflexivity).
  eexists. split; vm_compute; reflexivity.
Qed.
Print Assumptions C12_example_values.

Example C12_example_reshape :
  reshape (Mat 2 3 [1; 2; 3; 4; 5; 6]) 3 2 = Some (Mat 3 2 [1; 2; 3; 4; 5; 6]) /\
  mget (Mat 3 2 [1; 2; 3; 4; 5; 6]) 0 1 = Some 4 /\
  reshape (Mat 2 3 [1; 2; 3; 4; 5; 6]) 2 2 = None /\
  to_set_impl U8 U16 (Mat 2 2 [VInt 1; VInt 2; VInt 2; VInt 1]) = Some [VInt 1; VInt 2] /\
  conv_mat_impl F64 U8 (Some (1, 2)%nat) (Mat 2 1 [VFlt 4609434218613702656; VFlt 4643998487338385408])
    = Some (Mat 1 2 [VInt 1; VInt 255]).
Proof. vm_compute. repeat split; reflexivity. Qed.
Print Assumptions C12_example_reshape.

(* ---- the allocations of the result buffers as they are in the source (regenerated table) ---------------------------
   Gen/AllocArms.v is rewritten by translators/alloc_arms.py on every run of this check from every source file that calls
   DMatrix::from_element(rows, cols, fill) — among them the result buffers of conversion (src/interpreter/src/stdlib/convert/*.rs).
   Each of the ~90 arms computes the two extents from its operands; the statements below say that no arm allocates its result
   transposed (first extent measuring the column axis or second the row axis), for EVERY arm, whether or not a generated case
   reaches it with a non-square shape.  Definitions and the classifier of extents: Proofs/AllocArmsP.v. *)
From MechV Require Import Model.SrcArms Gen.AllocArms Proofs.AllocArmsP.

Theorem C12_alloc_source_fully_read : al_unrecognised = [].
Proof. exact al_nothing_unrecognised. Qed.
Print Assumptions C12_alloc_source_fully_read.

(* every allocation site is classified and regular; the table is not empty (at least 80 sites) *)
Theorem C12_allocations_regular : forallb alloc_ok al_sites = true /\ Nat.leb 80 (List.length al_sites) = true.
Proof. exact al_allocations_regular. Qed.
Print Assumptions C12_allocations_regular.

(* for every site: the rows extent does not measure the column axis, the cols extent does not measure the row axis, and both
   extents are of a shape the classifier knows *)
Theorem C12_no_transposed_allocation :
  forall a : alloc_site, In a al_sites ->
    rows_axis a <> Ax1 /\ cols_axis a <> Ax0 /\ rows_axis a <> AxUnknown /\ cols_axis a <> AxUnknown.
Proof. exact al_no_transposed_allocation. Qed.
Print Assumptions C12_no_transposed_allocation.
