(* C20 — Source includes expand to the spliced text, and cycles are detected.
   Property theorems only; proofs live in Proofs/IncludeP.v.

   Model (Model/Include.v): a file system is a finite association list from canonical paths to byte texts;
   [expand fuel f p active] transcribes expand_mechdown_includes_recursive of /repo/src/mechfs.rs (active set,
   fence tracking, stand-alone {...mec} lines, canonicalising path resolution); [expand_root f p] is the entry
   point with |files|+1 units of fuel.  Specification (Proofs/IncludeP.v): [edge]/[reach]/[on_cycle]/[dangling]
   describe the include graph, [subst_file f p t] says that t is the textual substitution of p defined by
   recursion on that graph (no fuel, no active set, no errors). *)
From Coq Require Import List Ascii String.
From MechV Require Import Base.Sexp Base.Obs Model.Include Proofs.IncludeP.
Import ListNotations.
Local Open Scope list_scope.

(* 1. Termination: |files|+1 units of fuel always suffice (the active set strictly grows along the recursion),
      and any larger amount gives the same result.  The theorems below therefore never mention OutOfFuel. *)
Theorem C20_expand_fuel : forall (f : fsys) (p : path) (fuel : nat),
  List.length f < fuel -> expand fuel f p [] <> OutOfFuel.
Proof. exact expand_fuel. Qed.
Print Assumptions C20_expand_fuel.

Theorem C20_expand_fuel_indep : forall (f : fsys) (p : path) (fuel : nat),
  List.length f < fuel -> expand fuel f p [] = expand_root f p.
Proof. exact expand_fuel_indep. Qed.
Print Assumptions C20_expand_fuel_indep.

(* 2. Acyclic below the root and every reachable target present: the result is the textual substitution. *)
Theorem C20_expand_acyclic : forall (f : fsys) (p : path),
  (forall q, reach f p q -> ~ on_cycle f q) ->
  (lookup f p <> None /\ forall q raw, reach f p q -> ~ dangling f q raw) ->
  exists t, expand_root f p = Ok t /\ subst_file f p t.
Proof. exact expand_acyclic. Qed.
Print Assumptions C20_expand_acyclic.

(* ... conversely a text is only ever returned for a well-founded include tree, and it is the substitution;
   the substitution is unique. *)
Theorem C20_expand_ok_subst : forall (f : fsys) (p : path) (t : bytes),
  expand_root f p = Ok t -> subst_file f p t /\ good f p.
Proof. exact expand_ok_subst. Qed.
Print Assumptions C20_expand_ok_subst.

Theorem C20_subst_file_fun : forall (f : fsys) (p : path) (t t' : bytes),
  subst_file f p t -> subst_file f p t' -> t = t'.
Proof. exact subst_file_fun. Qed.
Print Assumptions C20_subst_file_fun.

(* the substitution is defined exactly on the files below which the include graph is acyclic with every target present *)
Theorem C20_subst_defined_iff : forall (f : fsys) (p : path), (exists t, subst_file f p t) <-> good f p.
Proof. exact subst_defined_iff. Qed.
Print Assumptions C20_subst_defined_iff.

Theorem C20_good_iff : forall (f : fsys) (p : path),
  good f p <-> ((forall q, reach f p q -> ~ on_cycle f q) /\
                (lookup f p <> None /\ forall q raw, reach f p q -> ~ dangling f q raw)).
Proof. exact good_iff. Qed.
Print Assumptions C20_good_iff.

(* 3. Cycles.  A cycle reachable from the root never yields a text; if moreover every reachable target is
      present, the result is the circular-include error.  (When the graph has both a reachable cycle and a
      reachable missing target, the error met first in depth-first line order is returned; it is one of the two
      by C20_expand_error_justified.) *)
Theorem C20_expand_cycle_not_ok : forall (f : fsys) (p : path),
  (exists q, reach f p q /\ on_cycle f q) -> forall t, expand_root f p <> Ok t.
Proof. exact expand_cycle_not_ok. Qed.
Print Assumptions C20_expand_cycle_not_ok.

Theorem C20_expand_cycle : forall (f : fsys) (p : path),
  lookup f p <> None -> (exists q, reach f p q /\ on_cycle f q) ->
  (forall q raw, reach f p q -> ~ dangling f q raw) ->
  expand_root f p = ErrCircular.
Proof. exact expand_cycle. Qed.
Print Assumptions C20_expand_cycle.

(* 4. Missing files.  A reachable include line whose target does not exist never yields a text; without
      reachable cycles the result is the include error carrying the target exactly as written. *)
Theorem C20_expand_missing_not_ok : forall (f : fsys) (p : path),
  (exists q raw, reach f p q /\ dangling f q raw) -> forall t, expand_root f p <> Ok t.
Proof. exact expand_missing_not_ok. Qed.
Print Assumptions C20_expand_missing_not_ok.

Theorem C20_expand_missing : forall (f : fsys) (p : path),
  lookup f p <> None -> (forall q, reach f p q -> ~ on_cycle f q) ->
  (exists q raw, reach f p q /\ dangling f q raw) ->
  exists q raw, expand_root f p = ErrMissing raw /\ reach f p q /\ dangling f q raw.
Proof. exact expand_missing. Qed.
Print Assumptions C20_expand_missing.

(* no spurious errors *)
Theorem C20_expand_error_justified : forall (f : fsys) (p : path), lookup f p <> None ->
  (expand_root f p = ErrCircular -> exists q, reach f p q /\ on_cycle f q) /\
  (forall raw, expand_root f p = ErrMissing raw -> exists q, reach f p q /\ dangling f q raw).
Proof. exact expand_error_justified. Qed.
Print Assumptions C20_expand_error_justified.

(* 5. The same file may be included several times (twice in one file, diamonds): multiplicities of include
      lines do not matter, and the result for a file is independent of the files being expanded around it. *)
Theorem C20_repeat_include_ok : forall (f : fsys) (p : path) (src : bytes),
  lookup f p = Some src ->
  (forall raw, In raw (includes_of src) -> exists q, resolve f (dir_of p) raw = Some q /\ good f q) ->
  exists t, expand_root f p = Ok t /\ subst_file f p t.
Proof. exact repeat_include_ok. Qed.
Print Assumptions C20_repeat_include_ok.

Theorem C20_expand_active_irrelevant : forall (f : fsys) (p : path) (t : bytes) (active : list path) (fuel : nat),
  subst_file f p t ->
  NoDup active -> (forall a, In a active -> lookup f a <> None) -> (forall a, In a active -> ~ reach f p a) ->
  List.length f < fuel + List.length active ->
  expand fuel f p active = Ok t.
Proof. exact expand_active_irrelevant. Qed.
Print Assumptions C20_expand_active_irrelevant.

(* 6. What is replaced and what is left untouched, line by line. *)
Theorem C20_include_of_line_spec : forall (l raw : bytes),
  include_of_line l = Some raw <->
  exists inner, trim (fst (strip_nl l)) = c_lbrace :: inner ++ [c_rbrace] /\ raw = trim inner /\ ends_with dot_mec raw = true.
Proof. exact include_of_line_spec. Qed.
Print Assumptions C20_include_of_line_spec.

Theorem C20_include_line_replaced : forall (f : fsys) (dir : path) (pre : list bytes) (l : bytes) (post : list bytes) (fc : fence) (t raw : bytes),
  subst_lines f dir (pre ++ l :: post) fc t ->
  fenced (fence_after fc pre) l = false -> include_of_line l = Some raw ->
  exists q tq t1 t2, resolve f dir raw = Some q /\ subst_file f q tq /\
                     t = t1 ++ (tq ++ snd (strip_nl l)) ++ t2 /\
                     subst_lines f dir pre fc t1 /\ subst_lines f dir post None t2.
Proof. exact include_line_replaced. Qed.
Print Assumptions C20_include_line_replaced.

Theorem C20_fence_lines_untouched : forall (f : fsys) (dir : path) (pre : list bytes) (l : bytes) (post : list bytes) (fc : fence) (t : bytes),
  subst_lines f dir (pre ++ l :: post) fc t ->
  fenced (fence_after fc pre) l = true ->
  exists t1 t2, t = t1 ++ l ++ t2 /\ subst_lines f dir pre fc t1 /\
                subst_lines f dir post (next_fence (fence_after fc pre) l) t2.
Proof. exact fence_lines_untouched. Qed.
Print Assumptions C20_fence_lines_untouched.

Theorem C20_non_include_braces_untouched : forall (f : fsys) (dir : path) (pre : list bytes) (l : bytes) (post : list bytes) (fc : fence) (t : bytes),
  subst_lines f dir (pre ++ l :: post) fc t ->
  fenced (fence_after fc pre) l = false -> include_of_line l = None ->
  exists t1 t2, t = t1 ++ l ++ t2 /\ subst_lines f dir pre fc t1 /\ subst_lines f dir post None t2.
Proof. exact non_include_lines_untouched. Qed.
Print Assumptions C20_non_include_braces_untouched.

(* what opens a fence: at most 3 spaces, then a maximal run of at least 3 backticks or at least 3 tildes
   (is_code_fence_close additionally asks for the same marker, at least the opener's length, and only
   blanks after the run) *)
Theorem C20_code_fence_delimiter_sound : forall (l : bytes) (m : ascii) (n : nat) (after : bytes),
  code_fence_delimiter l = Some (m, n, after) ->
  exists k, k <= 3 /\ l = repeat c_sp k ++ repeat m n ++ after /\ (m = c_tick \/ m = c_tilde) /\ 3 <= n /\
            match after with c :: _ => c <> m | [] => True end.
Proof. exact code_fence_delimiter_sound. Qed.
Print Assumptions C20_code_fence_delimiter_sound.

Theorem C20_code_fence_delimiter_complete : forall (k : nat) (m : ascii) (n : nat) (after : bytes),
  k <= 3 -> (m = c_tick \/ m = c_tilde) -> 3 <= n -> match after with c :: _ => c <> m | [] => True end ->
  code_fence_delimiter (repeat c_sp k ++ repeat m n ++ after) = Some (m, n, after).
Proof. exact code_fence_delimiter_complete. Qed.
Print Assumptions C20_code_fence_delimiter_complete.

(* a file all of whose include-looking lines are inside fences expands to itself *)
Theorem C20_expand_verbatim : forall (f : fsys) (p : path) (src : bytes) (n : nat) (active : list path),
  lookup f p = Some src -> includes_of src = [] -> mem_path p active = false ->
  expand (S n) f p active = Ok src.
Proof. exact expand_verbatim. Qed.
Print Assumptions C20_expand_verbatim.

(* 7. Faithfulness of the model's shape: the transcription that keeps the Rust code's outside-fence buffer
      (flushed through expand_mechdown_include_tokens, which re-splits it) computes the same function. *)
Theorem C20_expand_buf_eq : forall (fuel : nat) (f : fsys) (p : path) (active : list path),
  expand_buf fuel f p active = expand fuel f p active.
Proof. exact expand_buf_eq. Qed.
Print Assumptions C20_expand_buf_eq.

(* 8. The judge applied to the implementation's observation is sound for the property:
      an `ok` verdict means the observed text is the substitution, resp. the observed error is of the right
      class (circular with a reachable cycle / include-failed naming a reachable missing target). *)
Theorem C20_judge_fs_sound : forall (f : fsys) (root : path) (o : obs20) (tag : string),
  lookup f root <> None -> judge_fs f root o = v_ok tag -> C20_spec f root o.
Proof. exact judge_fs_sound. Qed.
Print Assumptions C20_judge_fs_sound.

Theorem C20_judge_sound : forall (c o : sx) (tag : string),
  judge_include (Lx [c; o]) = v_ok tag ->
  exists f root, decode_case c = Some (f, root) /\ lookup f root <> None /\ C20_spec f root (decode_obs20 o).
Proof. exact judge_include_sound. Qed.
Print Assumptions C20_judge_sound.

(* ---- non-vacuity ---- *)
Local Open Scope string_scope.
Definition NL : string := String "010"%char EmptyString.
Definition fs_of (l : list (list string * string)) : fsys := map (fun e => (map b_of (fst e), b_of (snd e))) l.

(* a diamond a -> b, c ; b -> d ; c -> d over two directories: d is spliced twice *)
Definition ex_diamond : fsys := fs_of
  [ (["a.mec"], "{b.mec}" ++ NL ++ "{sub/c.mec}" ++ NL);
    (["b.mec"], "B" ++ NL ++ "{sub/d.mec}" ++ NL);
    (["sub"; "c.mec"], "C" ++ NL ++ "  { ../sub/./d.mec }" ++ NL);
    (["sub"; "d.mec"], "D" ++ NL) ].

Example C20_example_diamond :
  expand_root ex_diamond [b_of "a.mec"] =
    Ok (b_of ("B" ++ NL ++ "D" ++ NL ++ NL ++ NL ++ "C" ++ NL ++ "D" ++ NL ++ NL ++ NL)) /\
  good ex_diamond [b_of "a.mec"] /\
  (forall q, reach ex_diamond [b_of "a.mec"] q -> ~ on_cycle ex_diamond q).
Proof.
  assert (E : expand_root ex_diamond [b_of "a.mec"] =
              Ok (b_of ("B" ++ NL ++ "D" ++ NL ++ NL ++ NL ++ "C" ++ NL ++ "D" ++ NL ++ NL ++ NL))) by (vm_compute; reflexivity).
  split; [exact E|]. destruct (expand_ok_subst _ _ _ E) as [_ Hg]. split; [exact Hg|].
  intros q Hre. apply good_no_cycle. eapply good_reach; eauto.
Qed.
Print Assumptions C20_example_diamond.

(* a 2-cycle and a self-loop: circular-include error, and the cycle exists in the graph *)
Definition ex_cycle2 : fsys := fs_of [ (["a.mec"], "A" ++ NL ++ "{sub/b.mec}"); (["sub"; "b.mec"], "{../a.mec}" ++ NL) ].
Definition ex_self : fsys := fs_of [ (["a.mec"], "{a.mec}") ].

Example C20_example_cycles :
  (expand_root ex_cycle2 [b_of "a.mec"] = ErrCircular /\ exists q, reach ex_cycle2 [b_of "a.mec"] q /\ on_cycle ex_cycle2 q) /\
  (expand_root ex_self [b_of "a.mec"] = ErrCircular /\ exists q, reach ex_self [b_of "a.mec"] q /\ on_cycle ex_self q).
Proof.
  split.
  - assert (E : expand_root ex_cycle2 [b_of "a.mec"] = ErrCircular) by (vm_compute; reflexivity).
    split; [exact E|]. apply (proj1 (expand_error_justified ex_cycle2 [b_of "a.mec"] ltac:(vm_compute; discriminate)) E).
  - assert (E : expand_root ex_self [b_of "a.mec"] = ErrCircular) by (vm_compute; reflexivity).
    split; [exact E|]. apply (proj1 (expand_error_justified ex_self [b_of "a.mec"] ltac:(vm_compute; discriminate)) E).
Qed.
Print Assumptions C20_example_cycles.

(* fences: the include-looking lines inside the backtick and the tilde fence stay, the one outside is replaced;
   a shorter closer does not close; a missing target is named as written *)
Definition ex_fence : fsys := fs_of
  [ (["main.mec"], "Before" ++ NL ++ "````mech" ++ NL ++ "{inc.mec}" ++ NL ++ "```" ++ NL ++ "{main.mec}" ++ NL ++ "`````" ++ NL
                   ++ "{inc.mec}" ++ NL ++ "{x + 1}" ++ NL ++ "{ inc.mec } trailing" ++ NL ++ "~~~" ++ NL ++ "{also/not-real.mec}" ++ NL ++ "~~~" ++ NL);
    (["inc.mec"], "Included") ].
Definition ex_missing : fsys := fs_of [ (["main.mec"], "{foo/bar.mec}") ].

Example C20_example_fence_missing :
  expand_root ex_fence [b_of "main.mec"] =
    Ok (b_of ("Before" ++ NL ++ "````mech" ++ NL ++ "{inc.mec}" ++ NL ++ "```" ++ NL ++ "{main.mec}" ++ NL ++ "`````" ++ NL
              ++ "Included" ++ NL ++ "{x + 1}" ++ NL ++ "{ inc.mec } trailing" ++ NL ++ "~~~" ++ NL ++ "{also/not-real.mec}" ++ NL ++ "~~~" ++ NL)) /\
  expand_root ex_missing [b_of "main.mec"] = ErrMissing (b_of "foo/bar.mec") /\
  dangling ex_missing [b_of "main.mec"] (b_of "foo/bar.mec").
Proof.
  split; [vm_compute; reflexivity|]. split; [vm_compute; reflexivity|].
  exists (b_of "{foo/bar.mec}"). split; [vm_compute; reflexivity|]. split; [vm_compute; auto | vm_compute; reflexivity].
Qed.
Print Assumptions C20_example_fence_missing.
