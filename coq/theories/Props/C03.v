(* C03 — Indexing reads exactly the addressed elements (1-based, column-major).
   Property theorems only; proofs live in Proofs/IndexP.v.
   Reference model: Model/Index.v read1 / read2 (any element type, any sizes, any index lists). *)
From Coq Require Import List Arith ZArith Sorted.
From Coq Require String.
From MechV Require Import Base.Sexp Base.Obs Model.Index Proofs.IndexP.
Import ListNotations.

(* 1. One index: element k of the result is the element at the k-th selected linear
      position (repeats included); the result is a column |ps| x 1. *)
Theorem C03_read1_selects : forall (A : Type) (m : mat A) (i : ix) (out : mat A),
  read1 m i = Ok (RM out) ->
  exists ps, resolve (mrows m * mcols m) i = Some ps /\
    mrows out = length ps /\ mcols out = 1 /\ wf_mat out /\
    forall k p, nth_error ps k = Some p ->
      p < mrows m * mcols m /\ exists e, nth_error (mdata out) k = Some e /\ nth_error (mdata m) p = Some e.
Proof. exact (@read1_selects). Qed.
Print Assumptions C03_read1_selects.

(* 1a. ... in 1-based terms for an index vector l: result element k is x's linear element l[k] *)
Theorem C03_read1_vec : forall (A : Type) (m : mat A) (l : list Z) (out : mat A),
  read1 m (IVec l) = Ok (RM out) ->
  mrows out = length l /\ mcols out = 1 /\
  forall k z, nth_error l k = Some z ->
    (1 <= z <= Z.of_nat (mrows m * mcols m))%Z /\
    exists e, nth_error (mdata out) k = Some e /\ nth_error (mdata m) (Z.to_nat (z - 1)) = Some e.
Proof. exact (@read1_vec). Qed.
Print Assumptions C03_read1_vec.

(* 1b. scalar index: a scalar result, the element at linear position z *)
Theorem C03_read1_scalar : forall (A : Type) (m : mat A) (z : Z) (e : A),
  read1 m (IScalar z) = Ok (RS e) ->
  (1 <= z <= Z.of_nat (mrows m * mcols m))%Z /\ nth_error (mdata m) (Z.to_nat (z - 1)) = Some e.
Proof. exact (@read1_scalar). Qed.
Print Assumptions C03_read1_scalar.

(* 1c. linear indexing is column-major: linear index j*rows+i+1 is element (i,j) (0-based i,j) *)
Theorem C03_read1_colmajor : forall (A : Type) (m : mat A) (a b : nat), a < mrows m -> b < mcols m ->
  read1 m (IScalar (Z.of_nat (S (b * mrows m + a)))) =
  match mget m a b with Some e => Ok (RS e) | None => Err end.
Proof. exact (@read1_colmajor). Qed.
Print Assumptions C03_read1_colmajor.

(* 1d. x[:] is x's column-major data as an (N*M) x 1 column (documented shape) *)
Theorem C03_read1_all : forall (A : Type) (m : mat A), wf_mat m ->
  read1 m IAll = Ok (RM (Mat (mrows m * mcols m) 1 (mdata m))).
Proof. exact (@read1_all). Qed.
Print Assumptions C03_read1_all.

(* 1e. a logical mask selects exactly the positions of its trues, in increasing order *)
Theorem C03_read1_mask : forall (A : Type) (m : mat A) (l : list bool) (out : mat A),
  read1 m (IMask l) = Ok (RM out) ->
  length l = mrows m * mcols m /\ mrows out = count_true l /\ mcols out = 1 /\
  forall k p, nth_error (mask_positions l) k = Some p ->
    nth_error l p = Some true /\
    exists e, nth_error (mdata out) k = Some e /\ nth_error (mdata m) p = Some e.
Proof. exact (@read1_mask). Qed.
Print Assumptions C03_read1_mask.

Theorem C03_mask_positions : forall (l : list bool),
  StronglySorted lt (mask_positions l) /\ forall q, In q (mask_positions l) <-> nth_error l q = Some true.
Proof. exact mask_positions_spec. Qed.
Print Assumptions C03_mask_positions.

(* 2. Two indices: element (a,b) of the result is x(rs[a], cs[b]); the shape is |rs| x |cs|
      ((s,v) -> 1 x n, (v,s) -> n x 1, (v,w) -> n x m, (:,s) -> rows x 1, (s,:) -> 1 x cols). *)
Theorem C03_read2_selects : forall (A : Type) (m : mat A) (i j : ix) (out : mat A),
  read2 m i j = Ok (RM out) ->
  exists rs cs, resolve (mrows m) i = Some rs /\ resolve (mcols m) j = Some cs /\
    mrows out = length rs /\ mcols out = length cs /\ wf_mat out /\
    forall a b r c, nth_error rs a = Some r -> nth_error cs b = Some c ->
      r < mrows m /\ c < mcols m /\ exists e, mget out a b = Some e /\ mget m r c = Some e.
Proof. exact (@read2_selects). Qed.
Print Assumptions C03_read2_selects.

Theorem C03_read2_scalar : forall (A : Type) (m : mat A) (z w : Z) (e : A),
  read2 m (IScalar z) (IScalar w) = Ok (RS e) ->
  (1 <= z <= Z.of_nat (mrows m))%Z /\ (1 <= w <= Z.of_nat (mcols m))%Z /\
  mget m (Z.to_nat (z - 1)) (Z.to_nat (w - 1)) = Some e.
Proof. exact (@read2_scalar). Qed.
Print Assumptions C03_read2_scalar.

(* 2a. Result shapes (the sizes documented in docs/reference/indexing.mec): *)
Theorem C03_read_shape : forall (A : Type) (m : mat A),
  (forall i out, read1 m i = Ok (RM out) ->
     mrows out = sel_len (mrows m * mcols m) i /\ mcols out = 1 /\ wf_mat out) /\
  (forall i j out, read2 m i j = Ok (RM out) ->
     mrows out = sel_len (mrows m) i /\ mcols out = sel_len (mcols m) j /\ wf_mat out) /\
  (forall i e, read1 m i = Ok (RS e) -> is_scalar i = true) /\
  (forall i j e, read2 m i j = Ok (RS e) -> is_scalar i = true /\ is_scalar j = true).
Proof. exact (@read_shape). Qed.
Print Assumptions C03_read_shape.

(* 3. What the index forms select (the positions [resolve] returns) *)
Theorem C03_resolve_vec : forall (n : nat) (l : list Z) (ps : list nat), resolve n (IVec l) = Some ps ->
  length ps = length l /\
  forall k z, nth_error l k = Some z -> (1 <= z <= Z.of_nat n)%Z /\ nth_error ps k = Some (Z.to_nat (z - 1)).
Proof. exact resolve_vec. Qed.
Print Assumptions C03_resolve_vec.

Theorem C03_resolve_mask : forall (n : nat) (l : list bool) (ps : list nat), resolve n (IMask l) = Some ps ->
  length l = n /\ StronglySorted lt ps /\ forall q, In q ps <-> nth_error l q = Some true.
Proof. exact resolve_mask. Qed.
Print Assumptions C03_resolve_mask.

(* 4. Ranges are the explicit lists lo, lo+1, ..., and are read like them *)
Theorem C03_range_list : forall (lo hi : Z) (incl : bool),
  length (range_list lo hi incl) = range_len lo hi incl /\
  (forall k, k < range_len lo hi incl -> nth_error (range_list lo hi incl) k = Some (lo + Z.of_nat k)%Z) /\
  (forall z, In z (range_list lo hi incl) <-> (lo <= z /\ if incl then z <= hi else z < hi)%Z).
Proof. exact range_list_spec. Qed.
Print Assumptions C03_range_list.

Theorem C03_read_range : forall (A : Type) (m : mat A) (lo hi : Z) (incl : bool) (i : ix),
  read1 m (IRange lo hi incl) = read1 m (IVec (range_list lo hi incl)) /\
  read2 m (IRange lo hi incl) i = read2 m (IVec (range_list lo hi incl)) i /\
  read2 m i (IRange lo hi incl) = read2 m i (IVec (range_list lo hi incl)).
Proof. exact (@read_range). Qed.
Print Assumptions C03_read_range.

(* 5. Totality and out-of-range: on a well-formed matrix the read is an error exactly when some
      index addresses no element (0, beyond the bound, a mask of the wrong length), a value otherwise *)
Theorem C03_read1_err_iff : forall (A : Type) (m : mat A) (i : ix), wf_mat m ->
  (read1 m i = Err <-> index_bad (mrows m * mcols m) i).
Proof. exact (@read1_err_iff). Qed.
Print Assumptions C03_read1_err_iff.

Theorem C03_read2_err_iff : forall (A : Type) (m : mat A) (i j : ix), wf_mat m ->
  (read2 m i j = Err <-> index_bad (mrows m) i \/ index_bad (mcols m) j).
Proof. exact (@read2_err_iff). Qed.
Print Assumptions C03_read2_err_iff.

(* 6. The judge applied to the implementation's session observation is sound for the property:
      an `ok` means x was defined as stated, is unchanged after the read and when re-read, and the
      read returned the reference value / an error exactly as the reference demands. *)
Theorem C03_judge_sound : forall (k : String.string) (m : mat sx) (q : idx) (def rd fin : sx * list sx) (tag : String.string),
  judge_session k m q def rd fin = v_ok tag -> C03_spec k m q def rd fin.
Proof. exact judge_session_sound. Qed.
Print Assumptions C03_judge_sound.

Theorem C03_judge_index_sound : forall (x : sx) (tag : String.string), judge_index x = v_ok tag ->
  exists k m q pre sts def rd fin,
    parse_case x = Some (k, m, q, pre, sts) /\ wf_mat m /\ 1 <= pre /\
    nth_error sts 0 = Some def /\ nth_error sts pre = Some rd /\ nth_error sts (pre + 1) = Some fin /\
    C03_spec k m q def rd fin.
Proof. exact judge_index_sound. Qed.
Print Assumptions C03_judge_index_sound.

Theorem C03_judge_ok_1d : forall (k : String.string) (m : mat sx) (i : ix) (def rd fin : sx * list sx) (tag : String.string),
  wf_mat m -> judge_session k m (I1 i) def rd fin = v_ok tag ->
  C03_frame (KM k m) def rd fin /\
  (index_bad (mrows m * mcols m) i -> decode_obs (fst rd) = OErr) /\
  (~ index_bad (mrows m * mcols m) i ->
     exists v, read1 m i = Ok v /\ decode_obs (fst rd) = OVal (kval_of k v)).
Proof. exact judge_ok_1d. Qed.
Print Assumptions C03_judge_ok_1d.

Theorem C03_judge_ok_2d : forall (k : String.string) (m : mat sx) (i j : ix) (def rd fin : sx * list sx) (tag : String.string),
  wf_mat m -> judge_session k m (I2 i j) def rd fin = v_ok tag ->
  C03_frame (KM k m) def rd fin /\
  (index_bad (mrows m) i \/ index_bad (mcols m) j -> decode_obs (fst rd) = OErr) /\
  (~ (index_bad (mrows m) i \/ index_bad (mcols m) j) ->
     exists v, read2 m i j = Ok v /\ decode_obs (fst rd) = OVal (kval_of k v)).
Proof. exact judge_ok_2d. Qed.
Print Assumptions C03_judge_ok_2d.

(* 7. A known-finding verdict is given only for the exact output the kernel model predicts *)
Theorem C03_judge_kf : forall (k : String.string) (m : mat sx) (q : idx) (o : obs) (id : String.string),
  judge_read k m q o = v_kf id ->
  obs_is_impl k m q o = true /\
  (kf_mask_length k m q = true \/ kf_empty_mask_oob k m q = true \/ kf_mask_rows_order k m q = true).
Proof. exact judge_read_kf. Qed.
Print Assumptions C03_judge_kf.

(* 8. The faithful model of the access kernels (readI1 / readI2: Model/Index.v, from
      access/matrix.rs) against the reference.  Outside three classes — a mask whose length
      differs from the dimension; an all-false mask next to an out-of-range index; x[mask,:]
      with >= 2 selected rows and >= 2 columns — the kernels compute exactly the reference
      (for every element type, shape, index list): C03 holds there ... *)
Theorem C03_holds_1d : forall (A : Type) (d : A) (m : mat A) (i : ix),
  clean1 (mrows m * mcols m) i -> readI1 d m i = read1 m i.
Proof. exact (@kernel_agrees_1d). Qed.
Print Assumptions C03_holds_1d.

Theorem C03_holds : forall (A : Type) (d : A) (m : mat A) (i j : ix),
  clean2 m i j -> readI2 d m i j = read2 m i j.
Proof. exact (@kernel_agrees_2d). Qed.
Print Assumptions C03_holds.

(* ... and inside each class the kernel model violates the property (the real code does too:
   known findings "mask-length", "empty-mask-hides-oob", "mask-rows-all-order") *)
Theorem C03_refuted_mask_length :
  exists (m : mat Z) (l : list bool) (out : mat Z),
    wf_mat m /\ index_bad (mrows m * mcols m) (IMask l) /\ read1 m (IMask l) = Err /\
    readI1 0%Z m (IMask l) = Ok (RM out).
Proof. exact refuted_mask_length. Qed.
Print Assumptions C03_refuted_mask_length.

Theorem C03_refuted_mask_length_short :
  exists (m : mat Z) (i j : ix) (out : mat Z),
    wf_mat m /\ index_bad (mcols m) j /\ read2 m i j = Err /\ readI2 0%Z m i j = Ok (RM out).
Proof. exact refuted_mask_length_short. Qed.
Print Assumptions C03_refuted_mask_length_short.

Theorem C03_refuted_empty_mask_hides_oob :
  exists (m : mat Z) (i j : ix) (out : mat Z),
    wf_mat m /\ mask_len_bad (mrows m) i = false /\ index_bad (mcols m) j /\
    read2 m i j = Err /\ readI2 0%Z m i j = Ok (RM out).
Proof. exact refuted_empty_mask_hides_oob. Qed.
Print Assumptions C03_refuted_empty_mask_hides_oob.

Theorem C03_refuted_mask_rows_all_order :
  exists (m : mat Z) (i j : ix) (good bad : mat Z),
    wf_mat m /\ read2 m i j = Ok (RM good) /\ readI2 0%Z m i j = Ok (RM bad) /\
    mget good 1 0 <> mget bad 1 0.
Proof. exact refuted_mask_rows_all_order. Qed.
Print Assumptions C03_refuted_mask_rows_all_order.

(* the judge's (kf ...) answers are confined to these classes *)
Theorem C03_judge_kf_only_in_classes : forall (k : String.string) (m : mat sx) (q : idx) (o : obs) (id : String.string),
  judge_read k m q o = v_kf id ->
  match q with
  | I1 i => ~ clean1 (mrows m * mcols m) i
  | I2 i j => ~ clean2 m i j
  end.
Proof. exact judge_kf_only_in_classes. Qed.
Print Assumptions C03_judge_kf_only_in_classes.

(* non-vacuity *)
Example C03_example_read :
  let x := Mat 2 3 [1; 4; 2; 5; 3; 6]%Z in     (* [1 2 3; 4 5 6] *)
  wf_mat x /\
  read1 x (IVec [2; 3; 6; 6]%Z) = Ok (RM (Mat 4 1 [4; 2; 6; 6]%Z)) /\
  read1 x (IRange 3 7 false) = Ok (RM (Mat 4 1 [2; 5; 3; 6]%Z)) /\
  read1 x (IMask [true; false; true; false; false; true]) = Ok (RM (Mat 3 1 [1; 2; 6]%Z)) /\
  read1 x (IScalar 7) = Err /\ read1 x (IScalar 0) = Err /\
  read1 x (IMask [true; false; true]) = Err /\
  read2 x (IScalar 2) (IVec [3; 1; 3]%Z) = Ok (RM (Mat 1 3 [6; 4; 6]%Z)) /\
  read2 x IAll (IMask [true; false; true]) = Ok (RM (Mat 2 2 [1; 4; 3; 6]%Z)) /\
  read2 x (IVec [2; 1]%Z) IAll = Ok (RM (Mat 2 3 [4; 1; 5; 2; 6; 3]%Z)) /\
  read2 x (IScalar 2) (IScalar 3) = Ok (RS 6%Z) /\
  read2 x (IScalar 3) (IScalar 1) = Err /\ read2 x IAll (IMask [true; false; true; true]) = Err.
Proof. cbv zeta. repeat split. Qed.
Print Assumptions C03_example_read.

Example C03_example_clean :
  let x := Mat 2 3 [1; 4; 2; 5; 3; 6]%Z in
  clean2 x (IMask [true; false]) (IVec [3; 1]%Z) /\ clean2 x IAll (IMask [true; false; true]) /\
  clean1 6 (IMask [true; false; true; false; false; true]) /\
  readI2 0%Z x (IMask [true; false]) (IVec [3; 1]%Z) = Ok (RM (Mat 1 2 [3; 1]%Z)).
Proof.
  cbv zeta. unfold clean2, clean1, order_class. cbn. repeat split; try discriminate; tauto.
Qed.
Print Assumptions C03_example_clean.

(* ---- the allocations of the result buffers as they are in the source (regenerated table) ---------------------------
   Gen/AllocArms.v is rewritten by translators/alloc_arms.py on every run of this check from every source file that calls
   DMatrix::from_element(rows, cols, fill) — among them the result buffers of indexing (src/interpreter/src/stdlib/access/matrix.rs).
   Each of the ~90 arms computes the two extents from its operands; the statements below say that no arm allocates its result
   transposed (first extent measuring the column axis or second the row axis), for EVERY arm, whether or not a generated case
   reaches it with a non-square shape.  Definitions and the classifier of extents: Proofs/AllocArmsP.v. *)
From MechV Require Import Model.SrcArms Gen.AllocArms Proofs.AllocArmsP.

Theorem C03_alloc_source_fully_read : al_unrecognised = [].
Proof. exact al_nothing_unrecognised. Qed.
Print Assumptions C03_alloc_source_fully_read.

(* every allocation site is classified and regular; the table is not empty (at least 80 sites) *)
Theorem C03_allocations_regular : forallb alloc_ok al_sites = true /\ Nat.leb 80 (List.length al_sites) = true.
Proof. exact al_allocations_regular. Qed.
Print Assumptions C03_allocations_regular.

(* for every site: the rows extent does not measure the column axis, the cols extent does not measure the row axis, and both
   extents are of a shape the classifier knows *)
Theorem C03_no_transposed_allocation :
  forall a : alloc_site, In a al_sites ->
    rows_axis a <> Ax1 /\ cols_axis a <> Ax0 /\ rows_axis a <> AxUnknown /\ cols_axis a <> AxUnknown.
Proof. exact al_no_transposed_allocation. Qed.
Print Assumptions C03_no_transposed_allocation.
