(* C02 — Formulas evaluate according to the documented precedence and left associativity.
   Property theorems only; proofs live in Proofs/FormulaP.v.

   rd        : the implementation model — recursive descent  lN := lN+1 (opN lN+1)*  over the level table that
               translators/levels.py regenerates from src/syntax/src/expressions.rs (Gen/Levels.v), followed by the
               left fold of interpreter::term(); prefix operators take a whole `factor`, transpose is postfix.
   spec_tree : the documented precedence read declaratively — the root of a flat sequence is the LAST operator of
               the LOOSEST class present (Logic < Cmp < AddSub < MulDivMat < Pow < Table < Set, unary tightest). *)
From Coq Require Import List Arith ZArith.
From Coq Require Import String.
From MechV Require Import Base.Sexp Base.Obs Gen.Levels Model.Formula Proofs.FormulaP.
Import ListNotations.
Open Scope list_scope.

(* 1. Refinement, all lengths and all nestings: parsing with the source's level table and folding left builds
      exactly the tree the documented classes prescribe. *)
Theorem C02_rd_refines_spec : forall f : formula, rd f = spec_tree f.
Proof. exact rd_refines_spec. Qed.
Print Assumptions C02_rd_refines_spec.

(* 1b. The split-based [rd] really is the recursive-descent loop: the token-consuming parser
       lN := lN+1, many0(pair(opN, cut(lN+1)))  -> Term{lhs, rhs} -> term()'s fold, run over the generated table on a
       flat sequence, consumes all of it and returns the same tree. *)
Theorem C02_stream_parser_is_rd : forall (x : tree) (r : oseq), pl lvl nlevels 1 x r = (rd_seq x r, []).
Proof. exact pl_is_rd. Qed.
Print Assumptions C02_stream_parser_is_rd.

(* 2. Hence any evaluation function of trees gives the same value on both. *)
Theorem C02_eval_agree : forall (V : Type) (evalf : tree -> V) (f : formula), evalf (rd f) = evalf (spec_tree f).
Proof. exact eval_agree. Qed.
Print Assumptions C02_eval_agree.

(* 3. What spec_tree means on a flat sequence  x0 op1 x1 ... opn xn  (these two equations determine it):
      an operator that is at most as tight as everything to its left and strictly looser than everything to its
      right is applied last. *)
Theorem C02_spec_root : forall (x : tree) (r1 : oseq) (op : binop) (y : tree) (r2 : oseq),
  Forall (fun ot => crank op <= crank (fst ot)) r1 ->
  Forall (fun ot => crank op < crank (fst ot)) r2 ->
  spec_seq x [] = x /\
  spec_seq x (r1 ++ (op, y) :: r2) = TBin op (spec_seq x r1) (spec_seq y r2).
Proof. intros x r1 op y r2 H1 H2. split; [apply spec_seq_nil | apply spec_seq_root; assumption]. Qed.
Print Assumptions C02_spec_root.

(* 3b. ... and spec_seq is the ONLY function satisfying them, so "the grouping the precedence table prescribes"
       is well defined for every sequence. *)
Theorem C02_spec_unique : forall g : tree -> oseq -> tree,
  (forall x, g x [] = x) ->
  (forall x r1 op y r2,
     Forall (fun ot => crank op <= crank (fst ot)) r1 -> Forall (fun ot => crank op < crank (fst ot)) r2 ->
     g x (r1 ++ (op, y) :: r2) = TBin op (g x r1) (g y r2)) ->
  forall x r, g x r = spec_seq x r.
Proof. exact spec_seq_unique. Qed.
Print Assumptions C02_spec_unique.

(* 4. Operators of one class group left to right — including ^. *)
Theorem C02_same_class_left : forall (c : nat) (x : tree) (r : oseq),
  Forall (fun ot => crank (fst ot) = c) r ->
  spec_seq x r = fold_left (fun acc ot => TBin (fst ot) acc (snd ot)) r x.
Proof. exact spec_same_class_left. Qed.
Print Assumptions C02_same_class_left.

(* 5. Explicit parentheses always override the levels: for EVERY tree t (whatever grouping is wanted), t written
      with its needed parentheses plus any selection [sel] of the merely implied ones parses back to t;
      paren_full inserts all of them, paren_min none. *)
Theorem C02_paren_override : forall (sel : nat -> bool) (d : nat) (t : tree),
  rd (pf sel d t) = t /\ rd (paren_full t) = t /\ rd (paren_min t) = t.
Proof.
  intros sel d t. split; [apply paren_override_gen|]. split; [apply paren_override | apply paren_min_roundtrip].
Qed.
Print Assumptions C02_paren_override.

(* 6. Every text the check submits as "e with parentheses inserted" denotes, by the documented rules, the tree of e. *)
Theorem C02_paren_texts_sound : forall (f g : formula), In g (paren_texts (rd f)) -> spec_tree g = spec_tree f.
Proof. exact paren_texts_sound. Qed.
Print Assumptions C02_paren_texts_sound.

(* 7. The tie to the source: the level table extracted from the current expressions.rs puts every operator on the
      level of its documented class (so the order of the levels is the documented order, table and set operators
      sitting between ^ and the operand as in the source), there are seven levels chained l1 -> ... -> l7 -> factor,
      prefix operators and parentheses have the assumed shape and term() folds from the left. *)
Theorem C02_levels_refine_spec :
  (forall o, lvl o = rank (class_of o)) /\
  (forall o1 o2, (lvl o1 < lvl o2 <-> rank (class_of o1) < rank (class_of o2)) /\
                 (lvl o1 = lvl o2 <-> class_of o1 = class_of o2)) /\
  nlevels = 7 /\ grammar_shape_ok = true.
Proof. exact levels_refine_spec. Qed.
Print Assumptions C02_levels_refine_spec.

(* 8. The judge is sound: an `ok` verdict means the observation of e is indistinguishable from the observation of
      every parenthesised text (both fail, or bitwise the same value, NaNs identified), and wherever the exact
      integer/boolean model evaluates the documented tree, all of them show that value. *)
Theorem C02_judge_sound : forall (f : formula) (oe : sx) (ops : list sx) (oa : sx) (tag : String.string),
  judge_obs f oe ops oa = v_ok tag ->
  (forall o, In o ops -> obs_agree oe o = true) /\
  (forall v, ev (spec_tree f) = Some v -> matches v oe = true /\ forall o, In o ops -> matches v o = true).
Proof. exact judge_sound. Qed.
Print Assumptions C02_judge_sound.

(* non-vacuity / named instances *)
Example C02_pow_left_assoc :
  rd (FCons (num 2) OPow (FCons (num 3) OPow (FOne (num 2)))) =
    TBin OPow (TBin OPow (TAtom (ANum 2)) (TAtom (ANum 3))) (TAtom (ANum 2))
  /\ ev (rd (FCons (num 2) OPow (FCons (num 3) OPow (FOne (num 2))))) = Some (VN 64).
Proof. exact pow_left_assoc. Qed.
Print Assumptions C02_pow_left_assoc.

Example C02_neg_binds_tighter_than_pow :
  ev (rd (FCons (OAtom [UNeg] (ANum 2) false) OPow (FOne (num 2)))) = Some (VN 4).
Proof. exact neg_binds_tighter_than_pow. Qed.
Print Assumptions C02_neg_binds_tighter_than_pow.

Example C02_five_classes_example :
  let f := FCons (num 1) OAdd (FCons (num 2) OMul (FCons (num 3) OPow (FCons (num 2) OLt
           (FCons (num 30) OAnd (FOne (OAtom [] (ABool true) false)))))) in
  show_formula f = "1 + 2 * 3 ^ 2 < 30 && true"%string /\
  show_formula (paren_full (rd f)) = "((1 + (2 * (3 ^ 2))) < 30) && true"%string /\
  ev (rd f) = Some (VB true).
Proof. exact five_classes_example. Qed.
Print Assumptions C02_five_classes_example.
