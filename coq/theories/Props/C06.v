(* C06 — Compiled bytecode computes what the interpreter computed. *)
From Coq Require Import List Arith.
From MechV Require Import Model.Plan Model.Bytecode Proofs.PlanP Proofs.BytecodeP.
Import ListNotations.

(* Running the compiled program — for EVERY plan, every store left by the interpreter and every initial
   register file — leaves in each register the program touches the value its cell held after interpretation.
   In particular the result (the output register of the last operation) equals the interpreter's value of
   that cell. *)
Theorem C06_run_is_snapshot : forall (V : Type) (p : list (@pstep V)) (final : @store V) rs,
  forall c, In c (cells p) -> fst (run (compile p final) rs) c = final c.
Proof. exact (@run_is_snapshot). Qed.
Print Assumptions C06_run_is_snapshot.

(* The run rebuilds exactly the interpreter's plan in the fresh interpreter. *)
Theorem C06_run_rebuilds_plan : forall (V : Type) (p : list (@pstep V)) (final : @store V) rs,
  snd (run (compile p final) rs) = p.
Proof. exact (@run_rebuilds_plan). Qed.
Print Assumptions C06_run_rebuilds_plan.

(* Re-evaluating the loaded program of a pure plan reproduces every step's value (any plan length). *)
Theorem C06_restep_correct : forall (V : Type) (p : list (@pstep V)) (s0 : @store V),
  plan_pure p ->
  forall rs st, In st p -> restep (compile p (resolve p s0)) rs (s_out st) = resolve p s0 (s_out st).
Proof. exact (@restep_correct). Qed.
Print Assumptions C06_restep_correct.

(* ... and does not, in general, for a plan that assigns a cell after reading it. *)
Theorem C06_restep_refuted_stale_read :
  exists (p : list (@pstep nat)) (s0 : @store nat) (st : @pstep nat),
    In st p /\ restep (compile p (resolve p s0)) (fun _ => 0) (s_out st) <> resolve p s0 (s_out st).
Proof. exact restep_refuted_stale_read. Qed.
Print Assumptions C06_restep_refuted_stale_read.

(* the observed-dataflow check used by the judge implies plan_pure *)
Theorem C06_plan_pureb_sound : forall (V : Type) (fn : rstep -> list V -> V) (p : list rstep),
  plan_pureb p = true -> plan_pure (abstract fn p).
Proof. exact (@plan_pureb_sound). Qed.
Print Assumptions C06_plan_pureb_sound.
