(* C06 — Compiled bytecode computes what the interpreter computed. *)
From Coq Require Import List Arith.
From MechV Require Import Model.Plan Model.Bytecode Proofs.PlanP Proofs.BytecodeP.
Import ListNotations.

(* Running the compiled program — for EVERY plan, every store left by the interpreter and every initial
   register file — leaves in each register the program touches the value its cell held after interpretation.
   In particular the result (the output register of the last operation) equals the interpreter's value of
   that cell. *)
Theorem C06_run_is_snapshot : forall (V : Type) (p : list (@pstep V)) (final : @store V) rs,
  forall c, In c (cells p) -> fst (run (compile p final) rs) c = final c.
Proof. exact (@run_is_snapshot). Qed.
Print Assumptions C06_run_is_snapshot.

(* The run rebuilds exactly the interpreter's plan in the fresh interpreter. *)
Theorem C06_run_rebuilds_plan : forall (V : Type) (p : list (@pstep V)) (final : @store V) rs,
  snd (run (compile p final) rs) = p.
Proof. exact (@run_rebuilds_plan). Qed.
Print Assumptions C06_run_rebuilds_plan.

(* Re-evaluating the loaded program of a pure plan reproduces every step's value (any plan length). *)
Theorem C06_restep_correct : forall (V : Type) (p : list (@pstep V)) (s0 : @store V),
  plan_pure p ->
  forall rs st, In st p -> restep (compile p (resolve p s0)) rs (s_out st) = resolve p s0 (s_out st).
Proof. exact (@restep_correct). Qed.
Print Assumptions C06_restep_correct.

(* ... and does not, in general, for a plan that assigns a cell after reading it. *)
Theorem C06_restep_refuted_stale_read :
  exists (p : list (@pstep nat)) (s0 : @store nat) (st : @pstep nat),
    In st p /\ restep (compile p (resolve p s0)) (fun _ => 0) (s_out st) <> resolve p s0 (s_out st).
Proof. exact restep_refuted_stale_read. Qed.
Print Assumptions C06_restep_refuted_stale_read.

(* the observed-dataflow check used by the judge implies plan_pure *)
Theorem C06_plan_pureb_sound : forall (V : Type) (fn : rstep -> list V -> V) (p : list rstep),
  plan_pureb p = true -> plan_pure (abstract fn p).
Proof. exact (@plan_pureb_sound). Qed.
Print Assumptions C06_plan_pureb_sound.

(* ---- the runner's instruction arms as they are in the source (regenerated table) --------------------------------
   The theorems above are about the model [Bytecode.exec]: an operation instruction appends the plan step
   (s_out := dst, s_args := operands) and the result of a run is the output of the last operation.  Gen/InstrArms.v is
   rewritten from src/interpreter/src/interpreter.rs (run_program) and the instruction codec sources by
   translators/instr_arms.py on every run of this check; the statements below tie every hand-written arm of run_program
   to that model, so that ONE arm that forgets `self.out = ..`, the plan step, or passes its operands in another order
   breaks them whether or not a generated program contains such an instruction.  Definitions: Proofs/InstrArmsP.v. *)
From Coq Require Import NArith String.
From MechV Require Import Model.SrcArms Gen.InstrArms Model.Loader Proofs.InstrArmsP.

Theorem C06_instr_source_fully_read : ia_unrecognised = [].
Proof. exact ia_nothing_unrecognised. Qed.
Print Assumptions C06_instr_source_fully_read.

(* every arm of run_program (one per instruction kind declared in enum DecodedInstr, Unknown excepted, then a catch-all):
   the operation arms look the function up by fxn_id, read registers[dst] and registers[operand] for the operand fields in
   declaration order, build FunctionArgs::<arity>(out, operands..), set self.out to the function's output and append the
   function to the plan — in this order, once each; ConstLoad copies constants[const_id] into registers[dst] *)
Theorem C06_run_program_arms_regular : run_arms_diag = [].
Proof. exact (proj2 (proj2 (proj2 (proj2 ia_arm_sites)))). Qed.
Print Assumptions C06_run_program_arms_regular.

(* meaning: interpreting the extracted arm of an operation instruction gives the step of [Bytecode.exec] — destination
   register, operand registers in order, then `set-out` and `add-step` *)
Theorem C06_run_program_builds_step : forall (i : instr) (d : N) (ops : list N),
  op_regs i = Some (d, ops) -> src_run i = Some (d, ops, ["set-out"; "add-step"]%string).
Proof. exact src_run_builds_step. Qed.
Print Assumptions C06_run_program_builds_step.
