(* C06 — Compiled bytecode computes what the interpreter computed. *)
From Coq Require Import List Arith.
From MechV Require Import Model.Plan Model.Bytecode Proofs.PlanP Proofs.BytecodeP.
Import ListNotations.

(* Running the compiled program — for EVERY plan, every store left by the interpreter and every initial
   register file — leaves in each register the program touches the value its cell held after interpretation.
   In particular the result (the output register of the last operation) equals the interpreter's value of
   that cell. *)
Theorem C06_run_is_snapshot : forall (V : Type) (p : list (@pstep V)) (final : @store V) rs,
  forall c, In c (cells p) -> fst (run (compile p final) rs) c = final c.
Proof. exact (@run_is_snapshot). Qed.
Print Assumptions C06_run_is_snapshot.

(* The run rebuilds exactly the interpreter's plan in the fresh interpreter. *)
Theorem C06_run_rebuilds_plan : forall (V : Type) (p : list (@pstep V)) (final : @store V) rs,
  snd (run (compile p final) rs) = p.
Proof. exact (@run_rebuilds_plan). Qed.
Print Assumptions C06_run_rebuilds_plan.

(* Re-evaluating the loaded program of a pure plan reproduces every step's value (any plan length). *)
Theorem C06_restep_correct : forall (V : Type) (p : list (@pstep V)) (s0 : @store V),
  plan_pure p ->
  forall rs st, In st p -> restep (compile p (resolve p s0)) rs (s_out st) = resolve p s0 (s_out st).
Proof. exact (@restep_correct). Qed.
Print Assumptions C06_restep_correct.

(* ... and does not, in general, for a plan that assigns a cell after reading it. *)
Theorem C06_restep_refuted_stale_read :
  exists (p : list (@pstep nat)) (s0 : @store nat) (st : @pstep nat),
    In st p /\ restep (compile p (resolve p s0)) (fun _ => 0) (s_out st) <> resolve p s0 (s_out st).
Proof. exact restep_refuted_stale_read. Qed.
Print Assumptions C06_restep_refuted_stale_read.

(* the observed-dataflow check used by the judge implies plan_pure *)
Theorem C06_plan_pureb_sound : forall (V : Type) (fn : rstep -> list V -> V) (p : list rstep),
  plan_pureb p = true -> plan_pure (abstract fn p).
Proof. exact (@plan_pureb_sound). Qed.
Print Assumptions C06_plan_pureb_sound.

(* ---- the runner's instruction arms as they are in the source (regenerated table) --------------------------------
   The theorems above are about the model [Bytecode.exec]: an operation instruction appends the plan step
   (s_out := dst, s_args := operands) and the result of a run is the output of the last operation.  Gen/InstrArms.v is
   rewritten from src/interpreter/src/interpreter.rs (run_program) and the instruction codec sources by
   translators/instr_arms.py on every run of this check; the statements below tie every hand-written arm of run_program
   to that model, so that ONE arm that forgets `self.out = ..`, the plan step, or passes its operands in another order
   breaks them whether or not a generated program contains such an instruction.  Definitions: Proofs/InstrArmsP.v. *)
From Coq Require Import NArith String.
From MechV Require Import Model.SrcArms Gen.InstrArms Model.Loader Proofs.InstrArmsP.

Theorem C06_instr_source_fully_read : ia_unrecognised = [].
Proof. exact ia_nothing_unrecognised. Qed.
Print Assumptions C06_instr_source_fully_read.

(* every arm of run_program (one per instruction kind declared in enum DecodedInstr, Unknown excepted, then a catch-all):
   the operation arms look the function up by fxn_id, read registers[dst] and registers[operand] for the operand fields in
   declaration order, build FunctionArgs::<arity>(out, operands..), set self.out to the function's output and append the
   function to the plan — in this order, once each; ConstLoad copies constants[const_id] into registers[dst] *)
Theorem C06_run_program_arms_regular : run_arms_diag = [].
Proof. exact (proj2 (proj2 (proj2 (proj2 ia_arm_sites)))). Qed.
Print Assumptions C06_run_program_arms_regular.

(* meaning: interpreting the extracted arm of an operation instruction gives the step of [Bytecode.exec] — destination
   register, operand registers in order, then `set-out` and `add-step` *)
Theorem C06_run_program_builds_step : forall (i : instr) (d : N) (ops : list N),
  op_regs i = Some (d, ops) -> src_run i = Some (d, ops, ["set-out"; "add-step"]%string).
Proof. exact src_run_builds_step. Qed.
Print Assumptions C06_run_program_builds_step.

(* ================================================================================================================
   THE LINK TO THE BYTES (Model/BytecodeLink.v, Proofs/BytecodeLinkP.v).
   The theorems above are about the abstract program of Model/Bytecode.v (const loads carry values, operations carry
   kernels).  Below, the same compiled program is LOWERED to the container of C07 (Model/Container.v: type section,
   constant table, blob, instruction list, computed header), written to bytes, loaded back and run by a model of
   Interpreter::run_program over the loaded sections:

     plan p, final store --ncompile--> abstract program (= Bytecode.compile with function ids kept: C06_named_compile_erases)
                         --lower-----> Container.program      (what compile_register_brrw!/compile_*op!/CompileCtx lay out)
                         --encode_program--> bytes --load_program--> program --crun--> registers, rebuilt plan, self.out

   Values are the constant kinds of Model/ConstCodec.v ([cval]: u8..u128, i8..i128, f32/f64 bit patterns, bool, index,
   string, r64, c64 and dense matrices of these).

   HYPOTHESES of C06_compile_load_run, and what is ABSTRACTED:
   H1 [wf_cval (final c)] for every cell of the plan: the values are of a modelled kind and in range.  Value kinds
      OUTSIDE cval (tables, sets, records, tuples, maps, atoms, enums, the empty value, kind annotations) are not
      modelled: nothing is claimed for a plan that touches such a cell.
      -> findings table-column-compile-panic (ValueKind::Any inside a matrix kind) and empty-value-compile-panic
         (ValueKind::Empty) are panics of CompileConst / encode_value_kind on kinds outside cval: outside H1.
   H2 [size_ok]: every count/offset/length of the computed header fits its field (u32 counts, u64 offsets), i.e. the
      file is smaller than the format can describe — implied by ONE bound, the file is shorter than 4 GiB
      (C06_small_file_size_ok); [wf_nstep]: function ids are u64, operand counts u32;
      [wf_lenv]: feature words are u64, the crate version u16.
   H3 [plan_accepted R p final]: FUNCTION-ID RESOLUTION and the FACTORIES are abstract — a registry R says which ids
      have a factory (`known`) and whether the factory accepts (out, operands) (`factory_ok`); a factory either
      refuses (error) or returns a function object whose out() is the out register it was given.  That hash_str of the
      name the compiler emits is the id under which the runtime registered the same kernel is NOT proved (checked by the
      tie only).  H3 asks that every function of the plan is known and accepts the interpreter's final values.
      -> finding run-unknown-function is exactly the failure of H3's `known` part: C06_unregistered_function_is_an_error
         proves the model's prediction (an error; never a panic, never a value).
      -> finding r64-matrix-run-panic is a PANIC INSIDE a factory (Value::get_copyable_matrix_unchecked): the model's
         factories only accept or refuse, so it is outside H3 (the abstraction "factories do not panic").
   A4 KERNEL SEMANTICS are not used at all: the run does not solve the rebuilt plan (C06_run_rebuilds_plan), so the
      statement holds for arbitrary kernels; what re-evaluating the loaded program computes is C06_restep_correct.
   A5 The program RESULT is self.out = the out register of the last operation; the theorem says it is the interpreter's
      value of the LAST PLAN STEP's output cell.  That the interpreter's program result IS that cell is not part of
      the model -> finding result-is-last-step (last statement a bare variable reference): C06_result_is_last_step.
   A6 Explicitly left open in [lower] (parameters [lenv]): the ORDER of the feature words (a HashSet in CompileCtx;
      neither the loader nor the runner interprets them) and the crate version in mech_ver.  Everything else of the
      file is determined: C06_sample_file_is_the_real_file compares the model's bytes with a file the real compiler wrote.
   A7 Cells are abstract identities (the compiler keys registers by the address of the value's Rc cell); that two
      operands of the real plan share a register iff they are the same cell is read off the plan dump by the tie.
   ================================================================================================================ *)
From Coq Require Import Bool ZArith.
From MechV Require Import Model.Crc32 Model.Container Model.ConstCodec Model.BytecodeLink Proofs.BytecodeLinkP Proofs.BytecodeLinkArmsP.

(* the abstract program with function ids erases to Bytecode.compile, its machine to Bytecode.run: the theorems above
   (C06_run_is_snapshot, C06_run_rebuilds_plan) are about the same program *)
Theorem C06_named_compile_erases : forall (sem : N -> list cval -> cval) (p : list nstep) (final : nat -> cval),
  map (erase sem) (ncompile p final) = compile (map (to_pstep sem) p) final.
Proof. exact erase_compile. Qed.
Print Assumptions C06_named_compile_erases.

Theorem C06_named_run_erases : forall (sem : N -> list cval -> cval) (P : list ninstr) (st : astate),
  (a_regs (arun P st), map (to_pstep sem) (a_plan (arun P st))) =
  fold_left exec (map (erase sem) P) (a_regs st, map (to_pstep sem) (a_plan st)).
Proof. exact arun_erase. Qed.
Print Assumptions C06_named_run_erases.

(* (a) For EVERY abstract compiled program (any number of const loads and operations, any values of the modelled kinds,
   any shapes) the lowered container program is well formed, hence (C07_codec_roundtrip) the emitted file loads and
   gives back exactly the lowered program: same header, types, constant table, blob, instructions. *)
Theorem C06_lowered_program_wf : forall (e : lenv) (P : list ninstr),
  wf_lenv e = true -> forallb wf_ninstr P = true -> size_ok e P = true -> wf_program (lower e P) = true.
Proof. exact lower_wf. Qed.
Print Assumptions C06_lowered_program_wf.

Theorem C06_emitted_file_loads : forall (e : lenv) (P : list ninstr),
  wf_lenv e = true -> forallb wf_ninstr P = true -> size_ok e P = true ->
  fst (load_program (encode_program (lower e P))) = Ok (lower e P).
Proof. exact emitted_file_loads. Qed.
Print Assumptions C06_emitted_file_loads.

(* (b) Decoding the constant table of the (loaded) program gives back, entry by entry and in order, exactly the values
   the compiler const-loaded — through type interning, alignment padding and the payload codec — and no decoder
   errs or panics. *)
Theorem C06_loaded_constants_are_the_snapshot : forall (e : lenv) (P : list ninstr),
  forallb wf_ninstr P = true -> size_ok e P = true ->
  decode_consts (lower e P) = (map Some (cl_vals P), REnd).
Proof. exact lowered_consts_decode. Qed.
Print Assumptions C06_loaded_constants_are_the_snapshot.

Theorem C06_loaded_const_entry : forall (e : lenv) (P : list ninstr) (k : nat) (v : cval),
  forallb wf_ninstr P = true -> size_ok e P = true -> nth_error (cl_vals P) k = Some v ->
  exists en, nth_error (p_consts (lower e P)) k = Some en /\
             decode_entry (p_types (lower e P)) (p_blob (lower e P)) en = DOk v.
Proof. exact lowered_const_entry. Qed.
Print Assumptions C06_loaded_const_entry.

(* the refinement: for ANY abstract program whose operations read const-loaded registers and whose functions the
   registry accepts, run_program on the lowered program ends normally; every const-loaded cell's register holds what
   the abstract run leaves in the cell, the rebuilt plan is the abstract plan under the register map, self.out is the
   abstract out *)
Theorem C06_lowered_run_refines : forall (R : registry) (e : lenv) (P : list ninstr) (rs : nat -> cval),
  forallb wf_ninstr P = true -> size_ok e P = true -> runnable R [] P rs ->
  exists C, crun R (lower e P) = (C, CEok) /\
    (forall c, In c (lower_cells P) -> c_regs C (reg_of (lower_cells P) c) = Some (a_regs (arun P (astate0 rs)) c)) /\
    c_plan C = map (lower_nstep (lower_cells P)) (a_plan (arun P (astate0 rs))) /\
    c_out C = a_out (arun P (astate0 rs)).
Proof. exact lowered_run_refines. Qed.
Print Assumptions C06_lowered_run_refines.

(* registers are numbered in order of first use: out, then the operands in order, step by step *)
Theorem C06_registers_in_first_use_order : forall (p : list nstep) (final : nat -> cval),
  lower_cells (ncompile p final) = alloc_all (ncells p) [].
Proof. exact lower_cells_ncompile. Qed.
Print Assumptions C06_registers_in_first_use_order.

(* (c) END TO END, over bytes: for EVERY plan p and final store of the interpreter (H1-H3 above), the bytes
   encode_program (lower (compile p final)) load; every constant decodes to the value written; run_program on the LOADED
   program ends normally; the register of every cell of the plan holds the interpreter's final value of that cell; the
   plan rebuilt in the fresh interpreter is p (same function ids, same cells, same order); and the result self.out is
   the interpreter's value of the last step's output. *)
Theorem C06_compile_load_run : forall (R : registry) (e : lenv) (p : list nstep) (final : nat -> cval),
  wf_lenv e = true -> forallb wf_nstep p = true ->
  (forall c, In c (ncells p) -> wf_cval (final c) = true) ->
  size_ok e (ncompile p final) = true ->
  plan_accepted R p final ->
  let P := ncompile p final in
  let regmap := alloc_all (ncells p) [] in
  exists q C,
    fst (load_program (encode_program (lower e P))) = Ok q /\
    decode_consts q = (map Some (cl_vals P), REnd) /\
    crun R q = (C, CEok) /\
    (forall c, In c (ncells p) -> c_regs C (reg_of regmap c) = Some (final c)) /\
    c_plan C = map (lower_nstep regmap) p /\
    (forall p' s, p = (p' ++ [s])%list -> c_out C = Some (final (n_out s))).
Proof. exact compile_load_run. Qed.
Print Assumptions C06_compile_load_run.

(* ... and WITHOUT any hypothesis on the registry (unknown ids, refusing factories): the file still loads, every
   constant decodes, and the run ends with a value or an error — the run loop never indexes a register or a constant
   out of range. *)
Theorem C06_compile_load_run_no_panic : forall (R : registry) (e : lenv) (p : list nstep) (final : nat -> cval),
  wf_lenv e = true -> forallb wf_nstep p = true ->
  (forall c, In c (ncells p) -> wf_cval (final c) = true) ->
  size_ok e (ncompile p final) = true ->
  exists q, fst (load_program (encode_program (lower e (ncompile p final)))) = Ok q /\
            snd (decode_consts q) = REnd /\ snd (crun R q) <> CEpanic.
Proof. exact compile_load_run_no_panic. Qed.
Print Assumptions C06_compile_load_run_no_panic.

(* (d) the known findings in the model.  run-unknown-function: a function id without a registered factory makes the
   run of the loaded bytes end with an error. *)
Theorem C06_unregistered_function_is_an_error : forall (R : registry) (e : lenv) (p : list nstep) (final : nat -> cval),
  wf_lenv e = true -> forallb wf_nstep p = true ->
  (forall c, In c (ncells p) -> wf_cval (final c) = true) ->
  size_ok e (ncompile p final) = true ->
  (exists s, In s p /\ known R (n_fid s) = false) ->
  snd (crun R (lower e (ncompile p final))) = CEerr.
Proof. exact unregistered_function_errs. Qed.
Print Assumptions C06_unregistered_function_is_an_error.

(* result-is-last-step: whichever cell [res] holds the interpreter's program result, the run returns the last step's
   output — silently another value when the two differ. *)
Theorem C06_result_is_last_step : forall (R : registry) (e : lenv) (p' : list nstep) (s : nstep) (final : nat -> cval) (res : nat),
  wf_lenv e = true -> forallb wf_nstep (p' ++ [s])%list = true ->
  (forall c, In c (ncells (p' ++ [s])%list) -> wf_cval (final c) = true) ->
  size_ok e (ncompile (p' ++ [s])%list final) = true ->
  plan_accepted R (p' ++ [s])%list final ->
  final res <> final (n_out s) ->
  exists C, crun R (lower e (ncompile (p' ++ [s])%list final)) = (C, CEok) /\ c_out C <> Some (final res).
Proof. exact result_is_last_step. Qed.
Print Assumptions C06_result_is_last_step.

(* the operation step of the concrete runner is what the regenerated arms of run_program do (Gen/InstrArms.v) *)
Theorem C06_concrete_step_is_source_arm : forall (i : instr) (f d : N) (a : list N),
  op_parts i = Some (f, d, a) -> src_run i = Some (d, a, ["set-out"; "add-step"]%string).
Proof. exact cstep_is_source_arm. Qed.
Print Assumptions C06_concrete_step_is_source_arm.

(* ---- non-vacuity, and the model's bytes against REAL files (Model/BytecodeLinkSample.v is generated by
   tools/c06_link_sample.py from files the real compiler emitted for three programs: scalars/strings/bools; f64 matrices
   with VarArg, TernOp and index constants; a multi-byte string and an i16 vector): the hypotheses of C06_compile_load_run hold,
   and encode_program (lower (ncompile plan final)) IS the emitted file, byte for byte (CRC included). ---- *)
From MechV Require Import Base.Sexp Base.Obs Model.LoaderJ Model.BytecodeLinkSample Model.BytecodeLinkJ Proofs.BytecodeLinkJP.

Example C06_sample_hypotheses :
  (wf_lenv sample_a_env && forallb wf_nstep sample_a_plan && forallb (fun c => wf_cval (sample_a_final c)) (ncells sample_a_plan)
   && size_ok sample_a_env (ncompile sample_a_plan sample_a_final)) = true /\
  (wf_lenv sample_b_env && forallb wf_nstep sample_b_plan && forallb (fun c => wf_cval (sample_b_final c)) (ncells sample_b_plan)
   && size_ok sample_b_env (ncompile sample_b_plan sample_b_final)) = true /\
  (wf_lenv sample_c_env && forallb wf_nstep sample_c_plan && forallb (fun c => wf_cval (sample_c_final c)) (ncells sample_c_plan)
   && size_ok sample_c_env (ncompile sample_c_plan sample_c_final)) = true.
Proof. vm_compute. repeat split. Qed.
Print Assumptions C06_sample_hypotheses.

Example C06_sample_file_is_the_real_file :
  encode_program (lower sample_a_env (ncompile sample_a_plan sample_a_final)) = sample_a_file /\
  encode_program (lower sample_b_env (ncompile sample_b_plan sample_b_final)) = sample_b_file /\
  encode_program (lower sample_c_env (ncompile sample_c_plan sample_c_final)) = sample_c_file.
Proof. vm_compute. repeat split. Qed.
Print Assumptions C06_sample_file_is_the_real_file.

(* ---- the tie: soundness of the link checks of the extracted judge (Model/BytecodeLinkJ.v, extracted by Extract/C06x.v).
   (F) a file for which the judge's file check answers yes IS encode_program (lower e P) for a well-formed abstract
   program P (rebuilt from the file's own constants and instructions): C06_emitted_file_loads,
   C06_loaded_constants_are_the_snapshot, C06_lowered_run_refines apply to that very file. *)
Theorem C06_file_link_sound : forall bs : bytes, file_link bs = LYes ->
  exists e P, wf_lenv e = true /\ forallb wf_ninstr P = true /\ size_ok e P = true /\ bs = encode_program (lower e P).
Proof. exact file_link_sound. Qed.
Print Assumptions C06_file_link_sound.

(* (I) an instruction list for which the judge's plan check answers yes is the instruction list [lower] lays out for the
   compiled plan read from the dump (out, operands in field order; ids and VarArg-ness from the k-th operation) *)
Theorem C06_instrs_link_sound : forall plan is : list sx, instrs_link plan is = LYes ->
  exists rp p, map_opt decode_rstep plan = Some rp /\ zip_steps rp (filter_opt sx_op is) = Some p /\
               is = map instr_sx (snd (lower_go ls0 (ncompile p dummy_final))).
Proof. exact instrs_link_sound. Qed.
Print Assumptions C06_instrs_link_sound.

(* an ok / kf answer of the extended judge: the base judge answered ok / kf and no link check disagreed *)
Theorem C06_link_verdict_sound : forall (v : sx) (f i : lres) (pr : sx),
  (v_head (link_verdict v f i pr) = "ok"%string \/ v_head (link_verdict v f i pr) = "kf"%string) ->
  (v_head v = "ok"%string \/ v_head v = "kf"%string) /\ (forall w, f <> LNo w) /\ (forall w, i <> LNo w).
Proof. exact link_verdict_sound. Qed.
Print Assumptions C06_link_verdict_sound.

(* H2 discharged by ONE bound: the payload length the compiler computes (header + every section) is below 2^32, i.e. the
   emitted file is shorter than 4 GiB; then every count fits its u32 and every offset / length its u64 *)
From MechV Require Import Proofs.BytecodeLinkSizeP.
Theorem C06_small_file_size_ok : forall (e : lenv) (P : list ninstr),
  wf_lenv e = true -> (payload_len e P < 2 ^ 32)%N -> size_ok e P = true.
Proof. exact small_file_size_ok. Qed.
Print Assumptions C06_small_file_size_ok.
