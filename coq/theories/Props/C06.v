(* C06 — Compiled bytecode computes what the interpreter computed. *)
From Coq Require Import List Arith.
From MechV Require Import Model.Plan Model.Bytecode Proofs.PlanP Proofs.BytecodeP.
Import ListNotations.

(* For every pure plan (each cell written by at most one step; steps read only cells written earlier or
   never), every initial register file and every store: after running the compiled program the register of
   each step's output holds exactly the interpreter's value of that cell.  Any plan length. *)
Theorem C06_compile_run_correct : forall (V : Type) (p : list (@pstep V)) (s0 : @store V),
  plan_pure p ->
  forall rs st, In st p -> run (compile p (resolve p s0)) rs (s_out st) = resolve p s0 (s_out st).
Proof. exact (@compile_run_correct). Qed.
Print Assumptions C06_compile_run_correct.

(* In general the compiled program computes each step from the operands' FINAL values. *)
Theorem C06_compile_last_step : forall (V : Type) (pre : list (@pstep V)) (st : @pstep V) (final : @store V) rs,
  run (compile (pre ++ [st]) final) rs (s_out st) = s_fn st (map final (s_args st)).
Proof. exact (@compile_last_step). Qed.
Print Assumptions C06_compile_last_step.

(* Hence the property is FALSE of the faithful model when a cell is assigned after it was read
   (known finding stale-read-after-assignment): witness y := x ; x = 9. *)
Theorem C06_refuted_stale_read :
  exists (p : list (@pstep nat)) (s0 : @store nat) (st : @pstep nat),
    In st p /\ run (compile p (resolve p s0)) (fun _ => 0) (s_out st) <> resolve p s0 (s_out st).
Proof. exact BytecodeP.C06_refuted_stale_read. Qed.
Print Assumptions C06_refuted_stale_read.

(* the observed-dataflow check used by the judge implies the hypothesis of C06_compile_run_correct *)
Theorem C06_plan_pureb_sound : forall (V : Type) (fn : rstep -> list V -> V) (p : list rstep),
  plan_pureb p = true -> plan_pure (abstract fn p).
Proof. exact (@plan_pureb_sound). Qed.
Print Assumptions C06_plan_pureb_sound.
