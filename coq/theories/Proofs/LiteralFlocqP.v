(* C13, link to Flocq: the home-made statement [rounds_to f v q] ("v is a nearest float of the format to the
   rational q, ties to even") coincides with Flocq's standard rounding
       round radix2 (FLT_exp emin prec) ZnearestE (Q2R q)
   for every format (prec = fprec f, emin = - fscale f) and every q below the overflow threshold.
   Route: the value of v is in [generic_format], it satisfies Flocq's [Rnd_NE_pt] (nearest; on a tie the
   canonical mantissa is even), and [Rnd_NE_pt] determines its point uniquely ([round_NE_pt], [round_unique]).
   The theorems of this file depend on the axioms of Coq's classical real numbers (as all of Flocq does). *)
From Coq Require Import ZArith QArith Qabs Qreals Reals Bool Lia Lra.
From Flocq Require Import Core.Raux Core.Zaux Core.Defs Core.Digits Core.Float_prop Core.Generic_fmt Core.FLX Core.FLT
  Core.Round_pred Core.Round_NE.
From MechV Require Import Base.Sexp Base.Obs Model.Literal Proofs.LiteralP Proofs.LiteralRoundP.
Local Open Scope Z_scope.

(* ---------- Q -> R ---------- *)
Lemma Q2R_Qabs a : Q2R (Qabs a) = Rabs (Q2R a).
Proof.
  destruct a as [n d]. unfold Qabs, Q2R. cbn [Qnum Qden].
  rewrite abs_IZR, Rabs_mult. f_equal. symmetry. apply Rabs_pos_eq.
  apply Rlt_le, Rinv_0_lt_compat, IZR_lt. reflexivity.
Qed.

Lemma Qdist_le_R q a b :
  (Qabs (q - a) <= Qabs (q - b))%Q -> (Rabs (Q2R a - Q2R q) <= Rabs (Q2R b - Q2R q))%R.
Proof.
  intros H. apply Qle_Rle in H. rewrite !Q2R_Qabs, !Q2R_minus in H.
  rewrite (Rabs_minus_sym (Q2R a)), (Rabs_minus_sym (Q2R b)). exact H.
Qed.

Lemma Qdist_eq_R q a b :
  (Rabs (Q2R a - Q2R q) = Rabs (Q2R b - Q2R q))%R -> (Qabs (q - a) == Qabs (q - b))%Q.
Proof.
  intros H. apply eqR_Qeq. rewrite !Q2R_Qabs, !Q2R_minus.
  rewrite (Rabs_minus_sym (Q2R q) (Q2R a)), (Rabs_minus_sym (Q2R q) (Q2R b)). exact H.
Qed.

Section FlocqLink.
  Variable f : fmt.
  Hypothesis Hf : fmt_ok f.
  Hypothesis Hp2 : 2 <= fprec f.

  Definition fl_prec : Z := fprec f.
  Definition fl_emin : Z := - fscale f.
  Notation fexp := (FLT_exp fl_emin fl_prec).
  Notation format := (generic_format radix2 fexp).

  Instance fl_prec_gt_0 : Prec_gt_0 fl_prec.
  Proof. unfold Prec_gt_0, fl_prec. lia. Qed.

  Instance fl_exists_NE : Exists_NE radix2 fexp.
  Proof. apply exists_NE_FLT. right. unfold fl_prec. lia. Qed.

  (* an integer number of units 2^-fscale, as a real *)
  Definition unitR (z : Z) : R := (IZR z * bpow radix2 (- fscale f))%R.

  (* the real value of the finite float (s, M, e) *)
  Definition fin_R (s : bool) (M e : Z) : R := F2R (Float radix2 (sgnZ s M) (e - fscale f)).

  Lemma IZR_pow2 k : 0 <= k -> IZR (2 ^ k) = bpow radix2 k.
  Proof. intros Hk. rewrite <- (IZR_Zpower radix2 k Hk). reflexivity. Qed.

  Lemma F2R_unitR m k : 0 <= k -> F2R (Float radix2 m (k - fscale f)) = unitR (m * 2 ^ k).
  Proof.
    intros Hk. unfold F2R, unitR. cbn [Fnum Fexp].
    unfold Z.sub. rewrite bpow_plus, mult_IZR, (IZR_pow2 k Hk). ring.
  Qed.

  Lemma fin_R_unitR s M e : 0 <= e -> fin_R s M e = unitR (sgnZ s M * 2 ^ e).
  Proof. apply F2R_unitR. Qed.

  Lemma unitR_pos : (0 < bpow radix2 (- fscale f))%R.
  Proof. apply bpow_gt_0. Qed.

  Lemma unitR_le a b : a <= b -> (unitR a <= unitR b)%R.
  Proof. intros H. unfold unitR. apply Rmult_le_compat_r; [apply Rlt_le, unitR_pos|apply IZR_le, H]. Qed.

  Lemma unitR_pow2 k : 0 <= k -> unitR (2 ^ k) = bpow radix2 (k - fscale f).
  Proof. intros Hk. unfold unitR. rewrite (IZR_pow2 k Hk). unfold Z.sub. rewrite bpow_plus. reflexivity. Qed.

  Lemma unitR_opp a : unitR (- a) = (- unitR a)%R.
  Proof. unfold unitR. rewrite opp_IZR. ring. Qed.

  Lemma unitR_abs a : Rabs (unitR a) = unitR (Z.abs a).
  Proof.
    unfold unitR. rewrite Rabs_mult, <- abs_IZR. f_equal. apply Rabs_pos_eq, Rlt_le, unitR_pos.
  Qed.

  Lemma Q2R_fin_Q s M e : 0 <= e -> Q2R (fin_Q f s M e) = fin_R s M e.
  Proof.
    intros He. rewrite (fin_R_unitR s M e He), fin_Q_eq. unfold Q2R, unitR. cbn [Qnum Qden].
    rewrite (Sf_eq f Hf). f_equal.
    rewrite bpow_opp, <- (IZR_pow2 (fscale f)); [reflexivity|apply Hf].
  Qed.

  (* ---------- membership ---------- *)
  Lemma abs_sgnZ s M : 0 <= M -> Z.abs (sgnZ s M) = M.
  Proof. intros HM. unfold sgnZ. destruct s; lia. Qed.

  Lemma fin_R_format s M e : canon f M e -> format (fin_R s M e).
  Proof.
    intros (HM & He & _). apply generic_format_FLT.
    apply (FLT_spec radix2 fl_emin fl_prec _ (Float radix2 (sgnZ s M) (e - fscale f))); cbn [Fnum Fexp].
    - reflexivity.
    - rewrite (abs_sgnZ s M (proj1 HM)). change (Zpower radix2 fl_prec) with (2 ^ fprec f).
      rewrite (pow2_prec f Hf). lia.
    - unfold fl_emin. lia.
  Qed.

  (* ---------- every element of the format is a canonical (s, M, e), or lies beyond the finite range ---------- *)
  Lemma normalize_canon k : 0 <= k -> forall m, 0 <= m < 2 ^ fprec f -> m * 2 ^ k < 2 ^ (femax f + fprec f) ->
    exists M' e', canon f M' e' /\ M' * 2 ^ e' = m * 2 ^ k.
  Proof.
    intros Hk. pattern k. apply natlike_ind; [| |exact Hk]; clear k Hk.
    - intros m Hm _. exists m, 0. split; [|reflexivity]. unfold canon. rewrite <- (pow2_prec f Hf).
      split; [exact Hm|]. split; [destruct Hf as (_ & _ & ?); lia|left; reflexivity].
    - intros k Hk IH m Hm Hlt.
      destruct (Z_lt_le_dec m (2 ^ (fprec f - 1))) as [Hsmall|Hbig].
      + destruct (IH (2 * m)) as (M' & e' & Hc & Heq).
        * rewrite (pow2_prec f Hf). lia.
        * replace (2 * m * 2 ^ k) with (m * 2 ^ Z.succ k); [exact Hlt|]. rewrite Z.pow_succ_r by exact Hk. ring.
        * exists M', e'. split; [exact Hc|]. rewrite Heq, Z.pow_succ_r by exact Hk. ring.
      + exists m, (Z.succ k). split; [|reflexivity]. unfold canon. rewrite <- (pow2_prec f Hf).
        split; [exact Hm|]. split; [|right; exact Hbig].
        split; [lia|].
        assert (H1 : 2 ^ (fprec f - 1) * 2 ^ Z.succ k <= m * 2 ^ Z.succ k).
        { apply Z.mul_le_mono_nonneg_r; [apply Z.lt_le_incl, pow2_gt0; lia|exact Hbig]. }
        rewrite <- Z.pow_add_r in H1 by lia.
        assert (H2 : 2 ^ (fprec f - 1 + Z.succ k) < 2 ^ (femax f + fprec f)) by lia.
        apply Z.pow_lt_mono_r_iff in H2; [lia|lia|destruct Hf as (? & ? & ?); lia].
  Qed.

  (* 2^emax in Flocq's terms: the first power of two beyond the finite floats *)
  Definition Bmax : R := bpow radix2 (femax f + fprec f - fscale f).

  Lemma format_cases g : format g ->
    (exists s' M' e', canon f M' e' /\ g = fin_R s' M' e') \/ (Bmax <= Rabs g)%R.
  Proof.
    intros Hg. apply (FLT_format_generic radix2 fl_emin fl_prec (prec_gt_0_ := fl_prec_gt_0)) in Hg.
    destruct Hg as [[m ex] Hgeq Hm Hex]. cbn [Fnum Fexp] in *.
    change (Zpower radix2 fl_prec) with (2 ^ fprec f) in Hm. unfold fl_emin in Hex.
    set (k := ex + fscale f). assert (Hk : 0 <= k) by (unfold k; lia).
    assert (Eex : ex = k - fscale f) by (unfold k; lia).
    rewrite Eex in Hgeq. rewrite (F2R_unitR m k Hk) in Hgeq.
    destruct (Z_lt_le_dec (Z.abs m * 2 ^ k) (2 ^ (femax f + fprec f))) as [Hin|Hout].
    - left. destruct (normalize_canon k Hk (Z.abs m) ltac:(lia) Hin) as (M' & e' & Hc & Heq).
      exists (m <? 0), M', e'. split; [exact Hc|].
      destruct Hc as (_ & (He' & _) & _).
      rewrite (fin_R_unitR _ _ _ He'), Hgeq. f_equal.
      unfold sgnZ. destruct (m <? 0) eqn:Em.
      + apply Z.ltb_lt in Em. rewrite Z.mul_opp_l, Heq, Z.abs_neq by lia. ring.
      + apply Z.ltb_ge in Em. rewrite Heq, Z.abs_eq by lia. reflexivity.
    - right. rewrite Hgeq, unitR_abs. unfold Bmax.
      rewrite <- unitR_pow2 by (destruct Hf as (? & ? & ?); lia). apply unitR_le.
      rewrite Z.abs_mul, (Z.abs_eq (2 ^ k)) by (apply Z.lt_le_incl, pow2_gt0; exact Hk). exact Hout.
  Qed.

  (* the largest finite float *)
  Definition Mmax : Z := 2 ^ fprec f - 1.
  Definition Amax : R := unitR (Mmax * 2 ^ femax f).

  Lemma Mmax_canon : canon f Mmax (femax f).
  Proof.
    unfold canon, Mmax. rewrite (pow2_prec f Hf). pose proof (P_pos f Hf) as HP. cbv zeta in HP.
    destruct Hf as (_ & _ & He). repeat split; lia.
  Qed.

  Lemma Bmax_unitR : Bmax = unitR (2 ^ fprec f * 2 ^ femax f).
  Proof.
    unfold Bmax. destruct Hf as (Hp & _ & He).
    rewrite <- unitR_pow2 by lia. f_equal. rewrite <- Z.pow_add_r by lia. f_equal. lia.
  Qed.

  Lemma Amax_lt_Bmax : (Amax < Bmax)%R.
  Proof.
    rewrite Bmax_unitR. unfold Amax, unitR. apply Rmult_lt_compat_r; [apply unitR_pos|]. apply IZR_lt.
    unfold Mmax. pose proof (pow2_gt0 (femax f) ltac:(apply Hf)). nia.
  Qed.

  Lemma Q2R_max_plus_half : Q2R (max_plus_half f) = ((Amax + Bmax) / 2)%R.
  Proof.
    rewrite Bmax_unitR. unfold Amax, max_plus_half, Q2R, unitR. cbn [Qnum Qden].
    change (2 * Sf f)%positive with (xO (Sf f)). rewrite (Pos2Z.inj_xO (Sf f)), (Sf_eq f Hf).
    rewrite bpow_opp, <- (IZR_pow2 (fscale f)) by apply Hf.
    assert (Hnz : IZR (2 ^ fscale f) <> 0%R).
    { apply not_0_IZR. pose proof (pow2_gt0 (fscale f) ltac:(apply Hf)). lia. }
    replace ((2 * 2 ^ fprec f - 1) * 2 ^ femax f) with (Mmax * 2 ^ femax f + 2 ^ fprec f * 2 ^ femax f)
      by (unfold Mmax; ring).
    rewrite plus_IZR, (mult_IZR 2). field. exact Hnz.
  Qed.

  (* a number of magnitude >= 2^emax is farther from x than the largest finite float of its sign *)
  Lemma far_away g x : (Bmax <= Rabs g)%R -> (Rabs x < (Amax + Bmax) / 2)%R ->
    exists s', (Rabs (fin_R s' Mmax (femax f) - x) < Rabs (g - x))%R.
  Proof.
    intros Hg Hx. pose proof Amax_lt_Bmax as HAB.
    assert (He : 0 <= femax f) by apply Hf.
    apply Rabs_def2 in Hx. destruct Hx as [Hx1 Hx2].
    destruct (Rle_or_lt 0 g) as [Hpos|Hneg].
    - exists false. rewrite (fin_R_unitR false Mmax (femax f) He). unfold sgnZ. fold Amax.
      rewrite (Rabs_pos_eq g Hpos) in Hg.
      unfold Rabs. destruct (Rcase_abs (Amax - x)), (Rcase_abs (g - x)); lra.
    - exists true. rewrite (fin_R_unitR true Mmax (femax f) He). unfold sgnZ.
      rewrite Z.mul_opp_l, unitR_opp. fold Amax.
      rewrite (Rabs_left g Hneg) in Hg.
      unfold Rabs. destruct (Rcase_abs (- Amax - x)), (Rcase_abs (g - x)); lra.
  Qed.

  (* ---------- the main step: rounds_to implies Flocq's round-to-nearest-even predicate ---------- *)
  Lemma fin_R_zero s e : fin_R s 0 e = 0%R.
  Proof. unfold fin_R. replace (sgnZ s 0) with 0 by (destruct s; reflexivity). apply F2R_0. Qed.

  Lemma fin_R_canonical s M e : canon f M e -> M <> 0 ->
    canonical radix2 fexp (Float radix2 (sgnZ s M) (e - fscale f)).
  Proof.
    intros (HM & He & Hn) HM0. unfold canonical, cexp. cbn [Fexp].
    assert (Hnz : sgnZ s M <> 0) by (unfold sgnZ; destruct s; lia).
    rewrite (mag_F2R_Zdigits radix2 _ _ Hnz). unfold FLT_exp, fl_emin, fl_prec.
    destruct (Z_lt_le_dec M (2 ^ (fprec f - 1))) as [Hsmall|Hbig].
    - assert (e = 0) by (destruct Hn; lia). subst e.
      assert (Hd : Zdigits radix2 (sgnZ s M) <= fprec f - 1).
      { apply Zdigits_le_Zpower. rewrite (abs_sgnZ s M (proj1 HM)). exact Hsmall. }
      lia.
    - assert (Hd : Zdigits radix2 (sgnZ s M) = fprec f).
      { apply Zdigits_unique. rewrite (abs_sgnZ s M (proj1 HM)).
        change (Zpower radix2 (fprec f - 1)) with (2 ^ (fprec f - 1)).
        change (Zpower radix2 (fprec f)) with (2 ^ fprec f). rewrite (pow2_prec f Hf). lia. }
      rewrite Hd. lia.
  Qed.

  Theorem rounds_to_Rnd_NE_pt s M e q :
    rounds_to f (FFin s M e) q -> (Qabs q < max_plus_half f)%Q ->
    Rnd_NE_pt radix2 fexp (Q2R q) (fin_R s M e).
  Proof.
    intros Hr Hq. pose proof Hr as (Hc & Hle & Htie & Hsg).
    pose proof Hc as (HM & He & Hn).
    set (x := Q2R q). set (val := fin_R s M e).
    assert (HxR : (Rabs x < (Amax + Bmax) / 2)%R).
    { apply Qlt_Rlt in Hq. rewrite Q2R_Qabs, Q2R_max_plus_half in Hq. exact Hq. }
    assert (Hcan : forall s' M' e', canon f M' e' -> (Rabs (val - x) <= Rabs (fin_R s' M' e' - x))%R).
    { intros s' M' e' Hc'. unfold val, x.
      rewrite <- (Q2R_fin_Q s M e (proj1 He)), <- (Q2R_fin_Q s' M' e' (proj1 (proj1 (proj2 Hc')))).
      apply Qdist_le_R, Hle, Hc'. }
    assert (Hbig : forall g, (Bmax <= Rabs g)%R -> (Rabs (val - x) < Rabs (g - x))%R).
    { intros g Hg. destruct (far_away g x Hg HxR) as (s' & Hs').
      eapply Rle_lt_trans; [apply (Hcan s' Mmax (femax f) Mmax_canon)|exact Hs']. }
    assert (HN : Rnd_N_pt format x val).
    { split; [apply fin_R_format; exact Hc|]. intros g Hg.
      destruct (format_cases g Hg) as [(s' & M' & e' & Hc' & ->)|Hb];
        [apply Hcan; exact Hc'|apply Rlt_le, Hbig, Hb]. }
    split; [exact HN|].
    destruct (Z.even M) eqn:Hev.
    - left. unfold NE_prop.
      destruct (Z.eq_dec M 0) as [HM0|HM0].
      + exists (Float radix2 0 (fexp (mag radix2 0%R))). unfold val. rewrite HM0, fin_R_zero, F2R_0.
        split; [reflexivity|]. split; [apply canonical_0|reflexivity].
      + exists (Float radix2 (sgnZ s M) (e - fscale f)).
        split; [reflexivity|]. split; [apply fin_R_canonical; assumption|].
        cbn [Fnum]. unfold sgnZ. destruct s; [rewrite Z.even_opp|]; exact Hev.
    - right. intros f2 [Hf2 Hmin].
      destruct (Req_dec f2 val) as [Heq|Hne]; [exact Heq|exfalso].
      assert (Hd : Rabs (val - x) = Rabs (f2 - x)).
      { apply Rle_antisym; [apply HN; exact Hf2|apply Hmin; apply HN]. }
      destruct (format_cases f2 Hf2) as [(s' & M' & e' & Hc' & E2)|Hb].
      + assert (He' : 0 <= e') by apply Hc'.
        assert (Hcontra : false = true); [|discriminate Hcontra].
        apply (Htie s' M' e' Hc').
        * intros HQ. apply Hne. apply Qeq_eqR in HQ.
          rewrite (Q2R_fin_Q s' M' e' He'), (Q2R_fin_Q s M e (proj1 He)) in HQ. rewrite E2. exact HQ.
        * apply Qdist_eq_R. rewrite (Q2R_fin_Q s' M' e' He'), (Q2R_fin_Q s M e (proj1 He)).
          rewrite <- E2. exact Hd.
      + pose proof (Hbig f2 Hb) as Hlt. rewrite Hd in Hlt. exact (Rlt_irrefl _ Hlt).
  Qed.

  (* v's real value IS Flocq's rounding of q *)
  Theorem rounds_to_round_NE s M e q :
    rounds_to f (FFin s M e) q -> (Qabs q < max_plus_half f)%Q ->
    fin_R s M e = round radix2 fexp ZnearestE (Q2R q).
  Proof.
    intros Hr Hq.
    pose proof (FLT_exp_valid fl_emin fl_prec) as Hv.
    apply (round_unique (Rnd_NE_pt radix2 fexp) (@Rnd_NE_pt_monotone radix2 fexp Hv fl_exists_NE) (Q2R q)).
    - apply rounds_to_Rnd_NE_pt; assumption.
    - apply (@round_NE_pt radix2 fexp Hv fl_exists_NE).
  Qed.
End FlocqLink.

(* ================================================================== *)
(* corollaries in the words of Model/Literal.v                          *)
(* ================================================================== *)
Local Open Scope Z_scope.

(* Q2R of the value of v = Flocq's rounding of Q2R q, every format *)
Theorem rounds_to_flocq f s M e q :
  fmt_ok f -> 2 <= fprec f ->
  rounds_to f (FFin s M e) q -> (Qabs q < max_plus_half f)%Q ->
  Q2R (fin_Q f s M e) = round radix2 (FLT_exp (- fscale f) (fprec f)) ZnearestE (Q2R q).
Proof.
  intros Hf Hp2 Hr Hq. pose proof Hr as ((_ & (He & _) & _) & _).
  rewrite (Q2R_fin_Q f Hf s M e He). exact (rounds_to_round_NE f Hf Hp2 s M e q Hr Hq).
Qed.

(* in Flocq's predicate form: v's value is THE round-to-nearest-even point of q in the FLT format *)
Theorem rounds_to_flocq_pt f s M e q :
  fmt_ok f -> 2 <= fprec f ->
  rounds_to f (FFin s M e) q -> (Qabs q < max_plus_half f)%Q ->
  generic_format radix2 (FLT_exp (- fscale f) (fprec f)) (Q2R (fin_Q f s M e)) /\
  Rnd_NE_pt radix2 (FLT_exp (- fscale f) (fprec f)) (Q2R q) (Q2R (fin_Q f s M e)).
Proof.
  intros Hf Hp2 Hr Hq. pose proof Hr as (Hc & _). pose proof Hc as (_ & (He & _) & _).
  rewrite (Q2R_fin_Q f Hf s M e He). split.
  - exact (fin_R_format f Hf s M e Hc).
  - exact (rounds_to_Rnd_NE_pt f Hf Hp2 s M e q Hr Hq).
Qed.

(* binary64: prec 53, emax 1024, emin = 3 - emax - prec; the value is (-1)^s * M * 2^(e - 1074) *)
Theorem rounds_to_flocq64 s M e q :
  rounds_to f64 (FFin s M e) q -> (Qabs q < max_plus_half f64)%Q ->
  Q2R (fin_Q f64 s M e) = round radix2 (FLT_exp (3 - 1024 - 53) 53) ZnearestE (Q2R q) /\
  Q2R (fin_Q f64 s M e) = F2R (Float radix2 (if s then - M else M) (e - 1074)).
Proof.
  intros Hr Hq. split.
  - exact (rounds_to_flocq f64 s M e q f64_ok ltac:(cbn; lia) Hr Hq).
  - pose proof Hr as ((_ & (He & _) & _) & _). exact (Q2R_fin_Q f64 f64_ok s M e He).
Qed.

(* binary32: prec 24, emax 128 *)
Theorem rounds_to_flocq32 s M e q :
  rounds_to f32 (FFin s M e) q -> (Qabs q < max_plus_half f32)%Q ->
  Q2R (fin_Q f32 s M e) = round radix2 (FLT_exp (3 - 128 - 24) 24) ZnearestE (Q2R q) /\
  Q2R (fin_Q f32 s M e) = F2R (Float radix2 (if s then - M else M) (e - 149)).
Proof.
  intros Hr Hq. split.
  - exact (rounds_to_flocq f32 s M e q f32_ok ltac:(cbn; lia) Hr Hq).
  - pose proof Hr as ((_ & (He & _) & _) & _). exact (Q2R_fin_Q f32 f32_ok s M e He).
Qed.

(* what the executable checker accepts, in Flocq's terms (the checker itself enforces the overflow threshold) *)
Theorem is_nearest_flocq f s M e q :
  fmt_ok f -> 2 <= fprec f -> is_nearest f (FFin s M e) q = true ->
  Q2R (fin_Q f s M e) = round radix2 (FLT_exp (- fscale f) (fprec f)) ZnearestE (Q2R q).
Proof.
  intros Hf Hp2 Hn. apply rounds_to_flocq; [exact Hf|exact Hp2| |].
  - apply (is_nearest_sound f Hf). exact Hn.
  - exact (is_nearest_fin_in_range f s M e q Hf Hn).
Qed.

(* a bit pattern the judge accepts for q as a binary64: a finite double whose value is Flocq's rounding of q,
   or an infinity with |q| at or beyond the overflow threshold *)
Theorem is_nearest_bits_flocq64 bits q :
  is_nearest_bits f64 bits q = true ->
  (exists s M e, decode_bits f64 bits = Some (FFin s M e) /\
     Q2R (fin_Q f64 s M e) = round radix2 (FLT_exp (3 - 1024 - 53) 53) ZnearestE (Q2R q)) \/
  (exists s, decode_bits f64 bits = Some (FInf s) /\ (max_plus_half f64 <= Qabs q)%Q /\ s = (Qnum q <? 0)).
Proof.
  unfold is_nearest_bits. destruct (decode_bits f64 bits) as [[s M e|s|]|]; try discriminate.
  - intros Hn. left. exists s, M, e. split; [reflexivity|].
    exact (is_nearest_flocq f64 s M e q f64_ok ltac:(cbn; lia) Hn).
  - intros Hn. right. exists s. split; [reflexivity|].
    exact (is_nearest_inf_sound f64 f64_ok s q Hn).
Qed.

(* the executable rounding function computes Flocq's rounding *)
Theorem round_ne_flocq f q :
  fmt_ok f -> 2 <= fprec f ->
  exists v, round_ne f q = Some v /\
    match v with
    | FFin s M e => Q2R (fin_Q f s M e) = round radix2 (FLT_exp (- fscale f) (fprec f)) ZnearestE (Q2R q)
    | FInf s => (max_plus_half f <= Qabs q)%Q /\ s = (Qnum q <? 0)
    | FNan => False
    end.
Proof.
  intros Hf Hp2. destruct (round_ne_correct f Hf Hp2 q) as (v & Hr & Hn). exists v. split; [exact Hr|].
  destruct v as [s M e|s|]; [|exact (is_nearest_inf_sound f Hf s q Hn)|discriminate Hn].
  exact (is_nearest_flocq f s M e q Hf Hp2 Hn).
Qed.

(* non-vacuity: the hypotheses of the link are satisfiable (0.1 and its double 0x3FB999999999999A) *)
Lemma flocq_example :
  rounds_to f64 (FFin false 7205759403792794 1018) (1 # 10) /\ (Qabs (1 # 10) < max_plus_half f64)%Q /\
  decode_bits f64 4591870180066957722 = Some (FFin false 7205759403792794 1018).
Proof.
  assert (Hn : is_nearest f64 (FFin false 7205759403792794 1018) (1 # 10) = true) by (vm_compute; reflexivity).
  split; [apply (is_nearest_sound f64 f64_ok); exact Hn|].
  split; [exact (is_nearest_fin_in_range f64 _ _ _ _ f64_ok Hn)|vm_compute; reflexivity].
Qed.
