(* Lemmas for C15 (Model/Range.v). *)
From Coq Require Import List ZArith QArith Lia Bool Arith.
From Coq Require String.
From MechV Require Import Base.Sexp Base.Obs Model.Range Proofs.SexpP.
Import ListNotations.
Open Scope Z_scope.

(* ---------- "t lies before / up to b in the direction of the step s" ---------- *)
Definition Before (incl : bool) (s t b : Z) : Prop :=
  (0 < s /\ if incl then t <= b else t < b) \/ (s < 0 /\ if incl then b <= t else b < t).

Lemma beforeb_iff incl s t b : beforeb incl s t b = true <-> Before incl s t b.
Proof.
  unfold beforeb, Before.
  destruct (0 <? s) eqn:Ep; [apply Z.ltb_lt in Ep | apply Z.ltb_ge in Ep].
  - destruct incl; [rewrite Z.leb_le | rewrite Z.ltb_lt]; split; intros H; try (left; split; assumption);
      destruct H as [[_ H]|[H _]]; try assumption; lia.
  - destruct (s <? 0) eqn:En; [apply Z.ltb_lt in En | apply Z.ltb_ge in En].
    + destruct incl; [rewrite Z.leb_le | rewrite Z.ltb_lt]; split; intros H; try (right; split; assumption);
        destruct H as [[H _]|[_ H]]; try assumption; lia.
    + split; [discriminate|]. intros [[H _]|[H _]]; lia.
Qed.

(* ---------- the count ---------- *)
Lemma zcount_up_nonneg incl a s b : 0 < s -> 0 <= zcount_up incl a s b.
Proof.
  intros Hs. unfold zcount_up. destruct incl.
  - destruct (b <? a) eqn:E; [lia|]. apply Z.ltb_ge in E.
    assert (0 <= (b - a) / s) by (apply Z.div_pos; lia). lia.
  - destruct (b <=? a) eqn:E; [lia|]. apply Z.leb_gt in E.
    assert (0 <= (b - a - 1) / s) by (apply Z.div_pos; lia). lia.
Qed.

Lemma zcount_up_spec incl a s b i : 0 < s -> 0 <= i ->
  (i < zcount_up incl a s b <-> (if incl then a + i * s <= b else a + i * s < b)).
Proof.
  intros Hs Hi. unfold zcount_up. destruct incl.
  - destruct (b <? a) eqn:E.
    + apply Z.ltb_lt in E. split; [lia | nia].
    + apply Z.ltb_ge in E.
      pose proof (Z.div_mod (b - a) s ltac:(lia)) as D.
      pose proof (Z.mod_pos_bound (b - a) s Hs) as M.
      split; intros H; nia.
  - destruct (b <=? a) eqn:E.
    + apply Z.leb_le in E. split; [lia | nia].
    + apply Z.leb_gt in E.
      pose proof (Z.div_mod (b - a - 1) s ltac:(lia)) as D.
      pose proof (Z.mod_pos_bound (b - a - 1) s Hs) as M.
      split; intros H; nia.
Qed.

Lemma zcount_nonneg incl a s b : 0 <= zcount incl a s b.
Proof.
  unfold zcount. destruct (s =? 0) eqn:E0; [lia|]. apply Z.eqb_neq in E0.
  destruct (0 <? s) eqn:Ep; [apply Z.ltb_lt in Ep | apply Z.ltb_ge in Ep]; apply zcount_up_nonneg; lia.
Qed.

Lemma zcount_spec incl a s b i : s <> 0 -> 0 <= i ->
  (i < zcount incl a s b <-> Before incl s (a + i * s) b).
Proof.
  intros Hs Hi. unfold zcount. destruct (s =? 0) eqn:E0; [apply Z.eqb_eq in E0; contradiction|].
  unfold Before.
  destruct (0 <? s) eqn:Ep; [apply Z.ltb_lt in Ep | apply Z.ltb_ge in Ep].
  - rewrite zcount_up_spec by assumption. split.
    + intros H. left. split; assumption.
    + intros [[_ H]|[H _]]; [assumption|lia].
  - rewrite zcount_up_spec by lia.
    replace (- a + i * - s) with (- (a + i * s)) by ring. split.
    + intros H. right. split; [lia|]. destruct incl; lia.
    + intros [[H _]|[_ H]]; [lia|]. destruct incl; lia.
Qed.

Lemma zcount_zero_step incl a b : zcount incl a 0 b = 0.
Proof. reflexivity. Qed.

Lemma zcount_pos_step_nonzero incl a s b : 0 < zcount incl a s b -> s <> 0.
Proof. intros H E. subst s. rewrite zcount_zero_step in H. lia. Qed.

Lemma zcount_le_span incl a s b : zcount incl a s b <= Z.abs (b - a) + 1.
Proof.
  destruct (Z.eq_dec s 0) as [->|Hs]; [rewrite zcount_zero_step; lia|].
  pose proof (zcount_nonneg incl a s b) as Hn.
  destruct (Z.eq_dec (zcount incl a s b) 0) as [E|E]; [lia|].
  assert (Hi : zcount incl a s b - 1 < zcount incl a s b) by lia.
  apply (zcount_spec incl a s b (zcount incl a s b - 1) Hs) in Hi; [|lia].
  set (n := zcount incl a s b) in *.
  destruct Hi as [[Hp Hb]|[Hp Hb]].
  - assert (n - 1 <= (n - 1) * s) by nia. destruct incl; lia.
  - assert (n - 1 <= (n - 1) * (- s)) by nia.
    assert ((n - 1) * (- s) = - ((n - 1) * s)) by ring. destruct incl; lia.
Qed.

(* ---------- the list ---------- *)
Lemma range_spec_length incl a s b :
  List.length (range_spec incl a s b) = Z.to_nat (zcount incl a s b).
Proof. unfold range_spec. rewrite map_length, seq_length. reflexivity. Qed.

Lemma range_spec_is_map incl a s b :
  range_spec incl a s b = map (fun i : nat => a + Z.of_nat i * s) (seq 0 (Z.to_nat (zcount incl a s b))).
Proof. reflexivity. Qed.

Lemma nth_error_map_seq {B} (f : nat -> B) n i : (i < n)%nat -> nth_error (map f (seq 0 n)) i = Some (f i).
Proof.
  intros H. rewrite nth_error_map.
  rewrite nth_error_nth' with (d := 0%nat) by (rewrite seq_length; exact H).
  rewrite seq_nth by exact H. reflexivity.
Qed.

Lemma range_spec_nth incl a s b (i : nat) : (i < Z.to_nat (zcount incl a s b))%nat ->
  nth_error (range_spec incl a s b) i = Some (a + Z.of_nat i * s).
Proof. intros H. unfold range_spec. rewrite nth_error_map_seq by exact H. reflexivity. Qed.

Lemma range_spec_In incl a s b t :
  In t (range_spec incl a s b) <-> exists i : nat, (i < Z.to_nat (zcount incl a s b))%nat /\ t = a + Z.of_nat i * s.
Proof.
  unfold range_spec. rewrite in_map_iff. split.
  - intros (i & E & Hi). apply in_seq in Hi. exists i. split; [lia|]. symmetry. exact E.
  - intros (i & Hi & E). exists i. split; [symmetry; exact E|]. apply in_seq. lia.
Qed.

Theorem range_sound incl a s b t : In t (range_spec incl a s b) ->
  exists i : nat, t = a + Z.of_nat i * s /\ Before incl s t b.
Proof.
  intros H. apply range_spec_In in H as (i & Hi & ->). exists i. split; [reflexivity|].
  assert (Hc : Z.of_nat i < zcount incl a s b) by lia.
  apply zcount_spec; [|lia|exact Hc].
  apply (zcount_pos_step_nonzero incl a s b). lia.
Qed.

Theorem range_complete incl a s b (i : nat) :
  Before incl s (a + Z.of_nat i * s) b -> In (a + Z.of_nat i * s) (range_spec incl a s b).
Proof.
  intros H. assert (Hs : s <> 0) by (destruct H as [[H _]|[H _]]; lia).
  apply zcount_spec in H; [|exact Hs|lia].
  apply range_spec_In. exists i. split; [lia|reflexivity].
Qed.

(* the first term that is not in the list is not before b: the list stops exactly at the bound *)
Theorem range_maximal incl a s b :
  ~ Before incl s (a + zcount incl a s b * s) b.
Proof.
  intros H. assert (Hs : s <> 0) by (destruct H as [[H _]|[H _]]; lia).
  apply zcount_spec in H; [lia|exact Hs|apply zcount_nonneg].
Qed.

Theorem range_bad incl a s b :
  s = 0 \/ (0 < s /\ b < a) \/ (s < 0 /\ a < b) -> range_spec incl a s b = [].
Proof.
  intros H. unfold range_spec.
  replace (zcount incl a s b) with 0; [reflexivity|].
  destruct H as [->|[[Hs Hb]|[Hs Hb]]]; [reflexivity| |]; unfold zcount.
  - replace (s =? 0) with false by (symmetry; apply Z.eqb_neq; lia).
    replace (0 <? s) with true by (symmetry; apply Z.ltb_lt; lia).
    unfold zcount_up. destruct incl.
    + replace (b <? a) with true by (symmetry; apply Z.ltb_lt; lia). reflexivity.
    + replace (b <=? a) with true by (symmetry; apply Z.leb_le; lia). reflexivity.
  - replace (s =? 0) with false by (symmetry; apply Z.eqb_neq; lia).
    replace (0 <? s) with false by (symmetry; apply Z.ltb_ge; lia).
    unfold zcount_up. destruct incl.
    + replace (- b <? - a) with true by (symmetry; apply Z.ltb_lt; lia). reflexivity.
    + replace (- b <=? - a) with true by (symmetry; apply Z.leb_le; lia). reflexivity.
Qed.

Theorem range_excl_equal_bounds a s : range_spec false a s a = [].
Proof.
  unfold range_spec. replace (zcount false a s a) with 0; [reflexivity|].
  unfold zcount, zcount_up. destruct (s =? 0); [reflexivity|].
  destruct (0 <? s); [rewrite Z.leb_refl | rewrite Z.leb_refl]; reflexivity.
Qed.

Theorem range_incl_equal_bounds a s : s <> 0 -> range_spec true a s a = [a].
Proof.
  intros Hs. unfold range_spec. replace (zcount true a s a) with 1.
  - change (Z.to_nat 1) with 1%nat. cbn [seq map]. unfold zterm. f_equal. change (Z.of_nat 0) with 0. lia.
  - unfold zcount, zcount_up. replace (s =? 0) with false by (symmetry; apply Z.eqb_neq; lia).
    destruct (0 <? s); rewrite Z.ltb_irrefl, Z.sub_diag, Z.div_0_l; lia.
Qed.

Theorem range_in_kind lo hi incl a s b t :
  lo <= a <= hi -> lo <= b <= hi -> In t (range_spec incl a s b) -> lo <= t <= hi.
Proof.
  intros Ha Hb H. apply range_sound in H as (i & -> & [[Hs Hbf]|[Hs Hbf]]); destruct incl; nia.
Qed.

(* ---------- the recursive reading ---------- *)
Lemma map_zterm_succ a s n :
  map (zterm a s) (seq 0 (S n)) = a :: map (zterm (a + s) s) (seq 0 n).
Proof.
  cbn [seq map]. f_equal.
  - unfold zterm. cbn. lia.
  - rewrite <- seq_shift, map_map. apply map_ext. intros i. unfold zterm. rewrite Nat2Z.inj_succ. lia.
Qed.

Lemma walk_prefix incl s b : forall (n fuel : nat) cur, (n <= fuel)%nat ->
  (forall i : nat, (i < n)%nat -> beforeb incl s (cur + Z.of_nat i * s) b = true) ->
  beforeb incl s (cur + Z.of_nat n * s) b = false ->
  walk incl s b fuel cur = map (zterm cur s) (seq 0 n).
Proof.
  induction n as [|n IH]; intros fuel cur Hf Hall Hstop.
  - replace (cur + Z.of_nat 0 * s) with cur in Hstop by (cbn; lia).
    destruct fuel as [|f]; [reflexivity|]. cbn [walk]. rewrite Hstop. reflexivity.
  - destruct fuel as [|f]; [lia|]. cbn [walk].
    pose proof (Hall 0%nat ltac:(lia)) as H0.
    replace (cur + Z.of_nat 0 * s) with cur in H0 by (cbn; lia). rewrite H0.
    rewrite map_zterm_succ. f_equal. apply IH; [lia| |].
    + intros i Hi. specialize (Hall (S i) ltac:(lia)). rewrite Nat2Z.inj_succ in Hall.
      replace (cur + s + Z.of_nat i * s) with (cur + Z.succ (Z.of_nat i) * s) by lia. exact Hall.
    + rewrite Nat2Z.inj_succ in Hstop.
      replace (cur + s + Z.of_nat n * s) with (cur + Z.succ (Z.of_nat n) * s) by lia. exact Hstop.
Qed.

Theorem range_walk_eq incl a s b : range_walk incl a s b = range_spec incl a s b.
Proof.
  unfold range_walk, range_spec.
  destruct (Z.eq_dec s 0) as [->|Hs].
  - rewrite zcount_zero_step. cbn [walk]. unfold beforeb. cbn. reflexivity.
  - pose proof (zcount_nonneg incl a s b) as Hn. pose proof (zcount_le_span incl a s b) as Hle.
    apply walk_prefix.
    + lia.
    + intros i Hi. apply beforeb_iff. apply zcount_spec; [exact Hs|lia|lia].
    + destruct (beforeb incl s (a + Z.of_nat (Z.to_nat (zcount incl a s b)) * s) b) eqn:E; [|reflexivity].
      apply beforeb_iff in E. rewrite Z2Nat.id in E by exact Hn.
      exfalso. exact (range_maximal _ _ _ _ E).
Qed.

(* ---------- rationals: the scaled integer grid denotes a + i*s ---------- *)
Open Scope Q_scope.
Lemma scaled_term c (i : nat) :
  Qmake (zterm (scA c) (scS c) i) (scD c) == ra c + inject_Z (Z.of_nat i) * step_of c.
Proof.
  unfold scA, scS, scD, zterm. generalize (step_of c) as st. intros st.
  destruct (ra c) as [na da], st as [ns ds], (rb c) as [nb db].
  unfold Qeq, Qplus, Qmult, inject_Z. cbn [Qnum Qden].
  rewrite !Pos2Z.inj_mul. ring.
Qed.

Lemma scaled_bound c : Qmake (scB c) (scD c) == rb c.
Proof.
  unfold scB, scD. generalize (step_of c) as st. intros st.
  destruct (ra c) as [na da], st as [ns ds], (rb c) as [nb db].
  unfold Qeq. cbn [Qnum Qden]. rewrite !Pos2Z.inj_mul. ring.
Qed.

Lemma scaled_step c : Qmake (scS c) (scD c) == step_of c.
Proof.
  unfold scS, scD. generalize (step_of c) as st. intros st.
  destruct (ra c) as [na da], st as [ns ds], (rb c) as [nb db].
  unfold Qeq. cbn [Qnum Qden]. rewrite !Pos2Z.inj_mul. ring.
Qed.

Lemma scaled_order (x y : Z) (d : positive) : (Qmake x d < Qmake y d <-> (x < y)%Z) /\ (Qmake x d <= Qmake y d <-> (x <= y)%Z).
Proof.
  unfold Qlt, Qle. cbn [Qnum Qden]. split; split; intros H; nia.
Qed.
Close Scope Q_scope.

Lemma spec_terms_nth c (i : nat) : (i < Z.to_nat (spec_count c))%nat ->
  nth_error (spec_terms c) i = Some (Qmake (zterm (scA c) (scS c) i) (scD c)).
Proof.
  intros H. unfold spec_terms. rewrite nth_error_map. unfold zterm.
  rewrite range_spec_nth by exact H. reflexivity.
Qed.

Lemma spec_terms_length c : List.length (spec_terms c) = Z.to_nat (spec_count c).
Proof. unfold spec_terms. rewrite map_length. apply range_spec_length. Qed.

(* ---------- the judge ---------- *)
Definition elem_denotes (kd : kind) (e : sx) (q : Q) : Prop :=
  exists q', decode_elem kd e = Some q' /\ Qeq q' q.

(* C15 on one case and one observation of the implementation *)
Definition C15_spec (c : rcase) (o : obs) : Prop :=
  binding c = true /\
  (spec_terms c <> [] ->
     exists m, o = OVal (KM (rk c) m) /\ mrows m = 1%nat /\ mcols m = List.length (spec_terms c) /\
               Forall2 (elem_denotes (rkind c)) (mdata m) (spec_terms c)) /\
  (spec_terms c = [] ->
     o = OErr \/ exists m, o = OVal (KM (rk c) m) /\ mdata m = []).

Lemma elems_match_F2 kd : forall es qs, elems_match kd es qs = true -> Forall2 (elem_denotes kd) es qs.
Proof.
  induction es as [|e es IH]; intros [|q qs] H; cbn [elems_match] in H; try discriminate; [constructor|].
  destruct (decode_elem kd e) as [q'|] eqn:E; [|discriminate].
  apply andb_prop in H as [H1 H2]. constructor; [|apply IH; exact H2].
  exists q'. split; [exact E|]. apply Qeq_bool_iff. exact H1.
Qed.

Lemma obs_is_row_sound k kd l o : obs_is_row k kd l o = true ->
  exists m, o = OVal (KM k m) /\ mrows m = 1%nat /\ mcols m = List.length l /\ Forall2 (elem_denotes kd) (mdata m) l.
Proof.
  unfold obs_is_row. destruct o as [[k' e|k' m]| | | |x]; try discriminate. intros H.
  apply andb_prop in H as [H H4]. apply andb_prop in H as [H H3]. apply andb_prop in H as [H1 H2].
  apply String.eqb_eq in H1. subst k'. apply Nat.eqb_eq in H2, H3.
  exists m. repeat split; try assumption. apply elems_match_F2. exact H4.
Qed.

Lemma result_ok_sound c o tag : result_ok c o = Some tag ->
  (spec_terms c <> [] ->
     exists m, o = OVal (KM (rk c) m) /\ mrows m = 1%nat /\ mcols m = List.length (spec_terms c) /\
               Forall2 (elem_denotes (rkind c)) (mdata m) (spec_terms c)) /\
  (spec_terms c = [] ->
     o = OErr \/ exists m, o = OVal (KM (rk c) m) /\ mdata m = []).
Proof.
  unfold result_ok. destruct (spec_terms c) as [|q [|q2 l]] eqn:E; intros H.
  - split; [intros N; contradiction|]. intros _.
    destruct (obs_is_err o) eqn:Eo.
    + left. destruct o; try discriminate. reflexivity.
    + destruct (obs_is_empty_vec (rk c) o) eqn:Ev; [|discriminate]. right.
      unfold obs_is_empty_vec in Ev. destruct o as [[k' e|k' m]| | | |x]; try discriminate.
      apply andb_prop in Ev as [E1 E2]. apply String.eqb_eq in E1. subst k'.
      exists m. split; [reflexivity|]. destruct (mdata m); [reflexivity|discriminate].
  - destruct (obs_is_row (rk c) (rkind c) [q] o) eqn:Er; [|discriminate].
    split; [|discriminate]. intros _. apply obs_is_row_sound. exact Er.
  - destruct (obs_is_row (rk c) (rkind c) (q :: q2 :: l) o) eqn:Er; [|discriminate].
    split; [|discriminate]. intros _. apply obs_is_row_sound. exact Er.
Qed.

Theorem judge_case_sound c o tag : judge_case c o = v_ok tag -> C15_spec c o.
Proof.
  unfold judge_case, v_ok, v_adv, v_kf, v_bad. intros H.
  assert (G : binding c = true /\ exists t, result_ok c o = Some t).
  { destruct (rkind c);
      try (destruct (obs_is_err o); discriminate);
      (destruct (count_limit <? spec_count c); [discriminate|]);
      (destruct (binding c); cbn [negb] in H; [|destruct (obs_is_pred c o); discriminate]);
      (destruct (result_ok c o) as [t|]; [split; [reflexivity|exists t; reflexivity]|]);
      destruct (kf_class c); try destruct (obs_is_pred c o); discriminate. }
  destruct G as [B [t R]]. split; [exact B|]. eapply result_ok_sound. exact R.
Qed.

(* ---------- the modelled implementation agrees with the specification outside the finding classes ---------- *)
Lemma fill_int_ok lo hi s : forall (n : nat) a, lo <= a <= hi -> lo <= a + Z.of_nat n * s <= hi ->
  fill_int lo hi s n a = Some (map (zterm a s) (seq 0 n)).
Proof.
  induction n as [|n IH]; intros a Ha Hn; [reflexivity|].
  cbn [fill_int]. rewrite Nat2Z.inj_succ in Hn.
  assert (Hs : lo <= a + s <= hi) by nia.
  unfold chk, inb.
  replace (lo <=? a + s) with true by (symmetry; apply Z.leb_le; lia).
  replace (a + s <=? hi) with true by (symmetry; apply Z.leb_le; lia).
  cbn [andb]. rewrite IH; [|exact Hs|split; nia].
  cbn [option_map]. rewrite map_zterm_succ. reflexivity.
Qed.

Lemma zcount_unit incl a b : zcount incl a 1 b = if incl then Z.max 0 (b - a + 1) else Z.max 0 (b - a).
Proof.
  unfold zcount, zcount_up. cbn [Z.eqb Z.ltb Z.compare]. destruct incl.
  - destruct (b <? a) eqn:E; [apply Z.ltb_lt in E | apply Z.ltb_ge in E]; [lia|]. rewrite Z.div_1_r. lia.
  - destruct (b <=? a) eqn:E; [apply Z.leb_le in E | apply Z.leb_gt in E]; [lia|]. rewrite Z.div_1_r. lia.
Qed.

Theorem impl_int_holds lo hi incl stepf a s b :
  lo <= 0 -> lo <= a <= hi -> lo <= b <= hi -> (stepf = false -> s = 1) ->
  zcount incl a s b < 2 ^ 64 ->
  kf_desc_int a s b = false ->
  kf_diffov_int hi incl stepf a s b = false ->
  kf_fpsize_int hi incl stepf a s b = false ->
  kf_trail_int lo hi incl stepf a s b = false ->
  impl_int lo hi incl stepf a s b =
    if 0 <? zcount incl a s b then Some (range_spec incl a s b) else None.
Proof.
  intros Hlo Ha Hb Hunit Husz Kd Ko Kf Kt.
  pose proof (zcount_nonneg incl a s b) as Hn.
  unfold kf_trail_int in Kt. rewrite Kd, Ko, Kf in Kt. cbn [negb andb] in Kt.
  unfold kf_fpsize_int in Kf. rewrite Kd, Ko in Kf. cbn [negb] in Kf. rewrite !andb_true_r in Kf.
  unfold kf_diffov_int in Ko. rewrite Kd in Ko. cbn [negb andb] in Ko.
  unfold kf_desc_int in Kd.
  destruct (0 <? zcount incl a s b) eqn:Ec; [apply Z.ltb_lt in Ec | apply Z.ltb_ge in Ec].
  - (* non-empty range *)
    cbn [andb] in Ko, Kt. apply negb_false_iff in Kt. unfold inb in Kt.
    apply andb_prop in Kt as [Kt1 Kt2]. apply Z.leb_le in Kt1, Kt2.
    assert (Hs : s <> 0) by (apply (zcount_pos_step_nonzero incl a s b); exact Ec).
    assert (Hfirst : Before incl s (a + 0 * s) b) by (apply zcount_spec; [exact Hs|lia|exact Ec]).
    assert (Hab : a <= b).
    { destruct Hfirst as [[Hp Hbf]|[Hp Hbf]].
      - destruct incl; lia.
      - replace (s <? 0) with true in Kd by (symmetry; apply Z.ltb_lt; lia). cbn [andb] in Kd.
        apply Z.ltb_ge in Kd. lia. }
    apply orb_false_iff in Ko as [Ko1 Ko2]. apply Z.ltb_ge in Ko1.
    unfold impl_int, chk, inb.
    replace (lo <=? b - a) with true by (symmetry; apply Z.leb_le; lia).
    replace (b - a <=? hi) with true by (symmetry; apply Z.leb_le; lia). cbn [andb].
    destruct stepf.
    + replace (b - a <? 0) with false by (symmetry; apply Z.ltb_ge; lia).
      cbn [andb] in Kf. replace (a <=? b) with true in Kf by (symmetry; apply Z.leb_le; lia).
      cbn [andb] in Kf. apply negb_false_iff in Kf. apply Z.eqb_eq in Kf.
      destruct (int_fp_size incl a s b) as [size|]; cbn [size_or0] in Kf; [|lia].
      assert (size = zcount incl a s b) by lia. subst size.
      replace (zcount incl a s b <=? 0) with false by (symmetry; apply Z.leb_gt; lia).
      unfold range_spec. apply fill_int_ok; [exact Ha|]. rewrite Z2Nat.id by lia. lia.
    + specialize (Hunit eq_refl). subst s. cbn [negb andb] in Ko2.
      rewrite zcount_unit in *.
      destruct incl.
      * apply Z.ltb_ge in Ko2.
        replace (lo <=? b - a + 1) with true by (symmetry; apply Z.leb_le; lia).
        replace (b - a + 1 <=? hi) with true by (symmetry; apply Z.leb_le; lia). cbn [andb].
        replace (b - a + 1 <=? 0) with false by (symmetry; apply Z.leb_gt; lia).
        replace (2 ^ 64 <=? b - a + 1) with false by (symmetry; apply Z.leb_gt; lia).
        unfold range_spec. rewrite zcount_unit. rewrite Z.max_r by lia.
        apply fill_int_ok; [exact Ha|]. rewrite Z2Nat.id by lia. rewrite Z.max_r in Kt1, Kt2 by lia. lia.
      * replace (b - a <=? 0) with false by (symmetry; apply Z.leb_gt; lia).
        replace (2 ^ 64 <=? b - a) with false by (symmetry; apply Z.leb_gt; lia).
        unfold range_spec. rewrite zcount_unit. rewrite Z.max_r by lia.
        apply fill_int_ok; [exact Ha|]. rewrite Z2Nat.id by lia. rewrite Z.max_r in Kt1, Kt2 by lia. lia.
  - (* no terms: the model reports an error *)
    assert (E0 : zcount incl a s b = 0) by lia.
    unfold impl_int, chk.
    destruct (inb lo hi (b - a)); [|reflexivity].
    destruct stepf.
    + destruct (b - a <? 0) eqn:Ed; [reflexivity|]. apply Z.ltb_ge in Ed.
      cbn [andb] in Kf. replace (a <=? b) with true in Kf by (symmetry; apply Z.leb_le; lia).
      cbn [andb] in Kf. apply negb_false_iff in Kf. apply Z.eqb_eq in Kf. rewrite E0 in Kf.
      destruct (int_fp_size incl a s b) as [size|]; [|reflexivity]. cbn [size_or0] in Kf.
      replace (size <=? 0) with true by (symmetry; apply Z.leb_le; lia). reflexivity.
    + specialize (Hunit eq_refl). subst s. rewrite zcount_unit in E0.
      destruct incl.
      * destruct (inb lo hi (b - a + 1)); [|reflexivity].
        replace (b - a + 1 <=? 0) with true by (symmetry; apply Z.leb_le; lia). reflexivity.
      * replace (b - a <=? 0) with true by (symmetry; apply Z.leb_le; lia). reflexivity.
Qed.

(* ---------- case level: outside the finding classes the modelled implementation meets the property ---------- *)
Definition int_case (c : rcase) (lo hi : Z) : Prop :=
  rkind c = KInt lo hi /\ lo <= 0 /\
  Qden (ra c) = 1%positive /\ Qden (rs c) = 1%positive /\ Qden (rb c) = 1%positive /\
  lo <= Qnum (ra c) <= hi /\ lo <= Qnum (rb c) <= hi /\ spec_count c < 2 ^ 64.

Lemma qs_eqb_inject l d : d = 1%positive -> qs_eqb (map inject_Z l) (map (fun z => Qmake z d) l) = true.
Proof.
  intros ->. induction l as [|z l IH]; [reflexivity|]. cbn [map qs_eqb]. rewrite IH, andb_true_r.
  apply Qeq_bool_iff. reflexivity.
Qed.

Theorem holds_int c lo hi : int_case c lo hi -> kf_class c = None -> impl_meets_specb c = true.
Proof.
  intros (K & Hlo & Da & Ds & Db & Ha & Hb & Hsz) Hk.
  assert (Dst : Qden (step_of c) = 1%positive) by (unfold step_of; destruct (form_step (rform c)); [exact Ds|reflexivity]).
  assert (EA : scA c = Qnum (ra c)) by (unfold scA; rewrite Dst, Db; cbn; lia).
  assert (ES : scS c = Qnum (step_of c)) by (unfold scS; rewrite Da, Db; cbn; lia).
  assert (EB : scB c = Qnum (rb c)) by (unfold scB; rewrite Da, Dst; cbn; lia).
  assert (ED : scD c = 1%positive) by (unfold scD; rewrite Da, Dst, Db; reflexivity).
  unfold kf_class in Hk. rewrite K in Hk.
  destruct (kf_desc_int _ _ _) eqn:K1; [discriminate|].
  destruct (kf_diffov_int _ _ _ _ _ _) eqn:K2; [discriminate|].
  destruct (kf_fpsize_int _ _ _ _ _ _) eqn:K3; [discriminate|].
  destruct (kf_trail_int _ _ _ _ _ _ _) eqn:K4; [discriminate|]. clear Hk.
  unfold spec_count in Hsz. rewrite EA, ES, EB in Hsz.
  assert (Hunit : form_step (rform c) = false -> Qnum (step_of c) = 1).
  { intros E. unfold step_of. rewrite E. reflexivity. }
  pose proof (impl_int_holds lo hi _ _ _ _ _ Hlo Ha Hb Hunit Hsz K1 K2 K3 K4) as HI.
  unfold impl_meets_specb, impl_case. rewrite K, HI.
  unfold spec_terms. rewrite EA, ES, EB.
  destruct (0 <? _) eqn:Ec; cbn [option_map].
  - apply qs_eqb_inject. exact ED.
  - apply Z.ltb_ge in Ec. unfold range_spec.
    replace (zcount _ _ _ _) with 0 by (pose proof (zcount_nonneg (form_incl (rform c)) (Qnum (ra c)) (Qnum (step_of c)) (Qnum (rb c))); lia).
    reflexivity.
Qed.

(* ---------- witnesses: the modelled (= observed) behaviour violates the property inside each class ---------- *)
Definition refuted (id : String.string) : Prop :=
  exists c, binding c = true /\ kf_class c = Some id /\ spec_terms c <> [] /\ impl_meets_specb c = false.

Section Witnesses.
  Import String.
  Open Scope string_scope.
  Definition zq (z : Z) : Q := inject_Z z.

  (* 250u8..=255u8 : one more `current + 1` after 255 *)
  Lemma refuted_trailing_add : refuted "trailing-add".
  Proof.
    exists (RCase "u8" (KInt 0 255) FIn (zq 250) (zq 1) (zq 255)).
    vm_compute. repeat split; discriminate.
  Qed.

  (* -100<i8>..100<i8> : `to - from` = 200 overflows i8 *)
  Lemma refuted_diff_overflow : refuted "diff-overflow".
  Proof.
    exists (RCase "i8" (KInt (-128) 127) FEx (zq (-100)) (zq 1) (zq 100)).
    vm_compute. repeat split; discriminate.
  Qed.

  (* 10<i8>..-1<i8>..=0<i8> : `to - from < 0` is rejected before the sign of the step is looked at *)
  Lemma refuted_descending : refuted "descending".
  Proof.
    exists (RCase "i8" (KInt (-128) 127) FInS (zq 10) (zq (-1)) (zq 0)).
    vm_compute. repeat split; discriminate.
  Qed.

  (* 0u64..6148914691236516864u64..18446744073709551615u64 : 2^64/s rounds to 3.0 in f64, the fourth term is lost *)
  Lemma refuted_fp_size : refuted "fp-size".
  Proof.
    exists (RCase "u64" (KInt 0 (2 ^ 64 - 1)) FExS (zq 0) (zq 6148914691236516864) (zq (2 ^ 64 - 1))).
    vm_compute. repeat split; discriminate.
  Qed.

  (* 1..2.5 : (2.5 - 1) as usize = 1, the term 2 is lost *)
  Lemma refuted_excl_float_trunc : refuted "excl-float-trunc".
  Proof.
    exists (RCase "f64" (KFlt 52 11) FEx (zq 1) (zq 1) (Qmake 5 2)).
    vm_compute. repeat split; discriminate.
  Qed.

  (* 1/2..=7/2 : no r64 arm in the range kernels *)
  Lemma refuted_r64_unsupported : refuted "r64-unsupported".
  Proof.
    exists (RCase "r64" KRat FIn (Qmake 1 2) (zq 1) (Qmake 7 2)).
    vm_compute. repeat split; discriminate.
  Qed.
End Witnesses.
