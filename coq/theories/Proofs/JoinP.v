(* C18 — lemmas and theorems about Model/Join.v *)
From Coq Require Import List Arith ZArith String Bool Permutation Lia.
From MechV Require Import Base.Sexp Base.Obs Model.Join Proofs.SexpP.
Import ListNotations.
Open Scope list_scope.

(* ------------------------------------------------------------------ *)
(* generic list facts *)
Lemma filter_partition_perm {A} (f : A -> bool) (l : list A) :
  Permutation (filter f l ++ filter (fun x => negb (f x)) l) l.
Proof.
  induction l as [|x l IH]; cbn; [constructor|].
  destruct (f x); cbn.
  - constructor. exact IH.
  - eapply Permutation_trans; [apply Permutation_sym, Permutation_middle|]. constructor. exact IH.
Qed.

Lemma is_nil_filter {A} (f : A -> bool) (l : list A) : is_nil (filter f l) = negb (existsb f l).
Proof.
  induction l as [|x l IH]; cbn; [reflexivity|].
  destruct (f x); cbn; [reflexivity|exact IH].
Qed.

Lemma map_filter_flat_map {A B} (f : A -> bool) (g : A -> B) (l : list A) :
  map g (filter f l) = flat_map (fun b => if f b then [g b] else []) l.
Proof.
  induction l as [|x l IH]; cbn; [reflexivity|].
  destruct (f x); cbn; rewrite IH; reflexivity.
Qed.

Lemma orb_zip_false_l {A} (g : A -> bool) (r : list A) :
  orb_zip (map (fun _ => false) r) (map g r) = map g r.
Proof. induction r as [|x r IH]; cbn; [reflexivity|]. rewrite IH. reflexivity. Qed.

Lemma orb_zip_map_r {A} (fl : list bool) (g h : A -> bool) (r : list A) :
  orb_zip (orb_zip fl (map g r)) (map h r) = orb_zip fl (map (fun b => orb (g b) (h b)) r).
Proof.
  revert fl. induction r as [|x r IH]; intros [|f fl]; cbn; try reflexivity.
  rewrite IH, orb_assoc. reflexivity.
Qed.

Lemma orb_zip_false_r {A} (fl : list bool) (r : list A) :
  List.length fl = List.length r -> orb_zip fl (map (fun _ => false) r) = fl.
Proof.
  revert fl. induction r as [|x r IH]; intros [|f fl] H; cbn in *; try reflexivity; try discriminate.
  rewrite IH by lia. rewrite orb_false_r. reflexivity.
Qed.

Lemma unflagged_map {A} (g : A -> bool) (r : list A) :
  map snd (filter (fun p : bool * A => negb (fst p)) (combine (map g r) r)) = filter (fun b => negb (g b)) r.
Proof.
  induction r as [|x r IH]; cbn; [reflexivity|].
  destruct (g x); cbn; rewrite IH; reflexivity.
Qed.

Lemma filter_all {A} (f : A -> bool) (l : list A) : (forall x, In x l -> f x = true) -> filter f l = l.
Proof.
  induction l as [|x l IH]; intros H; cbn; [reflexivity|].
  rewrite (H x) by (left; reflexivity). f_equal. apply IH. intros y Hy. apply H. right. exact Hy.
Qed.

Lemma perm_filter {A} (f : A -> bool) (l l' : list A) :
  Permutation l l' -> Permutation (filter f l) (filter f l').
Proof.
  induction 1 as [|x l l' H IH|x y l|l l' l'' H1 IH1 H2 IH2]; cbn.
  - constructor.
  - destruct (f x); [constructor|]; exact IH.
  - destruct (f x), (f y); try apply Permutation_refl. apply perm_swap.
  - eapply Permutation_trans; eassumption.
Qed.

Lemma filter_map_comm {A B} (f : B -> bool) (g : A -> B) (l : list A) :
  filter f (map g l) = map g (filter (fun x => f (g x)) l).
Proof.
  induction l as [|x l IH]; cbn; [reflexivity|]. destruct (f (g x)); cbn; rewrite IH; reflexivity.
Qed.

Lemma existsb_ext_in {A} (f g : A -> bool) (l : list A) :
  (forall x, In x l -> f x = g x) -> existsb f l = existsb g l.
Proof.
  induction l as [|x l IH]; intros H; cbn; [reflexivity|].
  rewrite (H x) by (left; reflexivity). f_equal. apply IH. intros y Hy. apply H. right. exact Hy.
Qed.

Lemma forallb_same_set {A} (f : A -> bool) (l1 l2 : list A) :
  (forall x, In x l1 <-> In x l2) -> forallb f l1 = forallb f l2.
Proof.
  intros H. destruct (forallb f l1) eqn:E1, (forallb f l2) eqn:E2; try reflexivity; exfalso.
  - rewrite forallb_forall in E1.
    assert (forallb f l2 = true) by (apply forallb_forall; intros x Hx; apply E1, H, Hx). congruence.
  - rewrite forallb_forall in E2.
    assert (forallb f l1 = true) by (apply forallb_forall; intros x Hx; apply E2, H, Hx). congruence.
Qed.

Lemma forallb_ext_all {A} (f g : A -> bool) (l : list A) : (forall x, f x = g x) -> forallb f l = forallb g l.
Proof. intros H. induction l as [|x l IH]; cbn; [reflexivity|]. rewrite H, IH. reflexivity. Qed.

Lemma list_prod_nil_r {A B} (l : list A) : list_prod l (@nil B) = [].
Proof. induction l as [|x l IH]; cbn; [reflexivity|exact IH]. Qed.

Lemma list_prod_cons_r {A B} (r : list B) (a : A) (l : list A) :
  Permutation (list_prod r (a :: l)) (map (fun b => (b, a)) r ++ list_prod r l).
Proof.
  induction r as [|b r IH]; cbn; [constructor|].
  constructor. eapply Permutation_trans; [apply Permutation_app_head; exact IH|].
  apply Permutation_app_swap_app.
Qed.

Lemma list_prod_swap {A B} (l : list A) (r : list B) :
  Permutation (list_prod r l) (map (fun p => (snd p, fst p)) (list_prod l r)).
Proof.
  induction l as [|a l IH]; cbn.
  - rewrite list_prod_nil_r. constructor.
  - rewrite map_app, map_map. cbn [fst snd].
    eapply Permutation_trans; [apply list_prod_cons_r|]. apply Permutation_app_head. exact IH.
Qed.

Lemma app_inv_length {A} (a a' x y : list A) :
  List.length a = List.length a' -> a ++ x = a' ++ y -> a = a' /\ x = y.
Proof.
  revert a'. induction a as [|u a IH]; intros [|u' a'] Hl H; cbn in *; try discriminate; [auto|].
  injection H as -> H. destruct (IH a' ltac:(lia) H) as [-> ->]. auto.
Qed.

Lemma nodup_app {A} (l1 l2 : list A) :
  NoDup l1 -> NoDup l2 -> (forall x, In x l1 -> ~ In x l2) -> NoDup (l1 ++ l2).
Proof.
  intros H1 H2 H. induction H1 as [|x l1 Hx H1 IH]; cbn; [exact H2|].
  constructor.
  - rewrite in_app_iff. intros [Hi|Hi]; [contradiction|]. apply (H x); [left; reflexivity|exact Hi].
  - apply IH. intros y Hy. apply H. right. exact Hy.
Qed.

(* ------------------------------------------------------------------ *)
(* column names and kinds *)
Lemma mem_str_In n l : mem_str n l = true <-> In n l.
Proof.
  unfold mem_str. rewrite existsb_exists. split.
  - intros [x [Hx E]]. apply String.eqb_eq in E. subst. exact Hx.
  - intros H. exists n. split; [exact H|apply String.eqb_refl].
Qed.

Lemma mem_str_cons n c l : mem_str n (c :: l) = orb (String.eqb n c) (mem_str n l).
Proof. reflexivity. Qed.

(* ---------- F. the columns of the result ---------- *)
Lemma names_opt_cols (f : col -> bool) cs : names (map (fun c => opt_col (f c) c) cs) = names cs.
Proof.
  unfold names. rewrite map_map. apply map_ext. intros c. unfold opt_col. destruct (f c); reflexivity.
Qed.

Definition keeps_right (m : jmode) : bool := match m with LeftSemi | LeftAnti => false | _ => true end.

Lemma names_join_cols m lc rc :
  keeps_right m = true -> names (join_cols m lc rc) = names lc ++ names (rest_cols lc rc).
Proof.
  intros Hm. unfold join_cols.
  assert (H : names (map (fun c => opt_col (andb (negb (mem_str (fst c) (names rc))) (pads_left m)) c) lc
                    ++ map (opt_col (pads_right m)) (rest_cols lc rc))
              = names lc ++ names (rest_cols lc rc)).
  { unfold names at 1. rewrite map_app. f_equal.
    - apply (names_opt_cols (fun c => andb (negb (mem_str (fst c) (names rc))) (pads_left m))).
    - apply (names_opt_cols (fun _ => pads_right m)). }
  destruct m; try discriminate; exact H.
Qed.

Lemma in_names_rest_cols lc rc n :
  In n (names (rest_cols lc rc)) <-> In n (names rc) /\ ~ In n (names lc).
Proof.
  unfold rest_cols. split.
  - intros H. apply in_map_iff in H as [c [E Hc]]. apply filter_In in Hc as [Hc Hn]. subst n. split.
    + apply in_map. exact Hc.
    + apply negb_true_iff in Hn. intros Hin. apply mem_str_In in Hin. congruence.
  - intros [H Hn]. apply in_map_iff in H as [c [E Hc]]. apply in_map_iff. exists c. split; [exact E|].
    apply filter_In. split; [exact Hc|]. apply negb_true_iff.
    destruct (mem_str (fst c) (names lc)) eqn:Em; [|reflexivity].
    apply mem_str_In in Em. subst n. contradiction.
Qed.

(* the result has the union of the columns ... *)
Theorem columns_are_union m lc rc n :
  keeps_right m = true ->
  (In n (names (join_cols m lc rc)) <-> In n (names lc) \/ In n (names rc)).
Proof.
  intros Hm. rewrite names_join_cols by exact Hm. rewrite in_app_iff, in_names_rest_cols.
  destruct (in_dec string_dec n (names lc)); tauto.
Qed.

(* ... every name once ... *)
Theorem columns_nodup m lc rc :
  NoDup (names lc) -> NoDup (names rc) -> NoDup (names (join_cols m lc rc)).
Proof.
  intros Hl Hr. destruct (keeps_right m) eqn:Hm.
  - rewrite names_join_cols by exact Hm.
    assert (Hrest : NoDup (names (rest_cols lc rc))).
    { unfold rest_cols. clear Hl. induction rc as [|c rc IH]; cbn; [constructor|].
      inversion Hr as [|? ? Hn Hr']; subst.
      destruct (negb (mem_str (fst c) (names lc))); cbn; [|apply IH; exact Hr'].
      constructor; [|apply IH; exact Hr'].
      intros Hin. apply Hn. apply in_map_iff in Hin as [c' [E Hc']]. apply filter_In in Hc' as [Hc' _].
      apply in_map_iff. eauto. }
    apply nodup_app; [exact Hl|exact Hrest|].
    intros x Hx H. apply in_names_rest_cols in H as [_ H]. contradiction.
  - destruct m; try discriminate; exact Hl.
Qed.

(* ... semi and anti join keep exactly the left table's columns ... *)
Theorem columns_semi_anti m lc rc : keeps_right m = false -> join_cols m lc rc = lc.
Proof. destruct m; try discriminate; reflexivity. Qed.

(* ... and the kinds: optional exactly on the side the operator may have to pad *)
Theorem columns_kinds m lc rc n k :
  keeps_right m = true ->
  (In (n, k) (join_cols m lc rc) <->
     (exists k0, In (n, k0) lc /\
                 k = if andb (negb (mem_str n (names rc))) (pads_left m) then make_optional k0 else k0)
     \/ (exists k0, In (n, k0) rc /\ mem_str n (names lc) = false /\
                    k = if pads_right m then make_optional k0 else k0)).
Proof.
  intros Hm.
  assert (H : In (n, k) (map (fun c => opt_col (andb (negb (mem_str (fst c) (names rc))) (pads_left m)) c) lc
                          ++ map (opt_col (pads_right m)) (rest_cols lc rc)) <->
     (exists k0, In (n, k0) lc /\
                 k = if andb (negb (mem_str n (names rc))) (pads_left m) then make_optional k0 else k0)
     \/ (exists k0, In (n, k0) rc /\ mem_str n (names lc) = false /\
                    k = if pads_right m then make_optional k0 else k0)).
  { rewrite in_app_iff, !in_map_iff. unfold opt_col, rest_cols. split.
    - intros [[[n0 k0] [E Hc]]|[[n0 k0] [E Hc]]]; cbn [fst snd] in E.
      + left. exists k0.
        destruct (andb (negb (mem_str n0 (names rc))) (pads_left m)) eqn:Ef; cbn [fst snd] in E;
          injection E as <- <-; rewrite Ef; auto.
      + right. apply filter_In in Hc as [Hc Hn]. cbn [fst] in Hn. apply negb_true_iff in Hn. exists k0.
        destruct (pads_right m); cbn [fst snd] in E; injection E as <- <-; auto.
    - intros [[k0 [Hc Hk]]|[k0 [Hc [Hn Hk]]]].
      + left. exists (n, k0). split; [|exact Hc]. cbn [fst snd].
        destruct (andb (negb (mem_str n (names rc))) (pads_left m)); cbn [fst snd]; congruence.
      + right. exists (n, k0). split.
        * destruct (pads_right m); cbn [fst snd]; congruence.
        * apply filter_In. split; [exact Hc|]. cbn [fst]. rewrite Hn. reflexivity. }
  destruct m; try discriminate; exact H.
Qed.

(* ------------------------------------------------------------------ *)
Section RowsP.
  Context {V : Type} (veqb : V -> V -> bool) (vempty : V).
  Notation row := (list V).
  Notation agree := (agree veqb).
  Notation emit := (emit veqb vempty).

  (* ---------- A. the nested loop with flags is the functional form ---------- *)
  Lemma join_loop_fst m lc rc (l r : list row) fl :
    fst (join_loop veqb vempty m lc rc l r fl)
    = flat_map (fun a => Join.emit vempty m lc rc a (filter (agree lc rc a) r)) l.
  Proof.
    revert fl. induction l as [|a l IH]; intros fl; cbn; [reflexivity|].
    specialize (IH (orb_zip fl (map (agree lc rc a) r))).
    destruct (join_loop veqb vempty m lc rc l r (orb_zip fl (map (agree lc rc a) r))) as [out fl'].
    cbn in *. rewrite IH. reflexivity.
  Qed.

  Lemma join_loop_snd m lc rc (l r : list row) fl :
    List.length fl = List.length r ->
    snd (join_loop veqb vempty m lc rc l r fl)
    = orb_zip fl (map (fun b => existsb (fun a => agree lc rc a b) l) r).
  Proof.
    revert fl. induction l as [|a l IH]; intros fl Hlen; cbn.
    - symmetry. apply orb_zip_false_r. exact Hlen.
    - specialize (IH (orb_zip fl (map (agree lc rc a) r))).
      destruct (join_loop veqb vempty m lc rc l r (orb_zip fl (map (agree lc rc a) r))) as [out fl'].
      cbn in *. rewrite IH.
      + apply orb_zip_map_r.
      + clear IH. revert fl Hlen. induction r as [|x r IHr]; intros [|f fl] Hlen; cbn in *; try reflexivity; try discriminate.
        f_equal. apply IHr. lia.
  Qed.

  (* build_joined_table's rows without the loop state *)
  Definition join_fun (m : jmode) lc rc (l r : list row) : list row :=
    flat_map (fun a => Join.emit vempty m lc rc a (filter (agree lc rc a) r)) l
    ++ (if pads_left m then map (pad_left vempty lc rc) (unmatched_right veqb lc rc l r) else []).

  Theorem join_rows_fun m lc rc (l r : list row) :
    join_rows veqb vempty m lc rc l r = join_fun m lc rc l r.
  Proof.
    unfold join_rows, join_fun.
    pose proof (join_loop_fst m lc rc l r (map (fun _ => false) r)) as H1.
    pose proof (join_loop_snd m lc rc l r (map (fun _ => false) r)) as H2.
    destruct (join_loop veqb vempty m lc rc l r (map (fun _ => false) r)) as [out fl].
    cbn in H1, H2. rewrite H1. f_equal.
    destruct (pads_left m); [|reflexivity].
    rewrite H2 by (rewrite map_length; reflexivity).
    rewrite orb_zip_false_l. unfold unflagged, unmatched_right.
    rewrite unflagged_map. reflexivity.
  Qed.

  (* ---------- B. functional form vs the comprehension specification ---------- *)
  Lemma emit_inner_flat lc rc (l r : list row) :
    flat_map (fun a => map (merge lc rc a) (filter (agree lc rc a) r)) l = inner_rows veqb lc rc l r.
  Proof.
    unfold inner_rows. induction l as [|a l IH]; cbn; [reflexivity|].
    rewrite IH, map_filter_flat_map. reflexivity.
  Qed.

  Lemma emit_left_perm lc rc (l r : list row) :
    Permutation
      (flat_map (fun a => let ms := filter (agree lc rc a) r in
                          if is_nil ms then [pad_right vempty lc rc a] else map (merge lc rc a) ms) l)
      (inner_rows veqb lc rc l r ++ map (pad_right vempty lc rc) (anti_rows veqb lc rc l r)).
  Proof.
    unfold inner_rows, anti_rows. induction l as [|a l IH]; cbn; [constructor|].
    rewrite is_nil_filter. rewrite <- map_filter_flat_map.
    destruct (existsb (agree lc rc a) r) eqn:E; cbn.
    - rewrite <- app_assoc. apply Permutation_app_head. exact IH.
    - assert (Hnil : filter (agree lc rc a) r = []).
      { pose proof (is_nil_filter (agree lc rc a) r) as Hn. rewrite E in Hn. cbn in Hn.
        destruct (filter (agree lc rc a) r); [reflexivity|discriminate]. }
      rewrite Hnil. cbn. apply Permutation_cons_app. exact IH.
  Qed.

  Lemma emit_semi lc rc (l r : list row) :
    flat_map (fun a => if is_nil (filter (agree lc rc a) r) then [] else [a]) l = semi_rows veqb lc rc l r.
  Proof.
    unfold semi_rows. induction l as [|a l IH]; cbn; [reflexivity|].
    rewrite is_nil_filter. destruct (existsb (agree lc rc a) r); cbn; rewrite IH; reflexivity.
  Qed.

  Lemma emit_anti lc rc (l r : list row) :
    flat_map (fun a => if is_nil (filter (agree lc rc a) r) then [a] else []) l = anti_rows veqb lc rc l r.
  Proof.
    unfold anti_rows. induction l as [|a l IH]; cbn; [reflexivity|].
    rewrite is_nil_filter. destruct (existsb (agree lc rc a) r); cbn; rewrite IH; reflexivity.
  Qed.

  (* the model of the code returns the specified rows, as a multiset *)
  Theorem join_rows_perm_spec m lc rc (l r : list row) :
    Permutation (join_rows veqb vempty m lc rc l r) (spec_rows veqb vempty m lc rc l r).
  Proof.
    rewrite join_rows_fun. unfold join_fun, spec_rows.
    destruct m; cbn [pads_left Join.emit].
    - rewrite emit_inner_flat, app_nil_r. apply Permutation_refl.
    - rewrite app_nil_r. apply emit_left_perm.
    - rewrite emit_inner_flat. apply Permutation_refl.
    - rewrite app_assoc. apply Permutation_app_tail. apply emit_left_perm.
    - rewrite emit_semi, app_nil_r. apply Permutation_refl.
    - rewrite emit_anti, app_nil_r. apply Permutation_refl.
  Qed.

  (* ... and for the operators that keep no unmatched left rows even in the same order *)
  Theorem join_rows_eq_spec m lc rc (l r : list row) :
    pads_right m = false ->
    join_rows veqb vempty m lc rc l r = spec_rows veqb vempty m lc rc l r.
  Proof.
    intros Hm. rewrite join_rows_fun. unfold join_fun, spec_rows.
    destruct m; cbn [pads_left Join.emit] in *; try discriminate.
    - rewrite emit_inner_flat, app_nil_r. reflexivity.
    - rewrite emit_inner_flat. reflexivity.
    - rewrite emit_semi, app_nil_r. reflexivity.
    - rewrite emit_anti, app_nil_r. reflexivity.
  Qed.

  (* ---------- C. every matching pair exactly once ---------- *)
  Lemma filter_map_pair {A B} (f : A * B -> bool) (a : A) (r : list B) :
    filter f (map (pair a) r) = map (pair a) (filter (fun b => f (a, b)) r).
  Proof.
    induction r as [|b r IH]; cbn; [reflexivity|].
    destruct (f (a, b)); cbn; rewrite IH; reflexivity.
  Qed.

  Theorem inner_rows_pairs lc rc (l r : list row) :
    inner_rows veqb lc rc l r
    = map (fun p => merge lc rc (fst p) (snd p))
          (filter (fun p => agree lc rc (fst p) (snd p)) (list_prod l r)).
  Proof.
    unfold inner_rows. induction l as [|a l IH]; cbn; [reflexivity|].
    rewrite filter_app, map_app, <- IH. f_equal.
    rewrite filter_map_pair, map_map. cbn. rewrite <- map_filter_flat_map. reflexivity.
  Qed.

  Definition count {A} (e : A -> bool) (l : list A) : nat := List.length (filter e l).

  Lemma count_prod {A B} (ea : A -> bool) (eb : B -> bool) (l : list A) (r : list B) :
    count (fun p => andb (ea (fst p)) (eb (snd p))) (list_prod l r) = count ea l * count eb r.
  Proof.
    unfold count. induction l as [|a l IH]; cbn; [reflexivity|].
    rewrite filter_app, app_length, IH, filter_map_pair, map_length. cbn.
    destruct (ea a); cbn; [reflexivity|].
    assert (H0 : filter (fun _ : B => false) r = []) by (clear; induction r; cbn; auto).
    rewrite H0. reflexivity.
  Qed.

  Lemma count_ext_in {A} (e e' : A -> bool) (l : list A) :
    (forall x, In x l -> e x = e' x) -> count e l = count e' l.
  Proof.
    unfold count. intros H. f_equal. apply filter_ext_in. exact H.
  Qed.

  Lemma count_map_filter {A B} (e : B -> bool) (g : A -> bool) (f : A -> B) (l : list A) :
    count e (map f (filter g l)) = count (fun x => andb (g x) (e (f x))) l.
  Proof.
    unfold count. induction l as [|x l IH]; cbn; [reflexivity|].
    destruct (g x); cbn; [destruct (e (f x)); cbn; rewrite IH; reflexivity | exact IH].
  Qed.

  (* counting form: if only the pair (a,b) produces the row merge a b, that row occurs
     (number of copies of a in l) * (number of copies of b in r) times.  [is x] is any
     decision of equality with x. *)
  Theorem inner_count lc rc (l r : list row) (a b : row)
      (is_a is_b is_ab : row -> bool) :
    (forall x, is_a x = true <-> x = a) ->
    (forall x, is_b x = true <-> x = b) ->
    (forall x, is_ab x = true <-> x = merge lc rc a b) ->
    agree lc rc a b = true ->
    (forall a' b', In a' l -> In b' r -> agree lc rc a' b' = true ->
                   merge lc rc a' b' = merge lc rc a b -> a' = a /\ b' = b) ->
    count is_ab (inner_rows veqb lc rc l r) = count is_a l * count is_b r.
  Proof.
    intros Ha Hb Hab Hagree Hinj.
    rewrite inner_rows_pairs, count_map_filter, <- count_prod.
    apply count_ext_in. intros [a' b'] Hin. cbn [fst snd].
    apply in_prod_iff in Hin as [Hl Hr].
    destruct (agree lc rc a' b') eqn:Eg; cbn [andb].
    - destruct (is_ab (merge lc rc a' b')) eqn:E.
      + apply Hab in E. destruct (Hinj a' b' Hl Hr Eg E) as [-> ->].
        symmetry. apply andb_true_intro. split; [apply Ha|apply Hb]; reflexivity.
      + symmetry. apply andb_false_iff.
        destruct (is_a a') eqn:E1; [|left; reflexivity]. right.
        destruct (is_b b') eqn:E2; [|reflexivity].
        apply Ha in E1. apply Hb in E2. subst.
        assert (is_ab (merge lc rc a b) = true) by (apply Hab; reflexivity). congruence.
    - symmetry. apply andb_false_iff.
      destruct (is_a a') eqn:E1; [|left; reflexivity]. right.
      destruct (is_b b') eqn:E2; [|reflexivity].
      apply Ha in E1. apply Hb in E2. subst. congruence.
  Qed.

  (* membership: which rows the specification contains *)
  Lemma in_inner_rows lc rc (l r : list row) x :
    In x (inner_rows veqb lc rc l r) <->
    exists a b, In a l /\ In b r /\ agree lc rc a b = true /\ x = merge lc rc a b.
  Proof.
    unfold inner_rows. rewrite in_flat_map. split.
    - intros [a [Ha Hx]]. apply in_flat_map in Hx as [b [Hb Hx]].
      destruct (agree lc rc a b) eqn:E; [|contradiction].
      destruct Hx as [Hx|[]]. exists a, b. auto.
    - intros [a [b [Ha [Hb [E Hx]]]]]. exists a. split; [exact Ha|].
      apply in_flat_map. exists b. split; [exact Hb|]. rewrite E. left. auto.
  Qed.

  Lemma existsb_false_iff {A} (f : A -> bool) (l : list A) :
    existsb f l = false <-> forall x, In x l -> f x = false.
  Proof.
    split.
    - intros H x Hx. destruct (f x) eqn:E; [|reflexivity].
      assert (existsb f l = true) by (apply existsb_exists; eauto). congruence.
    - intros H. destruct (existsb f l) eqn:E; [|reflexivity].
      apply existsb_exists in E as [x [Hx Hf]]. rewrite H in Hf by exact Hx. discriminate.
  Qed.

  Lemma in_anti_rows lc rc (l r : list row) a :
    In a (anti_rows veqb lc rc l r) <-> In a l /\ forall b, In b r -> agree lc rc a b = false.
  Proof.
    unfold anti_rows. rewrite filter_In, negb_true_iff, existsb_false_iff. reflexivity.
  Qed.

  Lemma in_semi_rows lc rc (l r : list row) a :
    In a (semi_rows veqb lc rc l r) <-> In a l /\ exists b, In b r /\ agree lc rc a b = true.
  Proof.
    unfold semi_rows. rewrite filter_In, existsb_exists. reflexivity.
  Qed.

  Lemma in_unmatched_right lc rc (l r : list row) b :
    In b (unmatched_right veqb lc rc l r) <-> In b r /\ forall a, In a l -> agree lc rc a b = false.
  Proof.
    unfold unmatched_right. rewrite filter_In, negb_true_iff, existsb_false_iff. reflexivity.
  Qed.

  (* where a row of an outer join comes from *)
  Definition matched_row lc rc l r x : Prop :=
    exists a b, In a l /\ In b r /\ agree lc rc a b = true /\ x = merge lc rc a b.
  Definition left_only_row lc rc l r x : Prop :=
    exists a, In a l /\ (forall b, In b r -> agree lc rc a b = false) /\ x = pad_right vempty lc rc a.
  Definition right_only_row lc rc l r x : Prop :=
    exists b, In b r /\ (forall a, In a l -> agree lc rc a b = false) /\ x = pad_left vempty lc rc b.

  (* soundness and completeness of the row set of every operator *)
  Theorem in_spec_rows_outer m lc rc (l r : list row) x :
    m <> LeftSemi -> m <> LeftAnti ->
    (In x (spec_rows veqb vempty m lc rc l r) <->
       matched_row lc rc l r x
       \/ (pads_right m = true /\ left_only_row lc rc l r x)
       \/ (pads_left m = true /\ right_only_row lc rc l r x)).
  Proof.
    intros Hs Ha. unfold matched_row, left_only_row, right_only_row.
    assert (HL : In x (map (pad_right vempty lc rc) (anti_rows veqb lc rc l r)) <->
                 exists a, In a l /\ (forall b, In b r -> agree lc rc a b = false) /\ x = pad_right vempty lc rc a).
    { rewrite in_map_iff. split.
      - intros [a [Hx Hin]]. apply in_anti_rows in Hin as [H1 H2]. exists a. auto.
      - intros [a [H1 [H2 Hx]]]. exists a. split; [auto|]. apply in_anti_rows. auto. }
    assert (HR : In x (map (pad_left vempty lc rc) (unmatched_right veqb lc rc l r)) <->
                 exists b, In b r /\ (forall a, In a l -> agree lc rc a b = false) /\ x = pad_left vempty lc rc b).
    { rewrite in_map_iff. split.
      - intros [b [Hx Hin]]. apply in_unmatched_right in Hin as [H1 H2]. exists b. auto.
      - intros [b [H1 [H2 Hx]]]. exists b. split; [auto|]. apply in_unmatched_right. auto. }
    destruct m; try congruence; cbn [spec_rows pads_left pads_right];
      repeat rewrite in_app_iff; rewrite in_inner_rows; try rewrite HL; try rewrite HR; intuition congruence.
  Qed.

  (* ---------- lookup of a named cell ---------- *)
  Notation lookup := (@lookup V).

  Lemma lookup_names_ext cs cs' (r : row) n : names cs = names cs' -> lookup cs r n = lookup cs' r n.
  Proof.
    revert cs' r. induction cs as [|c cs IH]; intros [|c' cs'] r H; cbn in H; try discriminate; [reflexivity|].
    injection H as H1 H2. destruct r as [|v r]; cbn; [reflexivity|].
    rewrite H1. destruct (String.eqb (fst c') n); [reflexivity|]. apply IH. exact H2.
  Qed.

  Lemma lookup_in cs (r : row) n v : lookup cs r n = Some v -> In v r.
  Proof.
    revert r. induction cs as [|c cs IH]; intros [|x r] H; cbn in H; try discriminate.
    destruct (String.eqb (fst c) n); [injection H as ->; left; reflexivity|right; apply IH; exact H].
  Qed.

  Lemma lookup_none cs (r : row) n : mem_str n (names cs) = false -> lookup cs r n = None.
  Proof.
    revert r. induction cs as [|c cs IH]; intros [|x r] H; cbn in *; try reflexivity.
    apply orb_false_iff in H as [H1 H2]. rewrite String.eqb_sym, H1. apply IH. exact H2.
  Qed.

  Lemma lookup_some cs (r : row) n :
    List.length r = List.length cs -> mem_str n (names cs) = true -> exists v, lookup cs r n = Some v.
  Proof.
    revert r. induction cs as [|c cs IH]; intros [|x r] Hl H; cbn in *; try discriminate.
    rewrite String.eqb_sym. destruct (String.eqb n (fst c)); [eauto|]. apply IH; [lia|exact H].
  Qed.

  Lemma lookup_app cs1 cs2 (r1 r2 : row) n :
    List.length r1 = List.length cs1 ->
    lookup (cs1 ++ cs2) (r1 ++ r2) n = if mem_str n (names cs1) then lookup cs1 r1 n else lookup cs2 r2 n.
  Proof.
    revert r1. induction cs1 as [|c cs1 IH]; intros [|x r1] Hl; cbn in *; try discriminate; [reflexivity|].
    rewrite (String.eqb_sym n). destruct (String.eqb (fst c) n); [reflexivity|]. apply IH. lia.
  Qed.

  Lemma lookup_map_names cs (g : string -> V) n :
    lookup cs (map (fun c => g (fst c)) cs) n = if mem_str n (names cs) then Some (g n) else None.
  Proof.
    induction cs as [|c cs IH]; cbn; [reflexivity|].
    rewrite (String.eqb_sym n). destruct (String.eqb (fst c) n) eqn:E; cbn; [|exact IH].
    apply String.eqb_eq in E. subst. reflexivity.
  Qed.

  Lemma lookup_nil cs n : lookup cs [] n = None.
  Proof. destruct cs; reflexivity. Qed.

  Lemma lookup_rest lc rc (b : row) n :
    lookup (rest_cols lc rc) (rest lc rc b) n = if mem_str n (names lc) then None else lookup rc b n.
  Proof.
    revert b. induction rc as [|c rc IH]; intros b; cbn.
    - destruct (mem_str n (names lc)); reflexivity.
    - destruct b as [|v b].
      + cbn [rest]. rewrite lookup_nil. destruct (mem_str n (names lc)); reflexivity.
      + cbn. destruct (mem_str (fst c) (names lc)) eqn:Ec; cbn.
        * rewrite IH. destruct (mem_str n (names lc)) eqn:En; [reflexivity|].
          destruct (String.eqb (fst c) n) eqn:E; [|reflexivity].
          apply String.eqb_eq in E. subst. congruence.
        * rewrite IH. destruct (String.eqb (fst c) n) eqn:E.
          -- apply String.eqb_eq in E. subst. rewrite Ec. reflexivity.
          -- reflexivity.
  Qed.

  Lemma rest_length lc rc (b : row) :
    List.length b = List.length rc -> List.length (rest lc rc b) = List.length (rest_cols lc rc).
  Proof.
    revert b. induction rc as [|c rc IH]; intros [|v b] H; cbn in *; try discriminate; [reflexivity|].
    destruct (mem_str (fst c) (names lc)); cbn; rewrite IH by lia; reflexivity.
  Qed.

  Lemma rest_incl lc rc (b : row) v : In v (rest lc rc b) -> In v b.
  Proof.
    revert b. induction rc as [|c rc IH]; intros [|x b] H; cbn in *; try contradiction.
    destruct (mem_str (fst c) (names lc)); [right; apply IH; exact H|].
    destruct H as [H|H]; [left; exact H|right; apply IH; exact H].
  Qed.

  (* ---------- G. optional columns hold the empty value precisely in the unmatched rows ---------- *)
  Definition rows_wf (cs : list col) (rows : list row) : Prop :=
    forall x, In x rows -> List.length x = List.length cs.
  Definition rows_full (rows : list row) : Prop := forall x, In x rows -> ~ In vempty x.
  Definition unwrap (o : option V) : V := match o with Some v => v | None => vempty end.

  Lemma lookup_join_cols m lc rc (x : row) n :
    keeps_right m = true -> lookup (join_cols m lc rc) x n = lookup (lc ++ rest_cols lc rc) x n.
  Proof.
    intros Hm. apply lookup_names_ext. rewrite names_join_cols by exact Hm.
    unfold names. rewrite map_app. reflexivity.
  Qed.

  Lemma lookup_merge lc rc (a b : row) n :
    List.length a = List.length lc ->
    lookup (lc ++ rest_cols lc rc) (merge lc rc a b) n
    = if mem_str n (names lc) then lookup lc a n else lookup rc b n.
  Proof.
    intros Hl. unfold merge. rewrite lookup_app by exact Hl.
    destruct (mem_str n (names lc)) eqn:E; [reflexivity|]. rewrite lookup_rest, E. reflexivity.
  Qed.

  Lemma lookup_pad_right lc rc (a : row) n :
    List.length a = List.length lc ->
    lookup (lc ++ rest_cols lc rc) (pad_right vempty lc rc a) n
    = if mem_str n (names lc) then lookup lc a n
      else if mem_str n (names (rest_cols lc rc)) then Some vempty else None.
  Proof.
    intros Hl. unfold pad_right. rewrite lookup_app by exact Hl.
    destruct (mem_str n (names lc)); [reflexivity|].
    apply (lookup_map_names (rest_cols lc rc) (fun _ => vempty)).
  Qed.

  Lemma lookup_pad_left lc rc (b : row) n :
    lookup (lc ++ rest_cols lc rc) (pad_left vempty lc rc b) n
    = if mem_str n (names lc) then Some (unwrap (lookup rc b n)) else lookup rc b n.
  Proof.
    unfold pad_left. rewrite lookup_app by (rewrite map_length; reflexivity).
    destruct (mem_str n (names lc)) eqn:E.
    - rewrite (lookup_map_names lc (fun n => unwrap (lookup rc b n))), E. reflexivity.
    - rewrite lookup_rest, E. reflexivity.
  Qed.

  Lemma mem_rest_cols lc rc n :
    mem_str n (names lc) = false -> mem_str n (names rc) = true -> mem_str n (names (rest_cols lc rc)) = true.
  Proof.
    intros Hl Hr. apply mem_str_In. apply in_names_rest_cols. split; [apply mem_str_In; exact Hr|].
    intros H. apply mem_str_In in H. congruence.
  Qed.

  (* a column only the right table has (optional under left/full outer join) is empty in a
     result row exactly when that row is an unmatched left row *)
  Theorem right_column_empty_iff m lc rc (l r : list row) n x :
    keeps_right m = true ->
    rows_wf lc l -> rows_full r ->
    mem_str n (names lc) = false -> mem_str n (names rc) = true ->
    In x (spec_rows veqb vempty m lc rc l r) ->
    (lookup (join_cols m lc rc) x n = Some vempty <-> left_only_row lc rc l r x).
  Proof.
    intros Hm Hwl Hfr Hnl Hnr Hin. rewrite lookup_join_cols by exact Hm.
    assert (Hms : m <> LeftSemi) by (intros ->; discriminate).
    assert (Hma : m <> LeftAnti) by (intros ->; discriminate).
    split.
    - intros Hlk. apply (in_spec_rows_outer m lc rc l r x Hms Hma) in Hin.
      destruct Hin as [[a [b [Ha [Hb [Hg Hx]]]]]|[[_ H]|[_ [b [Hb [Hun Hx]]]]]]; [exfalso|exact H|exfalso]; subst x.
      + rewrite lookup_merge, Hnl in Hlk by (apply Hwl; exact Ha).
        apply lookup_in in Hlk. exact (Hfr b Hb Hlk).
      + rewrite lookup_pad_left, Hnl in Hlk. apply lookup_in in Hlk. exact (Hfr b Hb Hlk).
    - intros [a [Ha [_ Hx]]]. subst x.
      rewrite lookup_pad_right, Hnl by (apply Hwl; exact Ha).
      rewrite mem_rest_cols by assumption. reflexivity.
  Qed.

  (* a column only the left table has (optional under right/full outer join) is empty in a
     result row exactly when that row is an unmatched right row *)
  Theorem left_column_empty_iff m lc rc (l r : list row) n x :
    keeps_right m = true ->
    rows_wf lc l -> rows_full l ->
    mem_str n (names lc) = true -> mem_str n (names rc) = false ->
    In x (spec_rows veqb vempty m lc rc l r) ->
    (lookup (join_cols m lc rc) x n = Some vempty <-> right_only_row lc rc l r x).
  Proof.
    intros Hm Hwl Hfl Hnl Hnr Hin. rewrite lookup_join_cols by exact Hm.
    assert (Hms : m <> LeftSemi) by (intros ->; discriminate).
    assert (Hma : m <> LeftAnti) by (intros ->; discriminate).
    split.
    - intros Hlk. apply (in_spec_rows_outer m lc rc l r x Hms Hma) in Hin.
      destruct Hin as [[a [b [Ha [Hb [Hg Hx]]]]]|[[_ [a [Ha [Hun Hx]]]]|[_ H]]]; [exfalso|exfalso|exact H]; subst x.
      + rewrite lookup_merge, Hnl in Hlk by (apply Hwl; exact Ha).
        apply lookup_in in Hlk. exact (Hfl a Ha Hlk).
      + rewrite lookup_pad_right, Hnl in Hlk by (apply Hwl; exact Ha).
        apply lookup_in in Hlk. exact (Hfl a Ha Hlk).
    - intros [b [Hb [_ Hx]]]. subst x.
      rewrite lookup_pad_left, Hnl. rewrite (lookup_none rc b n Hnr). reflexivity.
  Qed.

  (* a shared (key) column is never empty *)
  Theorem shared_column_present m lc rc (l r : list row) n x :
    keeps_right m = true ->
    rows_wf lc l -> rows_wf rc r -> rows_full l -> rows_full r ->
    mem_str n (names lc) = true -> mem_str n (names rc) = true ->
    In x (spec_rows veqb vempty m lc rc l r) ->
    exists v, lookup (join_cols m lc rc) x n = Some v /\ v <> vempty.
  Proof.
    intros Hm Hwl Hwr Hfl Hfr Hnl Hnr Hin. rewrite lookup_join_cols by exact Hm.
    assert (Hms : m <> LeftSemi) by (intros ->; discriminate).
    assert (Hma : m <> LeftAnti) by (intros ->; discriminate).
    apply (in_spec_rows_outer m lc rc l r x Hms Hma) in Hin.
    destruct Hin as [[a [b [Ha [Hb [Hg Hx]]]]]|[[_ [a [Ha [Hun Hx]]]]|[_ [b [Hb [Hun Hx]]]]]]; subst x.
    - rewrite lookup_merge, Hnl by (apply Hwl; exact Ha).
      destruct (lookup_some lc a n (Hwl a Ha) Hnl) as [v Hv]. exists v. split; [exact Hv|].
      intros ->. apply lookup_in in Hv. exact (Hfl a Ha Hv).
    - rewrite lookup_pad_right, Hnl by (apply Hwl; exact Ha).
      destruct (lookup_some lc a n (Hwl a Ha) Hnl) as [v Hv]. exists v. split; [exact Hv|].
      intros ->. apply lookup_in in Hv. exact (Hfl a Ha Hv).
    - rewrite lookup_pad_left, Hnl.
      destruct (lookup_some rc b n (Hwr b Hb) Hnr) as [v Hv]. rewrite Hv. exists v. split; [reflexivity|].
      intros ->. apply lookup_in in Hv. exact (Hfr b Hb Hv).
  Qed.

  (* ---------- H. no shared column: the cross product ---------- *)
  Lemma shared_nil_disjoint lc rc c :
    shared lc rc = [] -> In c rc -> mem_str (fst c) (names lc) = false.
  Proof.
    intros Hs Hc. destruct (mem_str (fst c) (names lc)) eqn:E; [|reflexivity].
    apply mem_str_In in E.
    assert (Hin : In (fst c) (shared lc rc)).
    { unfold shared. apply filter_In. split; [exact E|]. apply mem_str_In. apply in_map. exact Hc. }
    rewrite Hs in Hin. contradiction.
  Qed.

  Lemma rest_disjoint lc rc (b : row) :
    (forall c, In c rc -> mem_str (fst c) (names lc) = false) ->
    List.length b = List.length rc -> rest lc rc b = b.
  Proof.
    revert b. induction rc as [|c rc IH]; intros [|v b] Hd Hl; cbn in *; try discriminate; [reflexivity|].
    rewrite (Hd c) by (left; reflexivity). f_equal. apply IH; [|lia].
    intros c' Hc'. apply Hd. right. exact Hc'.
  Qed.

  Theorem no_shared_column_is_cross_product lc rc (l r : list row) :
    shared lc rc = [] -> rows_wf rc r ->
    inner_rows veqb lc rc l r = map (fun p => fst p ++ snd p) (list_prod l r).
  Proof.
    intros Hs Hwr. rewrite inner_rows_pairs.
    assert (Hf : filter (fun p : row * row => agree lc rc (fst p) (snd p)) (list_prod l r) = list_prod l r).
    { apply filter_all. intros p _. unfold Join.agree. rewrite Hs. reflexivity. }
    rewrite Hf. apply map_ext_in. intros [a b] Hin. apply in_prod_iff in Hin as [_ Hb]. cbn [fst snd].
    unfold merge. f_equal. apply rest_disjoint; [|apply Hwr; exact Hb].
    intros c Hc. apply (shared_nil_disjoint lc rc c Hs Hc).
  Qed.

  (* with no shared column and both tables non-empty nothing is unmatched: all of
     inner / left / right / full outer join return the cross product *)
  Theorem no_shared_column_outer m lc rc (l r : list row) :
    shared lc rc = [] -> l <> [] -> r <> [] -> keeps_right m = true ->
    spec_rows veqb vempty m lc rc l r = inner_rows veqb lc rc l r.
  Proof.
    intros Hs Hl Hr Hm.
    assert (Hag : forall a b, agree lc rc a b = true) by (intros; unfold Join.agree; rewrite Hs; reflexivity).
    assert (Ha : anti_rows veqb lc rc l r = []).
    { unfold anti_rows. destruct r as [|b r]; [congruence|].
      clear Hl. induction l as [|a l IH]; cbn; [reflexivity|]. rewrite Hag. cbn. exact IH. }
    assert (Hu : unmatched_right veqb lc rc l r = []).
    { unfold unmatched_right. destruct l as [|a l]; [congruence|].
      clear Hr Ha. induction r as [|b r IH]; cbn; [reflexivity|]. rewrite Hag. cbn. exact IH. }
    destruct m; try discriminate; cbn [spec_rows]; rewrite ?Ha, ?Hu; cbn [map]; rewrite ?app_nil_r; reflexivity.
  Qed.

  (* ---------- E. injectivity of merge, symmetry of the outer joins ---------- *)
  Section WithEq.
  Context (Hv : forall x y, veqb x y = true <-> x = y).

  Lemma veqb_sym x y : veqb x y = veqb y x.
  Proof.
    destruct (veqb x y) eqn:E1, (veqb y x) eqn:E2; try reflexivity; exfalso.
    - apply Hv in E1. subst. assert (veqb y y = true) by (apply Hv; reflexivity). congruence.
    - apply Hv in E2. subst. assert (veqb x x = true) by (apply Hv; reflexivity). congruence.
  Qed.

  Lemma in_shared lc rc n : In n (shared lc rc) <-> In n (names lc) /\ In n (names rc).
  Proof. unfold shared. rewrite filter_In, mem_str_In. reflexivity. Qed.

  Lemma agree_sym lc rc (a b : row) : agree lc rc a b = agree rc lc b a.
  Proof.
    unfold Join.agree.
    rewrite (forallb_same_set _ (shared lc rc) (shared rc lc)) by (intros n; rewrite !in_shared; tauto).
    apply forallb_ext_all. intros n. unfold opt_eqb.
    destruct (lookup lc a n), (lookup rc b n); try reflexivity. apply veqb_sym.
  Qed.

  Lemma agree_lookup lc rc (a b : row) n :
    agree lc rc a b = true -> In n (names lc) -> In n (names rc) -> lookup lc a n = lookup rc b n.
  Proof.
    unfold Join.agree. intros H Hl Hr. rewrite forallb_forall in H.
    specialize (H n ltac:(apply in_shared; auto)). unfold opt_eqb in H.
    destruct (lookup lc a n), (lookup rc b n); try discriminate; [|reflexivity].
    apply Hv in H. congruence.
  Qed.

  Lemma lookup_head_ne c cs v (r : row) n : fst c <> n -> lookup (c :: cs) (v :: r) n = lookup cs r n.
  Proof.
    intros H. cbn. destruct (String.eqb (fst c) n) eqn:E; [|reflexivity].
    apply String.eqb_eq in E. contradiction.
  Qed.

  Lemma lookup_ext_eq cs (r r' : row) :
    NoDup (names cs) -> List.length r = List.length cs -> List.length r' = List.length cs ->
    (forall n, In n (names cs) -> lookup cs r n = lookup cs r' n) -> r = r'.
  Proof.
    revert r r'. induction cs as [|c cs IH]; intros [|v r] [|v' r'] Hnd H1 H2 H; cbn in H1, H2; try discriminate; [reflexivity|].
    inversion Hnd as [|? ? Hn Hnd']; subst.
    pose proof (H (fst c) ltac:(left; reflexivity)) as H0. cbn in H0. rewrite String.eqb_refl in H0.
    injection H0 as ->. f_equal. apply IH; [exact Hnd'|lia|lia|].
    intros n Hin. specialize (H n ltac:(right; exact Hin)).
    rewrite !lookup_head_ne in H by (intros E; subst; contradiction). exact H.
  Qed.

  (* the pair that produced a merged row is determined by the row *)
  Theorem merge_injective lc rc (a b a' b' : row) :
    NoDup (names rc) ->
    List.length a = List.length lc -> List.length a' = List.length lc ->
    List.length b = List.length rc -> List.length b' = List.length rc ->
    agree lc rc a b = true -> agree lc rc a' b' = true ->
    merge lc rc a b = merge lc rc a' b' -> a = a' /\ b = b'.
  Proof.
    intros Hnd La La' Lb Lb' Hg Hg' H. unfold merge in H.
    apply app_inv_length in H as [-> Hr]; [|lia]. split; [reflexivity|].
    apply (lookup_ext_eq rc b b' Hnd Lb Lb'). intros n Hn.
    destruct (mem_str n (names lc)) eqn:E.
    - apply mem_str_In in E.
      rewrite <- (agree_lookup lc rc a' b n Hg E Hn). apply (agree_lookup lc rc a' b' n Hg' E Hn).
    - pose proof (lookup_rest lc rc b n) as R1. pose proof (lookup_rest lc rc b' n) as R2.
      rewrite E in R1, R2. rewrite <- R1, <- R2, Hr. reflexivity.
  Qed.

  Lemma realign_self cs (a : row) :
    NoDup (names cs) -> List.length a = List.length cs ->
    map (fun c => unwrap (lookup cs a (fst c))) cs = a.
  Proof.
    revert a. induction cs as [|c cs IH]; intros [|v a] Hnd Hl; cbn in Hl; try discriminate; [reflexivity|].
    inversion Hnd as [|? ? Hn Hnd']; subst. cbn [map]. f_equal.
    - cbn. rewrite String.eqb_refl. reflexivity.
    - transitivity (map (fun c' : col => unwrap (lookup cs a (fst c'))) cs); [|apply IH; [exact Hnd'|lia]].
      apply map_ext_in. intros c' Hc'.
      rewrite lookup_head_ne; [reflexivity|]. intros E. apply Hn. rewrite E. apply in_map. exact Hc'.
  Qed.

  Lemma rest_as_lookup lc rc (b : row) :
    NoDup (names rc) -> List.length b = List.length rc ->
    map (fun c => unwrap (lookup rc b (fst c))) (rest_cols lc rc) = rest lc rc b.
  Proof.
    revert b. induction rc as [|c rc IH]; intros [|v b] Hnd Hl; cbn in Hl; try discriminate; [reflexivity|].
    inversion Hnd as [|? ? Hn Hnd']; subst.
    assert (Htail : map (fun c' => unwrap (lookup (c :: rc) (v :: b) (fst c'))) (rest_cols lc rc) = rest lc rc b).
    { rewrite <- (IH b Hnd' ltac:(lia)). apply map_ext_in. intros c' Hc'.
      rewrite lookup_head_ne; [reflexivity|]. intros E. apply Hn. rewrite E. apply in_map.
      unfold rest_cols in Hc'. apply filter_In in Hc' as [Hc' _]. exact Hc'. }
    unfold rest_cols in *. cbn [filter rest].
    destruct (mem_str (fst c) (names lc)); cbn [negb map].
    - exact Htail.
    - f_equal; [|exact Htail]. cbn. rewrite String.eqb_refl. reflexivity.
  Qed.

  (* layout of the joined row when the tables are given as (rc, lc) and as (lc, rc) *)
  Notation src lc rc := (rc ++ rest_cols rc lc).
  Notation dst lc rc := (lc ++ rest_cols lc rc).

  Lemma realign_unfold cs cs' (x : row) :
    realign vempty cs cs' x = map (fun c => unwrap (lookup cs x (fst c))) cs'.
  Proof. reflexivity. Qed.

  Lemma rest_cols_names lc rc c : In c (rest_cols lc rc) -> mem_str (fst c) (names lc) = false /\ In (fst c) (names rc).
  Proof.
    unfold rest_cols. intros H. apply filter_In in H as [H1 H2]. apply negb_true_iff in H2.
    split; [exact H2|apply in_map; exact H1].
  Qed.

  Lemma realign_merge_sym lc rc (a b : row) :
    NoDup (names lc) -> NoDup (names rc) ->
    List.length a = List.length lc -> List.length b = List.length rc ->
    agree lc rc a b = true ->
    realign vempty (src lc rc) (dst lc rc) (merge rc lc b a) = merge lc rc a b.
  Proof.
    intros Hl Hr La Lb Hg. rewrite realign_unfold, map_app. unfold merge at 3. f_equal.
    - transitivity (map (fun c : col => unwrap (lookup lc a (fst c))) lc); [|apply realign_self; assumption].
      apply map_ext_in. intros c Hc.
      rewrite lookup_merge by exact Lb.
      destruct (mem_str (fst c) (names rc)) eqn:E; [|reflexivity].
      apply mem_str_In in E. rewrite (agree_lookup lc rc a b (fst c) Hg (in_map fst lc c Hc) E). reflexivity.
    - rewrite <- (rest_as_lookup lc rc b Hr Lb). apply map_ext_in. intros c Hc.
      apply rest_cols_names in Hc as [_ Hc]. rewrite lookup_merge by exact Lb.
      apply mem_str_In in Hc. rewrite Hc. reflexivity.
  Qed.

  Lemma realign_pad_sym lc rc (b : row) :
    NoDup (names rc) -> List.length b = List.length rc ->
    realign vempty (src lc rc) (dst lc rc) (pad_right vempty rc lc b) = pad_left vempty lc rc b.
  Proof.
    intros Hr Lb. rewrite realign_unfold, map_app. unfold pad_left. f_equal.
    - apply map_ext_in. intros c Hc. rewrite lookup_pad_right by exact Lb.
      destruct (mem_str (fst c) (names rc)) eqn:E; [reflexivity|].
      rewrite (lookup_none rc b (fst c) E).
      destruct (mem_str (fst c) (names (rest_cols rc lc))); reflexivity.
    - rewrite <- (rest_as_lookup lc rc b Hr Lb). apply map_ext_in. intros c Hc.
      apply rest_cols_names in Hc as [_ Hc]. rewrite lookup_pad_right by exact Lb.
      apply mem_str_In in Hc. rewrite Hc. reflexivity.
  Qed.

  Theorem inner_sym lc rc (l r : list row) :
    NoDup (names lc) -> NoDup (names rc) -> rows_wf lc l -> rows_wf rc r ->
    Permutation (inner_rows veqb lc rc l r)
                (map (realign vempty (src lc rc) (dst lc rc)) (inner_rows veqb rc lc r l)).
  Proof.
    intros Hl Hr Wl Wr. rewrite !inner_rows_pairs.
    eapply Permutation_trans;
      [|apply Permutation_map, Permutation_map, perm_filter, Permutation_sym, list_prod_swap].
    rewrite filter_map_comm, !map_map. cbn [fst snd].
    assert (Hf : forall P : list (row * row),
               filter (fun x => agree rc lc (snd x) (fst x)) P = filter (fun p => agree lc rc (fst p) (snd p)) P).
    { intros P. apply filter_ext. intros p. symmetry. apply agree_sym. }
    rewrite Hf. apply Permutation_refl'. apply map_ext_in. intros [a b] Hin.
    apply filter_In in Hin as [Hin Hg]. apply in_prod_iff in Hin as [Ha Hb]. cbn [fst snd] in *.
    symmetry. apply realign_merge_sym; auto.
  Qed.

  Lemma anti_is_unmatched_right lc rc (l r : list row) :
    anti_rows veqb rc lc r l = unmatched_right veqb lc rc l r.
  Proof.
    unfold anti_rows, unmatched_right. apply filter_ext. intros b. f_equal.
    apply existsb_ext_in. intros a _. symmetry. apply agree_sym.
  Qed.

  (* right outer join = left outer join of the swapped tables, columns re-laid out *)
  Theorem right_outer_sym lc rc (l r : list row) :
    NoDup (names lc) -> NoDup (names rc) -> rows_wf lc l -> rows_wf rc r ->
    Permutation (spec_rows veqb vempty RightOuter lc rc l r)
                (map (realign vempty (join_cols LeftOuter rc lc) (join_cols RightOuter lc rc))
                     (spec_rows veqb vempty LeftOuter rc lc r l)).
  Proof.
    intros Hl Hr Wl Wr.
    assert (Hre : forall x : row,
               realign vempty (join_cols LeftOuter rc lc) (join_cols RightOuter lc rc) x
               = realign vempty (src lc rc) (dst lc rc) x).
    { intros x. rewrite !realign_unfold.
      assert (Hn : map fst (join_cols RightOuter lc rc) = map fst (dst lc rc)).
      { pose proof (names_join_cols RightOuter lc rc eq_refl) as Hn. unfold names in Hn.
        rewrite Hn, map_app. reflexivity. }
      transitivity (map (fun n => unwrap (lookup (join_cols LeftOuter rc lc) x n)) (map fst (join_cols RightOuter lc rc))).
      { rewrite map_map. reflexivity. }
      rewrite Hn, map_map. apply map_ext. intros c. f_equal.
      apply (lookup_join_cols LeftOuter rc lc x (fst c) eq_refl). }
    rewrite (map_ext _ _ Hre). cbn [spec_rows]. rewrite map_app. apply Permutation_app.
    - apply inner_sym; assumption.
    - rewrite anti_is_unmatched_right, map_map. apply Permutation_refl'. apply map_ext_in.
      intros b Hb. symmetry. apply realign_pad_sym; [exact Hr|].
      apply Wr. unfold unmatched_right in Hb. apply filter_In in Hb as [Hb _]. exact Hb.
  Qed.
  End WithEq.

  (* ---------- rows of the result are laid out along the result's columns ---------- *)
  Lemma length_join_cols m lc rc :
    keeps_right m = true ->
    List.length (join_cols m lc rc) = List.length lc + List.length (rest_cols lc rc).
  Proof.
    intros Hm. pose proof (names_join_cols m lc rc Hm) as H.
    apply (f_equal (@List.length string)) in H.
    unfold names in H. rewrite app_length, !map_length in H. exact H.
  Qed.

  Theorem spec_rows_wf m lc rc (l r : list row) :
    rows_wf lc l -> rows_wf rc r -> rows_wf (join_cols m lc rc) (spec_rows veqb vempty m lc rc l r).
  Proof.
    intros Wl Wr x Hx. destruct (keeps_right m) eqn:Hm.
    - assert (Hms : m <> LeftSemi) by (intros ->; discriminate).
      assert (Hma : m <> LeftAnti) by (intros ->; discriminate).
      rewrite length_join_cols by exact Hm.
      apply (in_spec_rows_outer m lc rc l r x Hms Hma) in Hx.
      destruct Hx as [[a [b [Ha [Hb [Hg Hx]]]]]|[[_ [a [Ha [Hun Hx]]]]|[_ [b [Hb [Hun Hx]]]]]]; subst x.
      + unfold merge. rewrite app_length, (Wl a Ha), (rest_length lc rc b (Wr b Hb)). reflexivity.
      + unfold pad_right. rewrite app_length, map_length, (Wl a Ha). reflexivity.
      + unfold pad_left. rewrite app_length, map_length, (rest_length lc rc b (Wr b Hb)). reflexivity.
    - destruct m; try discriminate; cbn [spec_rows join_cols] in *.
      + apply in_semi_rows in Hx as [Hx _]. apply Wl. exact Hx.
      + apply in_anti_rows in Hx as [Hx _]. apply Wl. exact Hx.
  Qed.

  (* ---------- D. decompositions of the outer joins computed by the model of the code ---------- *)
  Theorem left_outer_decomp lc rc (l r : list row) :
    Permutation (join_rows veqb vempty LeftOuter lc rc l r)
                (inner_rows veqb lc rc l r ++ map (pad_right vempty lc rc) (anti_rows veqb lc rc l r)).
  Proof. exact (join_rows_perm_spec LeftOuter lc rc l r). Qed.

  Theorem right_outer_decomp lc rc (l r : list row) :
    join_rows veqb vempty RightOuter lc rc l r
    = inner_rows veqb lc rc l r ++ map (pad_left vempty lc rc) (unmatched_right veqb lc rc l r).
  Proof. exact (join_rows_eq_spec RightOuter lc rc l r eq_refl). Qed.

  Theorem full_outer_decomp lc rc (l r : list row) :
    Permutation (join_rows veqb vempty FullOuter lc rc l r)
                (inner_rows veqb lc rc l r ++ map (pad_right vempty lc rc) (anti_rows veqb lc rc l r)
                 ++ map (pad_left vempty lc rc) (unmatched_right veqb lc rc l r)).
  Proof. exact (join_rows_perm_spec FullOuter lc rc l r). Qed.

  Theorem inner_semi_anti_model lc rc (l r : list row) :
    join_rows veqb vempty Inner lc rc l r = inner_rows veqb lc rc l r /\
    join_rows veqb vempty LeftSemi lc rc l r = semi_rows veqb lc rc l r /\
    join_rows veqb vempty LeftAnti lc rc l r = anti_rows veqb lc rc l r.
  Proof.
    split; [|split].
    - exact (join_rows_eq_spec Inner lc rc l r eq_refl).
    - exact (join_rows_eq_spec LeftSemi lc rc l r eq_refl).
    - exact (join_rows_eq_spec LeftAnti lc rc l r eq_refl).
  Qed.

  Theorem semi_anti_partition lc rc (l r : list row) :
    Permutation (semi_rows veqb lc rc l r ++ anti_rows veqb lc rc l r) l.
  Proof. apply filter_partition_perm. Qed.
End RowsP.

(* ------------------------------------------------------------------ *)
Section SelP.
  Context {V : Type}.
  Notation row := (list V).

  (* ---------- I. row selection ---------- *)
  Lemma sel_ix_spec (rows : list row) i x :
    sel_ix rows i = Some x <-> (1 <= i)%Z /\ nth_error rows (Z.to_nat (i - 1)) = Some x.
  Proof.
    unfold sel_ix. destruct (Z.leb 1 i) eqn:E.
    - apply Z.leb_le in E. tauto.
    - apply Z.leb_gt in E. split; [discriminate|lia].
  Qed.

  Lemma sel_ix_range (rows : list row) i x :
    sel_ix rows i = Some x -> (1 <= i <= Z.of_nat (List.length rows))%Z.
  Proof.
    intros H. apply sel_ix_spec in H as [H1 H2].
    assert (Hlt : Z.to_nat (i - 1) < List.length rows) by (apply nth_error_Some; congruence). lia.
  Qed.

  Lemma sel_ix_defined (rows : list row) i :
    (1 <= i <= Z.of_nat (List.length rows))%Z -> exists x, sel_ix rows i = Some x.
  Proof.
    intros H. destruct (nth_error rows (Z.to_nat (i - 1))) eqn:E.
    - exists l. apply sel_ix_spec. split; [lia|exact E].
    - apply nth_error_None in E. lia.
  Qed.

  (* selection by index vector: row k of the result is row ixs[k] of the table (1-based),
     in the order given, repetitions included *)
  Theorem sel_vec_spec (rows : list row) ixs out :
    sel_vec rows ixs = Some out ->
    List.length out = List.length ixs /\
    forall k i, nth_error ixs k = Some i ->
      (1 <= i <= Z.of_nat (List.length rows))%Z /\ nth_error out k = nth_error rows (Z.to_nat (i - 1)).
  Proof.
    unfold sel_vec. revert out. induction ixs as [|i ixs IH]; intros out H; cbn in H.
    - injection H as <-. split; [reflexivity|]. intros [|k] j Hk; discriminate.
    - destruct (sel_ix rows i) as [x|] eqn:Ex; [|discriminate].
      destruct (map_opt (sel_ix rows) ixs) as [out'|] eqn:Eo; [|discriminate].
      injection H as <-. destruct (IH out' eq_refl) as [IH1 IH2]. split; [cbn; lia|].
      intros [|k] j Hk; cbn in Hk.
      + injection Hk as <-. split; [eapply sel_ix_range; exact Ex|]. cbn.
        apply sel_ix_spec in Ex as [_ Ex]. congruence.
      + cbn. apply IH2. exact Hk.
  Qed.

  Theorem sel_vec_defined (rows : list row) ixs :
    (forall i, In i ixs -> (1 <= i <= Z.of_nat (List.length rows))%Z) -> exists out, sel_vec rows ixs = Some out.
  Proof.
    unfold sel_vec. induction ixs as [|i ixs IH]; intros H; cbn; [eauto|].
    destruct (sel_ix_defined rows i) as [x Hx]; [apply H; left; reflexivity|].
    destruct IH as [out Ho]; [intros j Hj; apply H; right; exact Hj|].
    rewrite Hx, Ho. eauto.
  Qed.

  (* 1-based positions of the set flags, increasing *)
  Fixpoint true_positions (from : Z) (mask : list bool) : list Z :=
    match mask with
    | [] => []
    | b :: m => (if b then [from] else []) ++ true_positions (from + 1) m
    end.

  (* selection by mask = selection by the increasing vector of the positions whose flag is set *)
  Theorem sel_mask_as_vec (rows : list row) mask :
    List.length mask = List.length rows ->
    sel_vec rows (true_positions 1 mask) = Some (sel_mask rows mask).
  Proof.
    intros Hlen.
    assert (G : forall (pre : list row),
               sel_vec (pre ++ rows) (true_positions (Z.of_nat (List.length pre) + 1) mask)
               = Some (sel_mask rows mask)).
    { revert mask Hlen. induction rows as [|x rows IH]; intros [|b mask] Hlen pre; cbn in Hlen; try discriminate.
      - reflexivity.
      - assert (Hx : sel_ix (pre ++ x :: rows) (Z.of_nat (List.length pre) + 1) = Some x).
        { apply sel_ix_spec. split; [lia|].
          replace (Z.to_nat (Z.of_nat (List.length pre) + 1 - 1)) with (List.length pre) by lia.
          rewrite nth_error_app2 by lia. rewrite Nat.sub_diag. reflexivity. }
        specialize (IH mask ltac:(lia) (pre ++ [x])).
        rewrite <- app_assoc in IH. cbn [app] in IH.
        rewrite app_length in IH. cbn [List.length] in IH.
        replace (Z.of_nat (List.length pre + 1) + 1)%Z with (Z.of_nat (List.length pre) + 1 + 1)%Z in IH by lia.
        cbn [true_positions]. unfold sel_vec in *. destruct b; cbn [app map_opt].
        + rewrite Hx, IH. reflexivity.
        + rewrite IH. reflexivity. }
    exact (G []).
  Qed.

  Lemma sel_mask_length (rows : list row) mask :
    List.length mask = List.length rows ->
    List.length (sel_mask rows mask) = List.length (filter (fun b => b) mask).
  Proof.
    revert mask. induction rows as [|x rows IH]; intros [|b mask] H; cbn in *; try discriminate; [reflexivity|].
    unfold sel_mask in *. cbn. destruct b; cbn; rewrite IH by lia; reflexivity.
  Qed.
End SelP.

(* ------------------------------------------------------------------ *)
(* J. soundness of the boolean tests and of the judge *)
Section PermP.
  Context {A : Type} (eqb : A -> A -> bool) (eqb_sound : forall x y, eqb x y = true -> x = y).

  Lemma remove_first_perm x l l' : remove_first eqb x l = Some l' -> Permutation l (x :: l').
  Proof.
    revert l'. induction l as [|y l IH]; intros l' H; cbn in H; [discriminate|].
    destruct (eqb x y) eqn:E.
    - injection H as <-. apply eqb_sound in E. subst. apply Permutation_refl.
    - destruct (remove_first eqb x l) as [t|]; [|discriminate]. injection H as <-.
      eapply Permutation_trans; [apply perm_skip, IH; reflexivity|]. apply perm_swap.
  Qed.

  Lemma perm_by_sound l1 l2 : perm_by eqb l1 l2 = true -> Permutation l1 l2.
  Proof.
    revert l2. induction l1 as [|x l1 IH]; intros l2 H; cbn in H.
    - destruct l2; [constructor|discriminate].
    - destruct (remove_first eqb x l2) as [l2'|] eqn:E; [|discriminate].
      apply remove_first_perm in E. eapply Permutation_trans; [|apply Permutation_sym; exact E].
      constructor. apply IH. exact H.
  Qed.

  Lemma list_eqb_sound l1 l2 : list_eqb eqb l1 l2 = true -> l1 = l2.
  Proof.
    revert l2. induction l1 as [|x l1 IH]; intros [|y l2] H; cbn in H; try discriminate; [reflexivity|].
    apply andb_prop in H as [H1 H2]. f_equal; [apply eqb_sound; exact H1|apply IH; exact H2].
  Qed.

  Lemma nodup_by_sound (eqb_refl : forall x, eqb x x = true) l : nodup_by eqb l = true -> NoDup l.
  Proof.
    induction l as [|x l IH]; intros H; cbn in H; [constructor|].
    apply andb_prop in H as [H1 H2]. constructor; [|apply IH; exact H2].
    intros Hin. apply negb_true_iff in H1.
    assert (existsb (eqb x) l = true) by (apply existsb_exists; exists x; auto). congruence.
  Qed.
End PermP.

Lemma col_eqb_sound (a b : col) : col_eqb a b = true -> a = b.
Proof.
  destruct a, b. unfold col_eqb. cbn. intros H. apply andb_prop in H as [H1 H2].
  apply String.eqb_eq in H1, H2. congruence.
Qed.

Lemma string_eqb_sound (a b : string) : String.eqb a b = true -> a = b.
Proof. apply String.eqb_eq. Qed.

Lemma nodup_names_sound cs : nodup_names cs = true -> NoDup (names cs).
Proof. apply nodup_by_sound. apply String.eqb_refl. Qed.

(* what a binding verdict of the judge means *)
Definition table_equiv (exp ob : table) : Prop :=
  NoDup (names (tcols ob)) /\ Permutation (tcols exp) (tcols ob) /\
  Permutation (map (realign empty_cell (tcols ob) (tcols exp)) (trows ob)) (trows exp).

Definition table_equiv_ordered (exp ob : table) : Prop :=
  NoDup (names (tcols ob)) /\ Permutation (tcols exp) (tcols ob) /\
  map (realign empty_cell (tcols ob) (tcols exp)) (trows ob) = trows exp.

Lemma same_table_upto_sound exp ob : same_table_upto exp ob = true -> table_equiv exp ob.
Proof.
  unfold same_table_upto, table_equiv. intros H.
  apply andb_prop in H as [H H3]. apply andb_prop in H as [H1 H2].
  split; [apply nodup_names_sound; exact H1|]. split.
  - apply (perm_by_sound col_eqb col_eqb_sound). exact H2.
  - apply (perm_by_sound rows_eqb sxs_eqb_eq). exact H3.
Qed.

Lemma same_table_ordered_sound exp ob : same_table_ordered exp ob = true -> table_equiv_ordered exp ob.
Proof.
  unfold same_table_ordered, table_equiv_ordered. intros H.
  apply andb_prop in H as [H H3]. apply andb_prop in H as [H1 H2].
  split; [apply nodup_names_sound; exact H1|]. split.
  - apply (perm_by_sound col_eqb col_eqb_sound). exact H2.
  - apply (list_eqb_sound rows_eqb sxs_eqb_eq). exact H3.
Qed.

(* the property on one join case: the implementation's result decodes to a table with the
   specified columns (names and kinds, any order) and the specified multiset of rows *)
Definition C18_join_spec (m : jmode) (L R : table) (o : sx) : Prop :=
  exists ob, decode_obs_table o = Some ob /\ table_equiv (spec_table m L R) ob.

Theorem judge_join_sound m L R o tag :
  judge_join m L R o = v_ok tag -> join_region L R = None /\ C18_join_spec m L R o.
Proof.
  unfold judge_join, C18_join_spec. intros H.
  destruct (join_region L R) as [why|]; [discriminate|]. split; [reflexivity|].
  destruct (decode_obs_table o) as [ob|]; [|discriminate].
  destruct (same_table_upto (spec_table m L R) ob) eqn:E; [|discriminate].
  exists ob. split; [reflexivity|]. apply same_table_upto_sound. exact E.
Qed.

(* ... and the model of the code itself satisfies the same predicate, whatever the tables *)
Lemma realign_self_rows (cs : list col) (rows : list (list sx)) :
  NoDup (names cs) -> (forall x, In x rows -> List.length x = List.length cs) ->
  map (realign empty_cell cs cs) rows = rows.
Proof.
  intros Hnd Hwf. transitivity (map (fun x : list sx => x) rows); [|apply map_id].
  apply map_ext_in. intros x Hx.
  specialize (Hwf x Hx). clear Hx rows. unfold realign.
  revert x Hwf. induction cs as [|c cs IH]; intros [|v x] Hl; cbn in *; try discriminate; [reflexivity|].
  rewrite String.eqb_refl. f_equal.
  inversion Hnd as [|? ? Hn Hnd']; subst.
  transitivity (map (fun c' : col => match lookup cs x (fst c') with Some v' => v' | None => empty_cell end) cs).
  - apply map_ext_in. intros c' Hc'.
    destruct (String.eqb (fst c) (fst c')) eqn:E; [|reflexivity].
    apply String.eqb_eq in E. exfalso. apply Hn. rewrite E. apply in_map. exact Hc'.
  - apply IH; [exact Hnd'|lia].
Qed.

Lemma wf_table_rows t : wf_table t = true -> rows_wf (tcols t) (trows t).
Proof.
  unfold wf_table, rows_wf. intros H x Hx. rewrite forallb_forall in H. apply Nat.eqb_eq. apply H. exact Hx.
Qed.

(* refinement: the table computed by the model of build_joined_table (nested loop, matched flags,
   trailing pass) satisfies, for ALL well-formed tables, the very predicate the judge tests on the
   implementation's observed result against the comprehension-form specification *)
Theorem model_meets_spec m L R :
  NoDup (names (tcols L)) -> NoDup (names (tcols R)) -> wf_table L = true -> wf_table R = true ->
  table_equiv (spec_table m L R) (join_table m L R).
Proof.
  intros Hl Hr Wl Wr. apply wf_table_rows in Wl, Wr. unfold table_equiv, spec_table, join_table. cbn [tcols trows].
  split; [apply columns_nodup; assumption|]. split; [apply Permutation_refl|].
  pose proof (join_rows_perm_spec sx_eqb empty_cell m (tcols L) (tcols R) (trows L) (trows R)) as HP.
  rewrite realign_self_rows; [exact HP|apply columns_nodup; assumption|].
  intros x Hx. apply (spec_rows_wf sx_eqb empty_cell m (tcols L) (tcols R) (trows L) (trows R) Wl Wr).
  eapply Permutation_in; [exact HP|exact Hx].
Qed.

(* the region the property fixes, in words *)
Theorem join_region_meaning L R :
  join_region L R = None ->
  NoDup (names (tcols L)) /\ NoDup (names (tcols R)) /\
  shared_kinds_agree (tcols L) (tcols R) = true /\ plain_table L = true /\ plain_table R = true.
Proof.
  unfold join_region. intros H.
  destruct (nodup_names (tcols L)) eqn:E1; cbn in H; [|discriminate].
  destruct (nodup_names (tcols R)) eqn:E2; cbn in H; [|discriminate].
  destruct (shared_kinds_agree (tcols L) (tcols R)) eqn:E3; cbn in H; [|discriminate].
  destruct (plain_table L) eqn:E4; cbn in H; [|discriminate].
  destruct (plain_table R) eqn:E5; cbn in H; [|discriminate].
  repeat split; auto using nodup_names_sound.
Qed.

(* ---- selection ---- *)
Definition record_equiv (cs : list col) (r : list sx) (fs : list (string * sx)) : Prop :=
  NoDup (map fst fs) /\ Permutation (names cs) (map fst fs) /\
  map (fun c => match find (fun f => String.eqb (fst f) (fst c)) fs with
                | Some f => snd f | None => empty_cell end) cs = r.

Definition C18_sel_spec (T : table) (s : selector) (o : sx) : Prop :=
  match spec_select (trows T) s with
  | SRow r => exists fs, decode_obs_record o = Some fs /\ record_equiv (tcols T) r fs
  | SRows rs => exists ob, decode_obs_table o = Some ob /\ table_equiv_ordered (Tbl (tcols T) rs) ob
  | SNone => False
  end.

Theorem judge_sel_sound T s o tag : judge_sel T s o = v_ok tag -> C18_sel_spec T s o.
Proof.
  unfold judge_sel, C18_sel_spec. intros H.
  destruct (negb (nodup_names (tcols T))); [discriminate|].
  destruct (spec_select (trows T) s) as [r|rs|]; [| |discriminate].
  - destruct (decode_obs_record o) as [fs|]; [|discriminate].
    destruct (record_matches (tcols T) r fs) eqn:E; [|discriminate].
    exists fs. split; [reflexivity|]. unfold record_matches in E.
    apply andb_prop in E as [E E3]. apply andb_prop in E as [E1 E2].
    split; [apply (nodup_by_sound String.eqb String.eqb_refl); exact E1|]. split.
    + apply (perm_by_sound String.eqb string_eqb_sound). exact E2.
    + apply (list_eqb_sound sx_eqb sx_eqb_eq). exact E3.
  - destruct (decode_obs_table o) as [ob|].
    + destruct (same_table_ordered (Tbl (tcols T) rs) ob) eqn:E; [|discriminate].
      exists ob. split; [reflexivity|]. apply same_table_ordered_sound. exact E.
    + destruct (impl_select (trows T) s); try discriminate. destruct (is_err o); discriminate.
Qed.

(* the known finding: the judge says (kf sel-singleton) only for a one-element index vector or
   mask on which the property does fix the result, and only when the observation is the
   predicted defective behaviour (an error) *)
Theorem judge_sel_kf T s o id :
  judge_sel T s o = v_kf id ->
  kf_sel_singleton s = true /\ is_err o = true /\ exists rs, spec_select (trows T) s = SRows rs.
Proof.
  unfold judge_sel. intros H.
  destruct (negb (nodup_names (tcols T))); [discriminate|].
  destruct (spec_select (trows T) s) as [r|rs|] eqn:Es; [| |discriminate].
  - destruct (decode_obs_record o) as [fs|]; [|discriminate].
    destruct (record_matches (tcols T) r fs); discriminate.
  - destruct (decode_obs_table o) as [ob|].
    + destruct (same_table_ordered (Tbl (tcols T) rs) ob); discriminate.
    + unfold impl_select in H. destruct (kf_sel_singleton s) eqn:Ek.
      * destruct (is_err o) eqn:Ee; [|discriminate]. eauto.
      * rewrite Es in H. discriminate.
Qed.

(* the defect, on the model of the dispatch: a one-element index vector selects nothing *)
Theorem refuted_sel_singleton :
  exists (rows : list (list sx)) (s : selector) (rs : list (list sx)),
    spec_select rows s = SRows rs /\ impl_select rows s = SNone.
Proof.
  exists [[Zx 1]; [Zx 2]], (SVec [2%Z]), [[Zx 2]]. split; reflexivity.
Qed.

(* outside that class the dispatch implements the specification *)
Theorem select_holds rows s : kf_sel_singleton s = false -> impl_select rows s = spec_select rows s.
Proof. unfold impl_select. intros ->. reflexivity. Qed.

(* the whole line *)
Definition C18_case_spec (c : c18case) : Prop :=
  match c with
  | CJoin m L R o => wf_table L = true /\ wf_table R = true /\ join_region L R = None /\ C18_join_spec m L R o
  | CSel T s o => wf_table T = true /\ C18_sel_spec T s o
  end.

Lemma decode_case_wf x c : decode_case x = Some c ->
  match c with
  | CJoin _ L R _ => wf_table L = true /\ wf_table R = true
  | CSel T _ _ => wf_table T = true
  end.
Proof.
  unfold decode_case. intros H.
  repeat match type of H with
         | match ?d with _ => _ end = _ => destruct d eqn:?; try discriminate
         | (if ?d then _ else _) = _ => destruct d eqn:?; try discriminate
         end;
  injection H as <-; auto using andb_prop.
Qed.

Theorem judge_c18_sound x tag :
  judge_c18 x = v_ok tag -> exists c, decode_case x = Some c /\ C18_case_spec c.
Proof.
  unfold judge_c18. intros H. destruct (decode_case x) as [c|] eqn:Ec; [|discriminate].
  exists c. split; [reflexivity|]. pose proof (decode_case_wf x c Ec) as Hwf.
  destruct c as [m L R o|T s o]; cbn in H |- *.
  - destruct Hwf as [H1 H2]. apply judge_join_sound in H as [Hr Hs]. auto.
  - split; [exact Hwf|]. eapply judge_sel_sound. exact H.
Qed.
