(* C06 — the operation step of [BytecodeLink.cstep] against the regenerated arms of run_program
   (Gen/InstrArms.v through Proofs/InstrArmsP.v): for every operation instruction the source arm reads registers[dst]
   and registers[operand] in field order, then sets self.out and appends the step — what [cstep] does. *)
From Coq Require Import List NArith String.
From MechV Require Import Model.Loader Model.BytecodeLink Model.SrcArms Gen.InstrArms Proofs.InstrArmsP.
Import ListNotations.

Lemma op_parts_op_regs i f d a : op_parts i = Some (f, d, a) -> op_regs i = Some (d, a).
Proof. destruct i; cbn [op_parts op_regs]; intros H; try discriminate; injection H as <- <- <-; reflexivity. Qed.

Theorem cstep_is_source_arm : forall (i : instr) (f d : N) (a : list N),
  op_parts i = Some (f, d, a) -> src_run i = Some (d, a, ["set-out"; "add-step"]%string).
Proof. intros i f d a H. apply src_run_builds_step. apply (op_parts_op_regs i f d a H). Qed.
