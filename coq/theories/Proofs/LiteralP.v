(* Lemmas for C13 (Model/Literal.v). *)
From Coq Require Import List ZArith QArith Qabs Qpower Bool Ascii String Lia.
From MechV Require Import Base.Sexp Base.Obs Model.Literal.
Import ListNotations.
Local Open Scope Z_scope.

(* ================================================================== *)
(* A. digit strings                                                     *)
(* ================================================================== *)
Lemma dval_acc_strip b s : forall acc, dval_acc b (strip_us s) acc = dval_acc b s acc.
Proof.
  induction s as [|c r IH]; intros acc; cbn [strip_us dval_acc]; [reflexivity|].
  destruct (is_us c) eqn:Hc.
  - apply IH.
  - cbn [dval_acc]. rewrite Hc. destruct (digit_of c) as [d|]; [|reflexivity].
    destruct (d <? b); [apply IH|reflexivity].
Qed.

Lemma dval_underscores_ignored b s : dval b (strip_us s) = dval b s.
Proof. apply dval_acc_strip. Qed.

Lemma ndig_strip s : ndig (strip_us s) = ndig s.
Proof.
  induction s as [|c r IH]; cbn [strip_us ndig]; [reflexivity|].
  destruct (is_us c) eqn:Hc; [exact IH|]. cbn [ndig]. rewrite Hc, IH. reflexivity.
Qed.

Lemma ndig_nonneg s : 0 <= ndig s.
Proof. induction s as [|c r IH]; cbn [ndig]; [lia|]. destruct (is_us c); lia. Qed.

Lemma dval_acc_app b s1 s2 : forall acc,
  dval_acc b (s1 ++ s2) acc =
  match dval_acc b s1 acc with Some a => dval_acc b s2 a | None => None end.
Proof.
  induction s1 as [|c r IH]; intros acc; cbn [String.append dval_acc]; [reflexivity|].
  destruct (is_us c); [apply IH|].
  destruct (digit_of c) as [d|]; [|reflexivity].
  destruct (d <? b); [apply IH|reflexivity].
Qed.

Lemma dval_acc_none b s : forall a0 a, dval_acc b s a0 = None -> dval_acc b s a = None.
Proof.
  induction s as [|c r IH]; intros a0 a H; cbn [dval_acc] in *; [discriminate|].
  destruct (is_us c); [eapply IH; exact H|].
  destruct (digit_of c) as [d|]; [|reflexivity].
  destruct (d <? b); [eapply IH; exact H|reflexivity].
Qed.

(* the accumulator enters linearly: value = acc * b^(number of digits) + value from 0 *)
Lemma dval_acc_linear b s : forall acc v,
  dval_acc b s 0 = Some v -> dval_acc b s acc = Some (acc * b ^ ndig s + v).
Proof.
  induction s as [|c r IH]; intros acc v H; cbn [dval_acc ndig] in *.
  - injection H as <-. f_equal. lia.
  - destruct (is_us c); [apply IH; exact H|].
    destruct (digit_of c) as [d|]; [|discriminate].
    destruct (d <? b); [|discriminate].
    pose proof (ndig_nonneg r) as Hn.
    destruct (dval_acc b r 0) as [v0|] eqn:H0.
    + rewrite (IH (0 * b + d) v0 eq_refl) in H. injection H as <-.
      rewrite (IH (acc * b + d) v0 eq_refl). f_equal.
      rewrite Z.pow_add_r by lia. rewrite Z.pow_1_r. ring.
    + rewrite (dval_acc_none b r 0 (0 * b + d) H0) in H. discriminate.
Qed.

(* positional notation: appending digits shifts by the base *)
Lemma dval_app b s1 s2 a c :
  dval b s1 = Some a -> dval b s2 = Some c -> dval b (s1 ++ s2) = Some (a * b ^ ndig s2 + c).
Proof.
  unfold dval. intros H1 H2. rewrite dval_acc_app, H1. apply dval_acc_linear. exact H2.
Qed.

(* ================================================================== *)
(* B. the checker                                                       *)
(* ================================================================== *)
Definition fmt_ok (f : fmt) : Prop := 1 <= fprec f /\ 0 <= fscale f /\ 0 <= femax f.

Lemma f64_ok : fmt_ok f64. Proof. unfold fmt_ok; cbn; lia. Qed.
Lemma f32_ok : fmt_ok f32. Proof. unfold fmt_ok; cbn; lia. Qed.

Definition canon (f : fmt) (M e : Z) : Prop :=
  0 <= M < 2 * 2 ^ (fprec f - 1) /\ 0 <= e <= femax f /\ (e = 0 \/ 2 ^ (fprec f - 1) <= M).

Lemma pow2_prec f : fmt_ok f -> 2 ^ fprec f = 2 * 2 ^ (fprec f - 1).
Proof.
  intros [Hp _]. replace (fprec f) with (1 + (fprec f - 1)) at 1 by lia.
  rewrite Z.pow_add_r by lia. reflexivity.
Qed.

Lemma canonb_spec f M e : fmt_ok f -> canonb f M e = true <-> canon f M e.
Proof.
  intros Hf. unfold canonb, canon. rewrite (pow2_prec f Hf).
  rewrite !andb_true_iff, orb_true_iff, !Z.leb_le, Z.ltb_lt, Z.eqb_eq. tauto.
Qed.

Lemma pow2_pos e : 0 < 2 ^ e \/ 2 ^ e = 0.
Proof. destruct (Z.le_gt_cases 0 e); [left; apply Z.pow_pos_nonneg; lia|right; apply Z.pow_neg_r; lia]. Qed.

Lemma pow2_gt0 e : 0 <= e -> 0 < 2 ^ e.
Proof. intros; apply Z.pow_pos_nonneg; lia. Qed.

Lemma pow2_split e k : 0 <= e -> 0 <= k -> 2 ^ (e + k) = 2 ^ k * 2 ^ e.
Proof. intros. rewrite Z.pow_add_r by lia. ring. Qed.

Lemma pow2_ge2 k : 1 <= k -> 2 <= 2 ^ k.
Proof.
  intros. replace k with (1 + (k - 1)) by lia. rewrite Z.pow_add_r by lia.
  pose proof (pow2_gt0 (k - 1)). change (2 ^ 1) with 2. lia.
Qed.

Lemma pow2_diff e e' : 0 <= e -> e < e' -> exists K, 2 <= K /\ 2 ^ e' = K * 2 ^ e.
Proof.
  intros He Hlt. exists (2 ^ (e' - e)). split; [apply pow2_ge2; lia|].
  rewrite <- pow2_split by lia. f_equal. lia.
Qed.

Section Near.
  Variable f : fmt.
  Hypothesis Hf : fmt_ok f.
  Let P := 2 ^ (fprec f - 1).

  Lemma P_pos : 1 <= P.
  Proof.
    pose proof Hf as [Hp _]. assert (Hpos : 0 < 2 ^ (fprec f - 1)) by (apply pow2_gt0; lia).
    unfold P. lia.
  Qed.

  (* the next float above M*2^e is (M+1)*2^e *)
  Lemma succ_claim M e M' e' :
    canon f M e -> canon f M' e' -> M * 2 ^ e < M' * 2 ^ e' -> (M + 1) * 2 ^ e <= M' * 2 ^ e'.
  Proof.
    intros (HM & He & Hn) (HM' & He' & Hn') Hlt. fold P in HM, HM', Hn, Hn'. pose proof P_pos as HP.
    pose proof (pow2_gt0 e ltac:(lia)) as Hu. pose proof (pow2_gt0 e' ltac:(lia)) as Hu'.
    destruct (Z.lt_trichotomy e e') as [Hee|[Hee|Hee]].
    - destruct (pow2_diff e e' ltac:(lia) Hee) as (K & HK & HKe).
      rewrite HKe in *. set (u := 2 ^ e) in *.
      assert (HPM : P <= M') by (destruct Hn' as [Hz|Hz]; [exfalso; clear - Hz Hee He; lia | exact Hz]).
      assert (HMK : P * 2 <= M' * K) by (apply Z.mul_le_mono_nonneg; lia).
      assert (Hg : (M + 1) * u <= M' * K * u) by (apply Z.mul_le_mono_nonneg_r; lia).
      lia.
    - subst e'. apply Z.mul_le_mono_nonneg_r; [lia|].
      apply Z.mul_lt_mono_pos_r in Hlt; lia.
    - destruct (pow2_diff e' e ltac:(lia) Hee) as (K & HK & HKe).
      rewrite HKe in *. set (u := 2 ^ e') in *.
      assert (HPM : P <= M) by lia.
      assert (HMK : P * 2 <= M * K) by (apply Z.mul_le_mono_nonneg; lia).
      assert (Hg : M' * u < M * K * u) by (apply Z.mul_lt_mono_pos_r; lia).
      lia.
  Qed.

  Definition hl_of (M e : Z) : Z := if andb (M =? P) (1 <=? e) then 1 else 2.

  (* the next float below M*2^e is at distance 2^e, or 2^e/2 at a power of two (scaled by 4) *)
  Lemma pred_claim M e M' e' :
    canon f M e -> canon f M' e' -> M' * 2 ^ e' < M * 2 ^ e ->
    4 * (M' * 2 ^ e') <= (4 * M - 2 * hl_of M e) * 2 ^ e.
  Proof.
    intros (HM & He & Hn) (HM' & He' & Hn') Hlt. fold P in HM, HM', Hn, Hn'. pose proof P_pos as HP.
    pose proof (pow2_gt0 e ltac:(lia)) as Hu. pose proof (pow2_gt0 e' ltac:(lia)) as Hu'.
    assert (Hhl : 1 <= hl_of M e <= 2) by (unfold hl_of; destruct (andb _ _); lia).
    destruct (Z.lt_trichotomy e e') as [Hee|[Hee|Hee]].
    - destruct (pow2_diff e e' ltac:(lia) Hee) as (K & HK & HKe).
      rewrite HKe in *. set (u := 2 ^ e) in *.
      assert (HPM : P <= M') by lia.
      assert (HMK : P * 2 <= M' * K) by (apply Z.mul_le_mono_nonneg; lia).
      assert (Hg : M * u < M' * K * u) by (apply Z.mul_lt_mono_pos_r; lia).
      lia.
    - subst e'. apply Z.mul_lt_mono_pos_r in Hlt; [|lia].
      assert (4 * M' <= 4 * M - 2 * hl_of M e) by lia.
      replace (4 * (M' * 2 ^ e)) with (4 * M' * 2 ^ e) by ring.
      apply Z.mul_le_mono_nonneg_r; lia.
    - assert (HPM : P <= M) by lia.
      assert (He1 : (1 <=? e) = true) by (apply Z.leb_le; lia).
      destruct (pow2_diff e' e ltac:(lia) Hee) as (K & HK & HKe).
      rewrite HKe in *. set (u := 2 ^ e') in *.
      unfold hl_of in *. rewrite He1, andb_true_r in *.
      destruct (M =? P) eqn:HMP.
      + apply Z.eqb_eq in HMP. subst M.
        assert (HK2 : (4 * P - 2) * 2 <= (4 * P - 2) * K) by (apply Z.mul_le_mono_nonneg_l; lia).
        assert (Hg : 4 * M' * u <= (4 * P - 2) * K * u) by (apply Z.mul_le_mono_nonneg_r; lia).
        lia.
      + apply Z.eqb_neq in HMP.
        assert (HK2 : (4 * M - 4) * 2 <= (4 * M - 4) * K) by (apply Z.mul_le_mono_nonneg_l; lia).
        assert (Hg : 4 * M' * u <= (4 * M - 4) * K * u) by (apply Z.mul_le_mono_nonneg_r; lia).
        lia.
  Qed.

  Lemma near_bounds M e X Y :
    near f M e X Y = true ->
    4 * X <= (4 * M + 2) * 2 ^ e * Y /\ (4 * M - hl_of M e) * 2 ^ e * Y <= 4 * X /\
    (4 * X = (4 * M + 2) * 2 ^ e * Y -> Z.even M = true) /\
    ((4 * M - hl_of M e) * 2 ^ e * Y = 4 * X -> Z.even M = true).
  Proof.
    unfold near, hl_of. fold P.
    set (hl := if andb (M =? P) (1 <=? e) then 1 else 2).
    rewrite !andb_true_iff, !orb_true_iff, !andb_true_iff, !Z.ltb_lt, !Z.eqb_eq.
    intros [[H1|[H1 E1]] [H2|[H2 E2]]]; repeat split; try lia; intros; try assumption; try lia.
  Qed.

  (* magnitudes: the accepted float is at least as close as every other float *)
  Lemma near_sound M e X Y M' e' :
    near f M e X Y = true -> canon f M e -> 0 < Y -> canon f M' e' ->
    Z.abs (X - M * 2 ^ e * Y) <= Z.abs (X - M' * 2 ^ e' * Y).
  Proof.
    intros Hn Hc HY Hc'.
    destruct (near_bounds _ _ _ _ Hn) as (Hup & Hlo & _ & _).
    pose proof (pow2_gt0 e ltac:(destruct Hc as (_ & ? & _); lia)) as Hu.
    assert (Hhl : 1 <= hl_of M e <= 2) by (unfold hl_of; destruct (andb _ _); lia).
    destruct (Z.lt_trichotomy (M * 2 ^ e) (M' * 2 ^ e')) as [Hlt|[Heq|Hgt]].
    - pose proof (succ_claim _ _ _ _ Hc Hc' Hlt) as Hs.
      assert (Hs' : (M + 1) * 2 ^ e * Y <= M' * 2 ^ e' * Y) by (apply Z.mul_le_mono_nonneg_r; lia).
      set (VY := M * 2 ^ e * Y) in *. set (VY' := M' * 2 ^ e' * Y) in *.
      assert (HU : 0 < 2 ^ e * Y) by nia.
      replace ((4 * M + 2) * 2 ^ e * Y) with (4 * VY + 2 * (2 ^ e * Y)) in Hup by (unfold VY; ring).
      replace ((M + 1) * 2 ^ e * Y) with (VY + 2 ^ e * Y) in Hs' by (unfold VY; ring).
      lia.
    - rewrite Heq. lia.
    - pose proof (pred_claim _ _ _ _ Hc Hc' Hgt) as Hp.
      assert (Hp' : 4 * (M' * 2 ^ e') * Y <= (4 * M - 2 * hl_of M e) * 2 ^ e * Y) by (apply Z.mul_le_mono_nonneg_r; lia).
      set (VY := M * 2 ^ e * Y) in *. set (VY' := M' * 2 ^ e' * Y) in *.
      assert (HU : 0 < 2 ^ e * Y) by nia.
      set (UY := 2 ^ e * Y) in *.
      replace ((4 * M - hl_of M e) * 2 ^ e * Y) with (4 * VY - hl_of M e * UY) in Hlo by (unfold VY, UY; ring).
      replace ((4 * M - 2 * hl_of M e) * 2 ^ e * Y) with (4 * VY - 2 * (hl_of M e * UY)) in Hp' by (unfold VY, UY; ring).
      replace (4 * (M' * 2 ^ e') * Y) with (4 * VY') in Hp' by (unfold VY'; ring).
      assert (0 < hl_of M e * UY) by nia.
      lia.
  Qed.

  (* a tie with a different float is only accepted at an even mantissa *)
  Lemma near_tie_even M e X Y M' e' :
    near f M e X Y = true -> canon f M e -> 0 < Y -> canon f M' e' ->
    M * 2 ^ e <> M' * 2 ^ e' ->
    Z.abs (X - M * 2 ^ e * Y) = Z.abs (X - M' * 2 ^ e' * Y) -> Z.even M = true.
  Proof.
    intros Hn Hc HY Hc' Hne Heq.
    destruct (near_bounds _ _ _ _ Hn) as (Hup & Hlo & Eup & Elo).
    pose proof (pow2_gt0 e ltac:(destruct Hc as (_ & ? & _); lia)) as Hu.
    assert (Hhl : 1 <= hl_of M e <= 2) by (unfold hl_of; destruct (andb _ _); lia).
    destruct (Z.lt_trichotomy (M * 2 ^ e) (M' * 2 ^ e')) as [Hlt|[Heq'|Hgt]]; [|contradiction|].
    - pose proof (succ_claim _ _ _ _ Hc Hc' Hlt) as Hs.
      assert (Hs' : (M + 1) * 2 ^ e * Y <= M' * 2 ^ e' * Y) by (apply Z.mul_le_mono_nonneg_r; lia).
      apply Eup.
      set (VY := M * 2 ^ e * Y) in *. set (VY' := M' * 2 ^ e' * Y) in *.
      assert (HU : 0 < 2 ^ e * Y) by nia.
      replace ((4 * M + 2) * 2 ^ e * Y) with (4 * VY + 2 * (2 ^ e * Y)) in * by (unfold VY; ring).
      replace ((M + 1) * 2 ^ e * Y) with (VY + 2 ^ e * Y) in Hs' by (unfold VY; ring).
      lia.
    - pose proof (pred_claim _ _ _ _ Hc Hc' Hgt) as Hp.
      assert (Hp' : 4 * (M' * 2 ^ e') * Y <= (4 * M - 2 * hl_of M e) * 2 ^ e * Y) by (apply Z.mul_le_mono_nonneg_r; lia).
      apply Elo.
      set (VY := M * 2 ^ e * Y) in *. set (VY' := M' * 2 ^ e' * Y) in *.
      assert (HU : 0 < 2 ^ e * Y) by nia.
      set (UY := 2 ^ e * Y) in *.
      replace ((4 * M - hl_of M e) * 2 ^ e * Y) with (4 * VY - hl_of M e * UY) in * by (unfold VY, UY; ring).
      replace ((4 * M - 2 * hl_of M e) * 2 ^ e * Y) with (4 * VY - 2 * (hl_of M e * UY)) in Hp' by (unfold VY, UY; ring).
      replace (4 * (M' * 2 ^ e') * Y) with (4 * VY') in Hp' by (unfold VY'; ring).
      assert (0 < hl_of M e * UY) by nia.
      lia.
  Qed.

  (* canonical representations are unique *)
  Lemma canon_unique M e M' e' :
    canon f M e -> canon f M' e' -> M * 2 ^ e = M' * 2 ^ e' -> M = M' /\ e = e'.
  Proof.
    intros (HM & He & Hn) (HM' & He' & Hn') Heq. fold P in HM, HM', Hn, Hn'. pose proof P_pos as HP.
    pose proof (pow2_gt0 e ltac:(lia)) as Hu. pose proof (pow2_gt0 e' ltac:(lia)) as Hu'.
    destruct (Z.lt_trichotomy e e') as [Hee|[Hee|Hee]].
    - exfalso. destruct (pow2_diff e e' ltac:(lia) Hee) as (K & HK & HKe).
      rewrite HKe in *. set (u := 2 ^ e) in *.
      assert (HPM : P <= M') by lia.
      assert (HMK : P * 2 <= M' * K) by (apply Z.mul_le_mono_nonneg; lia).
      assert (Hg : M * u < M' * K * u) by (apply Z.mul_lt_mono_pos_r; lia).
      lia.
    - subst e'. split; [|reflexivity]. apply Z.mul_cancel_r in Heq; lia.
    - exfalso. destruct (pow2_diff e' e ltac:(lia) Hee) as (K & HK & HKe).
      rewrite HKe in *. set (u := 2 ^ e') in *.
      assert (HPM : P <= M) by lia.
      assert (HMK : P * 2 <= M * K) by (apply Z.mul_le_mono_nonneg; lia).
      assert (Hg : M' * u < M * K * u) by (apply Z.mul_lt_mono_pos_r; lia).
      lia.
  Qed.
End Near.

Lemma pow2_diff2 e e' : 0 <= e -> e < e' -> exists K, 1 <= K /\ 2 ^ e' = 2 * K * 2 ^ e.
Proof.
  intros He Hlt. exists (2 ^ (e' - e - 1)). split.
  - pose proof (pow2_gt0 (e' - e - 1)). lia.
  - replace e' with (e + (1 + (e' - e - 1))) at 1 by lia.
    rewrite pow2_split by lia. rewrite (Z.pow_add_r 2 1) by lia. change (2 ^ 1) with 2. ring.
Qed.

Section NearUnique.
  Variable f : fmt.
  Hypothesis Hf : fmt_ok f.

  Lemma near_unique_lt M e M' e' X Y :
    near f M e X Y = true -> near f M' e' X Y = true -> canon f M e -> canon f M' e' -> 0 < Y ->
    M * 2 ^ e < M' * 2 ^ e' -> False.
  Proof.
    intros Hn Hn' Hc Hc' HY Hlt.
    destruct (near_bounds f _ _ _ _ Hn) as (Hup & _ & Eup & _).
    destruct (near_bounds f _ _ _ _ Hn') as (_ & Hlo' & _ & Elo').
    pose proof (succ_claim f Hf _ _ _ _ Hc Hc' Hlt) as Hs.
    pose proof (pred_claim f Hf _ _ _ _ Hc' Hc Hlt) as Hp.
    pose proof Hc as (HM & He & HnM). pose proof Hc' as (HM' & He' & HnM').
    pose proof (P_pos f Hf) as HP.
    pose proof (pow2_gt0 e ltac:(lia)) as Hu. pose proof (pow2_gt0 e' ltac:(lia)) as Hu'.
    assert (Hhl : 1 <= hl_of f M' e' <= 2) by (unfold hl_of; destruct (andb _ _); lia).
    assert (Hs' : (M + 1) * 2 ^ e * Y <= M' * 2 ^ e' * Y) by (apply Z.mul_le_mono_nonneg_r; lia).
    assert (Hp' : 4 * (M * 2 ^ e) * Y <= (4 * M' - 2 * hl_of f M' e') * 2 ^ e' * Y)
      by (apply Z.mul_le_mono_nonneg_r; lia).
    (* everything is an equality *)
    assert (E1 : 4 * X = (4 * M + 2) * 2 ^ e * Y /\ (4 * M' - hl_of f M' e') * 2 ^ e' * Y = 4 * X /\
                 (M + 1) * 2 ^ e * Y = M' * 2 ^ e' * Y).
    { set (VY := M * 2 ^ e * Y) in *. set (VY' := M' * 2 ^ e' * Y) in *.
      set (UY := 2 ^ e * Y) in *. set (W := hl_of f M' e' * (2 ^ e' * Y)) in *.
      replace ((4 * M + 2) * 2 ^ e * Y) with (4 * VY + 2 * UY) in * by (unfold VY, UY; ring).
      replace ((4 * M' - hl_of f M' e') * 2 ^ e' * Y) with (4 * VY' - W) in * by (unfold VY', W; ring).
      replace ((M + 1) * 2 ^ e * Y) with (VY + UY) in * by (unfold VY, UY; ring).
      replace (4 * (M * 2 ^ e) * Y) with (4 * VY) in Hp' by (unfold VY; ring).
      replace ((4 * M' - 2 * hl_of f M' e') * 2 ^ e' * Y) with (4 * VY' - 2 * W) in Hp' by (unfold VY', W; ring).
      lia. }
    destruct E1 as (E1 & E2 & E3).
    apply Eup in E1. apply Elo' in E2.
    apply Z.mul_cancel_r in E3; [|lia].
    apply Z.even_spec in E1. destruct E1 as [m Em]. apply Z.even_spec in E2. destruct E2 as [m' Em'].
    destruct (Z.lt_trichotomy e e') as [Hee|[Hee|Hee]].
    - destruct (pow2_diff2 e e' ltac:(lia) Hee) as (K & HK & HKe).
      rewrite HKe in E3.
      replace (M' * (2 * K * 2 ^ e)) with (M' * (2 * K) * 2 ^ e) in E3 by ring.
      apply Z.mul_cancel_r in E3; lia.
    - subst e'. apply Z.mul_cancel_r in E3; lia.
    - destruct (pow2_diff e' e ltac:(lia) Hee) as (K & HK & HKe).
      rewrite HKe in E3.
      replace ((M + 1) * (K * 2 ^ e')) with ((M + 1) * K * 2 ^ e') in E3 by ring.
      apply Z.mul_cancel_r in E3; [|lia].
      fold (2 ^ (fprec f - 1)) in HP.
      assert (Hpm : 2 ^ (fprec f - 1) <= M) by lia.
      assert ((2 ^ (fprec f - 1) + 1) * 2 <= (M + 1) * K) by (apply Z.mul_le_mono_nonneg; lia).
      lia.
  Qed.

  Lemma near_unique M e M' e' X Y :
    near f M e X Y = true -> near f M' e' X Y = true -> canon f M e -> canon f M' e' -> 0 < Y ->
    M = M' /\ e = e'.
  Proof.
    intros Hn Hn' Hc Hc' HY.
    destruct (Z.lt_trichotomy (M * 2 ^ e) (M' * 2 ^ e')) as [Hlt|[Heq|Hgt]].
    - exfalso. exact (near_unique_lt M e M' e' X Y Hn Hn' Hc Hc' HY Hlt).
    - exact (canon_unique f Hf M e M' e' Hc Hc' Heq).
    - exfalso. exact (near_unique_lt M' e' M e X Y Hn' Hn Hc' Hc HY Hgt).
  Qed.
End NearUnique.

(* ---------- from integers to rationals ---------- *)
Lemma Qdist n d V S :
  Qabs (Qminus (n # d) (V # S)) = (Z.abs (n * Zpos S - V * Zpos d) # (d * S)).
Proof.
  unfold Qminus, Qplus, Qopp, Qabs. cbn [Qnum Qden]. f_equal. f_equal. ring.
Qed.

Lemma Qabs_dist_le n d V V' S :
  (Qabs (Qminus (n # d) (V # S)) <= Qabs (Qminus (n # d) (V' # S)))%Q <->
  Z.abs (n * Zpos S - V * Zpos d) <= Z.abs (n * Zpos S - V' * Zpos d).
Proof.
  rewrite !Qdist. unfold Qle. cbn [Qnum Qden].
  symmetry. apply Z.mul_le_mono_pos_r. reflexivity.
Qed.

Lemma Qabs_dist_eq n d V V' S :
  (Qabs (Qminus (n # d) (V # S)) == Qabs (Qminus (n # d) (V' # S)))%Q <->
  Z.abs (n * Zpos S - V * Zpos d) = Z.abs (n * Zpos S - V' * Zpos d).
Proof.
  rewrite !Qdist. unfold Qeq. cbn [Qnum Qden].
  split; intros H; [apply Z.mul_cancel_r in H; [exact H|discriminate]|rewrite H; reflexivity].
Qed.

Definition Sf (f : fmt) : positive := Zpos' (2 ^ fscale f).

Lemma Sf_eq f : fmt_ok f -> Zpos (Sf f) = 2 ^ fscale f.
Proof.
  intros (_ & Hs & _). unfold Sf, Zpos'. apply Z2Pos.id. apply pow2_gt0. exact Hs.
Qed.

Definition sgnZ (s : bool) (M : Z) : Z := if s then - M else M.

Lemma fin_Q_eq f s M e : fin_Q f s M e = (sgnZ s M * 2 ^ e # Sf f).
Proof. reflexivity. Qed.

(* the mathematical statement: v is a correctly rounded image of q —
   no finite float of the format is closer, a tie is only resolved to an
   even mantissa; infinity exactly from the IEEE overflow threshold on *)
Definition max_plus_half (f : fmt) : Q := ((2 * 2 ^ fprec f - 1) * 2 ^ femax f # (2 * Sf f)).

Definition rounds_to (f : fmt) (v : fval) (q : Q) : Prop :=
  match v with
  | FFin s M e =>
      canon f M e /\
      (forall s' M' e', canon f M' e' ->
         (Qabs (q - fin_Q f s M e) <= Qabs (q - fin_Q f s' M' e'))%Q) /\
      (forall s' M' e', canon f M' e' -> ~ (fin_Q f s' M' e' == fin_Q f s M e)%Q ->
         (Qabs (q - fin_Q f s M e) == Qabs (q - fin_Q f s' M' e'))%Q -> Z.even M = true) /\
      (M = 0 \/ s = (Qnum q <? 0))
  | FInf s => (max_plus_half f <= Qabs q)%Q /\ s = (Qnum q <? 0)
  | FNan => False
  end.

Section NearQ.
  Variable f : fmt.
  Hypothesis Hf : fmt_ok f.

  Lemma near_zero_M M e Y : near f M e 0 Y = true -> canon f M e -> 0 < Y -> M = 0.
  Proof.
    intros Hn (HM & He & _) HY.
    destruct (near_bounds f _ _ _ _ Hn) as (_ & Hlo & _ & _).
    pose proof (pow2_gt0 e ltac:(lia)) as Hu.
    assert (Hhl : 1 <= hl_of f M e <= 2) by (unfold hl_of; destruct (andb _ _); lia).
    assert (HUY : 0 < 2 ^ e * Y) by (apply Z.mul_pos_pos; lia).
    destruct (Z.eq_dec M 0) as [|Hne]; [assumption|exfalso].
    assert (1 <= 4 * M - hl_of f M e) by lia.
    assert (1 * (2 ^ e * Y) <= (4 * M - hl_of f M e) * (2 ^ e * Y)) by (apply Z.mul_le_mono_nonneg_r; lia).
    replace ((4 * M - hl_of f M e) * 2 ^ e * Y) with ((4 * M - hl_of f M e) * (2 ^ e * Y)) in Hlo by ring.
    lia.
  Qed.

  Lemma is_nearest_fin_sound s M e q :
    is_nearest f (FFin s M e) q = true -> rounds_to f (FFin s M e) q.
  Proof.
    destruct q as [n d]. unfold is_nearest, scaledX, scaledY. cbn [Qnum Qden].
    rewrite !andb_true_iff, orb_true_iff. intros (Hcb & Hn & Hsg).
    apply (canonb_spec f M e Hf) in Hcb.
    pose proof (Sf_eq f Hf) as HS. rewrite <- HS in Hn.
    assert (HSpos : 0 < Zpos (Sf f)) by reflexivity.
    assert (HX : Z.abs n * Zpos (Sf f) = Z.abs (n * Zpos (Sf f))) by (rewrite Z.abs_mul; f_equal).
    rewrite HX in Hn.
    assert (Hsign : M = 0 \/ s = (n <? 0)).
    { destruct Hsg as [H0|H1]; [left; apply Z.eqb_eq; exact H0|right; apply Bool.eqb_prop; exact H1]. }
    assert (HA : 0 <= M * 2 ^ e * Zpos d).
    { destruct Hcb as (HM & He & _). pose proof (pow2_gt0 e ltac:(lia)). apply Z.mul_nonneg_nonneg; [apply Z.mul_nonneg_nonneg|]; lia. }
    assert (Hnlt : (n <? 0) = true <-> n * Zpos (Sf f) < 0).
    { rewrite Z.ltb_lt. split; intros; nia. }
    cbn [rounds_to]. split; [exact Hcb|]. split; [|split; [|exact Hsign]].
    - intros s' M' e' Hc'. rewrite !fin_Q_eq. apply Qabs_dist_le.
      pose proof (near_sound f Hf M e _ _ M' e' Hn Hcb ltac:(reflexivity) Hc') as Hns.
      assert (HA' : 0 <= M' * 2 ^ e' * Zpos d).
      { destruct Hc' as (HM & He & _). pose proof (pow2_gt0 e' ltac:(lia)). apply Z.mul_nonneg_nonneg; [apply Z.mul_nonneg_nonneg|]; lia. }
      set (NS := n * Zpos (Sf f)) in *. set (A := M * 2 ^ e * Zpos d) in *. set (A' := M' * 2 ^ e' * Zpos d) in *.
      replace (sgnZ s M * 2 ^ e * Zpos d) with (sgnZ s A) by (unfold sgnZ, A; destruct s; ring).
      replace (sgnZ s' M' * 2 ^ e' * Zpos d) with (sgnZ s' A') by (unfold sgnZ, A'; destruct s'; ring).
      destruct Hsign as [HM0|Hs].
      + assert (A = 0) by (unfold A; rewrite HM0; ring). unfold sgnZ. destruct s, s'; lia.
      + subst s. unfold sgnZ. destruct (n <? 0) eqn:En.
        * assert (NS < 0) by (apply Hnlt; reflexivity). destruct s'; lia.
        * assert (~ NS < 0) by (intros Hc; apply Hnlt in Hc; discriminate). destruct s'; lia.
    - intros s' M' e' Hc' Hne Heq. rewrite !fin_Q_eq in *. apply Qabs_dist_eq in Heq.
      assert (Hne' : sgnZ s' M' * 2 ^ e' <> sgnZ s M * 2 ^ e).
      { intros Hc. apply Hne. unfold Qeq. cbn [Qnum Qden]. rewrite Hc. reflexivity. }
      pose proof (near_sound f Hf M e _ _ M' e' Hn Hcb ltac:(reflexivity) Hc') as Hns.
      assert (HA' : 0 <= M' * 2 ^ e' * Zpos d).
      { destruct Hc' as (HM & He & _). pose proof (pow2_gt0 e' ltac:(lia)). apply Z.mul_nonneg_nonneg; [apply Z.mul_nonneg_nonneg|]; lia. }
      destruct (Z.eq_dec (M * 2 ^ e) (M' * 2 ^ e')) as [Hmag|Hmag].
      + (* same magnitude, different sign: then the magnitude is 0 or q = 0, so M = 0 *)
        destruct (canon_unique f Hf _ _ _ _ Hcb Hc' Hmag) as [-> ->].
        assert (HM0 : M' = 0).
        { destruct (Z.eq_dec M' 0) as [|HMne]; [assumption|].
          assert (Hss : s <> s') by (intros ->; apply Hne'; reflexivity).
          set (NS := n * Zpos (Sf f)) in *. set (A := M' * 2 ^ e' * Zpos d) in *.
          replace (sgnZ s M' * 2 ^ e' * Zpos d) with (sgnZ s A) in Heq by (unfold sgnZ, A; destruct s; ring).
          replace (sgnZ s' M' * 2 ^ e' * Zpos d) with (sgnZ s' A) in Heq by (unfold sgnZ, A; destruct s'; ring).
          assert (NS = 0 \/ A = 0) by (unfold sgnZ in Heq; destruct s, s'; try congruence; lia).
          destruct H as [HNS|HA0].
          - rewrite HNS in Hn. cbn [Z.abs] in Hn. eapply near_zero_M; [exact Hn|exact Hc'|reflexivity].
          - exfalso. unfold A in HA0. destruct Hc' as (HM & He & _). pose proof (pow2_gt0 e' ltac:(lia)).
            apply Z.mul_eq_0 in HA0. destruct HA0 as [HA0|HA0]; [|discriminate].
            apply Z.mul_eq_0 in HA0. destruct HA0; lia. }
        subst M'. reflexivity.
      + eapply (near_tie_even f Hf M e _ _ M' e' Hn Hcb ltac:(reflexivity) Hc' Hmag).
        set (NS := n * Zpos (Sf f)) in *. set (A := M * 2 ^ e * Zpos d) in *. set (A' := M' * 2 ^ e' * Zpos d) in *.
        replace (sgnZ s M * 2 ^ e * Zpos d) with (sgnZ s A) in Heq by (unfold sgnZ, A; destruct s; ring).
        replace (sgnZ s' M' * 2 ^ e' * Zpos d) with (sgnZ s' A') in Heq by (unfold sgnZ, A'; destruct s'; ring).
        destruct Hsign as [HM0|Hs].
        * assert (A = 0) by (unfold A; rewrite HM0; ring). unfold sgnZ in Heq. destruct s, s'; lia.
        * subst s. unfold sgnZ in Heq. destruct (n <? 0) eqn:En.
          -- assert (NS < 0) by (apply Hnlt; reflexivity). destruct s'; lia.
          -- assert (~ NS < 0) by (intros Hc; apply Hnlt in Hc; discriminate). destruct s'; lia.
  Qed.

  Lemma is_nearest_inf_sound s q : is_nearest f (FInf s) q = true -> rounds_to f (FInf s) q.
  Proof.
    destruct q as [n d]. unfold is_nearest, overflows, scaledX, scaledY, max_plus_half. cbn [Qnum Qden rounds_to].
    rewrite andb_true_iff, Z.leb_le. intros [Ho Hs]. apply Bool.eqb_prop in Hs. split; [|exact Hs].
    unfold Qle, Qabs, max_plus_half. cbn [Qnum Qden]. change (2 * Sf f)%positive with (xO (Sf f)).
    rewrite (Pos2Z.inj_xO (Sf f)), (Sf_eq f Hf). lia.
  Qed.

  Theorem is_nearest_sound v q : is_nearest f v q = true -> rounds_to f v q.
  Proof.
    destruct v as [s M e|s|]; [apply is_nearest_fin_sound|apply is_nearest_inf_sound|discriminate].
  Qed.
End NearQ.

(* ---------- uniqueness ---------- *)
Definition fval_eqv (a b : fval) : Prop :=
  match a, b with
  | FFin s M e, FFin s' M' e' => M = M' /\ e = e' /\ (M = 0 \/ s = s')
  | FInf s, FInf s' => s = s'
  | _, _ => False
  end.

Section Unique.
  Variable f : fmt.
  Hypothesis Hf : fmt_ok f.

  Lemma near_not_overflow M e X Y :
    near f M e X Y = true -> canon f M e -> 0 < Y -> overflows f X Y = false.
  Proof.
    intros Hn (HM & He & HnM) HY.
    destruct (near_bounds f _ _ _ _ Hn) as (Hup & _ & Eup & _).
    unfold overflows. apply Z.leb_gt. rewrite (pow2_prec f Hf).
    set (P := 2 ^ (fprec f - 1)) in *.
    pose proof (P_pos f Hf) as HP. fold P in HP.
    pose proof (pow2_gt0 e ltac:(lia)) as Hu.
    assert (HuE : 2 ^ e <= 2 ^ femax f) by (apply Z.pow_le_mono_r; lia).
    assert (HuY : 2 ^ e * Y <= 2 ^ femax f * Y) by (apply Z.mul_le_mono_nonneg_r; lia).
    assert (HuY0 : 0 < 2 ^ e * Y) by (apply Z.mul_pos_pos; lia).
    set (UY := 2 ^ e * Y) in *. set (EY := 2 ^ femax f * Y) in *.
    replace ((4 * M + 2) * 2 ^ e * Y) with ((4 * M + 2) * UY) in * by (unfold UY; ring).
    replace ((4 * (2 * P) - 2) * 2 ^ femax f * Y) with ((8 * P - 2) * EY) by (unfold EY; ring).
    destruct (Z.eq_dec M (2 * P - 1)) as [HMmax|HMne].
    - assert (Hodd : Z.even M <> true).
      { intros Hev. apply Z.even_spec in Hev. destruct Hev as [m Hm]. lia. }
      assert (4 * X <> (4 * M + 2) * UY) by (intros Hc; apply Hodd, Eup, Hc).
      assert ((4 * M + 2) * UY <= (8 * P - 2) * EY) by (apply Z.mul_le_mono_nonneg; lia).
      lia.
    - assert ((4 * M + 2) * UY <= (8 * P - 6) * EY) by (apply Z.mul_le_mono_nonneg; lia).
      lia.
  Qed.

  Theorem is_nearest_unique v1 v2 q :
    is_nearest f v1 q = true -> is_nearest f v2 q = true -> fval_eqv v1 v2.
  Proof.
    destruct q as [n d]. unfold is_nearest. cbn [Qnum Qden].
    destruct v1 as [s1 M1 e1|s1|], v2 as [s2 M2 e2|s2|]; try discriminate;
      rewrite ?andb_true_iff, ?orb_true_iff; cbn [fval_eqv].
    - intros (Hc1 & Hn1 & Hs1) (Hc2 & Hn2 & Hs2).
      apply (canonb_spec f _ _ Hf) in Hc1. apply (canonb_spec f _ _ Hf) in Hc2.
      destruct (near_unique f Hf _ _ _ _ _ _ Hn1 Hn2 Hc1 Hc2 ltac:(reflexivity)) as [-> ->].
      split; [reflexivity|split; [reflexivity|]].
      destruct Hs1 as [H0|H1]; [left; apply Z.eqb_eq; exact H0|].
      destruct Hs2 as [H0|H2]; [left; apply Z.eqb_eq; exact H0|].
      right. apply Bool.eqb_prop in H1, H2. congruence.
    - intros (Hc1 & Hn1 & _) (Ho & _). apply (canonb_spec f _ _ Hf) in Hc1.
      rewrite (near_not_overflow _ _ _ _ Hn1 Hc1 ltac:(reflexivity)) in Ho. discriminate.
    - intros (Ho & _) (Hc1 & Hn1 & _). apply (canonb_spec f _ _ Hf) in Hc1.
      rewrite (near_not_overflow _ _ _ _ Hn1 Hc1 ltac:(reflexivity)) in Ho. discriminate.
    - intros (_ & H1) (_ & H2). apply Bool.eqb_prop in H1, H2. congruence.
  Qed.

  (* the rounding function of the faithful model is correct by construction *)
  Lemma round_ne_sound q v : round_ne f q = Some v -> is_nearest f v q = true.
  Proof.
    unfold round_ne.
    destruct (is_nearest f (fin_or_inf f _ (floor_me f _ _)) q) eqn:E0; [intros H; injection H as <-; exact E0|].
    destruct (is_nearest f (fin_or_inf f _ (succ_me f _)) q) eqn:E1; [intros H; injection H as <-; exact E1|discriminate].
  Qed.
End Unique.

(* ================================================================== *)
(* C/D. what an accepted observation means                              *)
(* ================================================================== *)
Local Open Scope string_scope.
Local Open Scope Z_scope.

Lemma fmt_of_ok w : fmt_ok (fmt_of w).
Proof. destruct w; [apply f32_ok|apply f64_ok]. Qed.

(* the property, for one expectation and one observation of the implementation *)
Definition spec_holds (x : expect) (o : obs) : Prop :=
  match x with
  | XNear w32 k q =>
      exists bits v, o = OVal (KS k (Zx bits)) /\ decode_bits (fmt_of w32) bits = Some v /\ rounds_to (fmt_of w32) v q
  | XInt k sb n =>
      (fits sb n = true /\ o = OVal (KS k (Zx n))) \/
      (fits sb n = false /\
       (o = OVal (KS k (Zx (clamp (kind_lo sb) (kind_hi sb) n))) \/ is_rejected o = true))
  | XRat n d =>
      (* the observed a/b is in lowest terms with b > 0 and equals n/d (cross-multiplied) *)
      (exists a b, o = OVal (KS "r64" (Lx [Zx a; Zx b])) /\ 0 < b /\ Z.gcd a b = 1 /\ a * d = n * b) \/
      (is_rejected o = true /\ (i64_fits n = false \/ i64_fits d = false))
  | XErr => is_rejected o = true
  | XCplx re im =>
      exists a b va vb, o = OVal (KS "c64" (Lx [Zx a; Zx b])) /\
        decode_bits f64 a = Some va /\ decode_bits f64 b = Some vb /\
        rounds_to f64 va re /\ rounds_to f64 vb im
  | XAdv _ => True
  end.

Definition C13_spec (l : lit) (o : obs) : Prop := spec_holds (expected l) o.

Lemma is_nearest_bits_sound f bits q :
  fmt_ok f -> is_nearest_bits f bits q = true ->
  exists v, decode_bits f bits = Some v /\ rounds_to f v q.
Proof.
  intros Hf. unfold is_nearest_bits. destruct (decode_bits f bits) as [v|]; [|discriminate].
  intros H. exists v. split; [reflexivity|apply is_nearest_sound; assumption].
Qed.

Lemma spec_tag_sound x o t : spec_tag x o = Some t -> spec_holds x o.
Proof.
  destruct x as [w32 k q|k sb n|n d| |re im|tag]; cbn [spec_tag spec_holds]; intros H.
  - destruct o as [[k' e|]| | | |]; try discriminate. destruct e as [bits| | |]; try discriminate.
    destruct (andb (String.eqb k k') _) eqn:E; [|discriminate].
    apply andb_true_iff in E. destruct E as [Ek En]. apply String.eqb_eq in Ek. subst k'.
    destruct (is_nearest_bits_sound _ _ _ (fmt_of_ok w32) En) as (v & Hd & Hr).
    exists bits, v. auto.
  - destruct (fits sb n) eqn:Ef.
    + left. split; [reflexivity|].
      destruct o as [[k' e|]| | | |]; try discriminate. destruct e as [v| | |]; try discriminate.
      destruct (andb (String.eqb k k') (v =? n)) eqn:E; [|discriminate].
      apply andb_true_iff in E. destruct E as [Ek Ev]. apply String.eqb_eq in Ek. apply Z.eqb_eq in Ev. subst. reflexivity.
    + right. split; [reflexivity|].
      destruct o as [[k' e|k' m]| | | |]; cbn [is_rejected] in *; try discriminate; auto.
      destruct e as [v| | |]; try discriminate.
      destruct (andb (String.eqb k k') _) eqn:E; [|discriminate].
      apply andb_true_iff in E. destruct E as [Ek Ev]. apply String.eqb_eq in Ek. apply Z.eqb_eq in Ev. subst. left. reflexivity.
  - assert (Hrej : forall o', (if andb (is_rejected o') (negb (andb (i64_fits n) (i64_fits d))) then Some "rejected" else None) = Some t ->
                   is_rejected o' = true /\ (i64_fits n = false \/ i64_fits d = false)).
    { intros o'. destruct (is_rejected o'); cbn [andb]; [|discriminate].
      destruct (i64_fits n), (i64_fits d); cbn; try discriminate; auto. }
    destruct o as [[k' e|k' m]| | | |]; try (solve [right; apply (Hrej _ H)|cbn in H; discriminate]).
    destruct e as [v|s|s|l]; try (solve [right; apply (Hrej _ H)|cbn in H; discriminate]).
    destruct l as [|a l]; try (solve [right; apply (Hrej _ H)|cbn in H; discriminate]).
    destruct a as [a|s|s|l']; try (solve [right; apply (Hrej _ H)|cbn in H; discriminate]).
    destruct l as [|b l]; try (solve [right; apply (Hrej _ H)|cbn in H; discriminate]).
    destruct b as [b|s|s|l']; try (solve [right; apply (Hrej _ H)|cbn in H; discriminate]).
    destruct l as [|c l]; try (solve [right; apply (Hrej _ H)|cbn in H; discriminate]).
    destruct (andb (String.eqb k' "r64") _) eqn:E; [|discriminate].
    rewrite !andb_true_iff in E. destruct E as (Ek & (Eb & Eg) & Ec).
    apply String.eqb_eq in Ek. apply Z.ltb_lt in Eb. apply Z.eqb_eq in Eg, Ec. subst k'.
    left. exists a, b. auto.
  - exact (proj1 (Bool.not_false_iff_true _) (fun Hc => ltac:(rewrite Hc in H; discriminate))).
  - destruct o as [[k' e|k' m]| | | |]; try discriminate.
    destruct e as [v|s|s|l]; try discriminate.
    destruct l as [|a l]; try discriminate. destruct a as [a|s|s|l']; try discriminate.
    destruct l as [|b l]; try discriminate. destruct b as [b|s|s|l']; try discriminate.
    destruct l as [|c l]; try discriminate.
    destruct (andb (String.eqb k' "c64") _) eqn:E; [|discriminate].
    rewrite !andb_true_iff in E. destruct E as (Ek & Ea & Eb). apply String.eqb_eq in Ek. subst k'.
    destruct (is_nearest_bits_sound _ _ _ f64_ok Ea) as (va & Hda & Hra).
    destruct (is_nearest_bits_sound _ _ _ f64_ok Eb) as (vb & Hdb & Hrb).
    exists a, b, va, vb. auto 6.
  - exact I.
Qed.

(* the judge's `ok` transports the property to the observation it was given *)
Theorem judge_lit_sound l o tag : judge_lit l o = v_ok tag -> C13_spec l o.
Proof.
  unfold judge_lit, C13_spec.
  destruct (expected l) as [w32 k q|k sb n|n d| |re im|t] eqn:Ex;
    try (destruct (spec_tag _ o) as [t'|] eqn:Es;
         [intros _; eapply spec_tag_sound; exact Es
         |destruct (kf_try l o); [|destruct (kf_try (as_inline l) o)]; discriminate]).
  discriminate.
Qed.

(* ================================================================== *)
(* C. what the expectation is for the forms named in the property       *)
(* ================================================================== *)
Lemma int_kind_not_float k sb : int_kind k = Some sb -> float_kind k = None.
Proof.
  unfold float_kind. destruct (String.eqb k "f64") eqn:E1.
  - apply String.eqb_eq in E1. subst k. discriminate.
  - destruct (String.eqb k "f32") eqn:E2; [|reflexivity].
    apply String.eqb_eq in E2. subst k. discriminate.
Qed.

(* based literals of the documented grammar: exactly their value, kind i64 *)
Lemma based_exact (neg : bool) p w base n o :
  base_of_prefix p = Some base -> wf_plain base w = true -> dval base w = Some n ->
  i64_fits (if neg then - n else n) = true ->
  C13_spec (LReal neg (BBased p w) ANone) o -> o = OVal (KS "i64" (Zx (if neg then - n else n))).
Proof.
  intros Hb Hw Hd Hfit. unfold C13_spec, expected, expected_real.
  cbn [body_gram]. rewrite Hb, Hw. cbn [is_int_body negb andb frac_exp].
  unfold denote. cbn [body_Q body_Z]. rewrite Hb, Hd. cbn [option_map kind_of_ann is_based spec_holds].
  unfold i64_fits in Hfit. rewrite Hfit. intros [[_ H]|[H _]]; [exact H|discriminate].
Qed.

(* beyond i64 an unannotated based literal may only be clamped or rejected *)
Lemma based_too_big (neg : bool) p w base n o :
  base_of_prefix p = Some base -> wf_plain base w = true -> dval base w = Some n ->
  i64_fits (if neg then - n else n) = false ->
  C13_spec (LReal neg (BBased p w) ANone) o ->
  o = OVal (KS "i64" (Zx (clamp (kind_lo i64sb) (kind_hi i64sb) (if neg then - n else n)))) \/ is_rejected o = true.
Proof.
  intros Hb Hw Hd Hfit. unfold C13_spec, expected, expected_real.
  cbn [body_gram]. rewrite Hb, Hw. cbn [is_int_body negb andb frac_exp].
  unfold denote. cbn [body_Q body_Z]. rewrite Hb, Hd. cbn [option_map kind_of_ann is_based spec_holds].
  unfold i64_fits in Hfit. rewrite Hfit. intros [[H _]|[_ H]]; [discriminate|exact H].
Qed.

Definition ann_of (style : nat) (k : string) : ann :=
  match style with O => ASuffix k | S O => AInline k | _ => ADefine k end.

(* decimal integers with an integer kind as suffix, inline annotation or on a definition:
   exact if the value fits the kind, otherwise the kind's nearest bound or an error *)
Lemma suffixed_exact_or_clamped (neg : bool) w n style k sb o :
  wf_dseq 10 w = true -> dval 10 w = Some n -> int_kind k = Some sb ->
  andb neg (andb (negb (is_define (ann_of style k))) (andb (negb (fst sb)) (n =? 0))) = false ->
  C13_spec (LReal neg (BInt w) (ann_of style k)) o ->
  let v := if neg then - n else n in
  (fits sb v = true /\ o = OVal (KS k (Zx v))) \/
  (fits sb v = false /\ (o = OVal (KS k (Zx (clamp (kind_lo sb) (kind_hi sb) v))) \/ is_rejected o = true)).
Proof.
  intros Hw Hd Hk Hcorner. unfold C13_spec, expected, expected_real.
  cbn [body_gram]. rewrite Hw. cbn [is_int_body negb andb frac_exp].
  rewrite andb_false_r.
  unfold denote. cbn [body_Q body_Z]. rewrite Hd. cbn [option_map].
  assert (Hka : kind_of_ann (ann_of style k) = Some k) by (destruct style as [|[|?]]; reflexivity).
  rewrite Hka, (int_kind_not_float _ _ Hk), Hk. cbn [is_based andb]. rewrite Hcorner, andb_false_r.
  cbn [spec_holds]. intros H. exact H.
Qed.

Lemma rational_expected (neg : bool) ns ds n d :
  wf_dseq 10 ns = true -> wf_dseq 10 ds = true -> dval 10 ns = Some n -> dval 10 ds = Some d ->
  expected (LReal neg (BRat ns ds) ANone) = if d =? 0 then XErr else XRat (if neg then - n else n) d.
Proof.
  intros Hn Hd En Ed. unfold expected, expected_real. cbn [body_gram]. rewrite Hn, Hd.
  cbn [andb is_int_body negb frac_exp]. rewrite En, Ed. reflexivity.
Qed.

(* rationals: the reduced fraction with positive denominator (or, beyond i64, an error) *)
Lemma rational_reduced (neg : bool) ns ds n d o :
  wf_dseq 10 ns = true -> wf_dseq 10 ds = true -> dval 10 ns = Some n -> dval 10 ds = Some d -> d <> 0 ->
  C13_spec (LReal neg (BRat ns ds) ANone) o ->
  let v := if neg then - n else n in
  (exists a b, o = OVal (KS "r64" (Lx [Zx a; Zx b])) /\ 0 < b /\ Z.gcd a b = 1 /\ a * d = v * b) \/
  (is_rejected o = true /\ (i64_fits v = false \/ i64_fits d = false)).
Proof.
  intros Hn Hd En Ed Hne. unfold C13_spec. rewrite (rational_expected neg ns ds n d Hn Hd En Ed).
  apply Z.eqb_neq in Hne. rewrite Hne. cbn [spec_holds]. intros H; exact H.
Qed.

Lemma zero_denominator_err neg ns ds n o :
  wf_dseq 10 ns = true -> wf_dseq 10 ds = true -> dval 10 ns = Some n -> dval 10 ds = Some 0 ->
  C13_spec (LReal neg (BRat ns ds) ANone) o -> is_rejected o = true.
Proof.
  intros Hn Hd En Ed. unfold C13_spec. rewrite (rational_expected neg ns ds n 0 Hn Hd En Ed).
  cbn [Z.eqb spec_holds]. intros H; exact H.
Qed.

(* plain decimal integers and floats: a correctly rounded double *)
Lemma decimal_expected neg b q :
  (is_int_body b = true \/ (exists w f, b = BFloat w f)) -> body_gram b = GOk -> body_Q b = Some q ->
  expected (LReal neg b ANone) = XNear false "f64" (Qneg_if neg q).
Proof.
  intros Hform Hg Hq. unfold expected, expected_real. rewrite Hg. cbn [andb].
  destruct Hform as [Hi|(w & f & ->)].
  - destruct b; try discriminate. cbn [frac_exp]. unfold denote. rewrite Hq. cbn [option_map kind_of_ann body_Z is_based].
    destruct (dval 10 w); reflexivity.
  - cbn [frac_exp]. unfold denote. rewrite Hq. reflexivity.
Qed.

(* ---------- denotation lemmas ---------- *)
Lemma body_Q_int_underscores w : body_Q (BInt (strip_us w)) = body_Q (BInt w).
Proof. cbn [body_Q]. rewrite dval_underscores_ignored. reflexivity. Qed.

Lemma body_Q_float_underscores w f : body_Q (BFloat (strip_us w) (strip_us f)) = body_Q (BFloat w f).
Proof.
  cbn [body_Q]. unfold mant_parts. rewrite !dval_underscores_ignored, !ndig_strip. reflexivity.
Qed.

Lemma pow10_pos z : 0 <= z -> 0 < pow10 z.
Proof. intros. unfold pow10. apply Z.pow_pos_nonneg; lia. Qed.

(* m with k fraction digits and decimal exponent x is  m * 10^(x-k) *)
Lemma sci_Q_val m k x : (sci_Q m k x == inject_Z m * Qpower (inject_Z 10) (x - k))%Q.
Proof.
  unfold sci_Q. destruct (0 <=? x - k) eqn:E.
  - apply Z.leb_le in E. unfold pow10.
    change ((m * 10 ^ (x - k)) # 1) with (inject_Z (m * 10 ^ (x - k))).
    rewrite inject_Z_mult, Zpower_Qpower by exact E. reflexivity.
  - apply Z.leb_gt in E.
    replace (x - k) with (- (k - x)) by lia.
    rewrite Qpower_opp, <- Zpower_Qpower by lia.
    rewrite Qmake_Qdiv. unfold Zpos'. rewrite Z2Pos.id by (apply pow10_pos; lia).
    unfold pow10, Qdiv. reflexivity.
Qed.

(* the exponent shifts by powers of ten *)
Lemma sci_Q_shift m k x : (sci_Q m k x == sci_Q m k 0 * Qpower (inject_Z 10) x)%Q.
Proof.
  rewrite !sci_Q_val. replace (x - k) with ((0 - k) + x) by lia.
  rewrite Qpower_plus by discriminate. ring.
Qed.

Lemma body_Q_sci w f e sg ew m k x s :
  mant_parts w f = Some (m, k) -> dval 10 ew = Some x -> exp_sign sg = Some s ->
  exists q, body_Q (BSci w f e sg ew None) = Some q /\
            (q == sci_Q m k 0 * Qpower (inject_Z 10) (if s then - x else x))%Q.
Proof.
  intros Hm Hx Hs. cbn [body_Q]. rewrite Hm, Hx, Hs. eexists. split; [reflexivity|apply sci_Q_shift].
Qed.

(* ================================================================== *)
(* E. the known findings: the faithful model predicts an observation    *)
(*    that contradicts the property                                     *)
(* ================================================================== *)
Definition refutes (id : string) (l : lit) (o : obs) : Prop :=
  kf_name l = Some id /\ predicted l o = true /\ ~ C13_spec l o /\ judge_lit l o = v_kf id.

Ltac canon_by_compute :=
  match goal with |- canon ?f ?M ?e => apply (proj1 (canonb_spec f M e ltac:(first [exact f64_ok|exact f32_ok]))); vm_compute; reflexivity end.

(* a float that is strictly closer shows that v is not a nearest float *)
Lemma not_rounds_to_closer f s M e q s' M' e' :
  canon f M' e' ->
  ~ (Qabs (q - fin_Q f s M e) <= Qabs (q - fin_Q f s' M' e'))%Q ->
  ~ rounds_to f (FFin s M e) q.
Proof. intros Hc Hn (_ & Hle & _). apply Hn, Hle, Hc. Qed.

(* 1e-3 (the specification's own example): an error *)
Definition w_sci_int : lit := LReal false (BSci "1" None "e" "-" "3" None) ANone.
Lemma refuted_sci_int_mantissa : refutes "sci-int-mantissa" w_sci_int OErr.
Proof.
  split; [vm_compute; reflexivity|]. split; [vm_compute; reflexivity|]. split; [|vm_compute; reflexivity].
  unfold C13_spec. assert (E : expected w_sci_int = XNear false "f64" (1 # 1000)) by (vm_compute; reflexivity).
  rewrite E. cbn [spec_holds]. intros (bits & v & Ho & _). discriminate.
Qed.

(* 4.35e2 evaluates to 434.99999999999994 = 0x407B2FFFFFFFFFFF; 435 is a double *)
Definition w_sci_dr : lit := LReal false (BSci "4" (Some "35") "e" "" "2" None) ANone.
Definition o_sci_dr : obs := OVal (KS "f64" (Zx 4646360217120931839)).
Lemma refuted_sci_double_round : refutes "sci-double-round" w_sci_dr o_sci_dr.
Proof.
  split; [vm_compute; reflexivity|]. split; [vm_compute; reflexivity|]. split; [|vm_compute; reflexivity].
  unfold C13_spec. assert (E : expected w_sci_dr = XNear false "f64" (435 # 1)) by (vm_compute; reflexivity).
  rewrite E. cbn [spec_holds fmt_of]. intros (bits & v & Ho & Hd & Hr).
  injection Ho as <-. vm_compute in Hd. injection Hd as <-.
  revert Hr. apply (not_rounds_to_closer f64 _ _ _ _ false (435 * 2 ^ 44) 1030); [canon_by_compute|].
  unfold Qle. intros H. vm_compute in H. apply H. reflexivity.
Qed.

(* 9007199254740993u64 (2^53+1) evaluates to 9007199254740992 *)
Definition w_int_f64 : lit := LReal false (BInt "9007199254740993") (ASuffix "u64").
Definition o_int_f64 : obs := OVal (KS "u64" (Zx 9007199254740992)).
Lemma refuted_int_via_f64 : refutes "int-via-f64" w_int_f64 o_int_f64.
Proof.
  split; [vm_compute; reflexivity|]. split; [vm_compute; reflexivity|]. split; [|vm_compute; reflexivity].
  unfold C13_spec. assert (E : expected w_int_f64 = XInt "u64" (false, 64) 9007199254740993) by (vm_compute; reflexivity).
  rewrite E. cbn [spec_holds]. intros [[_ H]|[H _]]; [discriminate H|vm_compute in H; discriminate H].
Qed.

(* -128<i8> evaluates to -127: the dash negates the already clamped 128<i8> *)
Definition w_neg : lit := LReal true (BInt "128") (AInline "i8").
Definition o_neg : obs := OVal (KS "i8" (Zx (-127))).
Lemma refuted_neg_after_typing : refutes "neg-after-typing" w_neg o_neg.
Proof.
  split; [vm_compute; reflexivity|]. split; [vm_compute; reflexivity|]. split; [|vm_compute; reflexivity].
  unfold C13_spec. assert (E : expected w_neg = XInt "i8" (true, 8) (-128)) by (vm_compute; reflexivity).
  rewrite E. cbn [spec_holds]. intros [[_ H]|[H _]]; [discriminate H|vm_compute in H; discriminate H].
Qed.

(* 0d300<u8> evaluates to 44 = 300 mod 256 *)
Definition w_based : lit := LReal false (BBased "0d" "300") (AInline "u8").
Definition o_based : obs := OVal (KS "u8" (Zx 44)).
Lemma refuted_based_via_i64 : refutes "based-via-i64" w_based o_based.
Proof.
  split; [vm_compute; reflexivity|]. split; [vm_compute; reflexivity|]. split; [|vm_compute; reflexivity].
  unfold C13_spec. assert (E : expected w_based = XInt "u8" (false, 8) 300) by (vm_compute; reflexivity).
  rewrite E. cbn [spec_holds]. intros [[H _]|[_ [H|H]]]; [vm_compute in H; discriminate H|vm_compute in H; discriminate H|discriminate H].
Qed.

(* 7i8 is read as the complex literal 7i followed by text: the line becomes prose *)
Definition w_suffix : lit := LReal false (BInt "7") (ASuffix "i8").
Definition o_suffix : obs := OOther (Lx [Ax "id"; Zx 15130871412783076140]).
Lemma refuted_signed_suffix : refutes "signed-suffix" w_suffix o_suffix.
Proof.
  split; [vm_compute; reflexivity|]. split; [vm_compute; reflexivity|]. split; [|vm_compute; reflexivity].
  unfold C13_spec. assert (E : expected w_suffix = XInt "i8" (true, 8) 7) by (vm_compute; reflexivity).
  rewrite E. cbn [spec_holds]. intros [[_ H]|[H _]]; [discriminate H|vm_compute in H; discriminate H].
Qed.

(* 1.00000005960464477539062500000000001<f32> (just above the midpoint of 1 and 1+2^-23)
   evaluates to 1.0: rounded to f64 first (exactly the midpoint), then to f32 (tie to even) *)
Definition w_f32 : lit := LReal false (BFloat "1" "00000005960464477539062500000000001") (AInline "f32").
Definition o_f32 : obs := OVal (KS "f32" (Zx 1065353216)).
Lemma refuted_f32_via_f64 : refutes "f32-via-f64" w_f32 o_f32.
Proof.
  split; [vm_compute; reflexivity|]. split; [vm_compute; reflexivity|]. split; [|vm_compute; reflexivity].
  unfold C13_spec.
  assert (E : expected w_f32 = XNear true "f32" (100000005960464477539062500000000001 # 100000000000000000000000000000000000))
    by (vm_compute; reflexivity).
  rewrite E. cbn [spec_holds fmt_of]. intros (bits & v & Ho & Hd & Hr).
  injection Ho as <-. vm_compute in Hd. injection Hd as <-.
  revert Hr. apply (not_rounds_to_closer f32 _ _ _ _ false (2 ^ 23 + 1) 126); [canon_by_compute|].
  unfold Qle. intros H. vm_compute in H. apply H. reflexivity.
Qed.

(* -3+4i evaluates to -3-4i: the dash negates the whole complex number *)
Definition w_cplx : lit := LCplx true (BInt "3") "+" (BInt "4") "i".
Definition o_cplx : obs := OVal (KS "c64" (Lx [Zx 13837309855095848960; Zx 13839561654909534208])).
Lemma refuted_neg_complex : refutes "neg-complex" w_cplx o_cplx.
Proof.
  split; [vm_compute; reflexivity|]. split; [vm_compute; reflexivity|]. split; [|vm_compute; reflexivity].
  unfold C13_spec. assert (E : expected w_cplx = XCplx (-3 # 1) (4 # 1)) by (vm_compute; reflexivity).
  rewrite E. cbn [spec_holds]. intros (a & b & va & vb & Ho & Hda & Hdb & Hra & Hrb).
  injection Ho as <- <-. vm_compute in Hdb. injection Hdb as <-.
  destruct Hrb as (_ & _ & _ & [H|H]); vm_compute in H; discriminate H.
Qed.

(* ================================================================== *)
(* F. outside the known-finding classes the faithful model satisfies    *)
(*    the property                                                      *)
(* ================================================================== *)
Ltac Zify.zify_post_hook ::= Z.to_euclidean_division_equations.

Definition fval_wf (f : fmt) (v : fval) : Prop :=
  match v with FFin s M e => canon f M e | FInf _ => True | FNan => False end.

Lemma decode_encode_f64 v : fval_wf f64 v -> decode_bits f64 (encode_bits f64 v) = Some v.
Proof.
  destruct v as [s M e|s|]; cbn [fval_wf]; [|intros _; destruct s; vm_compute; reflexivity|contradiction].
  unfold canon. change (fprec f64) with 53. change (femax f64) with 2045.
  change (2 ^ (53 - 1)) with 4503599627370496.
  intros (HM & He & Hn).
  unfold decode_bits, encode_bits.
  change (fprec f64 - 1) with 52. change (fexpbits f64) with 11.
  change (52 + 11 + 1) with 64. change (64 - 1) with 63. change (52 + 11) with 63.
  change (2 ^ 64) with 18446744073709551616. change (2 ^ 63) with 9223372036854775808.
  change (2 ^ 52) with 4503599627370496. change (2 ^ 11) with 2048. change (2048 - 1) with 2047.
  set (S := if s then 9223372036854775808 else 0).
  assert (HS : S = 0 /\ s = false \/ S = 9223372036854775808 /\ s = true) by (unfold S; destruct s; auto).
  destruct (M <? 4503599627370496) eqn:EM.
  - apply Z.ltb_lt in EM. assert (e = 0) by lia. subst e.
    set (b := S + M).
    assert (Hb : 0 <= b < 18446744073709551616) by (unfold b; lia).
    assert (H1 : (0 <? b / 9223372036854775808) = s).
    { unfold b. destruct HS as [[-> ->]|[-> ->]]; [apply Z.ltb_ge|apply Z.ltb_lt]; lia. }
    assert (H2 : (b / 4503599627370496) mod 2048 = 0) by (unfold b; lia).
    assert (H3 : b mod 4503599627370496 = M) by (unfold b; lia).
    replace (andb (0 <=? b) (b <? 18446744073709551616)) with true
      by (symmetry; apply andb_true_iff; split; [apply Z.leb_le|apply Z.ltb_lt]; lia).
    rewrite H1, H2, H3. reflexivity.
  - apply Z.ltb_ge in EM.
    set (b := S + (e + 1) * 4503599627370496 + (M - 4503599627370496)).
    assert (Hb : 0 <= b < 18446744073709551616) by (unfold b; lia).
    assert (H1 : (0 <? b / 9223372036854775808) = s).
    { unfold b. destruct HS as [[-> ->]|[-> ->]]; [apply Z.ltb_ge|apply Z.ltb_lt]; lia. }
    assert (H2 : (b / 4503599627370496) mod 2048 = e + 1) by (unfold b; lia).
    assert (H3 : b mod 4503599627370496 = M - 4503599627370496) by (unfold b; lia).
    replace (andb (0 <=? b) (b <? 18446744073709551616)) with true
      by (symmetry; apply andb_true_iff; split; [apply Z.leb_le|apply Z.ltb_lt]; lia).
    rewrite H1, H2, H3.
    replace (e + 1 =? 2047) with false by (symmetry; apply Z.eqb_neq; lia).
    replace (e + 1 =? 0) with false by (symmetry; apply Z.eqb_neq; lia).
    f_equal. f_equal; lia.
Qed.

Lemma overflows_pos f Y : fmt_ok f -> 0 < Y -> overflows f 0 Y = false.
Proof.
  intros Hf HY. unfold overflows. apply Z.leb_gt. rewrite (pow2_prec f Hf).
  pose proof (P_pos f Hf) as HP. destruct Hf as (_ & _ & He).
  pose proof (pow2_gt0 (femax f) He) as HE.
  assert (0 < (4 * (2 * 2 ^ (fprec f - 1)) - 2) * 2 ^ femax f) by (apply Z.mul_pos_pos; lia).
  change (4 * 0) with 0. apply Z.mul_pos_pos; lia.
Qed.

Lemma is_nearest_neg f v q : fmt_ok f -> is_nearest f v q = true -> is_nearest f (fneg v) (Qopp q) = true.
Proof.
  intros Hf. destruct q as [n d]. unfold is_nearest, scaledX, scaledY. cbn [Qopp Qnum Qden].
  rewrite Z.abs_opp.
  destruct (Z.eq_dec n 0) as [->|Hn].
  - destruct v as [s M e|s|]; cbn [fneg]; [| |discriminate].
    + rewrite !andb_true_iff. intros (Hc & Hnear & _). split; [exact Hc|split; [exact Hnear|]].
      cbn [Z.abs Z.mul] in Hnear.
      rewrite (near_zero_M f M e _ Hnear (proj1 (canonb_spec f M e Hf) Hc) ltac:(reflexivity)). reflexivity.
    + cbn [Z.abs Z.mul]. rewrite (overflows_pos f (Zpos d) Hf ltac:(reflexivity)). discriminate.
  - assert (Hs : (- n <? 0) = negb (n <? 0)).
    { destruct (n <? 0) eqn:E; [apply Z.ltb_lt in E; apply Z.ltb_ge; lia|apply Z.ltb_ge in E; apply Z.ltb_lt; lia]. }
    destruct v as [s M e|s|]; cbn [fneg]; [| |discriminate]; rewrite Hs.
    + rewrite !andb_true_iff, !orb_true_iff. intros (Hc & Hnear & Hsg). split; [exact Hc|split; [exact Hnear|]].
      destruct Hsg as [H0|H1]; [left; exact H0|right]. destruct s, (n <? 0); cbn in *; congruence.
    + rewrite !andb_true_iff. intros (Ho & Hsg). split; [exact Ho|]. destruct s, (n <? 0); cbn in *; congruence.
Qed.

Lemma is_nearest_neg_if f v q (neg : bool) :
  fmt_ok f -> is_nearest f v q = true -> is_nearest f (fneg_if neg v) (Qneg_if neg q) = true.
Proof. intros Hf H. destruct neg; cbn [fneg_if Qneg_if]; [apply is_nearest_neg; assumption|exact H]. Qed.

Lemma is_nearest_wf f v q : fmt_ok f -> is_nearest f v q = true -> fval_wf f v.
Proof.
  intros Hf. destruct v as [s M e|s|]; cbn [fval_wf]; [|trivial|discriminate].
  unfold is_nearest. rewrite andb_true_iff. intros [Hc _]. apply (canonb_spec f M e Hf). exact Hc.
Qed.

Lemma sx_eqb_Zx z e : sx_eqb (Zx z) e = true -> e = Zx z.
Proof. destruct e; cbn [sx_eqb]; try discriminate. intros H. apply Z.eqb_eq in H. congruence. Qed.

Lemma kval_eqb_KS_Zx k z v' : kval_eqb (KS k (Zx z)) v' = true -> v' = KS k (Zx z).
Proof.
  destruct v' as [k' e'|k' m']; cbn [kval_eqb]; [|discriminate].
  rewrite andb_true_iff. intros [Hk He]. apply String.eqb_eq in Hk. apply sx_eqb_Zx in He. congruence.
Qed.

Lemma kval_eqb_KS_pair k a b v' : kval_eqb (KS k (Lx [Zx a; Zx b])) v' = true -> v' = KS k (Lx [Zx a; Zx b]).
Proof.
  destruct v' as [k' e'|k' m']; cbn [kval_eqb]; [|discriminate].
  rewrite andb_true_iff. intros [Hk He]. apply String.eqb_eq in Hk. subst k'.
  destruct e' as [|s|s|l]; try discriminate. cbn [sx_eqb] in He.
  destruct l as [|x l]; [discriminate|]. apply andb_true_iff in He. destruct He as [Hx He].
  destruct l as [|y l]; [discriminate|]. apply andb_true_iff in He. destruct He as [Hy He].
  destruct l; [|discriminate]. apply sx_eqb_Zx in Hx, Hy. congruence.
Qed.

(* a double computed by str::parse (modelled by round_ne) and printed by the harness passes the check *)
Lemma f64_pred_ok q v (neg : bool) :
  round_ne f64 q = Some v ->
  exists bits v', encode_bits f64 (fneg_if neg v) = bits /\ decode_bits f64 bits = Some v' /\
                  is_nearest f64 v' (Qneg_if neg q) = true /\ v' = fneg_if neg v /\ v' <> FNan.
Proof.
  intros Hr. apply (round_ne_sound f64) in Hr.
  pose proof (is_nearest_neg_if f64 v q neg f64_ok Hr) as Hn.
  pose proof (is_nearest_wf f64 _ _ f64_ok Hn) as Hwf.
  exists (encode_bits f64 (fneg_if neg v)), (fneg_if neg v).
  split; [reflexivity|]. split; [apply decode_encode_f64; exact Hwf|]. split; [exact Hn|]. split; [reflexivity|].
  intros Hc. rewrite Hc in Hwf. exact Hwf.
Qed.

Lemma kfloat_match f k v o : v <> FNan -> pobs_match (kfloat f k v) o = true -> o = OVal (KS k (Zx (encode_bits f v))).
Proof.
  intros Hv. unfold kfloat. destruct v; try contradiction; cbn [pobs_match];
    (destruct o as [v'| | | |]; try discriminate; intros H; apply kval_eqb_KS_Zx in H; congruence).
Qed.

Lemma In_opt_list {A} (o : option A) x : In x (opt_list o) -> o = Some x.
Proof. destruct o; cbn; [intros [->|[]]; reflexivity|contradiction]. Qed.

Lemma predicted_spec l o : predicted l o = true <-> exists p, In p (impl_preds l) /\ pobs_match p o = true.
Proof. unfold predicted. apply existsb_exists. Qed.

(* float-valued predictions for a decimal body *)
Lemma decimal_pred_ok b q k (neg : bool) o :
  body_Q b = Some q -> (is_int_body b = true \/ exists w f, b = BFloat w f) ->
  (exists p, In p (map (fun v => kfloat f64 k (fneg_if neg v)) (impl_f64_abs b)) /\ pobs_match p o = true) ->
  spec_holds (XNear false k (Qneg_if neg q)) o.
Proof.
  intros Hq Hform (p & Hin & Hm). apply in_map_iff in Hin. destruct Hin as (v & <- & Hv).
  assert (Hr : round_ne f64 q = Some v).
  { destruct Hform as [Hi|(w & f & ->)]; [destruct b; try discriminate|]; cbn [impl_f64_abs] in Hv;
      rewrite Hq in Hv; apply In_opt_list; exact Hv. }
  destruct (f64_pred_ok q v neg Hr) as (bits & v' & Hb & Hd & Hn & Hv' & Hnan).
  subst v'. apply (kfloat_match f64 k _ o Hnan) in Hm. rewrite Hb in Hm.
  cbn [spec_holds fmt_of]. exists bits, (fneg_if neg v). split; [exact Hm|split; [exact Hd|]].
  apply is_nearest_sound; [exact f64_ok|exact Hn].
Qed.

Lemma kind_of_ann_none a : kind_of_ann a = None -> a = ANone.
Proof. destruct a; cbn; congruence. Qed.

Lemma signed_suffix_false a k : kind_of_ann a = Some k -> int_kind k = None -> signed_suffix a = false.
Proof. destruct a; cbn; try congruence. intros [= ->] ->. reflexivity. Qed.

Lemma float_kind_true k : float_kind k = Some true -> String.eqb k "f32" = true.
Proof.
  unfold float_kind. destruct (String.eqb k "f64"); [discriminate|]. destruct (String.eqb k "f32"); [reflexivity|discriminate].
Qed.

Lemma float_kind_int k w : float_kind k = Some w -> int_kind k = None.
Proof.
  intros H. destruct (int_kind k) as [sb|] eqn:E; [|reflexivity].
  rewrite (int_kind_not_float _ _ E) in H. discriminate.
Qed.

Lemma holds_decimal (neg : bool) b a o :
  (is_int_body b = true \/ exists w f, b = BFloat w f) ->
  kf_name (LReal neg b a) = None -> predicted (LReal neg b a) o = true -> C13_spec (LReal neg b a) o.
Proof.
  intros Hform Hkf Hp. apply predicted_spec in Hp.
  unfold C13_spec, expected, expected_real.
  destruct (body_gram b) eqn:Hg; [|exact I|exact I].
  destruct (andb _ (negb (is_int_body b))); [exact I|].
  assert (Hfe : frac_exp b = false) by (destruct Hform as [Hi|(w & f & ->)]; [destruct b; try discriminate|]; reflexivity).
  rewrite Hfe.
  assert (Hnr : forall X Y : expect, match b with BRat n d => X | _ => Y end = Y)
    by (intros; destruct Hform as [Hi|(w & f & ->)]; [destruct b; try discriminate|]; reflexivity).
  assert (Hbody : forall (X : string -> string -> expect) (Y : expect),
             match b with BRat n d => X n d | _ => Y end = Y)
    by (intros; destruct Hform as [Hi|(w & f & ->)]; [destruct b; try discriminate|]; reflexivity).
  rewrite Hbody. clear Hnr Hbody.
  unfold denote. destruct (body_Q b) as [q|] eqn:Hq; [|exact I]. cbn [option_map].
  assert (Hpreds : signed_suffix a = false ->
            impl_preds (LReal neg b a) =
            match kind_of_ann a with
            | None => map (fun v => kfloat f64 "f64" (fneg_if neg v)) (impl_f64_abs b)
            | Some k =>
                match float_kind k, int_kind k with
                | Some false, _ => map (fun v => kfloat f64 k (fneg_if neg v)) (impl_f64_abs b)
                | Some true, _ =>
                    flat_map (fun v => map (fun w => kfloat f32 k (fneg_if neg w)) (opt_list (fconv f32 f64 v))) (impl_f64_abs b)
                | None, Some sb =>
                    if is_define a
                    then map (fun v => PVal (KS k (Zx (fcast_int f64 sb (fneg_if neg v))))) (impl_f64_abs b)
                    else map (fun v => PVal (KS k (Zx ((if neg then -1 else 1) * fcast_int f64 sb v)))) (impl_f64_abs b)
                | None, None => []
                end
            end).
  { intros Hss. cbn [impl_preds]. rewrite Hss.
    destruct Hform as [Hi|(w & f & ->)]; [destruct b; try discriminate|]; reflexivity. }
  destruct (kind_of_ann a) as [k|] eqn:Hk.
  - destruct (float_kind k) as [w32|] eqn:Hfk.
    + pose proof (float_kind_int _ _ Hfk) as Hik.
      rewrite (Hpreds (signed_suffix_false a k Hk Hik)) in Hp.
      destruct w32.
      * (* f32: a known-finding class *)
        exfalso. apply float_kind_true in Hfk. cbn [kf_name] in Hkf. rewrite Hk, Hik, Hfk in Hkf.
        destruct Hform as [Hi|(w & f & ->)]; [destruct b; try discriminate|]; discriminate.
      * eapply decimal_pred_ok; eassumption.
    + destruct (int_kind k) as [sb|] eqn:Hik; [|exact I].
      destruct (body_Z b) as [n|] eqn:Hbz; [|exact I].
      exfalso. cbn [kf_name] in Hkf. rewrite Hk, Hik, Hbz in Hkf.
      destruct Hform as [Hi|(w & f & ->)]; [destruct b; try discriminate|discriminate].
      destruct (andb (fst sb) (is_suffix a)); [discriminate|]. destruct (andb neg _); discriminate.
  - apply kind_of_ann_none in Hk. subst a. rewrite (Hpreds eq_refl) in Hp.
    assert (E : match body_Z b with
                | Some n => if is_based b then XInt "i64" i64sb (if neg then - n else n) else XNear false "f64" (Qneg_if neg q)
                | None => XNear false "f64" (Qneg_if neg q)
                end = XNear false "f64" (Qneg_if neg q)).
    { destruct (body_Z b); [|reflexivity].
      destruct Hform as [Hi|(w & f & ->)]; [destruct b; try discriminate|]; reflexivity. }
    rewrite E. eapply decimal_pred_ok; eassumption.
Qed.

Lemma pobs_err_rejected o : pobs_match PErr o = true -> is_rejected o = true.
Proof. destruct o; cbn; congruence. Qed.

Lemma holds_based (neg : bool) p w a o :
  kf_name (LReal neg (BBased p w) a) = None -> predicted (LReal neg (BBased p w) a) o = true ->
  C13_spec (LReal neg (BBased p w) a) o.
Proof.
  intros Hkf Hp. cbn [kf_name] in Hkf.
  destruct (kind_of_ann a) as [k|] eqn:Hk; [discriminate|]. destruct neg; [discriminate|].
  apply kind_of_ann_none in Hk. subst a.
  apply predicted_spec in Hp. destruct Hp as (po & Hin & Hm).
  unfold C13_spec, expected, expected_real.
  destruct (body_gram (BBased p w)) eqn:Hg; [|exact I|exact I].
  cbn [is_int_body negb andb frac_exp]. unfold denote.
  cbn [impl_preds signed_suffix kind_of_ann] in Hin.
  destruct (body_Q (BBased p w)) as [q|] eqn:Hq; [|exact I]. cbn [option_map kind_of_ann].
  destruct (body_Z (BBased p w)) as [n|] eqn:Hz.
  - cbn [is_based spec_holds]. unfold i64_fits in Hin.
    destruct (fits i64sb n) eqn:Hf; destruct Hin as [<-|[]].
    + left. split; [reflexivity|]. cbn [pobs_match] in Hm. destruct o as [v'| | | |]; try discriminate.
      apply kval_eqb_KS_Zx in Hm. congruence.
    + right. split; [reflexivity|]. right. apply pobs_err_rejected. exact Hm.
  - exfalso. cbn [body_Q body_Z] in Hq, Hz. destruct (base_of_prefix p); [|discriminate].
    rewrite Hz in Hq. discriminate.
Qed.

Lemma holds_rat (neg : bool) ns ds a o :
  kf_name (LReal neg (BRat ns ds) a) = None -> predicted (LReal neg (BRat ns ds) a) o = true ->
  C13_spec (LReal neg (BRat ns ds) a) o.
Proof.
  intros Hkf Hp. cbn [kf_name] in Hkf. destruct neg; [discriminate|].
  apply predicted_spec in Hp. destruct Hp as (po & Hin & Hm).
  unfold C13_spec, expected, expected_real.
  destruct (body_gram (BRat ns ds)) eqn:Hg; [|exact I|exact I].
  destruct a as [|k|k|k]; cbn [andb negb is_int_body frac_exp]; try exact I;
    try (destruct (dval 10 ns), (dval 10 ds); exact I).
  cbn [impl_preds signed_suffix] in Hin.
  destruct (dval 10 ns) as [n|]; [|exact I]. destruct (dval 10 ds) as [d|]; [|exact I].
  destruct (andb (i64_fits n) (i64_fits d)) eqn:Hf; [destruct Hin|].
  destruct Hin as [<-|[]]. apply pobs_err_rejected in Hm.
  destruct (d =? 0); cbn [spec_holds]; [exact Hm|].
  right. split; [exact Hm|]. apply andb_false_iff in Hf. exact Hf.
Qed.

Lemma holds_sci (neg : bool) w f e sg ew ef a o :
  kf_name (LReal neg (BSci w f e sg ew ef) a) = None -> C13_spec (LReal neg (BSci w f e sg ew ef) a) o.
Proof.
  intros Hkf. cbn [kf_name] in Hkf.
  destruct ef as [efs|]; [|destruct f; discriminate].
  unfold C13_spec, expected, expected_real.
  destruct (body_gram _); [|exact I|exact I].
  destruct (andb _ _); [exact I|]. cbn [frac_exp]. exact I.
Qed.

Lemma zero_nearest (s : bool) : is_nearest_bits f64 (encode_bits f64 (FFin s 0 0)) (0 # 1) = true.
Proof. destruct s; vm_compute; reflexivity. Qed.

Lemma part_ok_form b : part_ok b = true -> body_gram b = GOk /\ (is_int_body b = true \/ exists w f, b = BFloat w f).
Proof.
  unfold part_ok. destruct b; try discriminate; destruct (body_gram _); try discriminate; intros _; split; try reflexivity.
  - left; reflexivity.
  - right; eauto.
Qed.

Lemma part_pred_ok b q (neg : bool) v :
  part_ok b = true -> body_Q b = Some q -> In v (impl_f64_abs b) ->
  exists v', decode_bits f64 (encode_bits f64 (fneg_if neg v)) = Some v' /\ rounds_to f64 v' (Qneg_if neg q).
Proof.
  intros Hpo Hq Hv. destruct (part_ok_form b Hpo) as [_ Hform].
  assert (Hr : round_ne f64 q = Some v).
  { destruct Hform as [Hi|(w & f & ->)]; [destruct b; try discriminate|]; cbn [impl_f64_abs] in Hv;
      rewrite Hq in Hv; apply In_opt_list; exact Hv. }
  destruct (f64_pred_ok q v neg Hr) as (bits & v' & Hb & Hd & Hn & Hv' & Hnan).
  exists v'. rewrite Hb. split; [exact Hd|]. apply is_nearest_sound; [exact f64_ok|exact Hn].
Qed.

Lemma holds_imag (neg : bool) b u o :
  predicted (LImag neg b u) o = true -> C13_spec (LImag neg b u) o.
Proof.
  intros Hp. apply predicted_spec in Hp. destruct Hp as (po & Hin & Hm).
  unfold C13_spec, expected.
  destruct (andb (part_ok b) _) eqn:Hpo; [|exact I].
  apply andb_true_iff in Hpo. destruct Hpo as [Hpo _].
  unfold denote. destruct (body_Q b) as [q|] eqn:Hq; [|exact I]. cbn [option_map spec_holds].
  cbn [impl_preds] in Hin. apply in_map_iff in Hin. destruct Hin as (v & <- & Hv).
  cbn [pobs_match] in Hm. destruct o as [v'| | | |]; try discriminate.
  apply kval_eqb_KS_pair in Hm. subst v'.
  destruct (part_pred_ok b q neg v Hpo Hq Hv) as (vi & Hdi & Hri).
  pose proof (zero_nearest neg) as Hz. unfold is_nearest_bits in Hz.
  destruct (decode_bits f64 (encode_bits f64 (FFin neg 0 0))) as [vz|] eqn:Hdz; [|discriminate].
  exists (encode_bits f64 (FFin neg 0 0)), (encode_bits f64 (fneg_if neg v)), vz, vi.
  split; [reflexivity|]. split; [exact Hdz|]. split; [exact Hdi|]. split; [|exact Hri].
  apply is_nearest_sound; [exact f64_ok|exact Hz].
Qed.

Lemma holds_cplx re isg im u o :
  predicted (LCplx false re isg im u) o = true -> C13_spec (LCplx false re isg im u) o.
Proof.
  intros Hp. apply predicted_spec in Hp. destruct Hp as (po & Hin & Hm).
  unfold C13_spec, expected.
  destruct (andb (andb (part_ok re) (part_ok im)) _) eqn:Hpo; [|exact I].
  apply andb_true_iff in Hpo. destruct Hpo as [Hpo _]. apply andb_true_iff in Hpo. destruct Hpo as [Hre Him].
  unfold denote. destruct (body_Q re) as [qr|] eqn:Hqr; [|exact I].
  destruct (body_Q im) as [qi|] eqn:Hqi; [|exact I]. cbn [option_map spec_holds].
  cbn [impl_preds] in Hin. apply in_flat_map in Hin. destruct Hin as (r & Hr & Hin).
  apply in_map_iff in Hin. destruct Hin as (i & <- & Hi).
  cbn [pobs_match] in Hm. destruct o as [v'| | | |]; try discriminate.
  apply kval_eqb_KS_pair in Hm. subst v'.
  destruct (part_pred_ok re qr false r Hre Hqr Hr) as (vr & Hdr & Hrr).
  destruct (part_pred_ok im qi (xorb false (String.eqb isg "-")) i Him Hqi Hi) as (vi & Hdi & Hri).
  rewrite ?Bool.xorb_false_l in *.
  exists (encode_bits f64 (fneg_if false r)), (encode_bits f64 (fneg_if (String.eqb isg "-") i)), vr, vi.
  split; [reflexivity|]. split; [exact Hdr|]. split; [exact Hdi|]. split; [exact Hrr|exact Hri].
Qed.

(* Outside the known-finding classes, everything the faithful model of the code predicts satisfies the property. *)
Theorem holds_outside_classes l o : kf_name l = None -> predicted l o = true -> C13_spec l o.
Proof.
  intros Hkf Hp. destruct l as [neg b a|neg b u|rneg re isg im u].
  - destruct b as [w|w f|w f e sg ew ef|p w|ns ds].
    + apply holds_decimal; [left; reflexivity|exact Hkf|exact Hp].
    + apply holds_decimal; [right; eauto|exact Hkf|exact Hp].
    + apply holds_sci; exact Hkf.
    + apply holds_based; assumption.
    + apply holds_rat; assumption.
  - apply holds_imag; exact Hp.
  - destruct rneg; [discriminate|]. apply holds_cplx; exact Hp.
Qed.
