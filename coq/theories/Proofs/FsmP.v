(* C17 — lemmas and theorems about the state-machine model (Model/Fsm.v). *)
From Coq Require Import List ZArith String Bool Arith Lia.
From MechV Require Import Base.Sexp Base.Obs Proofs.SexpP Model.Fsm.
Import ListNotations.

(* ---------- the run loop is total and bounded by the transition limit ---------- *)
Lemma run_length (arms : list arm) : forall fuel e st, List.length (fst (run arms fuel e st)) <= fuel.
Proof.
  induction fuel as [|f IH]; intros e st; cbn [run]; [cbn; lia|].
  destruct (select e st arms 0) as [| |i g e' [s xs|x]]; cbn; try lia.
  - destruct (eval_list e' xs) as [vs|]; cbn; [|lia].
    specialize (IH e' (s, vs)). destruct (run arms f e' (s, vs)) as [tr o]. cbn in *. lia.
  - destruct (eval e' x); cbn; lia.
Qed.
