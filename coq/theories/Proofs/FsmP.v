(* C17 — lemmas and theorems about the state-machine model (Model/Fsm.v). *)
From Coq Require Import List ZArith String Bool Arith Lia.
From MechV Require Import Base.Sexp Base.Obs Proofs.SexpP Model.Fsm.
Import ListNotations.
Open Scope list_scope.

(* =====================================================================
   1. Declarative reading of "the first transition whose guard holds"
   ===================================================================== *)
Definition guard_holds (e : env) (g : guard) : Prop := eval_guard e g = Ok true.
Definition guard_fails (e : env) (g : guard) : Prop := eval_guard e g = Ok false.

(* arm [a] is passed over in state [st]: its pattern does not match, or it is a guard arm
   all of whose guards evaluate to false *)
Definition arm_skipped (e : env) (st : state) (a : arm) : Prop :=
  match_arm e st a = None \/
  exists e' gs, match_arm e st a = Some e' /\ a_body a = BG gs /\
                Forall (fun gt => guard_fails e' (fst gt)) gs.

(* guard number j of [gs] is the first one that holds; its target is t *)
Definition guard_fires (e' : env) (gs : list (guard * target)) (j : nat) (t : target) : Prop :=
  exists g, nth_error gs j = Some (g, t) /\ guard_holds e' g /\
            forall k gt, k < j -> nth_error gs k = Some gt -> guard_fails e' (fst gt).

(* arm number i is the first applicable arm: it fires (with its guard gi) in environment e' *)
Definition fires (e : env) (st : state) (arms : list arm) (i : nat) (gi : option nat) (e' : env) (t : target) : Prop :=
  exists a, nth_error arms i = Some a /\ match_arm e st a = Some e' /\
    (forall k b, k < i -> nth_error arms k = Some b -> arm_skipped e st b) /\
    match gi with
    | None => a_body a = BT t
    | Some j => exists gs, a_body a = BG gs /\ guard_fires e' gs j t
    end.

(* a guard of the first matching guard arm fails to evaluate before any guard holds *)
Definition guard_errs (e' : env) (gs : list (guard * target)) : Prop :=
  exists j g t, nth_error gs j = Some (g, t) /\ eval_guard e' g = Err /\
                forall k gt, k < j -> nth_error gs k = Some gt -> guard_fails e' (fst gt).

Definition sel_errs (e : env) (st : state) (arms : list arm) : Prop :=
  exists i a e' gs, nth_error arms i = Some a /\ match_arm e st a = Some e' /\
    (forall k b, k < i -> nth_error arms k = Some b -> arm_skipped e st b) /\
    a_body a = BG gs /\ guard_errs e' gs.

(* ---------- first_guard ---------- *)
Lemma first_guard_some e' : forall gs n j t,
  first_guard e' gs n = Ok (Some (j, t)) -> n <= j /\ guard_fires e' gs (j - n) t.
Proof.
  induction gs as [|[g t0] r IH]; intros n j t H; cbn [first_guard] in H; [discriminate|].
  destruct (eval_guard e' g) as [[|]|] eqn:Eg; try discriminate.
  - inversion H; subst. split; [lia|]. replace (j - j) with 0 by lia.
    exists g. split; [reflexivity|]. split; [exact Eg|]. intros k gt Hk; lia.
  - apply IH in H as [Hle (g' & Hn & Hh & Hb)]. split; [lia|].
    replace (j - n) with (S (j - S n)) by lia. exists g'. split; [exact Hn|]. split; [exact Hh|].
    intros [|k] gt Hk Hk'; cbn in Hk'.
    + inversion Hk'; subst. exact Eg.
    + apply (Hb k gt); [lia|exact Hk'].
Qed.

Lemma first_guard_none e' : forall gs n,
  first_guard e' gs n = Ok None -> Forall (fun gt => guard_fails e' (fst gt)) gs.
Proof.
  induction gs as [|[g t0] r IH]; intros n H; cbn [first_guard] in H; [constructor|].
  destruct (eval_guard e' g) as [[|]|] eqn:Eg; try discriminate.
  constructor; [exact Eg | eapply IH; exact H].
Qed.

Lemma first_guard_err e' : forall gs n, first_guard e' gs n = Err -> guard_errs e' gs.
Proof.
  induction gs as [|[g t0] r IH]; intros n H; cbn [first_guard] in H; [discriminate|].
  destruct (eval_guard e' g) as [[|]|] eqn:Eg; try discriminate.
  - apply IH in H as (j & g' & t & Hn & He & Hb). exists (S j), g', t. split; [exact Hn|]. split; [exact He|].
    intros [|k] gt Hk Hk'; cbn in Hk'.
    + inversion Hk'; subst. exact Eg.
    + apply (Hb k gt); [lia|exact Hk'].
  - exists 0, g, t0. split; [reflexivity|]. split; [exact Eg|]. intros k gt Hk; lia.
Qed.

(* the three cases exclude one another *)
Lemma guard_fires_unique e' gs j t j' t' :
  guard_fires e' gs j t -> guard_fires e' gs j' t' -> j = j' /\ t = t'.
Proof.
  intros (g & Hn & Hh & Hb) (g' & Hn' & Hh' & Hb').
  destruct (Nat.lt_trichotomy j j') as [Hlt|[Heq|Hgt]].
  - specialize (Hb' j (g, t) Hlt Hn). unfold guard_holds, guard_fails in *. cbn in Hb'. congruence.
  - subst. rewrite Hn in Hn'. inversion Hn'. auto.
  - specialize (Hb j' (g', t') Hgt Hn'). unfold guard_holds, guard_fails in *. cbn in Hb. congruence.
Qed.

Lemma guard_fires_not_all_fail e' gs j t :
  guard_fires e' gs j t -> Forall (fun gt => guard_fails e' (fst gt)) gs -> False.
Proof.
  intros (g & Hn & Hh & _) Hall. rewrite Forall_forall in Hall.
  apply nth_error_In in Hn. specialize (Hall _ Hn). unfold guard_holds, guard_fails in *. cbn in Hall. congruence.
Qed.

Lemma guard_errs_not_all_fail e' gs :
  guard_errs e' gs -> Forall (fun gt => guard_fails e' (fst gt)) gs -> False.
Proof.
  intros (j & g & t & Hn & He & _) Hall. rewrite Forall_forall in Hall.
  apply nth_error_In in Hn. specialize (Hall _ Hn). unfold guard_fails in *. cbn in Hall. congruence.
Qed.

Lemma guard_fires_not_errs e' gs j t : guard_fires e' gs j t -> guard_errs e' gs -> False.
Proof.
  intros (g & Hn & Hh & Hb) (j' & g' & t' & Hn' & He' & Hb').
  destruct (Nat.lt_trichotomy j j') as [Hlt|[Heq|Hgt]].
  - specialize (Hb' j (g, t) Hlt Hn). unfold guard_holds, guard_fails in *. cbn in Hb'. congruence.
  - subst. rewrite Hn in Hn'. inversion Hn'; subst. unfold guard_holds in Hh. congruence.
  - specialize (Hb j' (g', t') Hgt Hn'). unfold guard_fails in Hb. cbn in Hb. congruence.
Qed.

(* ---------- select ---------- *)
Lemma skipped_shift e st a r i :
  arm_skipped e st a ->
  (forall k b, k < i -> nth_error r k = Some b -> arm_skipped e st b) ->
  forall k b, k < S i -> nth_error (a :: r) k = Some b -> arm_skipped e st b.
Proof.
  intros Ha Hr [|k] b Hk Hn; cbn in Hn.
  - inversion Hn; subst. exact Ha.
  - apply (Hr k b); [lia|exact Hn].
Qed.

Lemma select_sel e st : forall arms n i gi e' t,
  select e st arms n = Sel i gi e' t -> n <= i /\ fires e st arms (i - n) gi e' t.
Proof.
  induction arms as [|a r IH]; intros n i gi e' t H; cbn [select] in H; [discriminate|].
  destruct (match_arm e st a) as [e1|] eqn:Em.
  - destruct (a_body a) as [t1|gs] eqn:Eb.
    + inversion H; subst. split; [lia|]. replace (i - i) with 0 by lia.
      exists a. split; [reflexivity|]. split; [exact Em|]. split; [intros k b Hk; lia|exact Eb].
    + destruct (first_guard e1 gs 0) as [[[j t1]|]|] eqn:Eg; try discriminate.
      * inversion H; subst. apply first_guard_some in Eg as [_ Hf]. rewrite Nat.sub_0_r in Hf.
        split; [lia|]. replace (i - i) with 0 by lia.
        exists a. split; [reflexivity|]. split; [exact Em|]. split; [intros k b Hk; lia|].
        exists gs. split; [exact Eb|exact Hf].
      * apply first_guard_none in Eg. apply IH in H as [Hle (b & Hn & Hm & Hsk & Hg)]. split; [lia|].
        replace (i - n) with (S (i - S n)) by lia.
        exists b. split; [exact Hn|]. split; [exact Hm|]. split; [|exact Hg].
        apply skipped_shift; [|exact Hsk]. right. exists e1, gs. auto.
  - apply IH in H as [Hle (b & Hn & Hm & Hsk & Hg)]. split; [lia|].
    replace (i - n) with (S (i - S n)) by lia.
    exists b. split; [exact Hn|]. split; [exact Hm|]. split; [|exact Hg].
    apply skipped_shift; [|exact Hsk]. left. exact Em.
Qed.

Lemma select_none e st : forall arms n, select e st arms n = SelNone -> Forall (arm_skipped e st) arms.
Proof.
  induction arms as [|a r IH]; intros n H; cbn [select] in H; [constructor|].
  destruct (match_arm e st a) as [e1|] eqn:Em.
  - destruct (a_body a) as [t1|gs] eqn:Eb; [discriminate|].
    destruct (first_guard e1 gs 0) as [[[j t1]|]|] eqn:Eg; try discriminate.
    apply first_guard_none in Eg. constructor; [|eapply IH; exact H]. right. exists e1, gs. auto.
  - constructor; [left; exact Em|eapply IH; exact H].
Qed.

Lemma select_err e st : forall arms n, select e st arms n = SelErr -> sel_errs e st arms.
Proof.
  induction arms as [|a r IH]; intros n H; cbn [select] in H; [discriminate|].
  assert (Hshift : forall (Ha : arm_skipped e st a), sel_errs e st r -> sel_errs e st (a :: r)).
  { intros Ha (i & b & e' & gs & Hn & Hm & Hsk & Hb & Hg).
    exists (S i), b, e', gs. split; [exact Hn|]. split; [exact Hm|]. split; [|auto].
    apply skipped_shift; assumption. }
  destruct (match_arm e st a) as [e1|] eqn:Em.
  - destruct (a_body a) as [t1|gs] eqn:Eb; [discriminate|].
    destruct (first_guard e1 gs 0) as [[[j t1]|]|] eqn:Eg; try discriminate.
    + apply first_guard_none in Eg. apply Hshift; [|eapply IH; exact H]. right. exists e1, gs. auto.
    + apply first_guard_err in Eg. exists 0, a, e1, gs. split; [reflexivity|]. split; [exact Em|].
      split; [intros k b Hk; lia|]. auto.
  - apply Hshift; [left; exact Em|eapply IH; exact H].
Qed.

(* the declarative notions are mutually exclusive and functional *)
Lemma skipped_not_fires_here e st a e' :
  arm_skipped e st a -> match_arm e st a = Some e' ->
  forall gi t, match gi with None => a_body a = BT t | Some j => exists gs, a_body a = BG gs /\ guard_fires e' gs j t end -> False.
Proof.
  intros [Hn|(e1 & gs & Hm & Hb & Hall)] Hm' gi t Hg; [congruence|].
  rewrite Hm in Hm'. inversion Hm'; subst.
  destruct gi as [j|].
  - destruct Hg as (gs' & Hb' & Hf). rewrite Hb in Hb'. inversion Hb'; subst.
    eapply guard_fires_not_all_fail; eassumption.
  - congruence.
Qed.

Lemma fires_unique e st arms i gi e' t i' gi' e'' t' :
  fires e st arms i gi e' t -> fires e st arms i' gi' e'' t' ->
  i = i' /\ gi = gi' /\ e' = e'' /\ t = t'.
Proof.
  intros (a & Hn & Hm & Hsk & Hg) (a' & Hn' & Hm' & Hsk' & Hg').
  destruct (Nat.lt_trichotomy i i') as [Hlt|[Heq|Hgt]].
  - exfalso. eapply (skipped_not_fires_here e st a e' (Hsk' i a Hlt Hn) Hm gi t). exact Hg.
  - subst i'. rewrite Hn in Hn'. inversion Hn'; subst a'. rewrite Hm in Hm'. inversion Hm'; subst e''.
    destruct gi as [j|], gi' as [j'|].
    + destruct Hg as (gs & Hb & Hf), Hg' as (gs' & Hb' & Hf'). rewrite Hb in Hb'. inversion Hb'; subst gs'.
      destruct (guard_fires_unique _ _ _ _ _ _ Hf Hf') as [-> ->]. auto.
    + destruct Hg as (gs & Hb & _). congruence.
    + destruct Hg' as (gs & Hb & _). congruence.
    + rewrite Hg in Hg'. inversion Hg'. auto.
  - exfalso. eapply (skipped_not_fires_here e st a' e'' (Hsk i' a' Hgt Hn') Hm' gi' t'). exact Hg'.
Qed.

Lemma fires_not_all_skipped e st arms i gi e' t :
  fires e st arms i gi e' t -> Forall (arm_skipped e st) arms -> False.
Proof.
  intros (a & Hn & Hm & _ & Hg) Hall. rewrite Forall_forall in Hall.
  eapply (skipped_not_fires_here e st a e' (Hall a (nth_error_In _ _ Hn)) Hm gi t). exact Hg.
Qed.

Lemma sel_errs_not_all_skipped e st arms : sel_errs e st arms -> Forall (arm_skipped e st) arms -> False.
Proof.
  intros (i & a & e' & gs & Hn & Hm & _ & Hb & Hg) Hall. rewrite Forall_forall in Hall.
  destruct (Hall a (nth_error_In _ _ Hn)) as [Hno|(e1 & gs1 & Hm1 & Hb1 & Hf)]; [congruence|].
  rewrite Hm in Hm1. inversion Hm1; subst. rewrite Hb in Hb1. inversion Hb1; subst.
  eapply guard_errs_not_all_fail; eassumption.
Qed.

Lemma fires_not_sel_errs e st arms i gi e' t : fires e st arms i gi e' t -> sel_errs e st arms -> False.
Proof.
  intros (a & Hn & Hm & Hsk & Hg) (i' & a' & e'' & gs & Hn' & Hm' & Hsk' & Hb' & Hg').
  destruct (Nat.lt_trichotomy i i') as [Hlt|[Heq|Hgt]].
  - eapply (skipped_not_fires_here e st a e' (Hsk' i a Hlt Hn) Hm gi t). exact Hg.
  - subst i'. rewrite Hn in Hn'. inversion Hn'; subst a'. rewrite Hm in Hm'. inversion Hm'; subst e''.
    destruct gi as [j|].
    + destruct Hg as (gs1 & Hb1 & Hf). rewrite Hb' in Hb1. inversion Hb1; subst. eapply guard_fires_not_errs; eassumption.
    + congruence.
  - destruct (Hsk i' a' Hgt Hn') as [Hno|(e1 & gs1 & Hm1 & Hb1 & Hf)]; [congruence|].
    rewrite Hm' in Hm1. inversion Hm1; subst. rewrite Hb' in Hb1. inversion Hb1; subst.
    eapply guard_errs_not_all_fail; eassumption.
Qed.

(* select computes exactly the declarative choice *)
Theorem select_fires_iff e st arms i gi e' t :
  select e st arms 0 = Sel i gi e' t <-> fires e st arms i gi e' t.
Proof.
  split.
  - intros H. apply select_sel in H as [_ H]. rewrite Nat.sub_0_r in H. exact H.
  - intros H. destruct (select e st arms 0) as [| |i1 g1 e1 t1] eqn:Es.
    + exfalso. eapply fires_not_all_skipped; [exact H|]. eapply select_none; exact Es.
    + exfalso. eapply fires_not_sel_errs; [exact H|]. eapply select_err; exact Es.
    + apply select_sel in Es as [_ Es]. rewrite Nat.sub_0_r in Es.
      destruct (fires_unique _ _ _ _ _ _ _ _ _ _ _ H Es) as (-> & -> & -> & ->). reflexivity.
Qed.

Theorem select_none_iff e st arms : select e st arms 0 = SelNone <-> Forall (arm_skipped e st) arms.
Proof.
  split; [apply select_none|]. intros H.
  destruct (select e st arms 0) as [| |i1 g1 e1 t1] eqn:Es; [reflexivity| |].
  - exfalso. eapply sel_errs_not_all_skipped; [eapply select_err; exact Es|exact H].
  - apply select_sel in Es as [_ Es]. exfalso. eapply fires_not_all_skipped; eassumption.
Qed.

Theorem select_err_iff e st arms : select e st arms 0 = SelErr <-> sel_errs e st arms.
Proof.
  split; [apply select_err|]. intros H.
  destruct (select e st arms 0) as [| |i1 g1 e1 t1] eqn:Es; [|reflexivity|].
  - exfalso. eapply sel_errs_not_all_skipped; [exact H|eapply select_none; exact Es].
  - apply select_sel in Es as [_ Es]. exfalso. eapply fires_not_sel_errs; eassumption.
Qed.

(* =====================================================================
   2. The run a declaration determines, as a relation; [run] computes it
   ===================================================================== *)
Inductive Run (arms : list arm) : nat -> env -> state -> list visit -> outcome -> Prop :=
| Run_limit e st : Run arms 0 e st [] (OLimit st)
| Run_stuck n e st :
    Forall (arm_skipped e st) arms -> Run arms (S n) e st [Visit st None] OStuck
| Run_guard_err n e st :
    sel_errs e st arms -> Run arms (S n) e st [Visit st None] OErr
| Run_out n e st i gi e' x v :
    fires e st arms i gi e' (TOut x) -> eval e' x = Ok v ->
    Run arms (S n) e st [Visit st (Some (i, gi))] (ODone v)
| Run_out_err n e st i gi e' x :
    fires e st arms i gi e' (TOut x) -> eval e' x = Err ->
    Run arms (S n) e st [Visit st (Some (i, gi))] OErr
| Run_next n e st i gi e' s xs vs tr o :
    fires e st arms i gi e' (TNext s xs) -> eval_list e' xs = Ok vs ->
    Run arms n e' (s, vs) tr o ->
    Run arms (S n) e st (Visit st (Some (i, gi)) :: tr) o
| Run_next_err n e st i gi e' s xs :
    fires e st arms i gi e' (TNext s xs) -> eval_list e' xs = Err ->
    Run arms (S n) e st [Visit st (Some (i, gi))] OErr.

Lemma run_sound arms : forall n e st tr o, run arms n e st = (tr, o) -> Run arms n e st tr o.
Proof.
  induction n as [|n IH]; intros e st tr o H; cbn [run] in H.
  - inversion H; subst. constructor.
  - destruct (select e st arms 0) as [| |i gi e' [s xs|x]] eqn:Es.
    + inversion H; subst. apply Run_stuck. apply select_none_iff. exact Es.
    + inversion H; subst. apply Run_guard_err. apply select_err_iff. exact Es.
    + apply select_fires_iff in Es. destruct (eval_list e' xs) as [vs|] eqn:Ev.
      * destruct (run arms n e' (s, vs)) as [tr' o'] eqn:Er. inversion H; subst.
        eapply Run_next; [exact Es|exact Ev|]. apply IH. exact Er.
      * inversion H; subst. eapply Run_next_err; eassumption.
    + apply select_fires_iff in Es. destruct (eval e' x) as [v|] eqn:Ev; inversion H; subst.
      * eapply Run_out; eassumption.
      * eapply Run_out_err; eassumption.
Qed.

Lemma run_complete arms : forall n e st tr o, Run arms n e st tr o -> run arms n e st = (tr, o).
Proof.
  intros n e st tr o H. induction H; cbn [run].
  - reflexivity.
  - apply select_none_iff in H. rewrite H. reflexivity.
  - apply select_err_iff in H. rewrite H. reflexivity.
  - apply select_fires_iff in H. rewrite H, H0. reflexivity.
  - apply select_fires_iff in H. rewrite H, H0. reflexivity.
  - apply select_fires_iff in H. rewrite H, H0, IHRun. reflexivity.
  - apply select_fires_iff in H. rewrite H, H0. reflexivity.
Qed.

Theorem run_iff_Run arms n e st tr o : run arms n e st = (tr, o) <-> Run arms n e st tr o.
Proof. split; [apply run_sound|apply run_complete]. Qed.

(* determinism: a declaration and its arguments determine ONE run *)
Theorem Run_deterministic arms n e st tr o tr' o' :
  Run arms n e st tr o -> Run arms n e st tr' o' -> tr = tr' /\ o = o'.
Proof.
  intros H H'. apply run_complete in H, H'. rewrite H in H'. inversion H'. auto.
Qed.

(* ---------- every consecutive pair of visits is the first enabled transition ---------- *)
Definition step_ok (arms : list arm) (v1 v2 : visit) : Prop :=
  exists e e' i gi xs,
    fires e (v_state v1) arms i gi e' (TNext (fst (v_state v2)) xs) /\
    eval_list e' xs = Ok (snd (v_state v2)) /\
    v_arm v1 = Some (i, gi).

Lemma Run_head arms n e st tr o :
  Run arms n e st tr o -> forall v rest, tr = v :: rest -> v_state v = st.
Proof. intros H v rest Ht. destruct H; inversion Ht; subst; reflexivity. Qed.

Theorem Run_trace_first_enabled arms n e st tr o :
  Run arms n e st tr o ->
  forall k v1 v2, nth_error tr k = Some v1 -> nth_error tr (S k) = Some v2 -> step_ok arms v1 v2.
Proof.
  intros H. induction H; intros k v1 v2 Hk1 Hk2;
    try (destruct k as [|[|k]]; cbn in Hk1, Hk2; discriminate).
  destruct k as [|k].
  - cbn in Hk1. inversion Hk1; subst v1. cbn in Hk2.
    destruct tr as [|w rest]; [discriminate|]. cbn in Hk2. inversion Hk2; subst w.
    pose proof (Run_head _ _ _ _ _ _ H1 v2 rest eq_refl) as Hs.
    exists e, e', i, gi, xs. rewrite Hs. cbn. auto.
  - cbn in Hk1, Hk2. eapply IHRun; eassumption.
Qed.

(* the run ends at an output arm exactly when it returns a value *)
Theorem Run_ends_at_output arms n e st tr o :
  Run arms n e st tr o -> forall v, o = ODone v ->
  exists pre lv e1 e2 i gi x,
    tr = pre ++ [lv] /\ fires e1 (v_state lv) arms i gi e2 (TOut x) /\ eval e2 x = Ok v /\
    v_arm lv = Some (i, gi).
Proof.
  intros H. induction H; intros w Ho; try discriminate.
  - inversion Ho; subst. exists [], (Visit st (Some (i, gi))), e, e', i, gi, x. cbn. auto.
  - destruct (IHRun w Ho) as (pre & lv & e1 & e2 & i' & gi' & x & -> & Hf & He & Ha).
    exists (Visit st (Some (i, gi)) :: pre), lv, e1, e2, i', gi', x. cbn. auto.
Qed.

(* and every earlier visit took a transition (no output, no halt before the end) *)
Theorem Run_inner_visits_transition arms n e st tr o :
  Run arms n e st tr o -> forall k v, nth_error tr k = Some v -> S k < List.length tr ->
  exists i gi, v_arm v = Some (i, gi).
Proof.
  intros H. induction H; intros k w Hk Hlt; try (cbn in Hlt; lia).
  destruct k as [|k]; cbn in Hk.
  - inversion Hk; subst. cbn. eauto.
  - cbn in Hlt. eapply IHRun; [exact Hk|lia].
Qed.

(* ---------- the transition limit ---------- *)
Theorem Run_length arms n e st tr o : Run arms n e st tr o -> List.length tr <= n.
Proof. intros H. induction H; cbn; lia. Qed.

Theorem Run_limit_exact arms n e st tr o :
  Run arms n e st tr o -> forall st', o = OLimit st' -> List.length tr = n.
Proof. intros H. induction H; intros st' Ho; try discriminate; cbn; [reflexivity|]. erewrite IHRun; eauto. Qed.

Theorem Run_not_limit_short arms n e st tr o :
  Run arms n e st tr o -> (forall st', o <> OLimit st') -> 1 <= List.length tr.
Proof. intros H. induction H; intros Hno; cbn; try lia. exfalso. eapply Hno. reflexivity. Qed.

(* more fuel does not change a run that ended by itself *)
Theorem Run_fuel_stable arms n e st tr o :
  Run arms n e st tr o -> (forall st', o <> OLimit st') -> forall m, n <= m -> Run arms m e st tr o.
Proof.
  intros H. induction H; intros Hno m Hm.
  - exfalso. eapply Hno. reflexivity.
  - destruct m; [lia|]. apply Run_stuck. assumption.
  - destruct m; [lia|]. apply Run_guard_err. assumption.
  - destruct m; [lia|]. eapply Run_out; eassumption.
  - destruct m; [lia|]. eapply Run_out_err; eassumption.
  - destruct m; [lia|]. eapply Run_next; [eassumption|eassumption|]. apply IHRun; [assumption|lia].
  - destruct m; [lia|]. eapply Run_next_err; eassumption.
Qed.

(* a run that needs more than [m] iterations is cut off after exactly [m] of them *)
Theorem Run_cut arms n e st tr o :
  Run arms n e st tr o -> forall m, m < List.length tr ->
  exists st', Run arms m e st (firstn m tr) (OLimit st').
Proof.
  intros H. induction H; intros m Hm; cbn in Hm; try (assert (m = 0) by lia; subst m; eexists; cbn; constructor).
  destruct m as [|m].
  - eexists. cbn. constructor.
  - destruct (IHRun m ltac:(lia)) as [st' Hr]. exists st'. cbn [firstn].
    eapply Run_next; eassumption.
Qed.

(* =====================================================================
   3. Invocation: arguments, validation, start state
   ===================================================================== *)
Lemma memb_In x l : memb x l = true <-> In x l.
Proof.
  induction l as [|y r IH]; cbn; [split; [discriminate|tauto]|].
  rewrite orb_true_iff, IH, String.eqb_eq. split; intros [H|H]; auto.
Qed.

Lemma forallb_false_ex {A} (f : A -> bool) l : forallb f l = false -> exists x, In x l /\ f x = false.
Proof.
  induction l as [|a r IH]; cbn; [discriminate|]. intros H. apply andb_false_iff in H as [H|H].
  - exists a. auto.
  - destruct (IH H) as (x & Hi & Hx). exists x. auto.
Qed.

Lemma validate_false_witness d :
  validate d = false -> exists s, In s (all_targets d) /\ memb s (arm_names d) = false.
Proof.
  unfold validate. destruct (arm_names d) as [|n0 ns] eqn:En; [discriminate|].
  intros H. apply andb_false_iff in H as [H|H].
  - exists (fst (d_start d)). split; [left; reflexivity|exact H].
  - apply forallb_false_ex in H as (a & Ha & H). apply forallb_false_ex in H as (s & Hs & H).
    exists s. split; [|exact H]. right. apply in_flat_map. exists a. auto.
Qed.

(* whatever the code rejects is ill-formed in the sense of the property *)
Theorem validate_false_ill_formed d : validate d = false -> ill_formed d = true.
Proof.
  intros H. destruct (validate_false_witness d H) as (s & Hs & Hm).
  unfold ill_formed. apply orb_true_iff.
  destruct (memb s (declared d)) eqn:Hd.
  - right. unfold armless_declared. apply existsb_exists. exists s. split; [apply memb_In; exact Hd|].
    rewrite Hm. reflexivity.
  - left. unfold undeclared_target. apply existsb_exists. exists s. split; [exact Hs|]. rewrite Hd. reflexivity.
Qed.

(* outside the two known-finding classes, ill-formed = rejected by validation *)
Lemma ill_formed_validate d :
  ill_formed d = true -> kf_undeclared_with_arm d = false -> kf_armless_unreferenced d = false ->
  validate d = false.
Proof.
  unfold ill_formed, kf_undeclared_with_arm, kf_armless_unreferenced.
  destruct (validate d), (undeclared_target d), (armless_declared d); cbn; congruence.
Qed.

Theorem ill_formed_never_runs max d args :
  ill_formed d = true -> kf_undeclared_with_arm d = false -> kf_armless_unreferenced d = false ->
  forall tr o, run_fsm max d args <> RRun tr o.
Proof.
  intros Hi H1 H2 tr o. pose proof (ill_formed_validate d Hi H1 H2) as Hv.
  unfold run_fsm. rewrite Hv.
  destruct (negb (Nat.eqb _ _)); [discriminate|].
  destruct (negb (args_kinds_ok _ _)); [discriminate|].
  destruct (map_opt arg_value args); [|discriminate].
  destruct (eval_list _ _); discriminate.
Qed.

Theorem ill_formed_rejected max d args vals vs :
  ill_formed d = true -> kf_undeclared_with_arm d = false -> kf_armless_unreferenced d = false ->
  args_wrong d args = false -> map_opt arg_value args = Some vals ->
  eval_list (bind_inputs [] (map fst (d_inputs d)) vals) (snd (d_start d)) = Ok vs ->
  run_fsm max d args = RReject RjState.
Proof.
  intros Hi H1 H2 Ha Hv He. pose proof (ill_formed_validate d Hi H1 H2) as Hval.
  unfold args_wrong in Ha. apply orb_false_iff in Ha as [Ha1 Ha2].
  unfold run_fsm. rewrite Ha1, Ha2, Hv, He, Hval. reflexivity.
Qed.

Theorem wrong_args_rejected max d args :
  args_wrong d args = true -> exists w, run_fsm max d args = RReject w.
Proof.
  unfold args_wrong, run_fsm. intros H. apply orb_true_iff in H as [H|H].
  - rewrite H. eauto.
  - destruct (negb (Nat.eqb _ _)); [eauto|]. rewrite H. eauto.
Qed.

(* an accepted invocation: what [RRun] means *)
Theorem run_fsm_accepted max d args tr o :
  run_fsm max d args = RRun tr o ->
  exists vals vs,
    args_wrong d args = false /\ validate d = true /\ map_opt arg_value args = Some vals /\
    eval_list (bind_inputs [] (map fst (d_inputs d)) vals) (snd (d_start d)) = Ok vs /\
    Run (d_arms d) max (bind_inputs [] (map fst (d_inputs d)) vals) (fst (d_start d), vs) tr o.
Proof.
  unfold run_fsm, args_wrong. intros H.
  destruct (negb (Nat.eqb _ _)) eqn:E1; [discriminate|].
  destruct (negb (args_kinds_ok _ _)) eqn:E2; [discriminate|].
  destruct (map_opt arg_value args) as [vals|] eqn:E3; [|discriminate].
  destruct (eval_list _ _) as [vs|] eqn:E4; [|discriminate].
  destruct (negb (validate d)) eqn:E5; [discriminate|].
  destruct (run _ _ _ _) as [tr' o'] eqn:E6. inversion H; subst.
  exists vals, vs. repeat split; auto.
  - apply negb_false_iff. exact E5.
  - apply run_sound. exact E6.
Qed.

Theorem run_fsm_never_hangs max d args tr o :
  run_fsm max d args = RRun tr o -> List.length tr <= max.
Proof.
  intros H. apply run_fsm_accepted in H as (vals & vs & _ & _ & _ & _ & H). eapply Run_length; exact H.
Qed.

Theorem run_fsm_starts_at_start max d args tr o :
  run_fsm max d args = RRun tr o ->
  exists vals vs,
    map_opt arg_value args = Some vals /\
    eval_list (bind_inputs [] (map fst (d_inputs d)) vals) (snd (d_start d)) = Ok vs /\
    (forall v rest, tr = v :: rest -> v_state v = (fst (d_start d), vs)) /\
    (tr = [] -> max = 0).
Proof.
  intros H. apply run_fsm_accepted in H as (vals & vs & _ & _ & Hv & He & H).
  exists vals, vs. split; [exact Hv|]. split; [exact He|]. split.
  - intros v rest Ht. eapply Run_head; eassumption.
  - intros Ht. destruct H; try discriminate. reflexivity.
Qed.

(* =====================================================================
   4. Kind discipline: a well-kinded machine returns a value of the declared output kind
   ===================================================================== *)
Lemma zs_eqb_eq : forall a b, zs_eqb a b = true -> a = b.
Proof.
  induction a as [|x a IH]; intros [|y b] H; cbn in H; try discriminate; [reflexivity|].
  apply andb_prop in H as [H1 H2]. apply Z.eqb_eq in H1. f_equal; auto.
Qed.

Lemma value_eqb_eq a b : value_eqb a b = true -> a = b.
Proof.
  destruct a, b; cbn; try discriminate; intros H.
  - apply Z.eqb_eq in H. congruence.
  - apply zs_eqb_eq in H. congruence.
Qed.

Definition env_ok (c : ctx) (e : env) : Prop :=
  forall x t, In (x, t) c -> exists v, lookup e x = Some v /\ has_ty v t = true.

Definition extends (e e' : env) : Prop := forall x v, lookup e x = Some v -> lookup e' x = Some v.

Lemma extends_refl e : extends e e. Proof. intros x v H; exact H. Qed.
Lemma extends_trans a b c : extends a b -> extends b c -> extends a c.
Proof. intros H1 H2 x v H. auto. Qed.

Lemma env_ok_extends c e e' : env_ok c e -> extends e e' -> env_ok c e'.
Proof. intros H He x t Hi. destruct (H x t Hi) as (v & Hl & Ht). exists v. auto. Qed.

Lemma env_ok_app c1 c2 e : env_ok c1 e -> env_ok c2 e -> env_ok (c1 ++ c2) e.
Proof. intros H1 H2 x t Hi. apply in_app_or in Hi as [Hi|Hi]; auto. Qed.

Lemma env_ok_nil e : env_ok [] e. Proof. intros x t []. Qed.

Lemma lookup_In {A} (c : list (string * A)) x t : lookup c x = Some t -> In (x, t) c.
Proof.
  induction c as [|[y u] r IH]; cbn; [discriminate|].
  destruct (String.eqb x y) eqn:E.
  - apply String.eqb_eq in E. subst. intros H. inversion H. auto.
  - auto.
Qed.

(* ---------- evaluation preserves kinds ---------- *)
Lemma eval_atom_ty c e a t v :
  env_ok c e -> ty_atom c a = Some t -> eval_atom e a = Ok v -> has_ty v t = true.
Proof.
  intros He Ht Hv. destruct a as [x|z]; cbn in *.
  - apply lookup_In in Ht. destruct (He x t Ht) as (v' & Hl & Hty). rewrite Hl in Hv. inversion Hv; subst. exact Hty.
  - destruct (in_u64 z) eqn:E; [|discriminate]. inversion Ht; inversion Hv; subst. exact E.
Qed.

Lemma eval_items_ty c e : forall items l,
  env_ok c e ->
  forallb (fun a => match ty_atom c a with Some _ => true | None => false end) items = true ->
  eval_items e items = Ok l -> forallb in_u64 l = true.
Proof.
  induction items as [|a r IH]; intros l He Ht Hv; cbn in *.
  - inversion Hv. reflexivity.
  - apply andb_prop in Ht as [Ha Hr].
    destruct (ty_atom c a) as [t|] eqn:Eta; [|discriminate].
    destruct (eval_atom e a) as [v|] eqn:Ea; [|discriminate].
    pose proof (eval_atom_ty c e a t v He Eta Ea) as Hty.
    destruct (eval_items e r) as [zs|] eqn:Er; [|destruct v; discriminate].
    specialize (IH zs He Hr eq_refl).
    destruct v as [z|l']; inversion Hv; subst.
    + destruct t; cbn in Hty; [|discriminate]. cbn. rewrite Hty, IH. reflexivity.
    + destruct t; cbn in Hty; [discriminate|]. rewrite forallb_app, Hty, IH. reflexivity.
Qed.

Lemma arith_ty f a b v : arith f a b = Ok v -> has_ty v TyNum = true.
Proof.
  unfold arith. destruct a as [[x|]|]; try discriminate. destruct b as [[y|]|]; try discriminate.
  destruct (in_u64 (f x y)) eqn:E; [|discriminate]. intros H. inversion H; subst. exact E.
Qed.

Lemma eval_ty c e : forall x t v,
  env_ok c e -> ty_expr c x = Some t -> eval e x = Ok v -> has_ty v t = true.
Proof.
  intros x t v He Ht Hv. destruct x as [a|a b|a b|a b|items]; cbn in Ht, Hv.
  - eapply eval_atom_ty; eassumption.
  - destruct (andb _ _); [|discriminate]. inversion Ht; subst. eapply arith_ty; exact Hv.
  - destruct (andb _ _); [|discriminate]. inversion Ht; subst. eapply arith_ty; exact Hv.
  - destruct (andb _ _); [|discriminate]. inversion Ht; subst. eapply arith_ty; exact Hv.
  - destruct (forallb _ items) eqn:Ef; [|discriminate]. inversion Ht; subst.
    destruct (eval_items e items) as [l|] eqn:Ei; [|discriminate]. inversion Hv; subst. cbn.
    eapply eval_items_ty; eassumption.
Qed.

Definition vals_ok (vs : list value) (ts : list ty) : Prop := Forall2 (fun v t => has_ty v t = true) vs ts.

Lemma ty_eqb_eq a b : ty_eqb a b = true -> a = b.
Proof. destruct a, b; cbn; congruence. Qed.

Lemma eval_list_ty c e : forall xs ts vs,
  env_ok c e -> tys_exprs c xs ts = true -> eval_list e xs = Ok vs -> vals_ok vs ts.
Proof.
  induction xs as [|x r IH]; intros [|t ts] vs He Ht Hv; cbn in Ht, Hv; try discriminate.
  - inversion Hv. constructor.
  - apply andb_prop in Ht as [Hx Hr].
    destruct (ty_expr c x) as [t'|] eqn:Etx; [|discriminate]. apply ty_eqb_eq in Hx. subst t'.
    destruct (eval e x) as [v|] eqn:Ex; [|discriminate].
    destruct (eval_list e r) as [vs'|] eqn:Er; [|discriminate]. inversion Hv; subst.
    constructor; [eapply eval_ty; eassumption|eapply IH; eauto].
Qed.

(* ---------- pattern matching binds values of the right kinds ---------- *)
Lemma bind_var_spec e x v e' :
  bind_var e x v = Some e' -> extends e e' /\ lookup e' x = Some v.
Proof.
  unfold bind_var. destruct (lookup e x) as [v'|] eqn:El.
  - destruct (value_eqb v' v) eqn:Ev; [|discriminate]. intros H. inversion H; subst.
    apply value_eqb_eq in Ev. subst. split; [apply extends_refl|exact El].
  - intros H. inversion H; subst. split.
    + intros y w Hy. cbn. destruct (String.eqb y x) eqn:E; [|exact Hy].
      apply String.eqb_eq in E. subst. congruence.
    + cbn. rewrite String.eqb_refl. reflexivity.
Qed.

Lemma match_ipats_spec : forall ps e zs e',
  match_ipats e ps zs = Some e' -> forallb in_u64 zs = true ->
  extends e e' /\ env_ok (flat_map ipat_ctx ps) e'.
Proof.
  induction ps as [|p r IH]; intros e zs e' H Hz; cbn in H.
  - inversion H; subst. split; [apply extends_refl|apply env_ok_nil].
  - destruct zs as [|z zs]; [discriminate|]. cbn in Hz. apply andb_prop in Hz as [Hz1 Hz2].
    destruct (match_ipat e p z) as [e1|] eqn:E1; [|discriminate].
    destruct (IH e1 zs e' H Hz2) as [Hx Hok].
    assert (H1 : extends e e1 /\ env_ok (ipat_ctx p) e1).
    { destruct p as [x|n]; cbn in E1.
      - apply bind_var_spec in E1 as [Hext Hl]. split; [exact Hext|].
        intros y t [Hi|[]]. inversion Hi; subst. exists (VNum z). split; [exact Hl|exact Hz1].
      - destruct (Z.eqb n z); [|discriminate]. inversion E1; subst. split; [apply extends_refl|apply env_ok_nil]. }
    destruct H1 as [Hext1 Hok1]. split; [eapply extends_trans; eassumption|].
    cbn [flat_map]. apply env_ok_app; [eapply env_ok_extends; eassumption|exact Hok].
Qed.

Lemma forallb_firstn {A} (f : A -> bool) n l : forallb f l = true -> forallb f (firstn n l) = true.
Proof.
  revert l. induction n as [|n IH]; intros [|a l] H; cbn in *; auto.
  apply andb_prop in H as [H1 H2]. rewrite H1, IH; auto.
Qed.

Lemma forallb_skipn {A} (f : A -> bool) n l : forallb f l = true -> forallb f (skipn n l) = true.
Proof.
  revert l. induction n as [|n IH]; intros [|a l] H; cbn in *; auto.
  apply andb_prop in H as [H1 H2]. auto.
Qed.

Lemma match_pat_spec e p v t c e' :
  match_pat e p v = Some e' -> has_ty v t = true -> pat_ctx p t = Some c ->
  extends e e' /\ env_ok c e'.
Proof.
  intros Hm Hty Hc. destruct p as [x|n| |pre sp suf].
  - cbn in Hc. inversion Hc; subst. assert (Hb : bind_var e x v = Some e') by (destruct v; exact Hm).
    apply bind_var_spec in Hb as [Hext Hl]. split; [exact Hext|].
    intros y t' [Hi|[]]. inversion Hi; subst. exists v. auto.
  - destruct t; cbn in Hc; [|discriminate]. inversion Hc; subst.
    destruct v as [z|l]; cbn in Hm; [|discriminate]. destruct (Z.eqb n z); [|discriminate].
    inversion Hm; subst. split; [apply extends_refl|apply env_ok_nil].
  - cbn in Hc. inversion Hc; subst. assert (e' = e) by (destruct v; cbn in Hm; congruence). subst.
    split; [apply extends_refl|apply env_ok_nil].
  - destruct t; cbn in Hc; [discriminate|]. inversion Hc; subst. clear Hc.
    destruct v as [z|l]; [discriminate|]. cbn in Hty. cbn [match_pat] in Hm.
    destruct (Nat.ltb _ _); [discriminate|].
    destruct (match_ipats e pre l) as [e1|] eqn:E1; [|discriminate].
    destruct (match_ipats e1 suf _) as [e2|] eqn:E2; [|discriminate].
    destruct (match_ipats_spec _ _ _ _ E1 Hty) as [Hx1 Hok1].
    destruct (match_ipats_spec _ _ _ _ E2 (forallb_skipn _ _ _ Hty)) as [Hx2 Hok2].
    assert (Hrest : extends e2 e' /\ env_ok (match sp with SRest x => [(x, TyVec)] | _ => [] end) e').
    { destruct sp as [| |x].
      - destruct (Nat.eqb _ _); [|discriminate]. inversion Hm; subst. split; [apply extends_refl|apply env_ok_nil].
      - inversion Hm; subst. split; [apply extends_refl|apply env_ok_nil].
      - apply bind_var_spec in Hm as [Hext Hl]. split; [exact Hext|].
        intros y t' [Hi|[]]. inversion Hi; subst. eexists. split; [exact Hl|].
        cbn. apply forallb_firstn. apply forallb_skipn. exact Hty. }
    destruct Hrest as [Hx3 Hok3].
    split; [eapply extends_trans; [exact Hx1|eapply extends_trans; eassumption]|].
    apply env_ok_app; [|apply env_ok_app].
    + eapply env_ok_extends; [exact Hok1|eapply extends_trans; eassumption].
    + exact Hok3.
    + eapply env_ok_extends; eassumption.
Qed.

Lemma match_pats_spec : forall ps e vs ts c e',
  match_pats e ps vs = Some e' -> vals_ok vs ts -> pats_ctx ps ts = Some c ->
  extends e e' /\ env_ok c e'.
Proof.
  induction ps as [|p r IH]; intros e vs ts c e' Hm Hv Hc.
  - destruct vs; [|discriminate]. inversion Hv; subst. cbn in Hm, Hc. inversion Hm; inversion Hc; subst.
    split; [apply extends_refl|apply env_ok_nil].
  - destruct vs as [|v vs]; [discriminate|]. inversion Hv as [|v' t' vs' ts' Hvt Hvs]; subst.
    cbn in Hm, Hc.
    destruct (match_pat e p v) as [e1|] eqn:E1; [|discriminate].
    destruct (pat_ctx p t') as [c1|] eqn:Ec1; [|discriminate].
    destruct (pats_ctx r ts') as [c2|] eqn:Ec2; [|discriminate]. inversion Hc; subst.
    destruct (match_pat_spec _ _ _ _ _ _ E1 Hvt Ec1) as [Hx1 Hok1].
    destruct (IH _ _ _ _ _ Hm Hvs Ec2) as [Hx2 Hok2].
    split; [eapply extends_trans; eassumption|].
    apply env_ok_app; [eapply env_ok_extends; eassumption|exact Hok2].
Qed.

(* ---------- the invariant of the run ---------- *)
Definition state_ok (sg : sig) (st : state) : Prop :=
  exists ts, lookup sg (fst st) = Some ts /\ vals_ok (snd st) ts.

Lemma fires_wt sg out arms e st i gi e' t :
  forallb (wt_arm sg out) arms = true -> state_ok sg st -> fires e st arms i gi e' t ->
  exists c, env_ok c e' /\ wt_target sg out c t = true.
Proof.
  intros Hwt (ts & Hsg & Hvs) (a & Hn & Hm & _ & Hg).
  rewrite forallb_forall in Hwt. specialize (Hwt a (nth_error_In _ _ Hn)).
  unfold wt_arm in Hwt. unfold match_arm in Hm.
  destruct (andb _ _) eqn:Eh in Hm; [|discriminate]. apply andb_prop in Eh as [Hname _].
  apply String.eqb_eq in Hname. rewrite Hname, Hsg in Hwt.
  destruct (pats_ctx (a_pats a) ts) as [c|] eqn:Ec; [|discriminate].
  apply andb_prop in Hwt as [_ Hb].
  destruct (match_pats_spec _ _ _ _ _ _ Hm Hvs Ec) as [_ Hok].
  exists c. split; [exact Hok|].
  destruct gi as [j|].
  - destruct Hg as (gs & Hbody & g & Hnth & _ & _). rewrite Hbody in Hb. cbn in Hb.
    rewrite forallb_forall in Hb. specialize (Hb _ (nth_error_In _ _ Hnth)). cbn in Hb.
    apply andb_prop in Hb as [_ Hb]. exact Hb.
  - rewrite Hg in Hb. exact Hb.
Qed.

Theorem Run_output_typed sg out arms :
  forallb (wt_arm sg out) arms = true ->
  forall n e st tr o, Run arms n e st tr o -> state_ok sg st ->
  forall v, o = ODone v -> has_ty v out = true.
Proof.
  intros Hwt n e st tr o H. induction H; intros Hst w Ho; try discriminate.
  - inversion Ho; subst. destruct (fires_wt _ _ _ _ _ _ _ _ _ Hwt Hst H) as (c & Hok & Ht).
    cbn in Ht. destruct (ty_expr c x) as [t'|] eqn:Et; [|discriminate]. apply ty_eqb_eq in Ht. subst.
    eapply eval_ty; eassumption.
  - apply IHRun; [|exact Ho].
    destruct (fires_wt _ _ _ _ _ _ _ _ _ Hwt Hst H) as (c & Hok & Ht).
    cbn in Ht. destruct (lookup sg s) as [ts|] eqn:Es; [|discriminate].
    exists ts. split; [exact Es|]. eapply eval_list_ty; eassumption.
Qed.

(* ---------- arguments of the right kind are values of the right kind ---------- *)
Lemma lookup_remove_other (e : env) x y : x <> y -> lookup (remove_all [y] e) x = lookup e x.
Proof.
  intros Hne. induction e as [|[z v] r IH]; cbn; [reflexivity|].
  destruct (String.eqb z y) eqn:Ezy; cbn.
  - apply String.eqb_eq in Ezy. subst. destruct (String.eqb x y) eqn:Exy; [apply String.eqb_eq in Exy; contradiction|exact IH].
  - destruct (String.eqb x z); [reflexivity|exact IH].
Qed.

Lemma lookup_set_same e x v : lookup (set_var e x v) x = Some v.
Proof. cbn. rewrite String.eqb_refl. reflexivity. Qed.

Lemma lookup_set_other e x y v : x <> y -> lookup (set_var e y v) x = lookup e x.
Proof.
  intros Hne. cbn. destruct (String.eqb x y) eqn:E; [apply String.eqb_eq in E; contradiction|].
  apply lookup_remove_other. exact Hne.
Qed.

Lemma lookup_bind_inputs_notin : forall ns vs e x, ~ In x ns -> lookup (bind_inputs e ns vs) x = lookup e x.
Proof.
  induction ns as [|n ns IH]; intros vs e x Hni; cbn; [reflexivity|].
  destruct vs as [|v vs]; [reflexivity|]. rewrite IH; [|intros Hi; apply Hni; right; exact Hi].
  apply lookup_set_other. intros ->. apply Hni. left. reflexivity.
Qed.

Lemma nodupb_NoDup l : nodupb l = true -> NoDup l.
Proof.
  induction l as [|x r IH]; cbn; [constructor|]. intros H. apply andb_prop in H as [H1 H2].
  constructor; [|auto]. intros Hi. apply memb_In in Hi. rewrite Hi in H1. discriminate.
Qed.

Lemma arg_value_ty a v k t :
  arg_value a = Some v -> kind_matches k (kind_of_arg a) = true -> ty_of_kind k = Some t -> has_ty v t = true.
Proof.
  intros Hv Hk Ht. destruct a as [ka z|el r c d]; cbn in Hv.
  - destruct (andb _ _) eqn:E; [|discriminate]. apply andb_prop in E as [_ Hz]. inversion Hv; subst.
    destruct k as [n|el|el r c]; cbn in Hk, Ht; try discriminate.
    destruct (String.eqb n "u64"); [|discriminate]. inversion Ht; subst. exact Hz.
  - destruct (andb _ _) eqn:E; [|discriminate]. apply andb_prop in E as [_ E]. apply andb_prop in E as [_ Hd].
    inversion Hv; subst.
    destruct k as [n|el'|el' r' c']; cbn in Hk, Ht; try discriminate.
    + destruct (String.eqb el' "u64"); [|discriminate]. inversion Ht; subst. exact Hd.
    + destruct (andb (String.eqb el' "u64") _); [|discriminate]. inversion Ht; subst. exact Hd.
Qed.

Lemma inputs_env_ok : forall ins args vals ic e,
  inputs_ctx ins = Some ic -> args_kinds_ok ins args = true -> map_opt arg_value args = Some vals ->
  NoDup (map fst ins) ->
  env_ok ic (bind_inputs e (map fst ins) vals).
Proof.
  induction ins as [|[n ok] ins IH]; intros args vals ic e Hic Hk Hv Hnd; cbn in Hic.
  - inversion Hic; subst. apply env_ok_nil.
  - destruct ok as [k|]; [|discriminate]. cbn in Hic.
    destruct (ty_of_kind k) as [t|] eqn:Et; [|discriminate].
    fold (inputs_ctx ins) in Hic.
    destruct (inputs_ctx ins) as [ic'|] eqn:Eic; [|discriminate]. inversion Hic; subst.
    destruct args as [|a args]; [discriminate|]. cbn in Hk. apply andb_prop in Hk as [Hk1 Hk2].
    cbn in Hv. destruct (arg_value a) as [v|] eqn:Ea; [|discriminate].
    destruct (map_opt arg_value args) as [vs|] eqn:Evs; [|discriminate]. inversion Hv; subst.
    cbn in Hnd. inversion Hnd as [|? ? Hni Hnd']; subst. cbn [map fst bind_inputs].
    intros x tx [Hi|Hi].
    + inversion Hi; subst. exists v. split.
      * rewrite lookup_bind_inputs_notin; [apply lookup_set_same|exact Hni].
      * eapply arg_value_ty; eassumption.
    + eapply IH; eauto.
Qed.

Theorem output_kind max d args tr v out :
  wt_decl d = true -> out_ty d = Some out ->
  run_fsm max d args = RRun tr (ODone v) -> has_ty v out = true.
Proof.
  intros Hwt Hout Hrun. unfold wt_decl in Hwt. rewrite Hout in Hwt.
  destruct (d_spec d) as [sts|]; [|discriminate].
  destruct (inputs_ctx (d_inputs d)) as [ic|] eqn:Eic; [|discriminate].
  destruct (sig_of_spec sts) as [sg|]; [|discriminate].
  apply andb_prop in Hwt as [Hwt Harms]. apply andb_prop in Hwt as [Hnd Hstart].
  apply run_fsm_accepted in Hrun as (vals & vs & Haw & _ & Hv & He & Hr).
  unfold args_wrong in Haw. apply orb_false_iff in Haw as [_ Hk]. apply negb_false_iff in Hk.
  assert (Hok : env_ok ic (bind_inputs [] (map fst (d_inputs d)) vals)).
  { eapply inputs_env_ok; try eassumption. apply nodupb_NoDup.
    replace (map fst (d_inputs d)) with (map fst ic); [exact Hnd|].
    clear - Eic. revert ic Eic. induction (d_inputs d) as [|[n ok] r IH]; intros ic Eic; cbn in Eic.
    - inversion Eic. reflexivity.
    - destruct ok as [k|]; [|discriminate]. cbn in Eic. destruct (ty_of_kind k); [|discriminate].
      fold (inputs_ctx r) in Eic. destruct (inputs_ctx r) as [ic'|]; [|discriminate].
      inversion Eic; subst. cbn. f_equal. apply IH. reflexivity. }
  eapply Run_output_typed; [exact Harms|exact Hr| |reflexivity].
  cbn in Hstart. destruct (lookup sg (fst (d_start d))) as [ts|] eqn:Es; [|discriminate].
  exists ts. split; [exact Es|]. eapply eval_list_ty; eassumption.
Qed.

(* =====================================================================
   4b. Lexical scoping: for a well-scoped declaration the interpreter's single persistent
       environment is unobservable - the run equals the lexically scoped run [run_lex]
   ===================================================================== *)
Definition same_on (s : list string) (a b : env) : Prop := forall x, In x s -> lookup a x = lookup b x.

Lemma same_on_sub s s' a b : (forall x, In x s' -> In x s) -> same_on s a b -> same_on s' a b.
Proof. intros Hs H x Hx. apply H. apply Hs. exact Hx. Qed.

Lemma same_on_app s1 s2 a b : same_on (s1 ++ s2) a b -> same_on s1 a b /\ same_on s2 a b.
Proof. intros H. split; intros x Hx; apply H; apply in_or_app; auto. Qed.

Lemma eval_atom_same a e1 e2 : same_on (atom_fv a) e1 e2 -> eval_atom e1 a = eval_atom e2 a.
Proof. destruct a as [x|z]; cbn; intros H; [rewrite (H x (or_introl eq_refl))|]; reflexivity. Qed.

Lemma eval_items_same : forall items e1 e2,
  same_on (flat_map atom_fv items) e1 e2 -> eval_items e1 items = eval_items e2 items.
Proof.
  induction items as [|a r IH]; intros e1 e2 H; cbn; [reflexivity|].
  cbn in H. apply same_on_app in H as [Ha Hr]. rewrite (eval_atom_same a e1 e2 Ha), (IH e1 e2 Hr). reflexivity.
Qed.

Lemma eval_same : forall x e1 e2, same_on (expr_fv x) e1 e2 -> eval e1 x = eval e2 x.
Proof.
  induction x as [a|a IHa b IHb|a IHa b IHb|a IHa b IHb|items]; intros e1 e2 H; cbn in *.
  - apply eval_atom_same. exact H.
  - apply same_on_app in H as [H1 H2]. rewrite (IHa _ _ H1), (IHb _ _ H2). reflexivity.
  - apply same_on_app in H as [H1 H2]. rewrite (IHa _ _ H1), (IHb _ _ H2). reflexivity.
  - apply same_on_app in H as [H1 H2]. rewrite (IHa _ _ H1), (IHb _ _ H2). reflexivity.
  - rewrite (eval_items_same items e1 e2 H). reflexivity.
Qed.

Lemma eval_list_same : forall xs e1 e2, same_on (flat_map expr_fv xs) e1 e2 -> eval_list e1 xs = eval_list e2 xs.
Proof.
  induction xs as [|x r IH]; intros e1 e2 H; cbn; [reflexivity|].
  cbn in H. apply same_on_app in H as [Hx Hr]. rewrite (eval_same x e1 e2 Hx), (IH e1 e2 Hr). reflexivity.
Qed.

Lemma eval_guard_same : forall g e1 e2, same_on (guard_fv g) e1 e2 -> eval_guard e1 g = eval_guard e2 g.
Proof.
  induction g as [|c a b|g IHg h IHh|g IHg h IHh|g IHg]; intros e1 e2 H; cbn in *.
  - reflexivity.
  - apply same_on_app in H as [H1 H2]. rewrite (eval_same a _ _ H1), (eval_same b _ _ H2). reflexivity.
  - apply same_on_app in H as [H1 H2]. rewrite (IHg _ _ H1), (IHh _ _ H2). reflexivity.
  - apply same_on_app in H as [H1 H2]. rewrite (IHg _ _ H1), (IHh _ _ H2). reflexivity.
  - rewrite (IHg _ _ H). reflexivity.
Qed.

(* matching on two environments that agree on a set containing the pattern's variables *)
Definition opt_same (s : list string) (a b : option env) : Prop :=
  match a, b with
  | None, None => True
  | Some a', Some b' => same_on s a' b'
  | _, _ => False
  end.

Lemma bind_var_same s a b x v : same_on s a b -> In x s -> opt_same s (bind_var a x v) (bind_var b x v).
Proof.
  intros H Hx. unfold bind_var. rewrite <- (H x Hx). destruct (lookup a x) as [v'|].
  - destruct (value_eqb v' v); cbn; [exact H|exact I].
  - cbn. intros y Hy. cbn. rewrite (H y Hy). reflexivity.
Qed.

Lemma match_ipats_same s : forall ps a b zs,
  same_on s a b -> (forall x, In x (flat_map ipat_vars ps) -> In x s) ->
  opt_same s (match_ipats a ps zs) (match_ipats b ps zs).
Proof.
  induction ps as [|p r IH]; intros a b zs H Hs; cbn.
  - exact H.
  - destruct zs as [|z zs]; [exact I|].
    assert (H1 : opt_same s (match_ipat a p z) (match_ipat b p z)).
    { destruct p as [x|n]; cbn.
      - apply bind_var_same; [exact H|]. apply Hs. cbn. left. reflexivity.
      - destruct (Z.eqb n z); cbn; [exact H|exact I]. }
    destruct (match_ipat a p z) as [a1|], (match_ipat b p z) as [b1|]; cbn in H1; try contradiction; [|exact I].
    apply IH; [exact H1|]. intros x Hx. apply Hs. cbn. apply in_or_app. right. exact Hx.
Qed.

Lemma match_pat_same s a b p v :
  same_on s a b -> (forall x, In x (pat_vars p) -> In x s) ->
  opt_same s (match_pat a p v) (match_pat b p v).
Proof.
  intros H Hs. destruct p as [x|n| |pre sp suf].
  - assert (Hb : opt_same s (bind_var a x v) (bind_var b x v)) by (apply bind_var_same; [exact H|apply Hs; left; reflexivity]).
    destruct v; exact Hb.
  - destruct v as [z|l]; cbn; [|exact I]. destruct (Z.eqb n z); cbn; [exact H|exact I].
  - destruct v; exact H.
  - destruct v as [z|l]; [exact I|]. cbn [match_pat].
    destruct (Nat.ltb _ _); [exact I|].
    assert (H1 : opt_same s (match_ipats a pre l) (match_ipats b pre l)).
    { apply match_ipats_same; [exact H|]. intros x Hx. apply Hs. cbn. apply in_or_app. left. exact Hx. }
    destruct (match_ipats a pre l) as [a1|], (match_ipats b pre l) as [b1|]; cbn in H1; try contradiction; [|exact I].
    set (tl := skipn (List.length l - List.length suf) l).
    assert (H2 : opt_same s (match_ipats a1 suf tl) (match_ipats b1 suf tl)).
    { apply match_ipats_same; [exact H1|]. intros x Hx. apply Hs. cbn. apply in_or_app. right. apply in_or_app. right. exact Hx. }
    destruct (match_ipats a1 suf tl) as [a2|], (match_ipats b1 suf tl) as [b2|]; cbn in H2; try contradiction; [|exact I].
    destruct sp as [| |x].
    + destruct (Nat.eqb _ _); cbn; [exact H2|exact I].
    + exact H2.
    + apply bind_var_same; [exact H2|]. apply Hs. cbn. apply in_or_app. right. left. reflexivity.
Qed.

Lemma match_pats_same s : forall ps a b vs,
  same_on s a b -> (forall x, In x (flat_map pat_vars ps) -> In x s) ->
  opt_same s (match_pats a ps vs) (match_pats b ps vs).
Proof.
  induction ps as [|p r IH]; intros a b vs H Hs; cbn.
  - destruct vs; [exact H|exact I].
  - destruct vs as [|v vs]; [exact I|].
    assert (H1 : opt_same s (match_pat a p v) (match_pat b p v)).
    { apply match_pat_same; [exact H|]. intros x Hx. apply Hs. cbn. apply in_or_app. left. exact Hx. }
    destruct (match_pat a p v) as [a1|], (match_pat b p v) as [b1|]; cbn in H1; try contradiction; [|exact I].
    apply IH; [exact H1|]. intros x Hx. apply Hs. cbn. apply in_or_app. right. exact Hx.
Qed.

Lemma lookup_remove_all_in (e : env) xs x : In x xs -> lookup (remove_all xs e) x = None.
Proof.
  intros Hx. induction e as [|[y v] r IH]; cbn; [reflexivity|].
  destruct (memb y xs) eqn:Em; cbn; [exact IH|].
  destruct (String.eqb x y) eqn:E; [|exact IH].
  apply String.eqb_eq in E. subst. apply memb_In in Hx. congruence.
Qed.

Lemma lookup_remove_all_notin (e : env) xs x : ~ In x xs -> lookup (remove_all xs e) x = lookup e x.
Proof.
  intros Hx. induction e as [|[y v] r IH]; cbn; [reflexivity|].
  destruct (memb y xs) eqn:Em; cbn.
  - destruct (String.eqb x y) eqn:E; [|exact IH].
    apply String.eqb_eq in E. subst. apply memb_In in Em. contradiction.
  - destruct (String.eqb x y); [reflexivity|exact IH].
Qed.

(* the two environments an arm is tried in agree on the arm's variables and on the free inputs *)
Lemma match_arm_same u e e0 st a :
  same_on u e e0 -> (forall x, In x u -> ~ In x (arm_pat_vars a)) ->
  opt_same (arm_pat_vars a ++ u) (match_arm e st a) (match_arm e0 st a).
Proof.
  intros H Hd. unfold match_arm. destruct (andb _ _); [|exact I].
  apply match_pats_same.
  - intros x Hx. apply in_app_or in Hx as [Hx|Hx].
    + fold (arm_pat_vars a). rewrite !lookup_remove_all_in by exact Hx. reflexivity.
    + fold (arm_pat_vars a). rewrite !lookup_remove_all_notin by (apply Hd; exact Hx). apply H. exact Hx.
  - intros x Hx. apply in_or_app. left. exact Hx.
Qed.

(* matching binds nothing but the pattern's variables *)
Lemma bind_var_frame e x v e' y : bind_var e x v = Some e' -> y <> x -> lookup e' y = lookup e y.
Proof.
  unfold bind_var. destruct (lookup e x) as [v'|].
  - destruct (value_eqb v' v); [|discriminate]. intros H. inversion H. reflexivity.
  - intros H Hne. inversion H; subst. cbn. destruct (String.eqb y x) eqn:E; [|reflexivity].
    apply String.eqb_eq in E. contradiction.
Qed.

Lemma match_ipats_frame : forall ps e zs e' y,
  match_ipats e ps zs = Some e' -> ~ In y (flat_map ipat_vars ps) -> lookup e' y = lookup e y.
Proof.
  induction ps as [|p r IH]; intros e zs e' y H Hy; cbn in H.
  - inversion H. reflexivity.
  - destruct zs as [|z zs]; [discriminate|].
    destruct (match_ipat e p z) as [e1|] eqn:E1; [|discriminate].
    rewrite (IH _ _ _ _ H) by (intros Hi; apply Hy; cbn; apply in_or_app; right; exact Hi).
    destruct p as [x|n]; cbn in E1.
    + eapply bind_var_frame; [exact E1|]. intros ->. apply Hy. cbn. left. reflexivity.
    + destruct (Z.eqb n z); [|discriminate]. inversion E1. reflexivity.
Qed.

Lemma match_pat_frame e p v e' y :
  match_pat e p v = Some e' -> ~ In y (pat_vars p) -> lookup e' y = lookup e y.
Proof.
  intros H Hy. destruct p as [x|n| |pre sp suf].
  - assert (Hb : bind_var e x v = Some e') by (destruct v; exact H).
    eapply bind_var_frame; [exact Hb|]. intros ->. apply Hy. left. reflexivity.
  - destruct v as [z|l]; cbn in H; [|discriminate]. destruct (Z.eqb n z); [|discriminate]. inversion H. reflexivity.
  - assert (e' = e) by (destruct v; cbn in H; congruence). subst. reflexivity.
  - destruct v as [z|l]; [discriminate|]. cbn [match_pat] in H. cbn in Hy.
    destruct (Nat.ltb _ _); [discriminate|].
    destruct (match_ipats e pre l) as [e1|] eqn:E1; [|discriminate].
    destruct (match_ipats e1 suf _) as [e2|] eqn:E2; [|discriminate].
    assert (H12 : lookup e2 y = lookup e y).
    { rewrite (match_ipats_frame _ _ _ _ _ E2) by (intros Hi; apply Hy; apply in_or_app; right; apply in_or_app; right; exact Hi).
      apply (match_ipats_frame _ _ _ _ _ E1). intros Hi. apply Hy. apply in_or_app. left. exact Hi. }
    destruct sp as [| |x].
    + destruct (Nat.eqb _ _); [|discriminate]. inversion H; subst. exact H12.
    + inversion H; subst. exact H12.
    + rewrite (bind_var_frame _ _ _ _ y H); [exact H12|].
      intros ->. apply Hy. apply in_or_app. right. left. reflexivity.
Qed.

Lemma match_pats_frame : forall ps e vs e' y,
  match_pats e ps vs = Some e' -> ~ In y (flat_map pat_vars ps) -> lookup e' y = lookup e y.
Proof.
  induction ps as [|p r IH]; intros e vs e' y H Hy; cbn in H.
  - destruct vs; [|discriminate]. inversion H. reflexivity.
  - destruct vs as [|v vs]; [discriminate|].
    destruct (match_pat e p v) as [e1|] eqn:E1; [|discriminate].
    rewrite (IH _ _ _ _ H) by (intros Hi; apply Hy; cbn; apply in_or_app; right; exact Hi).
    apply (match_pat_frame _ _ _ _ _ E1). intros Hi. apply Hy. cbn. apply in_or_app. left. exact Hi.
Qed.

Lemma match_arm_frame e st a e' y :
  match_arm e st a = Some e' -> ~ In y (arm_pat_vars a) -> lookup e' y = lookup e y.
Proof.
  unfold match_arm. destruct (andb _ _); [|discriminate]. intros H Hy.
  rewrite (match_pats_frame _ _ _ _ _ H Hy). apply lookup_remove_all_notin. exact Hy.
Qed.

Lemma fv_ok_sub a u fv : fv_ok a u fv = true -> forall x, In x fv -> In x (arm_pat_vars a ++ u).
Proof.
  unfold fv_ok. rewrite forallb_forall. intros H x Hx. specialize (H x Hx).
  apply orb_true_iff in H as [H|H]; apply memb_In in H; apply in_or_app; auto.
Qed.

Lemma first_guard_same a u e1 e2 : forall gs j,
  same_on (arm_pat_vars a ++ u) e1 e2 ->
  forallb (fun gt => andb (fv_ok a u (guard_fv (fst gt))) (fv_ok a u (target_fv (snd gt)))) gs = true ->
  first_guard e1 gs j = first_guard e2 gs j.
Proof.
  induction gs as [|[g t] r IH]; intros j H Hok; cbn; [reflexivity|].
  cbn in Hok. apply andb_prop in Hok as [Hg Hr]. apply andb_prop in Hg as [Hg _].
  rewrite (eval_guard_same g e1 e2) by (eapply same_on_sub; [apply fv_ok_sub; exact Hg|exact H]).
  destruct (eval_guard e2 g) as [[|]|]; try reflexivity. apply IH; assumption.
Qed.

(* the result of choosing a transition is the same up to the environment, which agrees on everything
   the chosen target can mention and on the free inputs *)
Definition sel_same (u : list string) (s1 s2 : sel) : Prop :=
  match s1, s2 with
  | SelNone, SelNone => True
  | SelErr, SelErr => True
  | Sel i g a t, Sel i' g' b t' => i = i' /\ g = g' /\ t = t' /\ same_on (target_fv t) a b
  | _, _ => False
  end.

Lemma select_same u e e0 st : forall arms i,
  same_on u e e0 ->
  (forall a x, In a arms -> In x u -> ~ In x (arm_pat_vars a)) ->
  forallb (arm_scoped u) arms = true ->
  sel_same u (select e st arms i) (select e0 st arms i).
Proof.
  induction arms as [|a r IH]; intros i H Hd Hsc; cbn [select]; [exact I|].
  cbn in Hsc. apply andb_prop in Hsc as [Ha Hr].
  assert (IHr : forall j, sel_same u (select e st r j) (select e0 st r j)).
  { intros j. apply IH; [exact H| |exact Hr]. intros b x Hb. apply Hd. right. exact Hb. }
  pose proof (match_arm_same u e e0 st a H (fun x => Hd a x (or_introl eq_refl))) as Hm.
  destruct (match_arm e st a) as [a1|], (match_arm e0 st a) as [b1|]; cbn in Hm; try contradiction; [|apply IHr].
  unfold arm_scoped in Ha. destruct (a_body a) as [t|gs].
  - cbn. repeat split; try reflexivity. eapply same_on_sub; [apply fv_ok_sub; exact Ha|exact Hm].
  - rewrite (first_guard_same a u a1 b1 gs 0 Hm Ha).
    destruct (first_guard b1 gs 0) as [[[j t]|]|] eqn:Eg; [|apply IHr|exact I].
    cbn. repeat split; try reflexivity.
    assert (Hin : exists g, In (g, t) gs).
    { clear - Eg. revert Eg. generalize 0. induction gs as [|[g0 t0] r IH]; intros n Eg; cbn in Eg; [discriminate|].
      destruct (eval_guard b1 g0) as [[|]|]; try discriminate.
      - inversion Eg; subst. exists g0. left. reflexivity.
      - destruct (IH _ Eg) as [g Hg]. exists g. right. exact Hg. }
    destruct Hin as [g Hin]. rewrite forallb_forall in Ha. specialize (Ha _ Hin). cbn in Ha.
    apply andb_prop in Ha as [_ Ht]. eapply same_on_sub; [apply fv_ok_sub; exact Ht|exact Hm].
Qed.

(* after the chosen arm fired, the persistent environment still agrees with the inputs' on the free inputs *)
Lemma select_env_frame e st : forall arms n i g e' t y,
  select e st arms n = Sel i g e' t -> (forall a, In a arms -> ~ In y (arm_pat_vars a)) -> lookup e' y = lookup e y.
Proof.
  induction arms as [|a r IH]; intros n i g e' t y H Hy; cbn [select] in H; [discriminate|].
  assert (IHr : forall m, select e st r m = Sel i g e' t -> lookup e' y = lookup e y).
  { intros m Hm. eapply IH; [exact Hm|]. intros b Hb. apply Hy. right. exact Hb. }
  destruct (match_arm e st a) as [e1|] eqn:Em; [|eapply IHr; exact H].
  destruct (a_body a) as [t1|gs].
  - inversion H; subst. eapply match_arm_frame; [exact Em|]. apply Hy. left. reflexivity.
  - destruct (first_guard e1 gs 0) as [[[j t1]|]|]; [|eapply IHr; exact H|discriminate].
    inversion H; subst. eapply match_arm_frame; [exact Em|]. apply Hy. left. reflexivity.
Qed.

Theorem run_lexical u arms :
  (forall a x, In a arms -> In x u -> ~ In x (arm_pat_vars a)) ->
  forallb (arm_scoped u) arms = true ->
  forall n e e0 st, same_on u e e0 -> run arms n e st = run_lex arms n e0 st.
Proof.
  intros Hd Hsc. induction n as [|n IH]; intros e e0 st H; cbn [run run_lex]; [reflexivity|].
  pose proof (select_same u e e0 st arms 0 H Hd Hsc) as Hs.
  destruct (select e st arms 0) as [| |i g a t] eqn:E1, (select e0 st arms 0) as [| |i' g' b t'] eqn:E2;
    cbn in Hs; try contradiction; try reflexivity.
  destruct Hs as (-> & -> & -> & Ht).
  destruct t' as [s xs|x]; cbn in Ht.
  - rewrite (eval_list_same xs a b Ht). destruct (eval_list b xs) as [vs|]; [|reflexivity].
    rewrite (IH a e0 (s, vs)); [reflexivity|].
    intros y Hy. rewrite <- (H y Hy). eapply select_env_frame; [exact E1|].
    intros a0 Ha0. apply (Hd a0 y Ha0 Hy).
  - rewrite (eval_same x a b Ht). reflexivity.
Qed.

Lemma free_inputs_disjoint inputs arms a x :
  In a arms -> In x (free_inputs inputs arms) -> ~ In x (arm_pat_vars a).
Proof.
  unfold free_inputs. intros Ha Hx Hp. apply filter_In in Hx as [_ Hx]. apply negb_true_iff in Hx.
  assert (Hm : memb x (flat_map arm_pat_vars arms) = true).
  { apply memb_In. apply in_flat_map. exists a. auto. }
  congruence.
Qed.

(* the lexical-scoping theorem at the level of a declaration *)
Theorem lexical_scoping d :
  well_scoped d = true ->
  forall n e0 st, run (d_arms d) n e0 st = run_lex (d_arms d) n e0 st.
Proof.
  intros Hws n e0 st. eapply run_lexical with (u := free_inputs (map fst (d_inputs d)) (d_arms d)).
  - intros a x Ha Hx. eapply free_inputs_disjoint; eassumption.
  - exact Hws.
  - intros x _. reflexivity.
Qed.

(* =====================================================================
   5. The judge: an `ok` verdict transports the property to the observation
   ===================================================================== *)
(* how the trace facility shows a run: state names, scalar payloads exactly, vectors by shape,
   index of the arm and guard that fired (-1: none) *)
Definition opl_abs (v : value) (o : opl) : Prop :=
  match v, o with
  | VNum z, ONum z' => z = z'
  | VVec l, OVec r c => r = 1 /\ c = List.length l
  | _, _ => False
  end.

Definition visit_abs (v : visit) (o : ovisit) : Prop :=
  fst (v_state v) = ov_name o /\ Forall2 opl_abs (snd (v_state v)) (ov_payload o) /\
  arm_code (v_arm v) = (ov_arm o, ov_guard o).

Definition trace_abs (tr : list visit) (os : list ovisit) : Prop := Forall2 visit_abs tr os.

Lemma opls_matchb_abs : forall vs os, opls_matchb vs os = true -> Forall2 opl_abs vs os.
Proof.
  induction vs as [|v vs IH]; intros [|o os] H; cbn in H; try discriminate; constructor.
  - apply andb_prop in H as [H _]. destruct v, o; cbn in *; try discriminate.
    + apply Z.eqb_eq. exact H.
    + apply andb_prop in H as [H1 H2]. apply Nat.eqb_eq in H1, H2. auto.
  - apply andb_prop in H as [_ H]. auto.
Qed.

Lemma trace_matchb_abs : forall tr os, trace_matchb tr os = true -> trace_abs tr os.
Proof.
  induction tr as [|v tr IH]; intros [|o os] H; cbn in H; try discriminate; constructor.
  - apply andb_prop in H as [H _]. unfold visit_matchb, state_matchb in H.
    apply andb_prop in H as [Hs Ha]. apply andb_prop in Hs as [Hn Hp]. apply andb_prop in Ha as [Ha Hg].
    apply String.eqb_eq in Hn. apply Z.eqb_eq in Ha, Hg. apply opls_matchb_abs in Hp.
    split; [exact Hn|]. split; [exact Hp|]. destruct (arm_code (v_arm v)); cbn in *. congruence.
  - apply andb_prop in H as [_ H]. apply IH. exact H.
Qed.

Definition LIMIT_ERR : string := "FsmExceededTransitionLimit"%string.

Definition C17_spec (c : case) (ob : fobs) : Prop :=
  let d := c_decl c in
  (* ill-formed declaration or wrong arguments: an error, and no state was visited *)
  ((ill_formed d = true \/ args_wrong d (c_args c) = true) /\ is_err (o_res ob) = true /\ o_trace ob = [])
  \/
  (* accepted (well-formed, well-scoped): the observed state sequence is the run the declaration determines, and it ends
     with the value of the output arm (of the declared kind) or with the limit error *)
  (exists vals vs tr o,
      args_wrong d (c_args c) = false /\ ill_formed d = false /\ well_scoped d = true /\
      map_opt arg_value (c_args c) = Some vals /\
      eval_list (bind_inputs [] (map fst (d_inputs d)) vals) (snd (d_start d)) = Ok vs /\
      Run (d_arms d) (c_max c) (bind_inputs [] (map fst (d_inputs d)) vals) (fst (d_start d), vs) tr o /\
      trace_abs tr (o_trace ob) /\
      ((exists v, o = ODone v /\ o_res ob = enc_value v /\ value_has_out d v = true) \/
       (exists st, o = OLimit st /\ err_is (o_res ob) LIMIT_ERR = true /\ List.length tr = c_max c))).

Lemma run_fsm_reject_reason max d args w :
  run_fsm max d args = RReject w -> ill_formed d = true \/ args_wrong d args = true.
Proof.
  unfold run_fsm, args_wrong. intros H.
  destruct (negb (Nat.eqb _ _)) eqn:E1; [right; reflexivity|].
  destruct (negb (args_kinds_ok _ _)) eqn:E2; [right; reflexivity|].
  destruct (map_opt arg_value args); [|discriminate].
  destruct (eval_list _ _); [|discriminate].
  destruct (negb (validate d)) eqn:E3.
  - left. apply validate_false_ill_formed. apply negb_true_iff. exact E3.
  - destruct (run _ _ _ _). discriminate.
Qed.

Lemma err_is_is_err r n : err_is r n = true -> is_err r = true.
Proof. unfold err_is, is_err. destruct (err_name r); [reflexivity|discriminate]. Qed.

Lemma ill_formed_accepted_is_kf d :
  validate d = true -> ill_formed d = true ->
  kf_undeclared_with_arm d = true \/ kf_armless_unreferenced d = true.
Proof.
  unfold ill_formed, kf_undeclared_with_arm, kf_armless_unreferenced. intros ->.
  destruct (undeclared_target d), (armless_declared d); cbn; auto.
Qed.

Theorem judge_case_sound c ob tag : judge_case c ob = v_ok tag -> C17_spec c ob.
Proof.
  unfold judge_case. destruct (run_fsm (c_max c) (c_decl c) (c_args c)) as [w| | |tr o] eqn:Er.
  - destruct (rejected_obs ob w) eqn:E; [|discriminate]. intros _. left.
    apply andb_prop in E as [E1 E2]. split; [eapply run_fsm_reject_reason; exact Er|].
    split; [eapply err_is_is_err; exact E1|]. destruct (o_trace ob); [reflexivity|discriminate].
  - discriminate.
  - discriminate.
  - destruct (ill_formed (c_decl c)) eqn:Hwf.
    + destruct (rejected_obs ob RjState) eqn:E; [|destruct (run_matchb tr o ob); discriminate].
      intros _. left. apply andb_prop in E as [E1 E2]. split; [left; exact Hwf|].
      split; [eapply err_is_is_err; exact E1|]. destruct (o_trace ob); [reflexivity|discriminate].
    + pose proof (run_fsm_accepted _ _ _ _ _ Er) as (vals & vs & Haw & Hval & Hv & He & Hr).
      destruct o as [v| |st|]; try discriminate.
      * destruct (run_matchb tr (ODone v) ob) eqn:Em; [|discriminate].
        destruct (negb (well_scoped (c_decl c))) eqn:Ews; [discriminate|]. apply negb_false_iff in Ews.
        destruct (value_has_out (c_decl c) v) eqn:Eo; [|discriminate]. intros _. right.
        unfold run_matchb in Em. apply andb_prop in Em as [Et Ev].
        exists vals, vs, tr, (ODone v). repeat (split; [assumption|]).
        split; [apply trace_matchb_abs; exact Et|]. left. exists v. split; [reflexivity|].
        split; [symmetry; apply sx_eqb_eq; exact Ev|exact Eo].
      * destruct (run_matchb tr OStuck ob); discriminate.
      * destruct (run_matchb tr (OLimit st) ob) eqn:Em; [|discriminate].
        destruct (negb (well_scoped (c_decl c))) eqn:Ews; [discriminate|]. apply negb_false_iff in Ews.
        intros _. right.
        unfold run_matchb in Em. apply andb_prop in Em as [Et Ev]. apply andb_prop in Ev as [Ev _].
        exists vals, vs, tr, (OLimit st). repeat (split; [assumption|]).
        split; [apply trace_matchb_abs; exact Et|]. right. exists st. split; [reflexivity|].
        split; [exact Ev|]. eapply Run_limit_exact; [exact Hr|reflexivity].
Qed.

(* a (kf id) verdict is only given inside a known-finding class, and only for the modelled wrong behaviour *)
Theorem judge_case_kf c ob id :
  judge_case c ob = v_kf id ->
  ill_formed (c_decl c) = true /\
  (kf_undeclared_with_arm (c_decl c) = true \/ kf_armless_unreferenced (c_decl c) = true) /\
  exists tr o, run_fsm (c_max c) (c_decl c) (c_args c) = RRun tr o /\ run_matchb tr o ob = true.
Proof.
  unfold judge_case. destruct (run_fsm (c_max c) (c_decl c) (c_args c)) as [w| | |tr o] eqn:Er.
  - destruct (rejected_obs ob w); discriminate.
  - discriminate.
  - discriminate.
  - destruct (ill_formed (c_decl c)) eqn:Hwf.
    + destruct (rejected_obs ob RjState); [discriminate|].
      destruct (run_matchb tr o ob) eqn:Em; [|discriminate]. intros _.
      split; [reflexivity|]. split; [|eauto].
      apply run_fsm_accepted in Er as (vals & vs & _ & Hval & _). apply ill_formed_accepted_is_kf; assumption.
    + destruct o as [v| |st|]; try discriminate.
      * destruct (run_matchb _ _ ob); [destruct (negb _); [|destruct (value_has_out _ _)]|]; discriminate.
      * destruct (run_matchb _ _ ob); discriminate.
      * destruct (run_matchb _ _ ob); [destruct (negb _)|]; discriminate.
Qed.

(* =====================================================================
   6. Concrete machines: non-vacuity, the two known findings, a machine that never terminates
   ===================================================================== *)
Section Examples.
Local Open Scope string_scope.
Local Open Scope list_scope.
Local Open Scope Z_scope.

Definition V (x : string) : expr := EAtom (AVar x).
Definition L (z : Z) : expr := EAtom (ALit z).

(* the documented counter *)
Definition counter_arms : list arm :=
  [ Arm "Count" [PVar "n"]
        (BG [ (GCmp CGt (V "n") (L 0), TNext "Count" [ESub (V "n") (L 1)]);
              (GCmp CEq (V "n") (L 0), TNext "Done" [L 0]) ]);
    Arm "Done" [PVar "n"] (BT (TOut (V "n"))) ].

Definition counter_with (spec : option (list (string * list kind))) : decl :=
  Decl [("n", Some (KS "u64"))] (Some (KS "u64")) spec ("Count", [V "n"]) counter_arms.

Definition counter : decl := counter_with (Some [("Count", [KS "u64"]); ("Done", [KS "u64"])]).

Lemma counter_example :
  wt_decl counter = true /\ ill_formed counter = false /\
  run_fsm 40 counter [AS "u64" 2] =
    RRun [ Visit ("Count", [VNum 2]) (Some (0%nat, Some 0%nat));
           Visit ("Count", [VNum 1]) (Some (0%nat, Some 0%nat));
           Visit ("Count", [VNum 0]) (Some (0%nat, Some 1%nat));
           Visit ("Done", [VNum 0]) (Some (1%nat, None)) ] (ODone (VNum 0)).
Proof. repeat split; vm_compute; reflexivity. Qed.

(* exactly as many iterations as the limit allows: the output state is reached but not examined *)
Lemma counter_limit_example :
  run_fsm 3 counter [AS "u64" 2] =
    RRun [ Visit ("Count", [VNum 2]) (Some (0%nat, Some 0%nat));
           Visit ("Count", [VNum 1]) (Some (0%nat, Some 0%nat));
           Visit ("Count", [VNum 0]) (Some (0%nat, Some 1%nat)) ] (OLimit ("Done", [VNum 0])).
Proof. vm_compute. reflexivity. Qed.

(* two guards true at once: the first one in the text wins, whichever it is *)
Definition overlap (swap : bool) : decl :=
  let g1 := (GCmp CGe (V "n") (L 1), TNext "Done" [EAdd (V "n") (L 100)]) in
  let g2 := (GCmp CGe (V "n") (L 2), TNext "Done" [EAdd (V "n") (L 200)]) in
  Decl [("n", Some (KS "u64"))] (Some (KS "u64")) (Some [("A", [KS "u64"]); ("Done", [KS "u64"])])
       ("A", [V "n"])
       [ Arm "A" [PVar "n"] (BG (if swap then [g2; g1] else [g1; g2]));
         Arm "Done" [PVar "o"] (BT (TOut (V "o"))) ].

Lemma overlap_example :
  (exists tr, run_fsm 40 (overlap false) [AS "u64" 5] = RRun tr (ODone (VNum 105))) /\
  (exists tr, run_fsm 40 (overlap true) [AS "u64" 5] = RRun tr (ODone (VNum 205))).
Proof. split; eexists; vm_compute; reflexivity. Qed.

(* array-pattern states: summing a vector *)
Definition vsum : decl :=
  Decl [("xs", Some (KV "u64"))] (Some (KS "u64"))
       (Some [("S", [KV "u64"; KS "u64"]); ("Done", [KS "u64"])])
       ("S", [V "xs"; L 0])
       [ Arm "S" [PArr [] SNone []; PVar "acc"] (BT (TNext "Done" [V "acc"]));
         Arm "S" [PArr [IVar "x"] (SRest "t") []; PVar "acc"] (BT (TNext "S" [V "t"; EAdd (V "acc") (V "x")]));
         Arm "Done" [PVar "o"] (BT (TOut (V "o"))) ].

Lemma vsum_example :
  wt_decl vsum = true /\
  exists tr, run_fsm 40 vsum [AM "u64" 1 3 [5; 3; 8]] = RRun tr (ODone (VNum 16)) /\ List.length tr = 5%nat.
Proof. split; [vm_compute; reflexivity|]. eexists. split; vm_compute; reflexivity. Qed.

(* known finding 1: a state with an arm that the specification does not declare *)
Definition kf1_witness : decl := counter_with (Some [("Count", [KS "u64"])]).

Lemma kf1_refutes :
  ill_formed kf1_witness = true /\ kf_undeclared_with_arm kf1_witness = true /\
  exists tr, run_fsm 40 kf1_witness [AS "u64" 2] = RRun tr (ODone (VNum 0)).
Proof. split; [|split]; [vm_compute; reflexivity..|]. eexists. vm_compute. reflexivity. Qed.

(* known finding 2: a declared state without an arm that nothing refers to *)
Definition kf2_witness : decl :=
  counter_with (Some [("Count", [KS "u64"]); ("Done", [KS "u64"]); ("Unused", [KS "u64"])]).

Lemma kf2_refutes :
  ill_formed kf2_witness = true /\ kf_armless_unreferenced kf2_witness = true /\
  exists tr, run_fsm 40 kf2_witness [AS "u64" 2] = RRun tr (ODone (VNum 0)).
Proof. split; [|split]; [vm_compute; reflexivity..|]. eexists. vm_compute. reflexivity. Qed.

(* ill-formed declarations outside the two classes, and wrong arguments *)
Definition bad_target : decl :=
  Decl [("n", Some (KS "u64"))] (Some (KS "u64")) (Some [("Closed", [KS "u64"]); ("Open", [KS "u64"])])
       ("Closed", [V "n"])
       [ Arm "Closed" [PVar "n"] (BT (TNext "Locked" [V "n"])); Arm "Open" [PVar "n"] (BT (TOut (V "n"))) ].

Lemma rejected_examples :
  run_fsm 40 bad_target [AS "u64" 1] = RReject RjState /\
  run_fsm 40 counter [AS "f64" 3] = RReject RjArgKind /\
  run_fsm 40 counter [AS "u8" 3] = RReject RjArgKind /\
  run_fsm 40 vsum [AS "u64" 3] = RReject RjArgKind /\
  run_fsm 40 counter [] = RReject RjArgCount.
Proof. repeat split; vm_compute; reflexivity. Qed.

(* the interpreter's persistent environment is observable only by ill-scoped arms: here arm :A rebinds
   the input m, and arm :B then sees that binding (result 3) instead of the input (lexical reading: 12) *)
Definition leak : decl :=
  Decl [("n", Some (KS "u64")); ("m", Some (KS "u64"))] (Some (KS "u64"))
       (Some [("A", [KS "u64"]); ("B", [KS "u64"]); ("Done", [KS "u64"])])
       ("A", [V "n"])
       [ Arm "A" [PVar "m"] (BT (TNext "B" [EAdd (V "m") (L 1)]));
         Arm "B" [PVar "k"] (BT (TNext "Done" [EAdd (V "k") (V "m")]));
         Arm "Done" [PVar "o"] (BT (TOut (V "o"))) ].

Lemma leak_example :
  well_scoped counter = true /\ well_scoped vsum = true /\ well_scoped leak = false /\
  (exists tr, run_fsm 40 leak [AS "u64" 1; AS "u64" 10] = RRun tr (ODone (VNum 3))) /\
  snd (run_lex (d_arms leak) 40 [("m", VNum 10); ("n", VNum 1)] ("A", [VNum 1])) = ODone (VNum 12).
Proof. repeat split; try (eexists; vm_compute; reflexivity); vm_compute; reflexivity. Qed.

(* a machine that never terminates: for EVERY limit it is stopped with the limit error after
   exactly that many iterations *)
Definition spin : decl :=
  Decl [("n", Some (KS "u64"))] (Some (KS "u64")) (Some [("A", [KS "u64"])]) ("A", [V "n"])
       [ Arm "A" [PVar "n"] (BG [ (GCmp CGt (V "n") (L 100), TOut (V "n")); (GWild, TNext "A" [V "n"]) ]) ].

Lemma spin_step n f :
  0 <= n <= 100 ->
  run (d_arms spin) (S f) [("n", VNum n)] ("A", [VNum n]) =
  (let (tr, o) := run (d_arms spin) f [("n", VNum n)] ("A", [VNum n]) in
   (Visit ("A", [VNum n]) (Some (0%nat, Some 1%nat)) :: tr, o)).
Proof.
  intros Hn. cbn [run].
  assert (Hsel : select [("n", VNum n)] ("A", [VNum n]) (d_arms spin) 0 =
                 Sel 0 (Some 1%nat) [("n", VNum n)] (TNext "A" [V "n"])).
  { cbn. assert (H1 : (100 <? n) = false) by (apply Z.ltb_ge; lia). rewrite H1. reflexivity. }
  rewrite Hsel. cbn [eval_list eval V eval_atom lookup]. cbn. reflexivity.
Qed.

Lemma spin_never_terminates n :
  0 <= n <= 100 ->
  forall f, run (d_arms spin) f [("n", VNum n)] ("A", [VNum n]) =
            (repeat (Visit ("A", [VNum n]) (Some (0%nat, Some 1%nat))) f, OLimit ("A", [VNum n])).
Proof.
  intros Hn. induction f as [|f IH]; [reflexivity|].
  rewrite spin_step by exact Hn. rewrite IH. reflexivity.
Qed.

Lemma spin_stopped n max :
  0 <= n <= 100 ->
  exists tr st, run_fsm max spin [AS "u64" n] = RRun tr (OLimit st) /\ List.length tr = max.
Proof.
  intros Hn. unfold run_fsm.
  assert (Hu : in_u64 n = true) by (unfold in_u64, U64MAX; apply andb_true_intro; split; apply Z.leb_le; lia).
  cbn. rewrite Hu. cbn.
  change (run _ max _ _) with (run (d_arms spin) max [("n", VNum n)] ("A", [VNum n])).
  rewrite spin_never_terminates by exact Hn.
  eexists _, _. split; [reflexivity|]. apply repeat_length.
Qed.
End Examples.

(* =====================================================================
   7. The theorems of sections 2 and 4 at the level of an invocation
   ===================================================================== *)
Lemma run_fsm_of_Run max d args vals vs tr o :
  args_wrong d args = false -> validate d = true -> map_opt arg_value args = Some vals ->
  eval_list (bind_inputs [] (map fst (d_inputs d)) vals) (snd (d_start d)) = Ok vs ->
  Run (d_arms d) max (bind_inputs [] (map fst (d_inputs d)) vals) (fst (d_start d), vs) tr o ->
  run_fsm max d args = RRun tr o.
Proof.
  intros Ha Hval Hv He Hr. unfold args_wrong in Ha. apply orb_false_iff in Ha as [Ha1 Ha2].
  unfold run_fsm. rewrite Ha1, Ha2, Hv, He, Hval. cbn [negb].
  apply run_complete in Hr. rewrite Hr. reflexivity.
Qed.

Theorem run_fsm_trace_first_enabled max d args tr o :
  run_fsm max d args = RRun tr o ->
  forall k v1 v2, nth_error tr k = Some v1 -> nth_error tr (S k) = Some v2 -> step_ok (d_arms d) v1 v2.
Proof.
  intros H. apply run_fsm_accepted in H as (vals & vs & _ & _ & _ & _ & H).
  eapply Run_trace_first_enabled; exact H.
Qed.

Theorem run_fsm_ends_at_output max d args tr v :
  run_fsm max d args = RRun tr (ODone v) ->
  exists pre lv e1 e2 i gi x,
    tr = pre ++ [lv] /\ fires e1 (v_state lv) (d_arms d) i gi e2 (TOut x) /\ eval e2 x = Ok v /\
    v_arm lv = Some (i, gi).
Proof.
  intros H. apply run_fsm_accepted in H as (vals & vs & _ & _ & _ & _ & H).
  eapply Run_ends_at_output; [exact H|reflexivity].
Qed.

Theorem run_fsm_limit_stops n d args tr o max :
  run_fsm n d args = RRun tr o -> max < List.length tr ->
  exists st, run_fsm max d args = RRun (firstn max tr) (OLimit st).
Proof.
  intros H Hlt. apply run_fsm_accepted in H as (vals & vs & Ha & Hval & Hv & He & H).
  destruct (Run_cut _ _ _ _ _ _ H max Hlt) as [st Hr]. exists st.
  eapply run_fsm_of_Run; eassumption.
Qed.

Theorem run_fsm_limit_exact max d args tr st :
  run_fsm max d args = RRun tr (OLimit st) -> List.length tr = max.
Proof.
  intros H. apply run_fsm_accepted in H as (vals & vs & _ & _ & _ & _ & H).
  eapply Run_limit_exact; [exact H|reflexivity].
Qed.

Theorem run_fsm_fuel_stable n d args tr o m :
  run_fsm n d args = RRun tr o -> (forall st, o <> OLimit st) -> n <= m -> run_fsm m d args = RRun tr o.
Proof.
  intros H Hno Hm. apply run_fsm_accepted in H as (vals & vs & Ha & Hval & Hv & He & H).
  eapply run_fsm_of_Run; try eassumption. eapply Run_fuel_stable; eassumption.
Qed.
