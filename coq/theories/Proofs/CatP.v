(* Lemmas for C11 (Model/Cat.v). *)
From Coq Require Import List Arith Lia PeanoNat.
From Coq Require String.
From MechV Require Import Base.Sexp Base.Obs Model.Cat Proofs.SexpP.
Import ListNotations.

Section CatP.
  Context {A : Type}.
  Implicit Types (b m : mat A) (bs row : list (mat A)) (rows : list (list (mat A))).

  (* ---------- generic list facts ---------- *)
  Lemma nth_error_concat {B} (ls : list (list B)) : forall q l k,
      nth_error ls q = Some l -> k < length l ->
      nth_error (List.concat ls) (length (List.concat (firstn q ls)) + k) = nth_error l k.
  Proof.
    induction ls as [|x ls IH]; intros q l k Hq Hk.
    - destruct q; discriminate.
    - destruct q as [|q]; cbn [nth_error firstn List.concat] in *.
      + injection Hq as ->. cbn. rewrite nth_error_app1 by lia. reflexivity.
      + rewrite app_length, <- Nat.add_assoc, nth_error_app2 by lia.
        replace (length x + (length (List.concat (firstn q ls)) + k) - length x)
          with (length (List.concat (firstn q ls)) + k) by lia.
        apply IH; assumption.
  Qed.

  Lemma length_concat_uniform {B} (ls : list (list B)) n :
    Forall (fun l => length l = n) ls -> length (List.concat ls) = length ls * n.
  Proof.
    induction 1 as [|x ls Hx _ IH]; cbn; [reflexivity|].
    rewrite app_length, IH, Hx. reflexivity.
  Qed.

  Lemma Forall_firstn_keep {B} (P : B -> Prop) (l : list B) : forall k, Forall P l -> Forall P (firstn k l).
  Proof.
    induction l as [|x l IH]; intros [|k] H; cbn; try constructor.
    - inversion H; assumption.
    - apply IH. inversion H; assumption.
  Qed.

  Lemma nth_error_flat_map_uniform {B C} (f : B -> list C) (xs : list B) n : forall j x k,
      Forall (fun y => length (f y) = n) xs ->
      nth_error xs j = Some x -> k < n ->
      nth_error (flat_map f xs) (j * n + k) = nth_error (f x) k.
  Proof.
    intros j x k Hall Hj Hk.
    rewrite flat_map_concat_map.
    assert (Hlen : length (List.concat (firstn j (map f xs))) = j * n).
    { rewrite (length_concat_uniform _ n).
      - rewrite firstn_length, map_length.
        assert (j < length xs) by (apply nth_error_Some; congruence). rewrite Nat.min_l by lia. reflexivity.
      - apply Forall_firstn_keep. apply Forall_map. exact Hall. }
    rewrite <- Hlen. apply nth_error_concat.
    - rewrite nth_error_map, Hj. reflexivity.
    - rewrite Forall_forall in Hall. rewrite Hall; [assumption|]. eapply nth_error_In; eassumption.
  Qed.

  (* ---------- sums and offsets ---------- *)
  Definition col_off row (q : nat) : nat := sum_by mcols (firstn q row).
  Definition row_off rows (p : nat) : nat := sum_by row_height (firstn p rows).

  Lemma sum_by_firstn_nth {B} (f : B -> nat) (l : list B) : forall q x,
      nth_error l q = Some x -> sum_by f (firstn q l) + f x <= sum_by f l.
  Proof.
    unfold sum_by.
    induction l as [|y l IH]; intros [|q] x H; cbn [firstn nth_error fold_right] in *; try discriminate.
    - injection H as ->. lia.
    - specialize (IH _ _ H). lia.
  Qed.

  Lemma forallb_Forall {B} (p : B -> bool) (l : list B) : forallb p l = true <-> Forall (fun x => p x = true) l.
  Proof. rewrite forallb_forall, Forall_forall. reflexivity. Qed.

  Lemma length_concat_data r bs :
    Forall (fun x => mrows x = r) bs -> Forall wf_mat bs ->
    length (List.concat (map mdata bs)) = r * sum_by mcols bs.
  Proof.
    induction bs as [|b bs IH]; intros Hr Hw; cbn; [lia|].
    inversion Hr as [|? ? Hb Hr']; inversion Hw as [|? ? Wb Hw']; subst.
    rewrite app_length, IH by assumption. unfold wf_mat in Wb. rewrite Wb.
    unfold sum_by; cbn [fold_right]. nia.
  Qed.

  (* ---------- horizontal concatenation ---------- *)
  Lemma hcat_some bs m : hcat bs = Some m ->
    exists b0 rest, bs = b0 :: rest /\ Forall (fun x => mrows x = mrows b0) bs /\
      m = Mat (mrows b0) (sum_by mcols bs) (List.concat (map mdata bs)).
  Proof.
    unfold hcat. destruct bs as [|b0 rest]; [discriminate|].
    destruct (forallb _ _) eqn:E; [|discriminate]. intros [= <-].
    exists b0, rest. split; [reflexivity|]. split; [|reflexivity].
    apply forallb_Forall in E. eapply Forall_impl; [|exact E]. cbn. intros a Ha. apply Nat.eqb_eq. exact Ha.
  Qed.

  Lemma hcat_shape bs m : Forall wf_mat bs -> hcat bs = Some m ->
    mrows m = row_height bs /\ mcols m = row_width bs /\ wf_mat m.
  Proof.
    intros Hw H. destruct (hcat_some _ _ H) as (b0 & rest & -> & Hr & ->).
    cbn [mrows mcols row_height row_width]. repeat split.
    unfold wf_mat; cbn [mrows mcols mdata]. apply length_concat_data; assumption.
  Qed.

  Lemma hcat_get bs m : Forall wf_mat bs -> hcat bs = Some m ->
    forall q b i j, nth_error bs q = Some b -> i < mrows b -> j < mcols b ->
      mget m i (col_off bs q + j) = mget b i j.
  Proof.
    intros Hw H q b i j Hq Hi Hj.
    destruct (hcat_some _ _ H) as (b0 & rest & E & Hr & ->). 
    assert (Hrb : mrows b = mrows b0).
    { rewrite Forall_forall in Hr. apply Hr. eapply nth_error_In; eassumption. }
    assert (Hwb : wf_mat b).
    { rewrite Forall_forall in Hw. apply Hw. eapply nth_error_In; eassumption. }
    pose proof (sum_by_firstn_nth mcols bs q b Hq) as Hoff. fold (col_off bs q) in Hoff.
    unfold mget; cbn [mrows mcols mdata].
    replace (i <? mrows b0) with true by (symmetry; apply Nat.ltb_lt; lia).
    replace (col_off bs q + j <? sum_by mcols bs) with true by (symmetry; apply Nat.ltb_lt; lia).
    replace (i <? mrows b) with true by (symmetry; apply Nat.ltb_lt; lia).
    replace (j <? mcols b) with true by (symmetry; apply Nat.ltb_lt; lia).
    cbn [andb].
    assert (Hlen : length (List.concat (firstn q (map mdata bs))) = mrows b0 * col_off bs q).
    { rewrite firstn_map. apply length_concat_data; apply Forall_firstn_keep; assumption. }
    replace ((col_off bs q + j) * mrows b0 + i)
      with (length (List.concat (firstn q (map mdata bs))) + (j * mrows b + i)) by (rewrite Hlen, Hrb; lia).
    apply nth_error_concat.
    - rewrite nth_error_map, Hq. reflexivity.
    - unfold wf_mat in Hwb. rewrite Hwb. nia.
  Qed.

  (* ---------- columns of a column-major matrix ---------- *)
  Lemma nth_error_skipn_add {B} (l : list B) : forall n i, nth_error (skipn n l) i = nth_error l (n + i).
  Proof. induction l as [|x l IH]; intros [|n] i; cbn; try reflexivity; [destruct i; reflexivity | apply IH]. Qed.

  Lemma nth_error_firstn_lt {B} (l : list B) : forall n i, i < n -> nth_error (firstn n l) i = nth_error l i.
  Proof.
    induction l as [|x l IH]; intros [|n] [|i] H; cbn; try reflexivity; try lia. apply IH. lia.
  Qed.

  Lemma mcol_length b j : wf_mat b -> j < mcols b -> length (mcol b j) = mrows b.
  Proof.
    unfold wf_mat, mcol. intros W Hj. rewrite firstn_length, skipn_length, W. nia.
  Qed.

  Lemma mcol_nth b j i : i < mrows b -> nth_error (mcol b j) i = nth_error (mdata b) (j * mrows b + i).
  Proof. intros Hi. unfold mcol. rewrite nth_error_firstn_lt by assumption. apply nth_error_skipn_add. Qed.

  Lemma length_concat_cols j bs :
    Forall wf_mat bs -> Forall (fun x => j < mcols x) bs ->
    length (List.concat (map (fun x => mcol x j) bs)) = sum_by mrows bs.
  Proof.
    induction bs as [|b bs IH]; intros Hw Hj; cbn; [reflexivity|].
    inversion Hw; inversion Hj; subst. rewrite app_length, IH, mcol_length by assumption. reflexivity.
  Qed.

  (* ---------- vertical concatenation ---------- *)
  Lemma vcat_some bs m : vcat bs = Some m ->
    exists b0 rest, bs = b0 :: rest /\ Forall (fun x => mcols x = mcols b0) bs /\
      m = Mat (sum_by mrows bs) (mcols b0)
              (flat_map (fun j => flat_map (fun x => mcol x j) bs) (seq 0 (mcols b0))).
  Proof.
    unfold vcat. destruct bs as [|b0 rest]; [discriminate|].
    destruct (forallb _ _) eqn:E; [|discriminate]. intros [= <-].
    exists b0, rest. split; [reflexivity|]. split; [|reflexivity].
    apply forallb_Forall in E. eapply Forall_impl; [|exact E]. cbn. intros a Ha. apply Nat.eqb_eq. exact Ha.
  Qed.

  Lemma vcat_chunks bs c : Forall wf_mat bs -> Forall (fun x => mcols x = c) bs ->
    Forall (fun j => length (flat_map (fun x => mcol x j) bs) = sum_by mrows bs) (seq 0 c).
  Proof.
    intros Hw Hc. apply Forall_forall. intros j Hj. apply in_seq in Hj.
    rewrite flat_map_concat_map. apply length_concat_cols; [assumption|].
    eapply Forall_impl; [|exact Hc]. cbn. intros a ->. lia.
  Qed.

  Definition first_cols bs : nat := match bs with b :: _ => mcols b | [] => 0 end.

  Lemma vcat_shape bs m : Forall wf_mat bs -> vcat bs = Some m ->
    mrows m = sum_by mrows bs /\ mcols m = first_cols bs /\ wf_mat m.
  Proof.
    intros Hw H. destruct (vcat_some _ _ H) as (b0 & rest & -> & Hc & ->).
    cbn [mrows mcols first_cols]. repeat split.
    unfold wf_mat; cbn [mrows mcols mdata].
    rewrite flat_map_concat_map, (length_concat_uniform _ (sum_by mrows (b0 :: rest))).
    - rewrite map_length, seq_length. lia.
    - apply Forall_map. apply (vcat_chunks (b0 :: rest) (mcols b0)); assumption.
  Qed.

  Lemma vcat_get bs m : Forall wf_mat bs -> vcat bs = Some m ->
    forall p b i j, nth_error bs p = Some b -> i < mrows b -> j < mcols b ->
      mget m (sum_by mrows (firstn p bs) + i) j = mget b i j.
  Proof.
    intros Hw H p b i j Hp Hi Hj.
    destruct (vcat_some _ _ H) as (b0 & rest & E & Hc & ->).
    assert (Hcb : mcols b = mcols b0).
    { rewrite Forall_forall in Hc. apply Hc. eapply nth_error_In; eassumption. }
    pose proof (sum_by_firstn_nth mrows bs p b Hp) as Hoff.
    unfold mget; cbn [mrows mcols mdata].
    replace (sum_by mrows (firstn p bs) + i <? sum_by mrows bs) with true by (symmetry; apply Nat.ltb_lt; lia).
    replace (j <? mcols b0) with true by (symmetry; apply Nat.ltb_lt; lia).
    replace (i <? mrows b) with true by (symmetry; apply Nat.ltb_lt; lia).
    replace (j <? mcols b) with true by (symmetry; apply Nat.ltb_lt; lia).
    cbn [andb].
    rewrite (nth_error_flat_map_uniform _ _ (sum_by mrows bs) j j).
    - rewrite flat_map_concat_map.
      replace (sum_by mrows (firstn p bs)) with (length (List.concat (firstn p (map (fun x => mcol x j) bs)))).
      + rewrite (nth_error_concat _ p (mcol b j)).
        * apply mcol_nth. assumption.
        * rewrite nth_error_map, Hp. reflexivity.
        * rewrite mcol_length; [assumption| |assumption].
          rewrite Forall_forall in Hw. apply Hw. eapply nth_error_In; eassumption.
      + rewrite firstn_map. apply length_concat_cols.
        * apply Forall_firstn_keep; assumption.
        * apply Forall_firstn_keep. eapply Forall_impl; [|exact Hc]. cbn. intros a ->. lia.
    - apply (vcat_chunks bs (mcols b0)); assumption.
    - rewrite nth_error_nth' with (d := 0) by (rewrite seq_length; lia). rewrite seq_nth by lia. reflexivity.
    - lia.
  Qed.

  (* ---------- whole literals ---------- *)
  Lemma map_opt_some {B C} (f : B -> option C) (l : list B) : forall l', map_opt f l = Some l' ->
    length l' = length l /\ forall k x, nth_error l k = Some x -> exists y, nth_error l' k = Some y /\ f x = Some y.
  Proof.
    induction l as [|a l IH]; cbn; intros l' H.
    - injection H as <-. split; [reflexivity|]. intros [|k] x; discriminate.
    - destruct (f a) as [fa|] eqn:Ea; [|discriminate]. destruct (map_opt f l) as [fl|]; [|discriminate].
      injection H as <-. destruct (IH _ eq_refl) as [L N]. split; [cbn; congruence|].
      intros [|k] x Hk; cbn in *.
      + injection Hk as <-. eauto.
      + eauto.
  Qed.

  Lemma literal_some rows m : literal rows = Some m ->
    exists hs, map_opt hcat rows = Some hs /\ vcat hs = Some m.
  Proof. unfold literal. destruct (map_opt hcat rows) as [hs|]; [eauto|discriminate]. Qed.

  Definition blocks_wf rows : Prop := Forall (Forall wf_mat) rows.

  Lemma hs_wf rows hs : blocks_wf rows -> map_opt hcat rows = Some hs -> Forall wf_mat hs.
  Proof.
    intros Hw H. destruct (map_opt_some _ _ _ H) as [L N].
    apply Forall_forall. intros h Hh. apply In_nth_error in Hh as [k Hk].
    destruct (nth_error rows k) as [row|] eqn:Er.
    - destruct (N _ _ Er) as (y & Hy & Hc). rewrite Hk in Hy. injection Hy as <-.
      eapply hcat_shape; [|exact Hc]. unfold blocks_wf in Hw. rewrite Forall_forall in Hw. apply Hw.
      eapply nth_error_In; eassumption.
    - apply nth_error_None in Er. assert (k < length hs) by (apply nth_error_Some; congruence). lia.
  Qed.

  Lemma hs_heights rows hs : blocks_wf rows -> map_opt hcat rows = Some hs ->
    forall p, sum_by mrows (firstn p hs) = row_off rows p.
  Proof.
    unfold row_off. revert hs. induction rows as [|row rows IH]; cbn; intros hs Hw H p.
    - injection H as <-. destruct p; reflexivity.
    - destruct (hcat row) as [h|] eqn:Eh; [|discriminate]. destruct (map_opt hcat rows) as [hs'|] eqn:Em; [|discriminate].
      injection H as <-. inversion Hw as [|? ? Hrow Hrest]; subst.
      destruct p as [|p]; [reflexivity|]. cbn [firstn]. unfold sum_by in *; cbn [fold_right].
      rewrite (IH hs' Hrest eq_refl p).
      destruct (hcat_shape _ _ Hrow Eh) as (-> & _). reflexivity.
  Qed.

  Theorem literal_shape rows m : blocks_wf rows -> literal rows = Some m ->
    mrows m = sum_by row_height rows /\ mcols m = row_width (hd [] rows) /\ wf_mat m.
  Proof.
    intros Hw H. destruct (literal_some _ _ H) as (hs & Hm & Hv).
    pose proof (hs_wf _ _ Hw Hm) as Hhs.
    destruct (vcat_shape _ _ Hhs Hv) as (R & C & W). split; [|split; [|exact W]].
    - rewrite R. pose proof (hs_heights _ _ Hw Hm (length hs)) as E.
      rewrite firstn_all in E. rewrite E. unfold row_off.
      destruct (map_opt_some _ _ _ Hm) as [L _]. rewrite L, firstn_all. reflexivity.
    - rewrite C. destruct rows as [|row rows]; cbn in Hm.
      + injection Hm as <-. reflexivity.
      + destruct (hcat row) as [h|] eqn:Eh; [|discriminate]. destruct (map_opt hcat rows); [|discriminate].
        injection Hm as <-. cbn. inversion Hw; subst. eapply hcat_shape; eassumption.
  Qed.

  Lemma locate {B} (f : B -> nat) (l : list B) : forall k, k < sum_by f l ->
    exists q x k', nth_error l q = Some x /\ k = sum_by f (firstn q l) + k' /\ k' < f x.
  Proof.
    unfold sum_by. induction l as [|y l IH]; cbn [fold_right]; intros k Hk; [lia|].
    destruct (Nat.lt_ge_cases k (f y)) as [Hlt|Hge].
    - exists 0, y, k. split; [reflexivity|split; [cbn; lia|assumption]].
    - destruct (IH (k - f y)) as (q & x & k' & Hq & Hk' & Hlt); [lia|].
      exists (S q), x, k'. cbn [nth_error firstn fold_right]. split; [assumption|split; [lia|assumption]].
  Qed.

  Lemma hcat_defined bs : hcat bs <> None <-> row_okb bs = true.
  Proof.
    unfold hcat, row_okb. destruct bs as [|b0 rest]; [split; [congruence|discriminate]|].
    destruct (forallb _ _); split; congruence.
  Qed.

  Lemma map_opt_defined {B C} (f : B -> option C) (l : list B) :
    map_opt f l <> None <-> Forall (fun x => f x <> None) l.
  Proof.
    induction l as [|a l IH]; cbn.
    - split; [constructor|congruence].
    - destruct (f a) eqn:Ea.
      + destruct (map_opt f l); split; intros H.
        * constructor; [congruence|]. apply IH. congruence.
        * congruence.
        * exfalso. apply H. reflexivity.
        * inversion H; subst. apply IH in H3. congruence.
      + split; [congruence|]. intros H. inversion H; subst. congruence.
  Qed.

  Theorem literal_defined_iff rows : blocks_wf rows -> (literal rows <> None <-> tiling_okb rows = true).
  Proof.
    intros Hw. unfold literal, tiling_okb.
    destruct (map_opt hcat rows) as [hs|] eqn:Em.
    - assert (Hok : forallb row_okb rows = true).
      { apply forallb_Forall. assert (D : map_opt hcat rows <> None) by congruence.
        apply map_opt_defined in D. eapply Forall_impl; [|exact D]. cbn. intros a. apply hcat_defined. }
      destruct rows as [|r0 rows']; cbn in Em.
      + injection Em as <-. cbn. split; congruence.
      + rewrite Hok. cbn [andb].
        destruct (hcat r0) as [h0|] eqn:E0; [|discriminate].
        destruct (map_opt hcat rows') as [hs'|] eqn:Em'; [|discriminate]. injection Em as <-.
        unfold vcat.
        assert (Hcols : forall h r, In (r, h) (combine (r0 :: rows') (h0 :: hs')) -> mcols h = row_width r).
        { assert (Em2 : map_opt hcat (r0 :: rows') = Some (h0 :: hs')) by (cbn; rewrite E0, Em'; reflexivity).
          destruct (map_opt_some _ _ _ Em2) as [L N]. intros h r Hin.
          apply In_nth_error in Hin as [k Hk].
          assert (nth_error (r0 :: rows') k = Some r /\ nth_error (h0 :: hs') k = Some h) as [K1 K2].
          { clear - Hk L. revert Hk. generalize (r0 :: rows') (h0 :: hs') k L.
            induction l as [|a l IH]; intros [|b l'] k' L' H; cbn in *; try discriminate; try (destruct k'; discriminate).
            destruct k'; cbn in *. injection H as <- <-. auto. apply IH; [lia|assumption]. }
          destruct (N _ _ K1) as (y & Hy & Hc). rewrite K2 in Hy. injection Hy as <-.
          eapply hcat_shape; [|exact Hc]. unfold blocks_wf in Hw. rewrite Forall_forall in Hw. apply Hw.
          eapply nth_error_In; eassumption. }
        assert (Heq : forallb (fun x => mcols x =? mcols h0) (h0 :: hs') =
                      forallb (fun r => row_width r =? row_width r0) (r0 :: rows')).
        { cbn [forallb]. rewrite (Hcols h0 r0) by (left; reflexivity).
          assert (L : length hs' = length rows') by (apply (map_opt_some _ _ _ Em')).
          assert (Hc' : forall h r, In (r, h) (combine rows' hs') -> mcols h = row_width r)
            by (intros; apply Hcols; right; assumption).
          f_equal. clear - L Hc'. revert hs' L Hc'.
          induction rows' as [|r rs IH]; intros [|h hs] L Hc; cbn in *; try discriminate; [reflexivity|].
          rewrite (Hc h r) by (left; reflexivity). f_equal. apply IH; [lia|]. intros; apply Hc; right; assumption. }
        rewrite Heq. destruct (forallb (fun r => row_width r =? row_width r0) (r0 :: rows')); split; intros H; try reflexivity; try discriminate; try (exfalso; apply H; reflexivity).
    - split; [congruence|]. intros H. exfalso.
      destruct rows as [|r0 rows']; [discriminate|].
      apply andb_prop in H as [H _]. apply forallb_Forall in H.
      assert (D : map_opt hcat (r0 :: rows') <> None).
      { apply map_opt_defined. eapply Forall_impl; [|exact H]. cbn. intros a. apply hcat_defined. }
      congruence.
  Qed.

  Theorem literal_get rows m : blocks_wf rows -> literal rows = Some m ->
    forall p q row b i j, nth_error rows p = Some row -> nth_error row q = Some b ->
      i < mrows b -> j < mcols b ->
      mget m (row_off rows p + i) (col_off row q + j) = mget b i j.
  Proof.
    intros Hw H p q row b i j Hp Hq Hi Hj.
    destruct (literal_some _ _ H) as (hs & Hm & Hv).
    pose proof (hs_wf _ _ Hw Hm) as Hhs.
    destruct (map_opt_some _ _ _ Hm) as [_ N]. destruct (N _ _ Hp) as (h & Hh & Hc).
    assert (Hrow : Forall wf_mat row).
    { unfold blocks_wf in Hw. rewrite Forall_forall in Hw. apply Hw. eapply nth_error_In; eassumption. }
    destruct (hcat_shape _ _ Hrow Hc) as (Rh & Ch & _).
    destruct (hcat_some _ _ Hc) as (b0 & rest & E & Hr & _).
    assert (Hrb : mrows b = mrows h).
    { rewrite Rh, E. cbn. rewrite Forall_forall in Hr. apply Hr. eapply nth_error_In; eassumption. }
    pose proof (sum_by_firstn_nth mcols row q b Hq) as Hoff. fold (col_off row q) in Hoff.
    rewrite <- (hs_heights _ _ Hw Hm p).
    rewrite (vcat_get _ _ Hhs Hv p h i (col_off row q + j) Hh); [| lia | rewrite Ch; unfold row_width; lia].
    apply (hcat_get _ _ Hrow Hc); assumption.
  Qed.
End CatP.

(* ---------- the property, as judged on the implementation's observation ---------- *)
Section Judge.
  Open Scope string_scope.
  Definition blocks (rs : list (list (String.string * mat sx))) : list (list (mat sx)) := map (map snd) rs.

  (* C11 for one literal [rs] and one observation [o] of the implementation:
     - blocks of one kind in a valid tiling: the observation is a matrix of that
       kind, of the tiled shape, and every element of every block sits at the
       block's offset; conversely every result position belongs to a block
       (literal_covered), so nothing else is in the result;
     - otherwise: the observation is an error. *)
  Definition C11_spec (rs : list (list (String.string * mat sx))) (o : obs) : Prop :=
    (same_kind (all_kinds rs) = true /\ tiling_okb (blocks rs) = true ->
       exists k m, o = OVal (KM k m) /\
         (forall k', In k' (all_kinds rs) -> k' = k) /\
         mrows m = sum_by row_height (blocks rs) /\
         mcols m = row_width (hd [] (blocks rs)) /\
         wf_mat m /\
         forall p q row b i j, nth_error (blocks rs) p = Some row -> nth_error row q = Some b ->
           i < mrows b -> j < mcols b ->
           mget m (row_off (blocks rs) p + i) (col_off row q + j) = mget b i j) /\
    (~ (same_kind (all_kinds rs) = true /\ tiling_okb (blocks rs) = true) -> o = OErr).

  Lemma same_kind_all ks k : same_kind (k :: ks) = true -> forall k', In k' (k :: ks) -> k' = k.
  Proof.
    cbn. intros H k' [<-|Hin]; [reflexivity|].
    rewrite forallb_forall in H. symmetry. apply String.eqb_eq. apply H. exact Hin.
  Qed.

  Theorem judge_rows_sound rs o tag :
    blocks_wf (blocks rs) -> judge_rows rs o = v_ok tag -> C11_spec rs o.
  Proof.
    intros Hw H. unfold judge_rows, cat_expected in H. fold (blocks rs) in H. unfold C11_spec.
    destruct (same_kind (all_kinds rs)) eqn:Ek.
    - destruct (literal (blocks rs)) as [m|] eqn:El.
      + destruct (all_kinds rs) as [|k ks] eqn:Eks; [discriminate|].
        destruct o as [v'| | | |x]; try discriminate.
        destruct (kval_eqb (KM k m) v') eqn:Ev; [|discriminate].
        apply kval_eqb_eq in Ev. subst v'. split.
        * intros _. exists k, m. split; [reflexivity|]. split; [apply same_kind_all; assumption|].
          destruct (literal_shape _ _ Hw El) as (R & C & W).
          repeat split; try assumption. apply literal_get; assumption.
        * intros N. exfalso. apply N. split; [reflexivity|].
          apply literal_defined_iff; [assumption|congruence].
      + assert (T : tiling_okb (blocks rs) <> true).
        { intros T. apply (literal_defined_iff _ Hw) in T. congruence. }
        destruct o; try discriminate. split; [intros [_ T']; congruence | reflexivity].
    - destruct o; try discriminate. split; [intros [K _]; discriminate | reflexivity].
  Qed.
End Judge.

Section Covered.
  Context {A : Type}.
  (* every position of the result lies in exactly the block the tiling puts there *)
  Theorem literal_covered (rows : list (list (mat A))) (m : mat A) :
    blocks_wf rows -> literal rows = Some m ->
    forall i j, i < mrows m -> j < mcols m ->
      exists p q row b i' j', nth_error rows p = Some row /\ nth_error row q = Some b /\
        i' < mrows b /\ j' < mcols b /\ i = row_off rows p + i' /\ j = col_off row q + j'.
  Proof.
    intros Hw H i j Hi Hj.
    destruct (literal_shape _ _ Hw H) as (R & C & _).
    assert (T : tiling_okb rows = true) by (apply literal_defined_iff; [assumption|congruence]).
    rewrite R in Hi. destruct (locate row_height rows i Hi) as (p & row & i' & Hp & Ei & Hi').
    unfold tiling_okb in T. destruct rows as [|r0 rows']; [discriminate|].
    apply andb_prop in T as [Tok Tw]. rewrite forallb_forall in Tok, Tw.
    assert (Hin : In row (r0 :: rows')) by (eapply nth_error_In; eassumption).
    specialize (Tok _ Hin). specialize (Tw _ Hin). apply Nat.eqb_eq in Tw.
    cbn [hd] in C. rewrite C, <- Tw in Hj. unfold row_width in Hj.
    destruct (locate mcols row j Hj) as (q & b & j' & Hq & Ej & Hj').
    exists p, q, row, b, i', j'. repeat split; try assumption.
    unfold row_okb in Tok. destruct row as [|b0 rest]; [destruct q; discriminate|].
    rewrite forallb_forall in Tok. assert (Hb : In b (b0 :: rest)) by (eapply nth_error_In; eassumption).
    specialize (Tok _ Hb). apply Nat.eqb_eq in Tok. cbn [row_height] in Hi'. lia.
  Qed.
End Covered.
