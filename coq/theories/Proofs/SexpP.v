(* Soundness of the structural equality tests used by the judges. *)
From Coq Require Import List ZArith String Bool Arith.
From MechV Require Import Base.Sexp Base.Obs.
Import ListNotations.

Fixpoint sx_eqb_eq (a : sx) : forall b, sx_eqb a b = true -> a = b.
Proof.
  destruct a as [z|s|s|l]; intros [z'|s'|s'|l'] H; cbn in H; try discriminate.
  - apply Z.eqb_eq in H. congruence.
  - apply String.eqb_eq in H. congruence.
  - apply String.eqb_eq in H. congruence.
  - f_equal. revert l' H. induction l as [|x l IH]; intros [|y l'] H; try discriminate; [reflexivity|].
    apply andb_prop in H as [H1 H2]. f_equal; [apply sx_eqb_eq; exact H1 | apply IH; exact H2].
Qed.

Lemma sxs_eqb_eq : forall a b, sxs_eqb a b = true -> a = b.
Proof.
  induction a as [|x a IH]; intros [|y b] H; cbn in H; try discriminate; [reflexivity|].
  apply andb_prop in H as [H1 H2]. f_equal; [apply sx_eqb_eq; exact H1 | apply IH; exact H2].
Qed.

Lemma mat_eqb_eq (a b : mat sx) : mat_eqb a b = true -> a = b.
Proof.
  destruct a, b; unfold mat_eqb; cbn. intros H.
  apply andb_prop in H as [H H3]. apply andb_prop in H as [H1 H2].
  apply Nat.eqb_eq in H1, H2. apply sxs_eqb_eq in H3. congruence.
Qed.

Lemma kval_eqb_eq (a b : kval) : kval_eqb a b = true -> a = b.
Proof.
  destruct a, b; cbn; try discriminate; intros H; apply andb_prop in H as [H1 H2];
    apply String.eqb_eq in H1; subst.
  - apply sx_eqb_eq in H2. congruence.
  - apply mat_eqb_eq in H2. congruence.
Qed.

Lemma wf_matb_wf {A} (m : mat A) : wf_matb m = true <-> wf_mat m.
Proof. unfold wf_matb, wf_mat. apply Nat.eqb_eq. Qed.
