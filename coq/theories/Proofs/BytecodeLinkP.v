(* C06 — the link between the abstract compiled program (Model/Bytecode.v) and the bytes of the emitted file
   (Model/Container.v, Model/ConstCodec.v): Model/BytecodeLink.v [lower], [crun].
   1. [lower_wf]: the lowered program is a well-formed container program  => C07 codec_roundtrip applies;
   2. [lowered_consts_decode]: every constant-table entry of the lowered program decodes to the value the
      compiler wrote (C07 const_entry_roundtrip, through alignment padding and type interning);
   3. [sim]: the concrete run of the lowered program refines the abstract run ([arun], whose erasure is Bytecode.run);
   4. [compile_load_run]: 1 + 2 + 3 + Bytecode run_is_snapshot: bytes -> load -> run gives the interpreter's values. *)
From Coq Require Import List NArith ZArith Arith Bool Lia.
From MechV Require Import Model.Plan Model.Bytecode Model.Crc32 Model.Loader Model.Container Model.ConstCodec
  Model.BytecodeLink Proofs.PlanP Proofs.BytecodeP Proofs.LoaderP Proofs.ContainerP Proofs.ConstCodecP.
Import ListNotations.
Local Open Scope nat_scope.

(* ---------- lists: prefixes, find_idx, intern ---------- *)
Definition prefix {A} (l l' : list A) : Prop := exists x, l' = l ++ x.

Lemma prefix_refl {A} (l : list A) : prefix l l.
Proof. exists []. rewrite app_nil_r. reflexivity. Qed.

Lemma prefix_trans {A} (a b c : list A) : prefix a b -> prefix b c -> prefix a c.
Proof. intros [x ->] [y ->]. exists (x ++ y). rewrite app_assoc. reflexivity. Qed.

Lemma prefix_app {A} (l x : list A) : prefix l (l ++ x).
Proof. exists x. reflexivity. Qed.

Lemma prefix_length {A} (l l' : list A) : prefix l l' -> length l <= length l'.
Proof. intros [x ->]. rewrite app_length. lia. Qed.

Lemma prefix_nth {A} (l l' : list A) i v : prefix l l' -> nth_error l i = Some v -> nth_error l' i = Some v.
Proof.
  intros [x ->] H. rewrite nth_error_app1; [exact H|]. apply nth_error_Some. rewrite H. discriminate.
Qed.

Lemma prefix_In {A} (l l' : list A) v : prefix l l' -> In v l -> In v l'.
Proof. intros [x ->] H. apply in_or_app. left. exact H. Qed.

Lemma nth_error_snoc {A} (l : list A) v : nth_error (l ++ [v]) (length l) = Some v.
Proof. rewrite nth_error_app2 by lia. rewrite Nat.sub_diag. reflexivity. Qed.

Lemma NoDup_snoc {A} (l : list A) x : NoDup l -> ~ In x l -> NoDup (l ++ [x]).
Proof.
  induction l as [|y l IH]; intros N H; cbn [app].
  - constructor; [intros []|constructor].
  - inversion N as [|? ? Ny Nl]; subst. constructor.
    + intros Hi. apply in_app_or in Hi as [Hi|[Hi|[]]]; [exact (Ny Hi)|]. subst. apply H. left. reflexivity.
    + apply IH; [exact Nl|]. intros Hi. apply H. right. exact Hi.
Qed.

Section FindP.
  Context {A : Type} (eqb : A -> A -> bool).
  Hypothesis eqb_sound : forall a b, eqb a b = true -> a = b.
  Hypothesis eqb_refl : forall a, eqb a a = true.

  Lemma find_idx_some x l : forall i, find_idx eqb x l = Some i -> nth_error l i = Some x.
  Proof.
    induction l as [|y r IH]; intros i H; cbn [find_idx] in H; [discriminate|].
    destruct (eqb x y) eqn:E.
    - injection H as <-. apply eqb_sound in E. subst. reflexivity.
    - destruct (find_idx eqb x r) as [j|] eqn:F; [|discriminate]. injection H as <-. cbn [nth_error]. apply IH. reflexivity.
  Qed.

  Lemma find_idx_app x l l' : forall i, find_idx eqb x l = Some i -> find_idx eqb x (l ++ l') = Some i.
  Proof.
    induction l as [|y r IH]; intros i H; cbn [find_idx app] in *; [discriminate|].
    destruct (eqb x y); [exact H|].
    destruct (find_idx eqb x r) as [j|] eqn:F; [|discriminate]. rewrite (IH j eq_refl). exact H.
  Qed.

  Lemma find_idx_none x l : find_idx eqb x l = None -> ~ In x l.
  Proof.
    induction l as [|y r IH]; intros H; cbn [find_idx] in H; [intros []|].
    destruct (eqb x y) eqn:E; [discriminate|].
    destruct (find_idx eqb x r) as [j|] eqn:F; [discriminate|].
    intros [Hi|Hi]; [subst; rewrite eqb_refl in E; discriminate|]. exact (IH eq_refl Hi).
  Qed.

  Lemma find_idx_new x l : find_idx eqb x l = None -> find_idx eqb x (l ++ [x]) = Some (length l).
  Proof.
    induction l as [|y r IH]; intros H; cbn [find_idx app length] in *.
    - rewrite eqb_refl. reflexivity.
    - destruct (eqb x y); [discriminate|].
      destruct (find_idx eqb x r) as [j|] eqn:F; [discriminate|]. rewrite (IH eq_refl). reflexivity.
  Qed.

  Lemma find_idx_In x l : In x l -> exists i, find_idx eqb x l = Some i.
  Proof.
    intros H. destruct (find_idx eqb x l) as [i|] eqn:F; [exists i; reflexivity|].
    exfalso. exact (find_idx_none x l F H).
  Qed.

  (* intern: the list is extended at the end, by the key only, and the index points at the key *)
  Lemma intern_spec x l i l' : intern eqb x l = (i, l') ->
    nth_error l' i = Some x /\ (l' = l \/ l' = l ++ [x]).
  Proof.
    unfold intern. destruct (find_idx eqb x l) as [j|] eqn:F; intros H; injection H as <- <-.
    - split; [apply find_idx_some; exact F|left; reflexivity].
    - split; [apply nth_error_snoc|right; reflexivity].
  Qed.
End FindP.

Lemma tentry_eqb_sound a b : tentry_eqb a b = true -> a = b.
Proof.
  destruct a as [t x], b as [u y]. unfold tentry_eqb. cbn [fst snd]. intros H. apply andb_prop in H as [H1 H2].
  apply N.eqb_eq in H1. apply N_list_eqb_eq in H2. subst. reflexivity.
Qed.

Lemma nat_eqb_sound a b : Nat.eqb a b = true -> a = b.
Proof. apply Nat.eqb_eq. Qed.

Lemma intern_prefix {A} (eqb : A -> A -> bool) x l : prefix l (snd (intern eqb x l)).
Proof. unfold intern. destruct (find_idx eqb x l); cbn [snd]; [apply prefix_refl|apply prefix_app]. Qed.

(* ---------- registers after one allocation ---------- *)
Lemma reg_of_lt cells c : In c cells -> exists j, find_idx Nat.eqb c cells = Some j /\ reg_of cells c = N.of_nat j /\ j < length cells.
Proof.
  intros H. destruct (find_idx_In Nat.eqb Nat.eqb_refl c cells H) as [j F]. exists j.
  unfold reg_of. rewrite F. split; [reflexivity|]. split; [reflexivity|].
  apply nth_error_Some. rewrite (find_idx_some Nat.eqb nat_eqb_sound c cells j F). discriminate.
Qed.

Lemma reg_of_prefix cells cells' c : prefix cells cells' -> In c cells -> reg_of cells' c = reg_of cells c.
Proof.
  intros [x ->] H. destruct (reg_of_lt cells c H) as (j & F & E & _). rewrite E. unfold reg_of.
  rewrite (find_idx_app Nat.eqb c cells x j F). reflexivity.
Qed.

Lemma reg_of_bound cells c : (reg_of cells c <= N.of_nat (length cells))%N.
Proof.
  unfold reg_of. destruct (find_idx Nat.eqb c cells) as [j|] eqn:F; [|lia].
  assert (j < length cells) by (apply nth_error_Some; rewrite (find_idx_some Nat.eqb nat_eqb_sound c cells j F); discriminate).
  lia.
Qed.

Lemma reg_after_intern c cells r0 cells1 : intern Nat.eqb c cells = (r0, cells1) ->
  In c cells1 /\ r0 < length cells1 /\ reg_of cells1 c = N.of_nat r0 /\
  (forall c', In c' cells1 -> c' <> c -> In c' cells /\ reg_of cells1 c' = reg_of cells c' /\ reg_of cells c' <> N.of_nat r0).
Proof.
  unfold intern. destruct (find_idx Nat.eqb c cells) as [i|] eqn:F; intros H; injection H as <- <-.
  - pose proof (find_idx_some Nat.eqb nat_eqb_sound c cells i F) as Hn.
    split; [apply nth_error_In in Hn; exact Hn|]. split; [apply nth_error_Some; rewrite Hn; discriminate|].
    split; [unfold reg_of; rewrite F; reflexivity|].
    intros c' Hi Hne. split; [exact Hi|]. split; [reflexivity|].
    destruct (reg_of_lt cells c' Hi) as (j & Fj & Ej & _). rewrite Ej. intros E. apply Nat2N.inj in E. subst j.
    apply (find_idx_some Nat.eqb nat_eqb_sound) in Fj. rewrite Hn in Fj. injection Fj as <-. apply Hne. reflexivity.
  - pose proof (find_idx_new Nat.eqb Nat.eqb_refl c cells F) as Fn.
    split; [apply in_or_app; right; left; reflexivity|]. split; [rewrite app_length; cbn [length]; lia|].
    split; [unfold reg_of; rewrite Fn; reflexivity|].
    intros c' Hi Hne. apply in_app_or in Hi as [Hi|[Hi|[]]]; [|subst; exfalso; apply Hne; reflexivity].
    split; [exact Hi|]. split; [apply reg_of_prefix; [apply prefix_app|exact Hi]|].
    destruct (reg_of_lt cells c' Hi) as (j & _ & Ej & Lj). rewrite Ej. intros E. apply Nat2N.inj in E. lia.
Qed.

(* ---------- alignment ---------- *)
Lemma pad_to_ge n a : (n <= pad_to n a)%N.
Proof.
  unfold pad_to. destruct (a =? 0)%N eqn:E; [lia|]. apply N.eqb_neq in E.
  pose proof (N.div_mod (n + a - 1) a E) as D. pose proof (N.mod_lt (n + a - 1) a E) as M.
  set (q := ((n + a - 1) / a)%N) in *. set (r := ((n + a - 1) mod a)%N) in *.
  rewrite (N.mul_comm q a). lia.
Qed.

Lemma pad_to_mod n a : a <> 0%N -> (pad_to n a mod a = 0)%N.
Proof. intros E. unfold pad_to. apply N.eqb_neq in E. rewrite E. apply N.eqb_neq in E. apply N.mod_mul. exact E. Qed.

Lemma calign_pos v : calign v <> 0%N.
Proof. destruct v as [k ?|k ? ? ?]; destruct k; discriminate. Qed.

Lemma calign_byte v : (calign v < 256)%N.
Proof. destruct v as [k ?|k ? ? ?]; destruct k; reflexivity. Qed.

(* ---------- encoded constants are bytes ---------- *)
Lemma le_bytesb k v : bytesb (le k v) = true.
Proof.
  unfold bytesb. apply forallb_forall. intros b Hb. pose proof (le_bytes k v) as F.
  rewrite Forall_forall in F. apply N.ltb_lt. apply F. exact Hb.
Qed.

Lemma bytesb_app a b : bytesb (a ++ b) = bytesb a && bytesb b.
Proof. unfold bytesb. apply forallb_app. Qed.

Lemma bytesb_zeros n : bytesb (repeat 0%N n) = true.
Proof. induction n as [|n IH]; [reflexivity|]. cbn [repeat]. unfold bytesb in *. cbn [forallb]. rewrite IH. reflexivity. Qed.

Lemma encode_elem_bytes k x : wf_sval k x = true -> bytesb (encode_elem k x) = true.
Proof.
  intros W. destruct k, x; cbn [wf_sval] in W; try discriminate; cbn [encode_elem];
    try (apply le_bytesb); try (unfold enc_int; rewrite bytesb_app, !le_bytesb; reflexivity).
  - (* string *) apply andb_prop in W as [W _]. apply andb_prop in W as [_ W]. rewrite bytesb_app, le_bytesb, W. reflexivity.
  - (* bool *) destruct b; reflexivity.
Qed.

Lemma encode_const_bytes v : wf_cval v = true -> bytesb (encode_const v) = true.
Proof.
  intros W. destruct v as [k x|k r c es]; cbn [wf_cval encode_const] in *; [apply encode_elem_bytes; exact W|].
  apply andb_prop in W as [_ W]. unfold encode_matrix. rewrite !bytesb_app, !le_bytesb. cbn [andb].
  induction es as [|e es IH]; [reflexivity|]. cbn [forallb flat_map] in *. apply andb_prop in W as [We Ws].
  rewrite bytesb_app, (encode_elem_bytes k e We), (IH Ws). reflexivity.
Qed.

(* ---------- the type section ---------- *)
Lemma scalar_tag_valid k : valid_tag (scalar_tag k) = true.
Proof. destruct k; reflexivity. Qed.

Lemma tag_of_kind_valid v : valid_tag (tag_of_kind v) = true.
Proof. destruct v as [k ?|k ? ? ?]; destruct k; reflexivity. Qed.

Lemma scalar_tag_of k x : tag_of_kind (CScalar k x) = scalar_tag k.
Proof. reflexivity. Qed.

Lemma forallb_snoc {A} (f : A -> bool) l x : forallb f (l ++ [x]) = forallb f l && f x.
Proof. rewrite forallb_app. cbn [forallb]. rewrite andb_true_r. reflexivity. Qed.

Lemma intern_wf_types key ts i ts' : intern tentry_eqb key ts = (i, ts') ->
  forallb wf_tentry ts = true -> wf_tentry key = true ->
  forallb wf_tentry ts' = true /\ prefix ts ts' /\ nth_error ts' i = Some key.
Proof.
  intros H W Wk. destruct (intern_spec tentry_eqb tentry_eqb_sound key ts i ts' H) as [Hn [->| ->]].
  - split; [exact W|]. split; [apply prefix_refl|exact Hn].
  - split; [rewrite forallb_snoc, W, Wk; reflexivity|]. split; [apply prefix_app|exact Hn].
Qed.

Lemma intern_kind_spec v ts tid ts' : intern_kind v ts = (tid, ts') -> forallb wf_tentry ts = true ->
  forallb wf_tentry ts' = true /\ prefix ts ts' /\ exists tb, nth_error ts' tid = Some (tag_of_kind v, tb).
Proof.
  intros H W. destruct v as [k x|k r c es]; cbn [intern_kind] in H.
  - destruct (intern_wf_types _ _ _ _ H W) as (W' & P & Hn).
    + unfold wf_tentry. cbn [fst snd]. rewrite scalar_tag_valid. reflexivity.
    + split; [exact W'|]. split; [exact P|]. exists []. exact Hn.
  - destruct (intern tentry_eqb (scalar_tag k, []) ts) as [eid ts1] eqn:E1.
    destruct (intern_wf_types _ _ _ _ E1 W) as (W1 & P1 & _).
    { unfold wf_tentry. cbn [fst snd]. rewrite scalar_tag_valid. reflexivity. }
    destruct (intern_wf_types _ _ _ _ H W1) as (W' & P & Hn).
    { unfold wf_tentry. cbn [fst snd]. rewrite tag_of_kind_valid, !bytesb_app, !le_bytesb.
      rewrite !app_length, !le_length. reflexivity. }
    split; [exact W'|]. split; [exact (prefix_trans _ _ _ P1 P)|]. eexists. exact Hn.
Qed.

(* ---------- the invariant of the compile context ---------- *)
(* a constant-table entry that points at the encoding of v inside the blob, aligned, typed with v's tag *)
Definition entry_ok (ts : list tentry) (blob : bytes) (e : list N) (v : cval) : Prop :=
  exists pre post tid tb,
    blob = pre ++ encode_const v ++ post /\
    e = [N.of_nat tid; 1; calign v; 0; 0; N.of_nat (length pre); N.of_nat (length (encode_const v))]%N /\
    nth_error ts tid = Some (tag_of_kind v, tb) /\
    (N.of_nat (length pre) mod calign v = 0)%N.

Lemma entry_ok_mono ts ts' blob blob' e v : prefix ts ts' -> prefix blob blob' -> entry_ok ts blob e v -> entry_ok ts' blob' e v.
Proof.
  intros Pt [bx ->] (pre & post & tid & tb & Hb & He & Hn & Hm).
  exists pre, (post ++ bx), tid, tb. split; [rewrite Hb, <- !app_assoc; reflexivity|].
  split; [exact He|]. split; [exact (prefix_nth _ _ _ _ Pt Hn)|exact Hm].
Qed.

Record LInv (st : lstate) : Prop := {
  li_nodup : NoDup (ls_cells st);
  li_entries : Forall2 (entry_ok (ls_types st) (ls_blob st)) (ls_consts st) (ls_vals st);
  li_types : forallb wf_tentry (ls_types st) = true;
  li_blob : bytesb (ls_blob st) = true;
  li_wfv : Forall (fun v => wf_cval v = true) (ls_vals st) }.

Lemma LInv_ls0 : LInv ls0.
Proof. constructor; cbn [ls0 ls_cells ls_consts ls_vals ls_types ls_blob]; try constructor; reflexivity. Qed.

Definition ext (st st' : lstate) : Prop :=
  prefix (ls_cells st) (ls_cells st') /\ prefix (ls_types st) (ls_types st') /\ prefix (ls_consts st) (ls_consts st') /\
  prefix (ls_vals st) (ls_vals st') /\ prefix (ls_blob st) (ls_blob st').

Lemma ext_refl st : ext st st.
Proof. repeat split; apply prefix_refl. Qed.

Lemma ext_trans a b c : ext a b -> ext b c -> ext a c.
Proof.
  intros (A1 & A2 & A3 & A4 & A5) (B1 & B2 & B3 & B4 & B5).
  repeat split; eapply prefix_trans; eassumption.
Qed.

Lemma Forall2_mono {A B} (P Q : A -> B -> Prop) l l' : (forall a b, P a b -> Q a b) -> Forall2 P l l' -> Forall2 Q l l'.
Proof. intros H F. induction F; constructor; auto. Qed.

Lemma lstep_spec st i st1 ci : lstep st i = (st1, ci) -> LInv st -> wf_ninstr i = true -> LInv st1 /\ ext st st1.
Proof.
  intros E L W. destruct i as [c v|f var d args]; cbn [lstep] in E.
  - cbn [wf_ninstr] in W.
    destruct (intern Nat.eqb c (ls_cells st)) as [r0 cells1] eqn:Ei.
    destruct (intern_kind v (ls_types st)) as [tid ts1] eqn:Et.
    injection E as <- <-.
    destruct (intern_kind_spec v _ _ _ Et (li_types st L)) as (Wt & Pt & tb & Hn).
    pose proof (pad_to_ge (N.of_nat (length (ls_blob st))) (calign v)) as Pg.
    set (n := N.of_nat (length (ls_blob st))) in *. set (off := pad_to n (calign v)) in *.
    assert (Pc : prefix (ls_cells st) cells1).
    { pose proof (intern_prefix Nat.eqb c (ls_cells st)) as Q. rewrite Ei in Q. exact Q. }
    split.
    + constructor; cbn [ls_cells ls_types ls_consts ls_vals ls_blob].
      * destruct (intern_spec Nat.eqb nat_eqb_sound c _ _ _ Ei) as [_ [->| ->]]; [exact (li_nodup st L)|].
        apply NoDup_snoc; [exact (li_nodup st L)|]. unfold intern in Ei.
        destruct (find_idx Nat.eqb c (ls_cells st)) as [j|] eqn:F.
        -- injection Ei as _ Ec. exfalso. apply (f_equal (@length nat)) in Ec. rewrite app_length in Ec. cbn [length] in Ec. lia.
        -- apply (find_idx_none Nat.eqb Nat.eqb_refl). exact F.
      * apply Forall2_app.
        -- apply Forall2_mono with (P := entry_ok (ls_types st) (ls_blob st)); [|exact (li_entries st L)].
           intros a b. apply entry_ok_mono; [exact Pt|apply prefix_app].
        -- constructor; [|constructor].
           exists (ls_blob st ++ repeat 0%N (N.to_nat (off - n))), [], tid, tb.
           assert (Lp : N.of_nat (length (ls_blob st ++ repeat 0%N (N.to_nat (off - n)))) = off).
           { rewrite app_length, repeat_length. fold n. lia. }
           split; [rewrite app_nil_r, <- app_assoc; reflexivity|]. split; [rewrite Lp; reflexivity|].
           split; [exact Hn|]. rewrite Lp. apply pad_to_mod. apply calign_pos.
      * exact Wt.
      * rewrite !bytesb_app, (li_blob st L), bytesb_zeros, (encode_const_bytes v W). reflexivity.
      * apply Forall_app. split; [exact (li_wfv st L)|]. constructor; [exact W|constructor].
    + repeat split; cbn [ls_cells ls_types ls_consts ls_vals ls_blob]; try apply prefix_app; assumption.
  - injection E as <- <-. split; [exact L|apply ext_refl].
Qed.

Lemma lower_go_spec P : forall st stF is, lower_go st P = (stF, is) -> LInv st -> forallb wf_ninstr P = true ->
  LInv stF /\ ext st stF.
Proof.
  induction P as [|i r IH]; intros st stF is E L W; cbn [lower_go] in E.
  - injection E as <- <-. split; [exact L|apply ext_refl].
  - cbn [forallb] in W. apply andb_prop in W as [Wi Wr].
    destruct (lstep st i) as [st1 ci] eqn:E1. destruct (lower_go st1 r) as [st2 cis] eqn:E2. injection E as <- <-.
    destruct (lstep_spec _ _ _ _ E1 L Wi) as [L1 X1]. destruct (IH _ _ _ E2 L1 Wr) as [L2 X2].
    split; [exact L2|exact (ext_trans _ _ _ X1 X2)].
Qed.

(* ---------- 1. the lowered program is a well-formed container program ---------- *)
Lemma wf_instr_op_instr f var d rs :
  (f <? 2 ^ 64)%N = true -> (d <? 2 ^ 32)%N = true -> forallb (fun x => (x <? 2 ^ 32)%N) rs = true ->
  (N.of_nat (length rs) <? 2 ^ 32)%N = true ->
  wf_instr (op_instr f var d rs) = true /\ is_ret (op_instr f var d rs) = false.
Proof.
  intros Hf Hd Hr Hl. unfold op_instr. destruct var.
  - cbn [wf_instr is_ret]. rewrite Hf, Hd, Hl, Hr. split; reflexivity.
  - destruct rs as [|a [|b [|c [|e [|g rs]]]]]; cbn [wf_instr is_ret]; cbn [forallb] in Hr;
      repeat match type of Hr with (_ && _)%bool = true => let H := fresh "Hx" in apply andb_prop in Hr as [H Hr] end;
      repeat match goal with H : (_ <? _)%N = true |- _ => rewrite H; clear H end;
      try (split; reflexivity).
    cbn [forallb]. repeat match goal with H : (_ <? _)%N = true |- _ => rewrite H; clear H end.
    rewrite Hr. split; reflexivity.
Qed.

Lemma lower_go_instrs P : forall st stF is, lower_go st P = (stF, is) -> LInv st -> forallb wf_ninstr P = true ->
  (N.of_nat (length (ls_cells stF)) < 2 ^ 32)%N -> (N.of_nat (length (ls_consts stF)) < 2 ^ 32)%N ->
  forallb wf_instr is = true /\ forallb (fun i => negb (is_ret i)) is = true.
Proof.
  induction P as [|i r IH]; intros st stF is E L W Bc Bk; cbn [lower_go] in E.
  - injection E as <- <-. split; reflexivity.
  - cbn [forallb] in W. apply andb_prop in W as [Wi Wr].
    destruct (lstep st i) as [st1 ci] eqn:E1. destruct (lower_go st1 r) as [st2 cis] eqn:E2. injection E as <- <-.
    destruct (lstep_spec _ _ _ _ E1 L Wi) as [L1 X1]. destruct (lower_go_spec _ _ _ _ E2 L1 Wr) as [L2 X2].
    destruct (IH _ _ _ E2 L1 Wr Bc Bk) as [I1 I2]. cbn [forallb]. rewrite I1, I2, !andb_true_r.
    destruct X2 as (Xc & _ & Xk & _ & _). apply prefix_length in Xc, Xk.
    destruct i as [c v|f var d args]; cbn [lstep] in E1.
    + destruct (intern Nat.eqb c (ls_cells st)) as [r0 cells1] eqn:Ei.
      destruct (intern_kind v (ls_types st)) as [tid ts1] eqn:Et. injection E1 as <- <-.
      cbn [ls_cells ls_consts] in Xc, Xk. rewrite app_length in Xk. cbn [length] in Xk.
      destruct (reg_after_intern _ _ _ _ Ei) as (_ & Lr & _).
      cbn [wf_instr is_ret negb].
      replace (N.of_nat r0 <? 2 ^ 32)%N with true by (symmetry; apply N.ltb_lt; lia).
      replace (N.of_nat (length (ls_consts st)) <? 2 ^ 32)%N with true by (symmetry; apply N.ltb_lt; lia).
      split; reflexivity.
    + injection E1 as <- <-. cbn [wf_ninstr] in Wi. apply andb_prop in Wi as [Wf Wl].
      assert (Br : forall x, (reg_of (ls_cells st) x <? 2 ^ 32)%N = true).
      { intros x. apply N.ltb_lt. pose proof (reg_of_bound (ls_cells st) x). lia. }
      destruct (wf_instr_op_instr f var (reg_of (ls_cells st) d) (map (reg_of (ls_cells st)) args)) as [Q1 Q2];
        [exact Wf|apply Br| |rewrite map_length; exact Wl|rewrite Q1, Q2; split; reflexivity].
      apply forallb_forall. intros y Hy. apply in_map_iff in Hy as (x & <- & _). apply Br.
Qed.

Lemma Forall2_In_l {A B} (P : A -> B -> Prop) l l' a : Forall2 P l l' -> In a l -> exists b, In b l' /\ P a b.
Proof.
  intros F. induction F as [|x y l l' Hxy F IH]; intros Hi; [destruct Hi|].
  destruct Hi as [<-|Hi]; [exists y; split; [left; reflexivity|exact Hxy]|].
  destruct (IH Hi) as (b & Hb & Pb). exists b. split; [right; exact Hb|exact Pb].
Qed.

Lemma Forall2_len {A B} (P : A -> B -> Prop) l l' : Forall2 P l l' -> length l = length l'.
Proof. intros F. induction F; cbn [length]; [reflexivity|f_equal; assumption]. Qed.

Lemma N_list_eqb_refl a : N_list_eqb a a = true.
Proof. induction a as [|x a IH]; [reflexivity|]. cbn [N_list_eqb]. rewrite N.eqb_refl, IH. reflexivity. Qed.

Lemma entry_ok_wf ts blob e v : entry_ok ts blob e v ->
  (N.of_nat (length ts) < 2 ^ 32)%N -> (N.of_nat (length blob) < 2 ^ 64)%N -> wf_fields const_entry_widths e = true.
Proof.
  intros (pre & post & tid & tb & Hb & He & Hn & Hm) Bt Bb. subst e.
  assert (tid < length ts) by (apply nth_error_Some; rewrite Hn; discriminate).
  apply (f_equal (@length N)) in Hb. rewrite !app_length in Hb.
  pose proof (calign_byte v) as Ba.
  cbn [wf_fields const_entry_widths].
  change (2 ^ (8 * N.of_nat 4))%N with (2 ^ 32)%N. change (2 ^ (8 * N.of_nat 8))%N with (2 ^ 64)%N.
  change (2 ^ (8 * N.of_nat 1))%N with 256%N.
  replace (N.of_nat tid <? 2 ^ 32)%N with true by (symmetry; apply N.ltb_lt; lia).
  replace (calign v <? 256)%N with true by (symmetry; apply N.ltb_lt; exact Ba).
  replace (N.of_nat (length pre) <? 2 ^ 64)%N with true by (symmetry; apply N.ltb_lt; lia).
  replace (N.of_nat (length (encode_const v)) <? 2 ^ 64)%N with true by (symmetry; apply N.ltb_lt; lia).
  reflexivity.
Qed.

Lemma hfield4 v mv fl rc rs p : hfield (layout_header v mv fl rc rs p) 4 = rc. Proof. reflexivity. Qed.
Lemma hfield8 v mv fl rc rs p : hfield (layout_header v mv fl rc rs p) 8 = N.of_nat (length (p_types p)). Proof. reflexivity. Qed.
Lemma hfield10 v mv fl rc rs p : hfield (layout_header v mv fl rc rs p) 10 = N.of_nat (length (p_consts p)). Proof. reflexivity. Qed.
Lemma hfield14 v mv fl rc rs p : hfield (layout_header v mv fl rc rs p) 14 = N.of_nat (length (p_blob p)). Proof. reflexivity. Qed.

(* the raw program handed to relayout *)
Definition raw (e : lenv) (st : lstate) (is : list instr) : program :=
  {| p_header := [MAGIC; 1; e_mech_ver e; 0; N.of_nat (length (ls_cells st)); 0; 0; 0; 0; 0; 0; 0; 0; 0; 0; 0; 0; 0; 0; 0; 0; 0]%N;
     p_features := e_feats e; p_types := ls_types st; p_consts := ls_consts st; p_blob := ls_blob st;
     p_symbols := []; p_instrs := is; p_dict := [] |}.

Lemma lower_eq e P : lower e P = relayout (raw e (fst (lower_go ls0 P)) (snd (lower_go ls0 P))).
Proof. unfold lower. destruct (lower_go ls0 P) as [st is]. reflexivity. Qed.

(* sizes read off the (well-formed) computed header *)
Lemma size_ok_bounds e P st is : lower_go ls0 P = (st, is) -> size_ok e P = true ->
  (N.of_nat (length (ls_cells st)) < 2 ^ 32)%N /\ (N.of_nat (length (ls_types st)) < 2 ^ 32)%N /\
  (N.of_nat (length (ls_consts st)) < 2 ^ 32)%N /\ (N.of_nat (length (ls_blob st)) < 2 ^ 64)%N.
Proof.
  intros E S. unfold size_ok in S. rewrite lower_eq, E in S. cbn [fst snd] in S.
  unfold relayout in S. cbn [p_header] in S.
  pose proof (wf_fields_nth _ _ 4 4 S eq_refl) as B4. pose proof (wf_fields_nth _ _ 8 4 S eq_refl) as B8.
  pose proof (wf_fields_nth _ _ 10 4 S eq_refl) as B10. pose proof (wf_fields_nth _ _ 14 8 S eq_refl) as B14.
  change (nth 4 ?h 0%N) with (hfield h 4) in B4. change (nth 8 ?h 0%N) with (hfield h 8) in B8.
  change (nth 10 ?h 0%N) with (hfield h 10) in B10. change (nth 14 ?h 0%N) with (hfield h 14) in B14.
  rewrite hfield4 in B4. rewrite hfield8 in B8. rewrite hfield10 in B10. rewrite hfield14 in B14.
  cbn [raw p_header p_types p_consts p_blob hfield nth] in B4, B8, B10, B14.
  change (2 ^ (8 * N.of_nat 4))%N with (2 ^ 32)%N in *. change (2 ^ (8 * N.of_nat 8))%N with (2 ^ 64)%N in *.
  repeat split; assumption.
Qed.

Theorem lower_wf e P : wf_lenv e = true -> forallb wf_ninstr P = true -> size_ok e P = true ->
  wf_program (lower e P) = true.
Proof.
  intros We Wp S. destruct (lower_go ls0 P) as [st is] eqn:E.
  destruct (size_ok_bounds e P st is E S) as (Bc & Bt & Bk & Bb).
  destruct (lower_go_spec P ls0 st is E LInv_ls0 Wp) as [L _].
  destruct (lower_go_instrs P ls0 st is E LInv_ls0 Wp Bc Bk) as [I1 I2].
  unfold size_ok in S. rewrite lower_eq, E in *. cbn [fst snd] in *.
  unfold wf_lenv in We. apply andb_prop in We as [Wf _].
  unfold wf_program.
  replace (N_list_eqb _ _) with true.
  2:{ symmetry. unfold relayout at 1 2 3 4 5 6. cbn [p_header]. rewrite !hfield4.
      change (hfield (layout_header ?a ?b ?c ?d ?f ?p) 1) with a. change (hfield (layout_header ?a ?b ?c ?d ?f ?p) 2) with b.
      change (hfield (layout_header ?a ?b ?c ?d ?f ?p) 3) with c. change (hfield (layout_header ?a ?b ?c ?d ?f ?p) 21) with f.
      apply N_list_eqb_refl. }
  rewrite S. unfold relayout. cbn [p_features p_types p_consts p_blob p_symbols p_instrs p_dict raw forallb andb].
  rewrite Wf, (li_types st L), (li_blob st L), I1, I2. cbn [andb]. rewrite !andb_true_r.
  apply forallb_forall. intros en Hin.
  destruct (Forall2_In_l _ _ _ _ (li_entries st L) Hin) as (v & _ & Hv).
  exact (entry_ok_wf _ _ _ _ Hv Bt Bb).
Qed.

(* ---------- 2. the constants of the lowered program decode to what the compiler wrote ---------- *)
Lemma entry_ok_decode ts blob e v : entry_ok ts blob e v -> wf_cval v = true ->
  (N.of_nat (length blob) < 2 ^ 64)%N -> decode_entry ts blob e = DOk v.
Proof.
  intros (pre & post & tid & tb & Hb & He & Hn & Hm) W Bb. subst e blob.
  apply const_entry_roundtrip with (tb := tb); [exact W|rewrite Nat2N.id; exact Hn|apply calign_pos|exact Hm|].
  rewrite !app_length in Bb. lia.
Qed.

Lemma entries_decode ts blob cs vs : Forall2 (entry_ok ts blob) cs vs -> Forall (fun v => wf_cval v = true) vs ->
  (N.of_nat (length blob) < 2 ^ 64)%N -> decode_consts_from ts blob cs = (map Some vs, REnd).
Proof.
  intros F. induction F as [|e v cs vs Hev F IH]; intros W Bb; [reflexivity|].
  inversion W as [|? ? Wv Ws]; subst. cbn [decode_consts_from map].
  rewrite (entry_ok_decode _ _ _ _ Hev Wv Bb), (IH Ws Bb). reflexivity.
Qed.

Lemma lower_go_vals P : forall st stF is, lower_go st P = (stF, is) -> ls_vals stF = ls_vals st ++ cl_vals P.
Proof.
  induction P as [|i r IH]; intros st stF is E; cbn [lower_go] in E.
  - injection E as <- <-. rewrite app_nil_r. reflexivity.
  - destruct (lstep st i) as [st1 ci] eqn:E1. destruct (lower_go st1 r) as [st2 cis] eqn:E2. injection E as <- <-.
    rewrite (IH _ _ _ E2). unfold cl_vals. cbn [flat_map]. fold (cl_vals r).
    destruct i as [c v|f var d args]; cbn [lstep] in E1.
    + destruct (intern Nat.eqb c (ls_cells st)) as [r0 cells1]. destruct (intern_kind v (ls_types st)) as [tid ts1].
      injection E1 as <- <-. cbn [ls_vals]. rewrite <- app_assoc. reflexivity.
    + injection E1 as <- <-. reflexivity.
Qed.

Lemma lower_go_cells P : forall st stF is, lower_go st P = (stF, is) -> ls_cells stF = alloc_all (cl_cells P) (ls_cells st).
Proof.
  induction P as [|i r IH]; intros st stF is E; cbn [lower_go] in E.
  - injection E as <- <-. reflexivity.
  - destruct (lstep st i) as [st1 ci] eqn:E1. destruct (lower_go st1 r) as [st2 cis] eqn:E2. injection E as <- <-.
    rewrite (IH _ _ _ E2). unfold cl_cells. cbn [flat_map]. fold (cl_cells r).
    destruct i as [c v|f var d args]; cbn [lstep] in E1.
    + destruct (intern Nat.eqb c (ls_cells st)) as [r0 cells1] eqn:Ei. destruct (intern_kind v (ls_types st)) as [tid ts1].
      injection E1 as <- <-. cbn [ls_cells app]. unfold alloc_all. cbn [fold_left]. rewrite Ei. reflexivity.
    + injection E1 as <- <-. reflexivity.
Qed.

Theorem lowered_consts_decode e P : forallb wf_ninstr P = true -> size_ok e P = true ->
  decode_consts (lower e P) = (map Some (cl_vals P), REnd).
Proof.
  intros Wp S. destruct (lower_go ls0 P) as [st is] eqn:E.
  destruct (size_ok_bounds e P st is E S) as (_ & _ & _ & Bb).
  destruct (lower_go_spec P ls0 st is E LInv_ls0 Wp) as [L _].
  rewrite lower_eq, E. cbn [fst snd]. unfold decode_consts, relayout. cbn [p_types p_blob p_consts raw].
  rewrite (entries_decode _ _ _ _ (li_entries st L) (li_wfv st L) Bb), (lower_go_vals P ls0 st is E). reflexivity.
Qed.

(* entry by entry: the k-th constant-table entry of the lowered program decodes to the k-th value const-loaded *)
Theorem lowered_const_entry e P k v : forallb wf_ninstr P = true -> size_ok e P = true ->
  nth_error (cl_vals P) k = Some v ->
  exists en, nth_error (p_consts (lower e P)) k = Some en /\
             decode_entry (p_types (lower e P)) (p_blob (lower e P)) en = DOk v.
Proof.
  intros Wp S Hk. destruct (lower_go ls0 P) as [st is] eqn:E.
  destruct (size_ok_bounds e P st is E S) as (_ & _ & _ & Bb).
  destruct (lower_go_spec P ls0 st is E LInv_ls0 Wp) as [L _].
  rewrite lower_eq, E. cbn [fst snd]. unfold relayout. cbn [p_types p_blob p_consts raw].
  pose proof (lower_go_vals P ls0 st is E) as Hv. cbn [ls0 ls_vals app] in Hv. rewrite <- Hv in Hk.
  pose proof (li_entries st L) as F. pose proof (li_wfv st L) as W. clear Hv E L.
  revert k Hk. induction F as [|en0 v0 cs vs Hev F IH]; intros k Hk; [destruct k; discriminate|].
  inversion W as [|? ? Wv Ws]; subst. destruct k as [|k]; cbn [nth_error] in *.
  - injection Hk as <-. exists en0. split; [reflexivity|]. exact (entry_ok_decode _ _ _ _ Hev Wv Bb).
  - exact (IH Ws k Hk).
Qed.

(* ---------- the abstract named machine and its erasure into Model/Bytecode.v ---------- *)
Lemma erase_compile sem p final : map (erase sem) (ncompile p final) = compile (map (to_pstep sem) p) final.
Proof.
  induction p as [|s p IH]; [reflexivity|].
  unfold ncompile, compile. cbn [flat_map map]. fold (ncompile p final). fold (compile (map (to_pstep sem) p) final).
  rewrite map_app, IH. f_equal. unfold ncompile_step, compile_step. cbn [map to_pstep s_out s_args s_fn erase].
  rewrite map_app, map_map. reflexivity.
Qed.

Lemma ncells_cells sem p : cells (map (to_pstep sem) p) = ncells p.
Proof. unfold cells, ncells. induction p as [|s p IH]; [reflexivity|]. cbn [map flat_map]. rewrite IH. reflexivity. Qed.

Lemma arun_erase sem P : forall st,
  (a_regs (arun P st), map (to_pstep sem) (a_plan (arun P st))) =
  fold_left exec (map (erase sem) P) (a_regs st, map (to_pstep sem) (a_plan st)).
Proof.
  induction P as [|i r IH]; intros st; [reflexivity|].
  cbn [arun fold_left map]. fold (arun r (astep st i)). rewrite IH. f_equal.
  destruct i as [c v|f var d a]; cbn [astep erase exec a_regs a_plan fst snd]; [reflexivity|].
  rewrite map_app. reflexivity.
Qed.

(* the abstract run of a compiled plan leaves the interpreter's values in the registers: Bytecode.run_is_snapshot *)
Lemma arun_snapshot p final rs : forall c, In c (ncells p) -> a_regs (arun (ncompile p final) (astate0 rs)) c = final c.
Proof.
  intros c Hc. set (sem := fun (_ : N) (_ : list cval) => CScalar KBool (VB false)).
  pose proof (arun_erase sem (ncompile p final) (astate0 rs)) as H. rewrite erase_compile in H.
  cbn [astate0 a_regs a_plan map] in H.
  change (fold_left exec (compile (map (to_pstep sem) p) final) (rs, [])) with (Bytecode.run (compile (map (to_pstep sem) p) final) rs) in H.
  apply (f_equal fst) in H. cbn [fst] in H. rewrite H.
  apply run_is_snapshot. rewrite ncells_cells. exact Hc.
Qed.

Lemma arun_app P Q st : arun (P ++ Q) st = arun Q (arun P st).
Proof. apply fold_left_app. Qed.

Lemma arun_loads final l : forall st,
  a_plan (arun (map (fun a => NCL a (final a)) l) st) = a_plan st /\ a_out (arun (map (fun a => NCL a (final a)) l) st) = a_out st.
Proof.
  induction l as [|a l IH]; intros st; [split; reflexivity|]. cbn [map arun fold_left].
  fold (arun (map (fun a => NCL a (final a)) l) (astep st (NCL a (final a)))).
  destruct (IH (astep st (NCL a (final a)))) as [H1 H2]. rewrite H1, H2. split; reflexivity.
Qed.

Lemma ncompile_step_eq final s :
  ncompile_step final s = map (fun a => NCL a (final a)) (n_out s :: n_args s) ++ [NOP (n_fid s) (n_var s) (n_out s) (n_args s)].
Proof. reflexivity. Qed.

Lemma arun_one i st : arun [i] st = astep st i.
Proof. reflexivity. Qed.

Lemma arun_ncompile_plan p final : forall st, a_plan (arun (ncompile p final) st) = a_plan st ++ p.
Proof.
  induction p as [|s p IH]; intros st; [rewrite app_nil_r; reflexivity|].
  unfold ncompile. cbn [flat_map]. fold (ncompile p final). rewrite arun_app, IH, ncompile_step_eq, arun_app, arun_one.
  destruct (arun_loads final (n_out s :: n_args s) st) as [H1 _].
  cbn [astep a_plan]. rewrite H1, <- app_assoc. destruct s; reflexivity.
Qed.

Lemma ncompile_snoc p s final : ncompile (p ++ [s]) final = ncompile p final ++ ncompile_step final s.
Proof. unfold ncompile. rewrite flat_map_app. cbn [flat_map]. rewrite app_nil_r. reflexivity. Qed.

Lemma ncells_snoc p s : ncells (p ++ [s]) = ncells p ++ n_out s :: n_args s.
Proof. unfold ncells. rewrite flat_map_app. cbn [flat_map]. rewrite app_nil_r. reflexivity. Qed.

(* self.out after the run: the value of the LAST step's output cell *)
Lemma arun_out p s final rs : a_out (arun (ncompile (p ++ [s]) final) (astate0 rs)) = Some (final (n_out s)).
Proof.
  pose proof (arun_snapshot (p ++ [s]) final rs (n_out s)) as Hs.
  rewrite ncompile_snoc, ncompile_step_eq, app_assoc, arun_app, arun_one in *. cbn [astep a_out a_regs] in *.
  rewrite Hs; [reflexivity|]. rewrite ncells_snoc. apply in_or_app. right. left. reflexivity.
Qed.

(* ---------- hypothesis [runnable] holds for compiled plans ---------- *)
Lemma loads_final final l : forall (rs : nat -> cval) x, In x l \/ rs x = final x ->
  fold_left (fun r a => upd r a (final a)) l rs x = final x.
Proof.
  induction l as [|a l IH]; intros rs x H; cbn [fold_left]; [destruct H as [[]|H]; exact H|].
  apply IH. destruct H as [[<-|H]|H]; [right|left; exact H|right].
  - unfold upd. rewrite Nat.eqb_refl. reflexivity.
  - unfold upd. destruct (Nat.eqb x a) eqn:E; [apply Nat.eqb_eq in E; subst; reflexivity|exact H].
Qed.

Lemma runnable_loads R final l : forall loaded rs Q,
  runnable R (rev l ++ loaded) Q (fold_left (fun r a => upd r a (final a)) l rs) ->
  runnable R loaded (map (fun a => NCL a (final a)) l ++ Q) rs.
Proof.
  induction l as [|a l IH]; intros loaded rs Q H; [exact H|].
  cbn [map app runnable]. apply IH. cbn [rev fold_left] in H. rewrite <- app_assoc in H. exact H.
Qed.

Lemma runnable_compile R p final : plan_accepted R p final -> forall loaded rs, runnable R loaded (ncompile p final) rs.
Proof.
  induction p as [|s p IH]; intros Hp loaded rs; [exact I|].
  unfold ncompile. cbn [flat_map]. fold (ncompile p final). rewrite ncompile_step_eq, <- app_assoc.
  apply runnable_loads. cbn [app runnable].
  set (rs' := fold_left (fun r a => upd r a (final a)) (n_out s :: n_args s) rs).
  assert (Hf : forall x, In x (n_out s :: n_args s) -> rs' x = final x).
  { intros x Hx. apply loads_final. left. exact Hx. }
  destruct (Hp s (or_introl eq_refl)) as [Hk Hfa].
  split; [intros x Hx; apply in_or_app; left; apply in_rev in Hx; exact Hx|].
  split; [exact Hk|]. split.
  - rewrite (Hf (n_out s) (or_introl eq_refl)).
    rewrite (map_ext_in (fun x => Some (rs' x)) (fun x => Some (final x))); [exact Hfa|].
    intros x Hx. rewrite (Hf x (or_intror Hx)). reflexivity.
  - apply IH. intros s' Hs'. apply Hp. right. exact Hs'.
Qed.

(* ---------- 3. the concrete run of the lowered program refines the abstract run ---------- *)
Definition Inv (cellsF : list nat) (st : lstate) (A : astate) (C : cstate) : Prop :=
  (forall c, In c (ls_cells st) -> c_regs C (reg_of (ls_cells st) c) = Some (a_regs A c)) /\
  c_plan C = map (lower_nstep cellsF) (a_plan A) /\
  c_out C = a_out A.

Lemma cstep_op_instr R nreg K st f var d rs :
  cstep R nreg K st (op_instr f var d rs) =
  if negb (known R f) then (st, CEerr)
  else if negb (forallb (fun r => (r <? nreg)%N) (d :: rs)) then (st, CEpanic)
  else if negb (factory_ok R f (c_regs st d) (map (c_regs st) rs)) then (st, CEerr)
  else ({| c_regs := c_regs st; c_plan := c_plan st ++ [(f, d, rs)]; c_out := c_regs st d |}, CEok).
Proof.
  unfold op_instr. destruct var; [reflexivity|].
  destruct rs as [|a [|b [|c [|e [|g rs]]]]]; reflexivity.
Qed.

(* the registry that knows every id and whose factories accept everything: [runnable Rall] is exactly
   "every operation reads registers that were const-loaded before it" *)
Definition Rall : registry := {| known := fun _ => true; factory_ok := fun _ _ _ => true |}.

Lemma runnable_scoped R P : forall loaded rs, runnable R loaded P rs -> runnable Rall loaded P rs.
Proof.
  induction P as [|i r IH]; intros loaded rs H; [exact I|].
  destruct i as [c v|f var d a]; cbn [runnable] in *; [apply IH; exact H|].
  destruct H as (H1 & _ & _ & H4). repeat split; [exact H1|apply IH; exact H4].
Qed.

(* Whatever the registry: on a scoped program the concrete run never indexes a register or a constant out of
   range (no panic); if moreover the registry accepts every operation it ends normally in a state related to the
   abstract run's. *)
Lemma sim R nreg K cellsF : forall P st A C stF is loaded,
  lower_go st P = (stF, is) ->
  LInv st -> forallb wf_ninstr P = true ->
  (forall i v, nth_error (ls_vals stF) i = Some v -> nth_error K i = Some (Some v)) ->
  (N.of_nat (length (ls_cells stF)) <= nreg)%N ->
  prefix (ls_cells stF) cellsF ->
  Inv cellsF st A C -> (forall x, In x loaded -> In x (ls_cells st)) ->
  runnable Rall loaded P (a_regs A) ->
  exists C' en, crun_instrs R nreg K is C = (C', en) /\ en <> CEpanic /\
    (runnable R loaded P (a_regs A) -> en = CEok /\ Inv cellsF stF (arun P A) C').
Proof.
  induction P as [|i r IH]; intros st A C stF is loaded E L W HK Hn Pf HI Hl Hs; cbn [lower_go] in E.
  - injection E as <- <-. exists C, CEok. split; [reflexivity|]. split; [discriminate|]. intros _. split; [reflexivity|exact HI].
  - cbn [forallb] in W. apply andb_prop in W as [Wi Wr].
    destruct (lstep st i) as [st1 ci] eqn:E1. destruct (lower_go st1 r) as [st2 cis] eqn:E2. injection E as <- <-.
    destruct (lstep_spec _ _ _ _ E1 L Wi) as [L1 X1]. destruct (lower_go_spec _ _ _ _ E2 L1 Wr) as [L2 X2].
    destruct HI as (HIr & HIp & HIo).
    destruct i as [c v|f var d args]; cbn [lstep] in E1.
    + (* ConstLoad *)
      destruct (intern Nat.eqb c (ls_cells st)) as [r0 cells1] eqn:Ei.
      destruct (intern_kind v (ls_types st)) as [tid ts1] eqn:Et. injection E1 as <- <-.
      destruct (reg_after_intern _ _ _ _ Ei) as (Hc1 & Lr & Rc & Ro).
      destruct X2 as (Xc & _ & _ & Xv & _). cbn [ls_cells ls_vals] in Xc, Xv.
      cbn [crun_instrs cstep]. rewrite Nat2N.id.
      assert (HKc : nth_error K (length (ls_consts st)) = Some (Some v)).
      { apply HK. apply (prefix_nth _ _ _ _ Xv). rewrite (Forall2_len _ _ _ (li_entries st L)). apply nth_error_snoc. }
      rewrite HKc.
      replace (N.of_nat r0 <? nreg)%N with true by (symmetry; apply N.ltb_lt; apply prefix_length in Xc; lia).
      cbn [runnable] in Hs.
      destruct (IH _ (astep A (NCL c v)) {| c_regs := cupd (c_regs C) (N.of_nat r0) (Some v); c_plan := c_plan C; c_out := c_out C |}
                   st2 cis (c :: loaded) E2 L1 Wr HK Hn Pf) as (C' & en & HC & Hnp & Hok).
      * split; [|split; [exact HIp|exact HIo]]. cbn [ls_cells c_regs astep a_regs]. intros c' Hc'.
        destruct (Nat.eq_dec c' c) as [->|Hne].
        -- rewrite Rc. unfold cupd, upd. rewrite N.eqb_refl, Nat.eqb_refl. reflexivity.
        -- destruct (Ro c' Hc' Hne) as (Hin & Re & Rn). rewrite Re. unfold cupd, upd.
           replace (reg_of (ls_cells st) c' =? N.of_nat r0)%N with false by (symmetry; apply N.eqb_neq; exact Rn).
           replace (Nat.eqb c' c) with false by (symmetry; apply Nat.eqb_neq; exact Hne).
           apply HIr. exact Hin.
      * intros x [<-|Hx]; [exact Hc1|]. cbn [ls_cells]. destruct X1 as (X1c & _). cbn [ls_cells] in X1c.
        apply (prefix_In _ _ _ X1c). apply Hl. exact Hx.
      * exact Hs.
      * exists C', en. split; [exact HC|]. split; [exact Hnp|]. intros Hr. cbn [runnable] in Hr. exact (Hok Hr).
    + (* operation *)
      injection E1 as <- <-. cbn [runnable] in Hs. destruct Hs as (Hsc & _ & _ & Hs).
      cbn [crun_instrs]. rewrite cstep_op_instr.
      destruct (known R f) eqn:Hkn; cbn [negb].
      2:{ exists C, CEerr. split; [reflexivity|]. split; [discriminate|]. intros Hr. cbn [runnable] in Hr.
          destruct Hr as (_ & Hk & _). rewrite Hk in Hkn. discriminate. }
      destruct X2 as (Xc & _).
      assert (Hin : forall x, In x (d :: args) -> In x (ls_cells st)) by (intros x Hx; apply Hl, Hsc, Hx).
      assert (Hb : forallb (fun r => (r <? nreg)%N) (reg_of (ls_cells st) d :: map (reg_of (ls_cells st)) args) = true).
      { change (reg_of (ls_cells st) d :: map (reg_of (ls_cells st)) args) with (map (reg_of (ls_cells st)) (d :: args)).
        apply forallb_forall. intros y Hy. apply in_map_iff in Hy as (x & <- & Hx).
        destruct (reg_of_lt _ _ (Hin x Hx)) as (j & _ & -> & Lj). apply N.ltb_lt. apply prefix_length in Xc. lia. }
      rewrite Hb. cbn [negb].
      assert (Hd : c_regs C (reg_of (ls_cells st) d) = Some (a_regs A d)) by (apply HIr, Hin; left; reflexivity).
      assert (Ha : map (c_regs C) (map (reg_of (ls_cells st)) args) = map (fun x => Some (a_regs A x)) args).
      { rewrite map_map. apply map_ext_in. intros x Hx. apply HIr, Hin. right. exact Hx. }
      rewrite Hd, Ha.
      destruct (factory_ok R f (Some (a_regs A d)) (map (fun x => Some (a_regs A x)) args)) eqn:Hfa; cbn [negb].
      2:{ exists C, CEerr. split; [reflexivity|]. split; [discriminate|]. intros Hr. cbn [runnable] in Hr.
          destruct Hr as (_ & _ & Hk & _). rewrite Hk in Hfa. discriminate. }
      destruct (IH _ (astep A (NOP f var d args))
                   {| c_regs := c_regs C; c_plan := c_plan C ++ [(f, reg_of (ls_cells st) d, map (reg_of (ls_cells st)) args)];
                      c_out := Some (a_regs A d) |}
                   st2 cis loaded E2 L Wr HK Hn Pf) as (C' & en & HC & Hnp & Hok).
      * split; [exact HIr|]. cbn [c_plan c_out astep a_plan a_out]. split; [|reflexivity].
        rewrite map_app, HIp. cbn [map]. f_equal. f_equal. unfold lower_nstep. cbn [n_fid n_out n_args].
        assert (Hq : forall x, In x (d :: args) -> reg_of cellsF x = reg_of (ls_cells st) x).
        { intros x Hx. apply reg_of_prefix; [exact (prefix_trans _ _ _ Xc Pf)|exact (Hin x Hx)]. }
        rewrite (Hq d (or_introl eq_refl)).
        rewrite (map_ext_in (reg_of cellsF) (reg_of (ls_cells st)) args) by (intros x Hx; apply Hq; right; exact Hx).
        reflexivity.
      * exact Hl.
      * exact Hs.
      * exists C', en. split; [exact HC|]. split; [exact Hnp|]. intros Hr. cbn [runnable] in Hr.
        destruct Hr as (_ & _ & _ & Hr). exact (Hok Hr).
Qed.

Lemma lowered_run_sim R e P rs : forallb wf_ninstr P = true -> size_ok e P = true ->
  runnable Rall [] P rs ->
  exists C en, crun R (lower e P) = (C, en) /\ en <> CEpanic /\
    (runnable R [] P rs -> en = CEok /\
      (forall c, In c (lower_cells P) -> c_regs C (reg_of (lower_cells P) c) = Some (a_regs (arun P (astate0 rs)) c)) /\
      c_plan C = map (lower_nstep (lower_cells P)) (a_plan (arun P (astate0 rs))) /\
      c_out C = a_out (arun P (astate0 rs))).
Proof.
  intros Wp S Hs. unfold crun. rewrite (lowered_consts_decode e P Wp S).
  unfold lower_cells. destruct (lower_go ls0 P) as [st is] eqn:E. rewrite lower_eq, E. cbn [fst snd].
  unfold relayout. cbn [p_symbols p_instrs p_header raw crun_syms]. rewrite hfield4.
  destruct (sim R (N.of_nat (length (ls_cells st))) (map Some (cl_vals P)) (ls_cells st) P ls0 (astate0 rs) cs0 st is []
              E LInv_ls0 Wp) as (C & en & HC & Hnp & Hok).
  - intros i v Hi. rewrite (lower_go_vals P ls0 st is E) in Hi. cbn [ls0 ls_vals app] in Hi.
    rewrite nth_error_map, Hi. reflexivity.
  - lia.
  - apply prefix_refl.
  - split; [intros c []|split; reflexivity].
  - intros x [].
  - exact Hs.
  - exists C, en. split; [exact HC|]. split; [exact Hnp|]. intros Hr. destruct (Hok Hr) as [He HI]. split; [exact He|exact HI].
Qed.

(* the refinement theorem: for ANY abstract program whose operations only read const-loaded registers and whose
   functions the registry accepts, the concrete run of the lowered program ends normally, and
   - every const-loaded cell's register holds the value the abstract run leaves in that cell,
   - the rebuilt plan is the abstract plan under the register map, in order,
   - self.out is the abstract out *)
Theorem lowered_run_refines R e P rs : forallb wf_ninstr P = true -> size_ok e P = true ->
  runnable R [] P rs ->
  exists C, crun R (lower e P) = (C, CEok) /\
    (forall c, In c (lower_cells P) -> c_regs C (reg_of (lower_cells P) c) = Some (a_regs (arun P (astate0 rs)) c)) /\
    c_plan C = map (lower_nstep (lower_cells P)) (a_plan (arun P (astate0 rs))) /\
    c_out C = a_out (arun P (astate0 rs)).
Proof.
  intros Wp S Hr.
  destruct (lowered_run_sim R e P rs Wp S (runnable_scoped R P [] rs Hr)) as (C & en & HC & _ & Hok).
  destruct (Hok Hr) as [-> HI]. exists C. split; [exact HC|exact HI].
Qed.

(* ... and for ANY registry (functions unknown, factories refusing): an error, never a panic *)
Theorem lowered_run_no_panic R e P rs : forallb wf_ninstr P = true -> size_ok e P = true ->
  runnable Rall [] P rs -> snd (crun R (lower e P)) <> CEpanic.
Proof.
  intros Wp S Hs. destruct (lowered_run_sim R e P rs Wp S Hs) as (C & en & HC & Hnp & _). rewrite HC. exact Hnp.
Qed.

(* ---------- 4. compile -> bytes -> load -> run ---------- *)
Lemma wf_ncompile p final : forallb wf_nstep p = true -> (forall c, In c (ncells p) -> wf_cval (final c) = true) ->
  forallb wf_ninstr (ncompile p final) = true.
Proof.
  induction p as [|s p IH]; intros Wp Wf; [reflexivity|].
  cbn [forallb] in Wp. apply andb_prop in Wp as [Ws Wp].
  unfold ncompile. cbn [flat_map]. fold (ncompile p final). rewrite forallb_app, IH; [|exact Wp|].
  - rewrite andb_true_r, ncompile_step_eq, forallb_app. cbn [forallb wf_ninstr]. unfold wf_nstep in Ws. rewrite Ws.
    rewrite andb_true_r. apply forallb_forall. intros i Hi. apply in_map_iff in Hi as (x & <- & Hx). cbn [wf_ninstr].
    apply Wf. unfold ncells. cbn [flat_map]. apply in_or_app. left. exact Hx.
  - intros c Hc. apply Wf. unfold ncells. cbn [flat_map]. apply in_or_app. right. exact Hc.
Qed.

Lemma cl_cells_ncompile p final : cl_cells (ncompile p final) = ncells p.
Proof.
  induction p as [|s p IH]; [reflexivity|].
  unfold ncompile, ncells, cl_cells in *. cbn [flat_map]. rewrite flat_map_app, IH. f_equal.
  rewrite ncompile_step_eq, flat_map_app. cbn [flat_map]. rewrite !app_nil_r.
  generalize (n_out s :: n_args s). intros l. induction l as [|a l IHl]; [reflexivity|]. cbn [map flat_map app]. rewrite IHl. reflexivity.
Qed.

(* registers are numbered in order of first occurrence in the plan (out, then operands, step by step) *)
Lemma lower_cells_ncompile p final : lower_cells (ncompile p final) = alloc_all (ncells p) [].
Proof.
  unfold lower_cells. destruct (lower_go ls0 (ncompile p final)) as [st is] eqn:E. cbn [fst].
  rewrite (lower_go_cells _ _ _ _ E), cl_cells_ncompile. reflexivity.
Qed.

Lemma alloc_all_In cs : forall cells c, In c cells \/ In c cs -> In c (alloc_all cs cells).
Proof.
  induction cs as [|a cs IH]; intros cells c H; cbn [alloc_all fold_left]; [destruct H as [H|[]]; exact H|].
  apply IH. destruct (intern Nat.eqb a cells) as [r0 cells1] eqn:Ei. cbn [snd].
  destruct (reg_after_intern _ _ _ _ Ei) as (Ha & _).
  pose proof (intern_prefix Nat.eqb a cells) as Pc. rewrite Ei in Pc. cbn [snd] in Pc.
  destruct H as [H|[<-|H]]; [left; exact (prefix_In _ _ _ Pc H)|left; exact Ha|right; exact H].
Qed.

Definition plan_all_accepted p final : plan_accepted Rall p final.
Proof. intros s _. split; reflexivity. Qed.

(* (a) the emitted file loads, and gives back exactly the lowered program *)
Theorem emitted_file_loads e P : wf_lenv e = true -> forallb wf_ninstr P = true -> size_ok e P = true ->
  fst (load_program (encode_program (lower e P))) = Ok (lower e P).
Proof. intros We Wp S. apply codec_roundtrip, lower_wf; assumption. Qed.

Theorem compile_load_run R e p final :
  wf_lenv e = true -> forallb wf_nstep p = true ->
  (forall c, In c (ncells p) -> wf_cval (final c) = true) ->
  size_ok e (ncompile p final) = true ->
  plan_accepted R p final ->
  let P := ncompile p final in
  let regmap := alloc_all (ncells p) [] in
  exists q C,
    fst (load_program (encode_program (lower e P))) = Ok q /\
    decode_consts q = (map Some (cl_vals P), REnd) /\
    crun R q = (C, CEok) /\
    (forall c, In c (ncells p) -> c_regs C (reg_of regmap c) = Some (final c)) /\
    c_plan C = map (lower_nstep regmap) p /\
    (forall p' s, p = p' ++ [s] -> c_out C = Some (final (n_out s))).
Proof.
  intros We Wp Wf S Ha P regmap. set (rs := fun _ : nat => CScalar KBool (VB false)).
  pose proof (wf_ncompile p final Wp Wf) as WP.
  exists (lower e P). destruct (lowered_run_refines R e P rs WP S (runnable_compile R p final Ha [] rs)) as (C & HC & Hr & Hp & Ho).
  exists C. split; [apply emitted_file_loads; assumption|].
  split; [apply lowered_consts_decode; assumption|]. split; [exact HC|].
  unfold P in Hr, Hp, Ho. rewrite lower_cells_ncompile in Hr, Hp. fold regmap in Hr, Hp.
  split; [|split].
  - intros c Hc. rewrite Hr; [|apply alloc_all_In; right; exact Hc]. rewrite arun_snapshot by exact Hc. reflexivity.
  - rewrite Hp, arun_ncompile_plan. reflexivity.
  - intros p' s ->. rewrite Ho, arun_out. reflexivity.
Qed.

(* without any hypothesis on the registry: loading succeeds, every constant decodes, and the run ends with a value or an
   error — the run loop never indexes out of range *)
Theorem compile_load_run_no_panic R e p final :
  wf_lenv e = true -> forallb wf_nstep p = true ->
  (forall c, In c (ncells p) -> wf_cval (final c) = true) ->
  size_ok e (ncompile p final) = true ->
  exists q, fst (load_program (encode_program (lower e (ncompile p final)))) = Ok q /\
            snd (decode_consts q) = REnd /\ snd (crun R q) <> CEpanic.
Proof.
  intros We Wp Wf S. set (rs := fun _ : nat => CScalar KBool (VB false)).
  pose proof (wf_ncompile p final Wp Wf) as WP.
  exists (lower e (ncompile p final)). split; [apply emitted_file_loads; assumption|].
  split; [rewrite lowered_consts_decode by assumption; reflexivity|].
  apply (lowered_run_no_panic R e _ rs WP S). apply runnable_compile. apply plan_all_accepted.
Qed.

(* ---------- the known findings of C06 in the model ---------- *)
Lemma crun_lower R e P : forallb wf_ninstr P = true -> size_ok e P = true ->
  crun R (lower e P) =
  crun_instrs R (N.of_nat (length (lower_cells P))) (map Some (cl_vals P)) (snd (lower_go ls0 P)) cs0.
Proof.
  intros Wp S. unfold crun. rewrite (lowered_consts_decode e P Wp S). unfold lower_cells. rewrite lower_eq.
  destruct (lower_go ls0 P) as [st is]. cbn [fst snd]. unfold relayout. cbn [p_symbols p_instrs p_header raw crun_syms].
  rewrite hfield4. reflexivity.
Qed.

Lemma crun_instrs_ok_known R nreg K : forall is C C', crun_instrs R nreg K is C = (C', CEok) ->
  forall i f d a, In i is -> op_parts i = Some (f, d, a) -> known R f = true.
Proof.
  induction is as [|i0 r IH]; intros C C' H i f d a Hi Hp; [destruct Hi|].
  cbn [crun_instrs] in H. destruct (cstep R nreg K C i0) as [C1 e1] eqn:E1. destruct e1; try discriminate.
  destruct Hi as [->|Hi]; [|exact (IH _ _ H _ _ _ _ Hi Hp)].
  destruct i; cbn [op_parts] in Hp; try discriminate; injection Hp as <- <- <-; cbn [cstep op_parts] in E1;
    match goal with |- known R ?x = true => destruct (known R x); [reflexivity|cbn [negb] in E1; discriminate] end.
Qed.

Lemma op_parts_op_instr f var d rs : op_parts (op_instr f var d rs) = Some (f, d, rs).
Proof. unfold op_instr. destruct var; [reflexivity|]. destruct rs as [|a [|b [|c [|e [|g rs]]]]]; reflexivity. Qed.

Lemma lower_go_ops P : forall st stF is, lower_go st P = (stF, is) -> forall f var d a, In (NOP f var d a) P ->
  exists i d' a', In i is /\ op_parts i = Some (f, d', a').
Proof.
  induction P as [|i r IH]; intros st stF is E f var d a Hi; [destruct Hi|]. cbn [lower_go] in E.
  destruct (lstep st i) as [st1 ci] eqn:E1. destruct (lower_go st1 r) as [st2 cis] eqn:E2. injection E as <- <-.
  destruct Hi as [->|Hi].
  - cbn [lstep] in E1. injection E1 as <- <-. eexists _, _, _. split; [left; reflexivity|apply op_parts_op_instr].
  - destruct (IH _ _ _ E2 _ _ _ _ Hi) as (i' & d' & a' & Hin & Hp). exists i', d', a'. split; [right; exact Hin|exact Hp].
Qed.

(* finding run-unknown-function: a function id of the plan without a registered factory makes the run of the loaded
   bytes end with an ERROR (never a panic, never a value) *)
Theorem unregistered_function_errs R e p final :
  wf_lenv e = true -> forallb wf_nstep p = true ->
  (forall c, In c (ncells p) -> wf_cval (final c) = true) ->
  size_ok e (ncompile p final) = true ->
  (exists s, In s p /\ known R (n_fid s) = false) ->
  snd (crun R (lower e (ncompile p final))) = CEerr.
Proof.
  intros We Wp Wf S (s & Hs & Hk). set (rs := fun _ : nat => CScalar KBool (VB false)).
  pose proof (wf_ncompile p final Wp Wf) as WP.
  pose proof (lowered_run_no_panic R e _ rs WP S (runnable_compile Rall p final (plan_all_accepted p final) [] rs)) as Hnp.
  rewrite (crun_lower R e _ WP S) in *.
  destruct (crun_instrs R _ _ (snd (lower_go ls0 (ncompile p final))) cs0) as [C en] eqn:HC. cbn [snd] in *.
  destruct en; [exfalso|reflexivity|exfalso; apply Hnp; reflexivity].
  destruct (lower_go ls0 (ncompile p final)) as [st is] eqn:E. cbn [snd] in HC.
  assert (Hin : In (NOP (n_fid s) (n_var s) (n_out s) (n_args s)) (ncompile p final)).
  { unfold ncompile. apply in_flat_map. exists s. split; [exact Hs|]. rewrite ncompile_step_eq. apply in_or_app. right. left. reflexivity. }
  destruct (lower_go_ops _ _ _ _ E _ _ _ _ Hin) as (i & d' & a' & Hi & Hp).
  rewrite (crun_instrs_ok_known R _ _ _ _ _ HC _ _ _ _ Hi Hp) in Hk. discriminate.
Qed.

(* finding result-is-last-step: whatever cell the interpreter's program result lives in, the run of the loaded bytes
   returns the snapshot of the LAST step's output — a different value if that cell holds one *)
Theorem result_is_last_step R e p' s final (res : nat) :
  wf_lenv e = true -> forallb wf_nstep (p' ++ [s]) = true ->
  (forall c, In c (ncells (p' ++ [s])) -> wf_cval (final c) = true) ->
  size_ok e (ncompile (p' ++ [s]) final) = true ->
  plan_accepted R (p' ++ [s]) final ->
  final res <> final (n_out s) ->
  exists C, crun R (lower e (ncompile (p' ++ [s]) final)) = (C, CEok) /\ c_out C <> Some (final res).
Proof.
  intros We Wp Wf S Ha Hne.
  destruct (compile_load_run R e (p' ++ [s]) final We Wp Wf S Ha) as (q & C & Hl & _ & HC & _ & _ & Ho).
  rewrite (emitted_file_loads e _ We (wf_ncompile _ final Wp Wf) S) in Hl. injection Hl as <-.
  exists C. split; [exact HC|]. rewrite (Ho p' s eq_refl). intros E. injection E as E. apply Hne. symmetry. exact E.
Qed.
