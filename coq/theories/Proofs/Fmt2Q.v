(* C08, second part: patterns, right-hand sides, statements, programs; formatter.rs vs canonical printer; judge soundness. *)
From Coq Require Import List Arith Lia PeanoNat Bool ZArith.
From Coq Require Import String Ascii.
From MechV Require Import Base.Sexp Base.Obs Model.Fmt2 Proofs.Fmt2P.
Import ListNotations.
Local Open Scope list_scope.

(* ------------------------------------------------------------------ generalised list lemmas (separator test may look ahead) *)
Lemma psep_ok_g {A} (g : A -> list tok) (septoks : list tok) (sepf : list tok -> option (list tok))
      (p : parser A) (R : list tok -> Prop) :
  forall xs m rest,
    (forall x r, In x xs -> sepf (septoks ++ g x ++ r) = Some (g x ++ r)) ->
    List.length xs <= m ->
    (forall x r, In x xs -> R r -> p (g x ++ r) = Some (x, r)) ->
    (forall x r, In x xs -> R (septoks ++ g x ++ r)) ->
    R rest ->
    match sepf rest with Some r => p r = None | None => True end ->
    psep m sepf p (flat_map (fun x => septoks ++ g x) xs ++ rest) = (xs, rest).
Proof.
  induction xs as [|x xs IH]; intros m rest Hsep Hm Hp HR Hrest Hstop.
  - cbn [flat_map app]. destruct m as [|m]; [reflexivity|]. cbn [psep].
    destruct (sepf rest) as [r|]; [|reflexivity]. rewrite Hstop. reflexivity.
  - destruct m as [|m]; [cbn in Hm; lia|].
    cbn [flat_map]. rewrite <- !app_assoc. cbn [psep]. rewrite (Hsep x _ (or_introl eq_refl)).
    assert (HR1 : R (flat_map (fun x0 => septoks ++ g x0) xs ++ rest)).
    { destruct xs as [|y ys]; [exact Hrest|].
      cbn [flat_map]. rewrite <- !app_assoc. apply HR. right; left; reflexivity. }
    rewrite (Hp x _ (or_introl eq_refl) HR1).
    rewrite IH; [reflexivity| | cbn in Hm; lia | | | exact Hrest | exact Hstop].
    + intros y r Hy. apply Hsep. right; exact Hy.
    + intros y r Hy. apply Hp. right; exact Hy.
    + intros y r Hy. apply HR. right; exact Hy.
Qed.

Lemma plist1_ok_g {A} (g : A -> list tok) (septoks : list tok) (sepf : list tok -> option (list tok))
      (p : parser A) (R : list tok -> Prop) :
  forall x xs m rest,
    (forall y r, In y xs -> sepf (septoks ++ g y ++ r) = Some (g y ++ r)) ->
    List.length xs <= m ->
    (forall y r, In y (x :: xs) -> R r -> p (g y ++ r) = Some (y, r)) ->
    (forall y r, In y xs -> R (septoks ++ g y ++ r)) ->
    R rest ->
    match sepf rest with Some r => p r = None | None => True end ->
    plist1 m sepf p (join septoks (map g (x :: xs)) ++ rest) = Some (x :: xs, rest).
Proof.
  intros x xs m rest Hsep Hm Hp HR Hrest Hstop.
  rewrite join_map_cons, <- app_assoc. unfold plist1.
  assert (HR1 : R (flat_map (fun y => septoks ++ g y) xs ++ rest)).
  { destruct xs as [|y ys]; [exact Hrest|].
    cbn [flat_map]. rewrite <- !app_assoc. apply HR. left; reflexivity. }
  rewrite (Hp x _ (or_introl eq_refl) HR1).
  rewrite (psep_ok_g g septoks sepf p R xs m rest Hsep Hm); [reflexivity| | exact HR | exact Hrest | exact Hstop].
  intros y r Hy. apply Hp. right; exact Hy.
Qed.

Lemma flat_map_join_nil {A B} (g : A -> list B) (l : list A) : flat_map g l = join [] (map g l).
Proof.
  destruct l as [|x xs]; [reflexivity|]. rewrite join_map_cons. cbn [flat_map]. f_equal.
Qed.

(* ------------------------------------------------------------------ patterns *)
Section PatInd.
  Variable P : pat -> Prop.
  Hypothesis HItem : forall i, P (PItem i).
  Hypothesis HTup : forall ps, Forall P ps -> P (PTup ps).
  Hypothesis HTupS : forall nm ps, Forall P ps -> P (PTupS nm ps).
  Hypothesis HArr : forall pre tl, P (PArr pre tl).
  Fixpoint pat_ind' (p : pat) : P p :=
    let fl := fix fl (l : list pat) : Forall P l :=
      match l with [] => Forall_nil _ | x :: r => Forall_cons _ (pat_ind' x) (fl r) end in
    match p with
    | PItem i => HItem i
    | PTup ps => HTup ps (fl ps)
    | PTupS n ps => HTupS n ps (fl ps)
    | PArr pre tl => HArr pre tl
    end.
End PatInd.

Lemma pitem_ok i rest : post0 rest = true -> pitem_p (fmt_item i ++ rest) = Some (i, rest).
Proof.
  intros Hp. destruct i as [|l k|x k]; [reflexivity| |].
  - cbn [fmt_item]. rewrite <- app_assoc.
    destruct l; cbn [fmt_lit app pitem_p]; rewrite optkind_ok by auto; reflexivity.
  - cbn [fmt_item app pitem_p]. rewrite optkind_ok by auto. reflexivity.
Qed.

Lemma fmt_item_len_pos i : 1 <= List.length (fmt_item i).
Proof. destruct i as [|[] k|x k]; cbn; lia. Qed.

Lemma fmt_apart_len_pos a : 1 <= List.length (fmt_apart a).
Proof. destruct a; cbn [fmt_apart]; [apply fmt_item_len_pos | cbn; lia | cbn; lia]. Qed.

Lemma fmt_pat_len_pos p : 1 <= List.length (fmt_pat p).
Proof. destruct p; cbn [fmt_pat]; [apply fmt_item_len_pos | cbn; lia | cbn; lia | cbn; lia]. Qed.

Lemma papart_ok a rest : post0 rest = true -> papart (fmt_apart a ++ rest) = Some (a, rest).
Proof.
  intros Hp. destruct a as [i| |]; [|reflexivity|reflexivity].
  pose proof (pitem_ok i rest Hp) as H. cbn [fmt_apart] in *. unfold papart.
  destruct i as [|l k|x k]; [reflexivity| |].
  - destruct l; cbn [fmt_item fmt_lit app] in *; rewrite <- ?app_assoc in *; cbn [app] in *; rewrite H; reflexivity.
  - cbn [fmt_item app] in *. rewrite H. reflexivity.
Qed.

Lemma all_items_map l : all_items (map AI l) = Some l.
Proof. induction l as [|i l IH]; cbn; [reflexivity|]. rewrite IH. reflexivity. Qed.

Lemma assemble_parts pre tl : assemble (parts pre tl) = Some (pre, tl).
Proof.
  unfold parts. induction pre as [|i pre IH]; cbn [map app assemble].
  - destruct tl as [|suf|b]; cbn [assemble]; [reflexivity| rewrite all_items_map; reflexivity | reflexivity].
  - rewrite IH. reflexivity.
Qed.

Definition pat_ok (p : pat) : Prop := forall n rest,
  List.length (fmt_pat p) <= n -> post0 rest = true -> ppat n (fmt_pat p ++ rest) = Some (p, rest).

Lemma post0_sepclose r : hd_is sepclose r = true -> post0 r = true.
Proof. intros H. apply post_ok_post0. apply (sepclose_R r H). Qed.

Lemma pat_list_ok m x xs rest :
  Forall pat_ok (x :: xs) ->
  List.length (join [TSym Comma; TSp] (map fmt_pat (x :: xs))) <= m ->
  plist1 m sep_comma_sp (ppat m) (join [TSym Comma; TSp] (map fmt_pat (x :: xs)) ++ TSym RP :: rest)
  = Some (x :: xs, TSym RP :: rest).
Proof.
  intros IH Hm.
  apply (plist1_ok fmt_pat [TSym Comma; TSp] sep_comma_sp (ppat m) (fun r => post0 r = true)); try reflexivity.
  - pose proof (join_len_count [TSym Comma; TSp] fmt_pat (x :: xs) (fun y _ => fmt_pat_len_pos y)) as Hc.
    cbn [List.length] in Hc. lia.
  - intros y r Hin Hr. rewrite Forall_forall in IH.
    pose proof (join_len_in [TSym Comma; TSp] fmt_pat (x :: xs) y Hin). apply (IH _ Hin); [lia|exact Hr].
Qed.

Theorem pat_all_ok : forall p, wf_pat p = true -> pat_ok p.
Proof.
  induction p using pat_ind'; intros Hw n rest Hn Hp.
  - (* item *)
    pose proof (fmt_item_len_pos i). cbn [fmt_pat] in *. destruct n as [|n]; [lia|].
    pose proof (pitem_ok i rest Hp) as Hi. cbn [ppat]. rewrite Hi.
    destruct i as [|l k|x k]; [reflexivity| |reflexivity].
    destruct l; try reflexivity.
    cbn [fmt_item fmt_lit]. rewrite <- app_assoc. cbn [app].
    rewrite (proj1 (okind_follow k rest Hp)). reflexivity.
  - (* tuple *)
    cbn [wf_pat] in Hw. apply andb_prop in Hw as [Hlen Hw].
    destruct ps as [|x xs]; [discriminate|].
    cbn [fmt_pat] in *. cbn [List.length] in Hn. rewrite app_length in Hn. cbn [List.length] in Hn.
    destruct n as [|n]; [lia|]. cbn [app ppat]. rewrite <- app_assoc. cbn [app].
    rewrite pat_list_ok; [reflexivity| |lia].
    rewrite forallb_forall in Hw. rewrite Forall_forall in *. intros y Hy. apply (H _ Hy), Hw, Hy.
  - (* tuple-struct *)
    cbn [wf_pat] in Hw. apply andb_prop in Hw as [Hlen Hw].
    destruct ps as [|x xs]; [discriminate|].
    cbn [fmt_pat] in *. cbn [List.length] in Hn. rewrite app_length in Hn. cbn [List.length] in Hn.
    destruct n as [|n]; [lia|]. cbn [app ppat hd_is t_lp List.tl]. rewrite <- app_assoc. cbn [app].
    rewrite pat_list_ok; [reflexivity| |lia].
    rewrite forallb_forall in Hw. rewrite Forall_forall in *. intros y Hy. apply (H _ Hy), Hw, Hy.
  - (* array *)
    cbn [fmt_pat] in *. cbn [List.length] in Hn. rewrite app_length in Hn. cbn [List.length] in Hn.
    destruct n as [|n]; [lia|]. cbn [app ppat]. rewrite <- app_assoc. cbn [app].
    pose proof (assemble_parts pre tl) as Hasm.
    destruct (parts pre tl) as [|a0 l0] eqn:Hparts.
    + cbn [map join app].
      assert (pre = [] /\ tl = ANone) as [-> ->].
      { unfold parts in Hparts. destruct pre; [|discriminate]. destruct tl; try discriminate. split; reflexivity. }
      reflexivity.
    + rewrite (plist1_ok fmt_apart [TSp] sep_sp papart (fun r => post0 r = true)); try reflexivity.
      * rewrite Hasm. reflexivity.
      * pose proof (join_len_count [TSp] fmt_apart (a0 :: l0) (fun y _ => fmt_apart_len_pos y)) as Hc.
        cbn [List.length] in Hc. lia.
      * intros y r _ Hr. apply papart_ok, Hr.
Qed.

(* ------------------------------------------------------------------ right-hand sides *)
Lemma R_sym s r : (forall o, s <> SOp o) -> s <> LP -> s <> LB -> s <> Apos -> s <> Dot -> s <> DD -> s <> DDE -> R_exp (TSym s :: r).
Proof.
  intros H1 H2 H3 H4 H5 H6 H7. destruct s; try (repeat split; fail); try contradiction.
  exfalso. eapply H1. reflexivity.
Qed.

Lemma R_dot_nl r : R_exp (TSym Dot :: TNl :: r).
Proof. repeat split. Qed.

Lemma R_quest r : R_exp (TSym Quest :: r).
Proof. repeat split. Qed.

Lemma wfe_spec e : wfe e = true -> wf e = true /\ is_expr e = true.
Proof. unfold wfe. intros H. apply andb_prop in H. exact H. Qed.

Lemma pexpr_wfe e n r : wfe e = true -> List.length (f e) <= n -> R_exp r -> pexpr n (f e ++ r) = Some (e, r).
Proof. intros H. apply wfe_spec in H as [H1 H2]. apply pexpr_at; assumption. Qed.

Lemma pfac_tok_none n t r :
  match t with TSym Bar | TSym Quest | TSym FatArrow | TSym DArrow | TSym BrT | TSym BrL | TSym LArrow | TSym Ellip | TCom _ => True | _ => False end ->
  pfac n (t :: r) = None.
Proof.
  intros H. destruct n as [|n]; [reflexivity|].
  destruct t as [| | | | | |s|]; try contradiction; [|reflexivity]. destruct s; try contradiction; reflexivity.
Qed.

Lemma pexpr_bar n r : pexpr n (TSym Bar :: r) = None.
Proof. unfold pexpr. apply pexp_none, pfac_tok_none. exact I. Qed.

Lemma pexpr_lc_sp n r : pexpr n (TSym LC :: TSp :: r) = None.
Proof.
  unfold pexpr. apply pexp_none. destruct n as [|n]; [reflexivity|]. cbn [pfac pcore].
  rewrite (plist1_none n sep_comma_sp (pbind n (pfac n))) by (apply pbind_closer; reflexivity).
  rewrite (plist1_none n sep_comma_sp (pmapping n (pfac n))) by (apply pmapping_closer; reflexivity).
  rewrite plist1_none by (apply pexp_closer; reflexivity). reflexivity.
Qed.

Lemma pexpr_lb_sp n r : pexpr n (TSym LB :: TSp :: r) = None.
Proof.
  unfold pexpr. apply pexp_none. destruct n as [|n]; [reflexivity|]. cbn [pfac pcore].
  rewrite plist1_none by (apply plist1_none, pexp_closer; reflexivity). reflexivity.
Qed.

Lemma pfield_ok fk r : pfield (fmt_field fk ++ r) = Some (fk, r).
Proof. destruct fk as [nm k]. unfold fmt_field, pfield. cbn [fst snd app]. rewrite pkind_ok. reflexivity. Qed.

Lemma fmt_field_len fk : 1 <= List.length (fmt_field fk).
Proof. unfold fmt_field. cbn. lia. Qed.

Lemma sep_cell_ok e r : sep_cell ([TSp] ++ f e ++ r) = Some (f e ++ r).
Proof.
  destruct (fmt_head_st e r) as (t & tl & -> & Hst). cbn [app sep_cell].
  destruct t as [| | | | | |s|]; try discriminate; try reflexivity. destruct s; try discriminate; reflexivity.
Qed.

Definition cell_ok (c : ex) : bool := wfe c && negb (is_kvar c).

Lemma prow_ok n row r :
  row <> [] -> forallb cell_ok row = true -> List.length (fmt_row false row) <= n ->
  prow n (fmt_row false row ++ r) = Some (row, r).
Proof.
  intros Hne Hw Hn. destruct row as [|c cs]; [contradiction|].
  unfold fmt_row in *. cbn [List.length] in Hn. rewrite app_length in Hn. cbn [List.length] in Hn.
  cbn [app prow]. rewrite <- app_assoc. cbn [app].
  rewrite (plist1_ok_g f [TSp] sep_cell (pexpr n) R_exp).
  - reflexivity.
  - intros y r0 _. apply sep_cell_ok.
  - pose proof (join_len_count [TSp] f (c :: cs) (fun y _ => fmt_len_pos y)) as Hc. cbn [List.length] in Hc. lia.
  - intros y r0 Hin Hr. rewrite forallb_forall in Hw. specialize (Hw _ Hin). unfold cell_ok in Hw.
    apply andb_prop in Hw as [Hw _]. pose proof (join_len_in [TSp] f (c :: cs) y Hin).
    apply pexpr_wfe; [exact Hw | lia | exact Hr].
  - intros y r0 _. apply R_after_sp.
  - repeat split.
  - exact I.
Qed.

Lemma fmt_row_len row : 1 <= List.length (fmt_row false row).
Proof. unfold fmt_row. cbn. lia. Qed.

Definition marm_ok (a : bool * pat * option ex * ex) : bool :=
  let '(_, p, g, e) := a in wf_pat p && match g with Some g => wfe g | None => true end && wfe e.

Lemma pbr_ok b r : pbr (br b :: r) = Some (b, r).
Proof. destruct b; reflexivity. Qed.

Lemma pmarm_ok n a r :
  marm_ok a = true -> List.length (fmt_marm false a) <= n -> R_exp r ->
  pmarm n (fmt_marm false a ++ r) = Some (a, r).
Proof.
  destruct a as [[[last p] g] e]. unfold marm_ok, fmt_marm. intros Hw Hn Hr.
  apply andb_prop in Hw as [Hw He]. apply andb_prop in Hw as [Hp Hg].
  cbn [List.length] in Hn. rewrite !app_length in Hn. cbn [List.length] in Hn.
  cbn [app]. unfold pmarm. rewrite pbr_ok. rewrite <- !app_assoc.
  destruct g as [g|].
  - cbn [app]. rewrite ?app_length in Hn. cbn [List.length] in Hn.
    rewrite (pat_all_ok p Hp n) by (try lia; reflexivity).
    rewrite <- ?app_assoc. cbn [app].
    rewrite (pexpr_wfe g n) by (try assumption; try lia; apply R_stmt_op; discriminate).
    rewrite (pexpr_wfe e n) by (try assumption; lia). reflexivity.
  - cbn [app]. rewrite (pat_all_ok p Hp n) by (try lia; reflexivity).
    rewrite (pexpr_wfe e n) by (try assumption; lia). reflexivity.
Qed.

Lemma fmt_marm_len a : 1 <= List.length (fmt_marm false a).
Proof. destruct a as [[[last p] g] e]. unfold fmt_marm. cbn. lia. Qed.

Definition farm_ok (a : bool * pat * ex) : bool := wf_pat (snd (fst a)) && wfe (snd a).

Lemma pfarm_ok n a r :
  farm_ok a = true -> List.length (fmt_farm false a) <= n -> R_exp r ->
  pfarm n (fmt_farm false a ++ r) = Some (a, r).
Proof.
  destruct a as [[last p] e]. unfold farm_ok, fmt_farm. cbn [fst snd]. intros Hw Hn Hr.
  apply andb_prop in Hw as [Hp He].
  cbn [List.length] in Hn. rewrite !app_length in Hn. cbn [List.length] in Hn.
  cbn [app]. unfold pfarm. rewrite pbr_ok. rewrite <- !app_assoc. cbn [app].
  rewrite (pat_all_ok p Hp n) by (try lia; reflexivity).
  rewrite (pexpr_wfe e n) by (try assumption; lia). reflexivity.
Qed.

Lemma fmt_farm_len a : 1 <= List.length (fmt_farm false a).
Proof. destruct a as [[last p] e]. unfold fmt_farm. cbn. lia. Qed.

Lemma R_sp_sym s r : (forall o, s <> SOp o) -> R_exp (TSp :: TSym s :: r).
Proof. apply R_stmt_op. Qed.

Lemma pqual_ok n q r :
  wf_qual q = true -> List.length (fmt_qual false q) <= n -> R_exp r ->
  pqual n (fmt_qual false q ++ r) = Some (q, r).
Proof.
  intros Hw Hn Hr. destruct q as [p e|x k e|e]; cbn [wf_qual fmt_qual] in *.
  - apply andb_prop in Hw as [Hp He]. rewrite app_length in Hn. cbn [List.length] in Hn.
    unfold pqual. rewrite <- app_assoc. cbn [app].
    rewrite (pat_all_ok p Hp n) by (try lia; reflexivity).
    rewrite (pexpr_wfe e n) by (try assumption; lia). reflexivity.
  - cbn [List.length] in Hn. rewrite app_length in Hn. cbn [List.length] in Hn.
    unfold pqual.
    cbn [app]. rewrite <- app_assoc. cbn [app].
    change (TId x :: fmt_okind k ++ TSp :: TSym Define :: TSp :: f e ++ r)
      with (fmt_pat (PItem (IVar x k)) ++ TSp :: TSym Define :: TSp :: f e ++ r).
    rewrite (pat_all_ok (PItem (IVar x k)) eq_refl n) by (try reflexivity; cbn [fmt_pat fmt_item List.length]; lia).
    change (fmt_pat (PItem (IVar x k))) with (f (EVar x k)).
    rewrite (pexpr_at (EVar x k) n) by (try reflexivity; try (cbn [fmt List.length]; lia); apply R_stmt_op; discriminate).
    rewrite (pexpr_wfe e n) by (try assumption; lia). reflexivity.
  - apply andb_prop in Hw as [He Hf].
    destruct e as [ | | | | | |l rr| | | | | | | | | | | | ]; try discriminate Hf. destruct l as [ |x k| | | | | | | | | | | | | | | | | ]; try discriminate Hf.
    pose proof He as He'. apply wfe_spec in He' as [Hwf _]. cbn [wf] in Hwf.
    destruct rr as [|[o y] rr]; [discriminate Hwf|].
    unfold pqual.
    assert (Hpp : ppat n (f (ETerm (EVar x k) ((o, y) :: rr)) ++ r) =
                  Some (PItem (IVar x k), TSp :: TSym (SOp o) :: TSp :: f y ++ flat_map (fun p => TSp :: TSym (opsym false (fst p)) :: TSp :: f (snd p)) rr ++ r)).
    { cbn [fmt flat_map fst snd opsym]. rewrite <- ?app_assoc. cbn [app]. rewrite <- ?app_assoc.
      change (TId x :: fmt_okind k ++ TSp :: TSym (SOp o) :: TSp :: f y ++ flat_map (fun p => TSp :: TSym (SOp (fst p)) :: TSp :: f (snd p)) rr ++ r)
        with (fmt_pat (PItem (IVar x k)) ++ TSp :: TSym (SOp o) :: TSp :: f y ++ flat_map (fun p => TSp :: TSym (SOp (fst p)) :: TSp :: f (snd p)) rr ++ r).
      apply (pat_all_ok (PItem (IVar x k)) eq_refl); [|reflexivity].
      cbn [fmt flat_map fst snd] in Hn. cbn [fmt_pat fmt_item List.length] in *. rewrite !app_length in Hn. cbn [List.length] in Hn. lia. }
    rewrite Hpp. rewrite (pexpr_wfe _ n) by assumption. reflexivity.
Qed.

Lemma fmt_qual_len q : 1 <= List.length (fmt_qual false q).
Proof.
  destruct q as [p e|x k e|e]; cbn [fmt_qual].
  - rewrite app_length. pose proof (fmt_pat_len_pos p). lia.
  - cbn. lia.
  - apply fmt_len_pos.
Qed.

Lemma last_flags_ne {A} (g : A -> bool) (l : list A) : last_flags (map g l) = true -> l <> [].
Proof. destruct l; [discriminate|discriminate]. Qed.

Lemma prhs_ok r n rest :
  wf_rhs r = true -> List.length (fmt_rhs false r) <= n ->
  prhs n (fmt_rhs false r ++ TNl :: rest) = Some (r, TNl :: rest).
Proof.
  intros Hw Hn. destruct r as [e|fs rows|src arms|mat e qs]; cbn [wf_rhs fmt_rhs] in *.
  - (* expression *)
    apply andb_prop in Hw as [Hwe Hee]. unfold prhs.
    rewrite (pexpr_at e n) by (try assumption; apply R_nl). reflexivity.
  - (* table *)
    apply andb_prop in Hw as [Hw Hrows]. apply andb_prop in Hw as [Hfs Hrs].
    destruct fs as [|f0 fs']; [discriminate|]. destruct rows as [|row0 rows']; [discriminate|].
    cbn [List.length] in Hn. rewrite !app_length in Hn. cbn [List.length] in Hn.
    unfold prhs. cbn [app]. rewrite pexpr_bar. unfold ptable. rewrite <- ?app_assoc. cbn [app].
    rewrite (plist1_ok fmt_field [TSp] sep_sp pfield (fun _ => True)); try reflexivity; auto.
    + rewrite (flat_map_join_nil (fmt_row false) (row0 :: rows')). rewrite <- ?app_assoc.
      rewrite (plist1_ok (fmt_row false) [] sep_none (prow n) (fun _ => True)); try reflexivity; auto.
      * pose proof (length_flat_map_ge (fmt_row false) (row0 :: rows') fmt_row_len). cbn [List.length] in *. lia.
      * intros row r Hin _. rewrite forallb_forall in Hrows. specialize (Hrows _ Hin).
        apply andb_prop in Hrows as [Hne Hcells].
        pose proof (flat_len_in (fmt_row false) (row0 :: rows') row Hin).
        apply prow_ok; [destruct row; [discriminate|discriminate] | exact Hcells | lia].
    + pose proof (join_len_count [TSp] fmt_field (f0 :: fs') (fun y _ => fmt_field_len y)) as Hc. cbn [List.length] in Hc. lia.
    + intros fk r _ _. apply pfield_ok.
  - (* match *)
    apply andb_prop in Hw as [Hw Harms]. apply andb_prop in Hw as [Hw Hflags]. apply andb_prop in Hw as [Hws Hfs].
    pose proof (last_flags_ne _ _ Hflags) as Hne. destruct arms as [|a0 arms']; [contradiction|].
    rewrite !app_length in Hn. cbn [List.length] in Hn. rewrite !app_length in Hn. cbn [List.length] in Hn.
    unfold prhs. rewrite <- ?app_assoc. cbn [app].
    assert (Hes : is_expr src = true) by (unfold is_expr, is_formula; rewrite Hfs; reflexivity).
    rewrite (pexpr_at src n _ Hws Hes) by (try lia; apply R_quest).
    rewrite <- ?app_assoc. cbn [app].
    rewrite (plist1_ok (fmt_marm false) [TNl] sep_nl (pmarm n) R_exp); try reflexivity.
    + pose proof (join_len_count [TNl] (fmt_marm false) (a0 :: arms') (fun y _ => fmt_marm_len y)) as Hc. cbn [List.length] in Hc. lia.
    + intros a r Hin Hr. rewrite forallb_forall in Harms. specialize (Harms _ Hin).
      pose proof (join_len_in [TNl] (fmt_marm false) (a0 :: arms') a Hin).
      apply pmarm_ok; [exact Harms | lia | exact Hr].
    + intros; apply R_nl.
    + apply R_dot_nl.
  - (* comprehension *)
    apply andb_prop in Hw as [Hw Hqs]. apply andb_prop in Hw as [He Hlen].
    destruct qs as [|q0 qs']; [discriminate|].
    cbn [List.length] in Hn. rewrite !app_length in Hn. cbn [List.length] in Hn. rewrite !app_length in Hn. cbn [List.length] in Hn.
    unfold prhs. cbn [app].
    assert (Hnone : pexpr n (TSym (if mat then LB else LC) :: TSp :: (f e ++ TSp :: TSym Bar :: TSp ::
               join [TSym Comma; TSp] (map (fmt_qual false) (q0 :: qs')) ++ [TSp; TSym (if mat then RB else RC)]) ++ TNl :: rest) = None).
    { destruct mat; [apply pexpr_lb_sp | apply pexpr_lc_sp]. }
    rewrite Hnone.
    assert (Hc : pcompr n mat ((f e ++ TSp :: TSym Bar :: TSp ::
               join [TSym Comma; TSp] (map (fmt_qual false) (q0 :: qs')) ++ [TSp; TSym (if mat then RB else RC)]) ++ TNl :: rest)
               = Some (RCompr mat e (q0 :: qs'), TNl :: rest)).
    { unfold pcompr. rewrite <- ?app_assoc. cbn [app].
      rewrite (pexpr_wfe e n) by (try assumption; try lia; apply R_stmt_op; discriminate).
      rewrite <- ?app_assoc. cbn [app].
      rewrite (plist1_ok (fmt_qual false) [TSym Comma; TSp] sep_comma_sp (pqual n) R_exp); try reflexivity.
      - destruct mat; reflexivity.
      - pose proof (join_len_count [TSym Comma; TSp] (fmt_qual false) (q0 :: qs') (fun y _ => fmt_qual_len y)) as Hc. cbn [List.length] in Hc. lia.
      - intros q r Hin Hr. rewrite forallb_forall in Hqs. specialize (Hqs _ Hin).
        pose proof (join_len_in [TSym Comma; TSp] (fmt_qual false) (q0 :: qs') q Hin).
        apply pqual_ok; [exact Hqs | lia | exact Hr].
      - intros; apply sepclose_R; reflexivity.
      - destruct mat; apply R_stmt_op; discriminate. }
    destruct mat; exact Hc.
Qed.

Lemma pstmt_disp n t tl :
  match t with TCom _ | TSym (SOp OLt) => False | _ => True end -> pstmt n (t :: tl) = pstmt_main n (t :: tl).
Proof.
  intros H. unfold pstmt. destruct t as [| | | | | |s|]; try reflexivity; try contradiction.
  destruct s; try reflexivity. destruct o; try reflexivity. contradiction.
Qed.

Lemma main_default n ts :
  match ts with TSym Tilde :: _ => False | _ => True end ->
  (forall e r, pexpr n ts <> Some (e, TSp :: r)) ->
  pstmt_main n ts = match prhs n ts with Some (v, r) => Some (SExpr v, r) | None => None end.
Proof.
  intros Ht Hx. unfold pstmt_main.
  assert ((match ts with TSym Tilde :: r => (true, r) | _ => (false, ts) end) = (false, ts)) as ->.
  { destruct ts as [|[| | | | | |[]|] tl]; try reflexivity; contradiction. }
  destruct (pexpr n ts) as [[e [|t r]]|] eqn:E; try reflexivity.
  destruct t; try reflexivity. exfalso. exact (Hx _ _ eq_refl).
Qed.

Definition st2 (t : tok) : bool := starter t || match t with TSym Bar => true | _ => false end.

Lemma rhs_head r rest : exists t tl, fmt_rhs false r ++ rest = t :: tl /\ st2 t = true.
Proof.
  destruct r as [e|fs rows|src arms|mat e qs]; cbn [fmt_rhs].
  - destruct (fmt_head_st e rest) as (t & tl & H & Hs). exists t, tl. split; [exact H|]. unfold st2. rewrite Hs. reflexivity.
  - eexists _, _. split; reflexivity.
  - rewrite <- app_assoc. destruct (fmt_head_st src (TSym Quest :: TNl :: TNl :: join [TNl] (map (fmt_marm false) arms) ++ [TSym Dot; TNl] ++ rest)) as (t & tl & H & Hs).
    exists t, tl. split; [|unfold st2; rewrite Hs; reflexivity]. rewrite <- H. cbn [app]. rewrite <- app_assoc. reflexivity.
  - destruct mat; eexists _, _; split; reflexivity.
Qed.

Lemma rhs_follow r n rest :
  wf_rhs r = true -> List.length (fmt_rhs false r) <= n ->
  forall e r0, pexpr n (fmt_rhs false r ++ TNl :: rest) <> Some (e, TSp :: r0).
Proof.
  intros Hw Hn e0 r0. destruct r as [e|fs rows|src arms|mat e qs]; cbn [wf_rhs fmt_rhs] in *.
  - apply andb_prop in Hw as [Hwe Hee]. rewrite (pexpr_at e n) by (try assumption; apply R_nl). discriminate.
  - cbn [app]. rewrite pexpr_bar. discriminate.
  - apply andb_prop in Hw as [Hw Harms]. apply andb_prop in Hw as [Hw Hflags]. apply andb_prop in Hw as [Hws Hfs].
    rewrite !app_length in Hn. cbn [List.length] in Hn.
    assert (Hes : is_expr src = true) by (unfold is_expr, is_formula; rewrite Hfs; reflexivity).
    rewrite <- ?app_assoc. cbn [app].
    rewrite (pexpr_at src n _ Hws Hes) by (try lia; apply R_quest). discriminate.
  - cbn [app]. destruct mat; [rewrite pexpr_lb_sp | rewrite pexpr_lc_sp]; discriminate.
Qed.

Lemma cvt_args_ok args : cvt_args (map arg_ex args) = Some args.
Proof. induction args as [|[x k] args IH]; cbn; [reflexivity|]. rewrite IH. reflexivity. Qed.

Lemma wf_header fn args : wf (ECall fn (map arg_ex args)) = true.
Proof. cbn [wf]. induction args as [|[x k] args IH]; cbn; [reflexivity|exact IH]. Qed.

Lemma pvariant_ok v r : post0 r = true -> pvariant (fmt_variant v ++ r) = Some (v, r).
Proof.
  intros Hp. destruct v as [a k]. unfold fmt_variant, pvariant. cbn [fst snd app]. rewrite optkind_ok by auto. reflexivity.
Qed.

Lemma fmt_variant_len v : 1 <= List.length (fmt_variant v).
Proof. unfold fmt_variant. cbn. lia. Qed.

Lemma pstmt_ok s n rest :
  wf_stmt s = true -> List.length (fmt_stmt false s) <= n ->
  pstmt n (fmt_stmt false s ++ TNl :: rest) = Some (s, TNl :: rest).
Proof.
  intros Hw Hn. destruct s as [mu x k e|x subs e|x subs a e|e|c|nm vs|fn args out arms]; cbn [wf_stmt fmt_stmt] in *.
  - (* define *)
    assert (Hlen : List.length (f (EVar x k)) + 3 + List.length (fmt_rhs false e) <= n).
    { destruct mu; cbn [app List.length fmt] in *; rewrite app_length in Hn; cbn [List.length] in Hn; lia. }
    destruct mu; cbn [app].
    + rewrite pstmt_disp by exact I. unfold pstmt_main. rewrite <- app_assoc. cbn [app].
      change (TId x :: fmt_okind k ++ TSp :: TSym Define :: TSp :: fmt_rhs false e ++ TNl :: rest)
        with (f (EVar x k) ++ TSp :: TSym Define :: TSp :: fmt_rhs false e ++ TNl :: rest).
      rewrite (pexpr_at (EVar x k) n) by (try reflexivity; try lia; apply R_stmt_op; discriminate).
      rewrite (prhs_ok e n) by (try assumption; lia). reflexivity.
    + rewrite pstmt_disp by exact I. unfold pstmt_main. rewrite <- app_assoc. cbn [app].
      change (TId x :: fmt_okind k ++ TSp :: TSym Define :: TSp :: fmt_rhs false e ++ TNl :: rest)
        with (f (EVar x k) ++ TSp :: TSym Define :: TSp :: fmt_rhs false e ++ TNl :: rest).
      rewrite (pexpr_at (EVar x k) n) by (try reflexivity; try lia; apply R_stmt_op; discriminate).
      rewrite (prhs_ok e n) by (try assumption; lia). reflexivity.
  - (* assign *)
    apply andb_prop in Hw as [Hwt Hwe].
    cbn [List.length] in Hn. rewrite app_length in Hn. cbn [List.length] in Hn.
    cbn [app]. rewrite pstmt_disp by exact I. unfold pstmt_main. rewrite <- app_assoc. cbn [app].
    rewrite (target_ok x subs n) by (first [assumption | cbn [List.length]; lia | apply R_stmt_op; discriminate]).
    destruct subs as [|s0 ss]; rewrite (prhs_ok e n) by (try assumption; lia); reflexivity.
  - (* op-assign *)
    apply andb_prop in Hw as [Hwt Hwe].
    cbn [List.length] in Hn. rewrite app_length in Hn. cbn [List.length] in Hn.
    cbn [app]. rewrite pstmt_disp by exact I. unfold pstmt_main. rewrite <- app_assoc. cbn [app].
    rewrite (target_ok x subs n) by (first [assumption | cbn [List.length]; lia | apply R_stmt_op; discriminate]).
    destruct subs as [|s0 ss]; rewrite (prhs_ok e n) by (try assumption; lia); reflexivity.
  - (* expression / table / match / comprehension statement *)
    destruct (rhs_head e (TNl :: rest)) as (t & tl & Heq & Hst).
    pose proof (rhs_follow e n rest Hw Hn) as Hfol. pose proof (prhs_ok e n rest Hw Hn) as Hrhs.
    rewrite Heq in *.
    rewrite pstmt_disp.
    + rewrite main_default; [rewrite Hrhs; reflexivity | | exact Hfol].
      destruct t as [| | | | | |[]|]; try exact I; discriminate Hst.
    + destruct t as [| | | | | |[]|]; try exact I; try discriminate Hst. destruct o; try exact I; discriminate Hst.
  - (* comment *) reflexivity.
  - (* enum *)
    destruct vs as [|v0 vs']; [discriminate|].
    cbn [List.length] in Hn. rewrite ?app_length in Hn.
    cbn [app pstmt].
    rewrite (plist1_ok fmt_variant [TSp; TSym Bar; TSp] sep_bar pvariant (fun r => post0 r = true)); try reflexivity.
    + pose proof (join_len_count [TSp; TSym Bar; TSp] fmt_variant (v0 :: vs') (fun y _ => fmt_variant_len y)) as Hc.
      cbn [List.length] in Hc. lia.
    + intros v r _ Hr. apply pvariant_ok, Hr.
  - (* function definition with arms *)
    apply andb_prop in Hw as [Hflags Harms].
    pose proof (last_flags_ne _ _ Hflags) as Hne. destruct arms as [|a0 arms']; [contradiction|].
    rewrite !app_length in Hn. cbn [List.length] in Hn. rewrite !app_length in Hn. cbn [List.length] in Hn.
    repeat (progress (try rewrite <- !app_assoc; cbn [app])).
    destruct (fmt_head_st (ECall fn (map arg_ex args))
                (TSp :: TSym FatArrow :: TSp :: fmt_kind out ++ TNl :: join [TNl] (map (fmt_farm false) (a0 :: arms')) ++ [TSym Dot] ++ TNl :: rest))
      as (t & tl & Heq & Hst).
    cbn [app] in Heq. rewrite Heq. rewrite pstmt_disp by (destruct t as [| | | | | |[]|]; try exact I; try discriminate Hst; destruct o; try exact I; discriminate Hst).
    unfold pstmt_main. rewrite (no_tilde _ t tl eq_refl Hst). rewrite <- Heq.
    assert (Hl1 : List.length (f (ECall fn (map arg_ex args))) <= n) by lia.
    rewrite (pexpr_at (ECall fn (map arg_ex args)) n _ (wf_header fn args) eq_refl Hl1) by (apply R_stmt_op; discriminate).
    rewrite cvt_args_ok, pkind_ok.
    rewrite (plist1_ok (fmt_farm false) [TNl] sep_nl (pfarm n) R_exp); try reflexivity.
    + rewrite ?app_length in Hn. pose proof (join_len_count [TNl] (fmt_farm false) (a0 :: arms') (fun y _ => fmt_farm_len y)) as Hc. cbn [List.length] in Hc. lia.
    + intros a r Hin Hr. rewrite forallb_forall in Harms. specialize (Harms _ Hin).
      pose proof (join_len_in [TNl] (fmt_farm false) (a0 :: arms') a Hin).
      rewrite ?app_length in Hn. apply pfarm_ok; [exact Harms | lia | exact Hr].
    + intros; apply R_nl.
    + apply R_dot_nl.
Qed.

Theorem fmt_parse_thm p : wf_prog p = true -> parse_tok (fmt_prog false p) = Some p.
Proof.
  intros Hw. unfold parse_tok, fmt_prog.
  set (g := fun s => fmt_stmt false s ++ [TNl]). set (n := List.length (flat_map g p)).
  assert (H : psep n sep_none (pline n) (flat_map g p ++ []) = (p, [])).
  { apply (psep_ok g [] sep_none (pline n) (fun _ => True)); auto.
    - unfold n. apply length_flat_map_ge. intros s. unfold g. rewrite app_length. cbn. lia.
    - intros s r Hin _. unfold g, pline. rewrite <- ?app_assoc. cbn [app].
      unfold wf_prog in Hw. rewrite forallb_forall in Hw.
      rewrite pstmt_ok; [reflexivity | apply Hw, Hin |].
      pose proof (flat_len_in g p s Hin) as Hl. unfold g at 1 in Hl. rewrite app_length in Hl. fold n in Hl. lia.
    - unfold sep_none, pline, pstmt, pstmt_main, prhs, pexpr. cbn [app]. rewrite !pexp_none by apply pfac_nil. reflexivity. }
  rewrite app_nil_r in H. rewrite H. reflexivity.
Qed.

Theorem fmt_idempotent_thm p p' :
  wf_prog p = true -> parse_tok (fmt_prog false p) = Some p' -> fmt_prog false p' = fmt_prog false p.
Proof. intros Hw H. rewrite fmt_parse_thm in H by exact Hw. injection H as <-. reflexivity. Qed.

(* the row structure of a matrix literal survives printing and re-reading *)
Theorem matrix_rows_preserved_thm rows rows' :
  wf (EMat rows) = true ->
  parse_tok (fmt_prog false [SExpr (EMat rows)]) = Some [SExpr (EMat rows')] ->
  map (@List.length ex) rows' = map (@List.length ex) rows /\ rows' = rows.
Proof.
  intros Hw H. rewrite fmt_parse_thm in H.
  - injection H as <-. split; reflexivity.
  - cbn [wf_prog forallb wf_stmt wf_rhs is_expr is_formula is_fac]. rewrite Hw. reflexivity.
Qed.

Theorem table_rows_preserved_thm mu x k fs rows s' :
  wf_rhs (RTable fs rows) = true ->
  parse_tok (fmt_prog false [SDefine mu x k (RTable fs rows)]) = Some [s'] ->
  s' = SDefine mu x k (RTable fs rows).
Proof.
  intros Hw H. rewrite fmt_parse_thm in H.
  - injection H as <-. reflexivity.
  - cbn [wf_prog forallb wf_stmt]. rewrite Hw. reflexivity.
Qed.

(* ------------------------------------------------------------------ formatter.rs agrees with the canonical printer outside the defect classes *)
Lemma nth_seq_id {A} (pan : A) (l : list A) :
  flat_map (fun c => [nth c l pan]) (seq 0 (List.length l)) = l.
Proof.
  induction l as [|a l IH]; [reflexivity|].
  cbn [List.length seq flat_map nth app]. f_equal.
  rewrite <- seq_shift, flat_map_map. cbn [nth]. exact IH.
Qed.

Lemma col_major_single {A} (pan : A) (l : list A) : col_major pan [l] = l.
Proof. unfold col_major. cbn [map]. apply nth_seq_id. Qed.

Lemma map_ext_Forall {A B} (g h : A -> B) (l : list A) : Forall (fun x => g x = h x) l -> map g l = map h l.
Proof. induction 1; cbn; congruence. Qed.

Lemma flat_map_ext_Forall {A B} (g h : A -> list B) (l : list A) :
  Forall (fun x => g x = h x) l -> flat_map g l = flat_map h l.
Proof. induction 1; cbn; congruence. Qed.

Lemma existsb_false_Forall {A} (P : A -> bool) (l : list A) : existsb P l = false -> Forall (fun x => P x = false) l.
Proof.
  induction l as [|x l IH]; cbn; intros H; constructor; apply orb_false_iff in H; tauto.
Qed.

Lemma Forall_impl2 {A} (P Q R : A -> Prop) (l : list A) :
  (forall x, P x -> Q x -> R x) -> Forall P l -> Forall Q l -> Forall R l.
Proof. intros H HP. induction HP; intros HQ; inversion HQ; subst; constructor; auto. Qed.

Lemma opsym_clean o : c_any (ETerm EAll [(o, EAll)]) = false -> opsym true o = SOp o.
Proof. destruct o; cbn; intros H; try reflexivity; discriminate. Qed.

Lemma c_any_term_ops l r : c_any (ETerm l r) = false -> Forall (fun p => opsym true (fst p) = SOp (fst p)) r.
Proof.
  intros H. induction r as [|[o x] r IH]; constructor.
  - cbn [fst]. apply opsym_clean. unfold c_any, model_classes in *. cbn in *.
    destruct o; try reflexivity; cbn in H; try discriminate;
      repeat (rewrite ?orb_true_r, ?orb_true_l in H; cbn in H); discriminate.
  - apply IH. unfold c_any, model_classes in *. cbn in *.
    repeat (apply orb_false_iff in H as [? H] || apply orb_false_iff in H as [H ?]).
    repeat (match goal with Hx : _ || _ = false |- _ => apply orb_false_iff in Hx as [? ?] end).
    repeat (apply orb_false_iff; split); auto.
Qed.

Lemma fmt_agree : forall e, exists_ex c_any e = false -> fmt true e = fmt false e.
Proof.
  induction e using ex_ind'; intros Hc; cbn [exists_ex] in Hc; try reflexivity.
  - (* paren *) apply orb_false_iff in Hc as [_ Hc]. cbn [fmt]. rewrite IHe by exact Hc. reflexivity.
  - apply orb_false_iff in Hc as [_ Hc]. cbn [fmt]. rewrite IHe by exact Hc. reflexivity.
  - apply orb_false_iff in Hc as [_ Hc]. cbn [fmt]. rewrite IHe by exact Hc. reflexivity.
  - apply orb_false_iff in Hc as [_ Hc]. cbn [fmt]. rewrite IHe by exact Hc. reflexivity.
  - (* term *) apply orb_false_iff in Hc as [Hany Hc]. apply orb_false_iff in Hc as [Hl Hr].
    cbn [fmt]. rewrite IHe by exact Hl. f_equal.
    apply flat_map_ext_Forall.
    pose proof (c_any_term_ops _ _ Hany) as Hops. apply existsb_false_Forall in Hr.
    rewrite Forall_forall in *. intros p Hin. rewrite (Hops _ Hin), (H _ Hin (Hr _ Hin)). reflexivity.
  - (* mat *) apply orb_false_iff in Hc as [Hany Hc].
    destruct rows as [|r1 [|r2 rs]]; [reflexivity| |discriminate Hany].
    cbn [fmt map]. rewrite col_major_single. cbn [join].
    cbn [existsb] in Hc. rewrite orb_false_r in Hc. apply existsb_false_Forall in Hc.
    inversion H as [|? ? H1 _]; subst.
    rewrite (map_ext_Forall (fmt true) f r1); [reflexivity|].
    rewrite Forall_forall in *. intros x Hin. apply (H1 _ Hin), (Hc _ Hin).
  - (* set *) apply orb_false_iff in Hc as [_ Hc]. apply existsb_false_Forall in Hc.
    cbn [fmt]. rewrite (map_ext_Forall (fmt true) f es); [reflexivity|].
    rewrite Forall_forall in *. intros x Hin. apply (H _ Hin), (Hc _ Hin).
  - (* tup *) apply orb_false_iff in Hc as [_ Hc]. apply existsb_false_Forall in Hc.
    cbn [fmt]. rewrite (map_ext_Forall (fmt true) f es); [reflexivity|].
    rewrite Forall_forall in *. intros x Hin. apply (H _ Hin), (Hc _ Hin).
  - (* rec *) apply orb_false_iff in Hc as [_ Hc]. apply existsb_false_Forall in Hc.
    cbn [fmt]. f_equal. f_equal. f_equal. apply map_ext_Forall.
    rewrite Forall_forall in *. intros b Hin. rewrite (H _ Hin (Hc _ Hin)). reflexivity.
  - (* map *) apply orb_false_iff in Hc as [_ Hc]. apply existsb_false_Forall in Hc.
    cbn [fmt]. destruct ms as [|m0 ms']; [reflexivity|]. f_equal. f_equal. f_equal. apply map_ext_Forall.
    rewrite Forall_forall in *. intros mp Hin. specialize (Hc _ Hin). apply orb_false_iff in Hc as [Hk Hv].
    destruct (H _ Hin) as [H1 H2]. rewrite (H1 Hk), (H2 Hv). reflexivity.
  - (* tuple-struct *) apply orb_false_iff in Hc as [_ Hc]. cbn [fmt]. rewrite IHe by exact Hc. reflexivity.
  - (* call *) apply orb_false_iff in Hc as [Hany Hc]. apply existsb_false_Forall in Hc.
    assert (Hn : Forall (fun a => fst a = None) args).
    { unfold c_any, model_classes in Hany. cbn in Hany. rewrite orb_false_r in Hany.
      apply existsb_false_Forall in Hany. eapply Forall_impl; [|exact Hany].
      intros [[nm|] v]; cbn; [discriminate|reflexivity]. }
    cbn [fmt]. f_equal. f_equal. f_equal. f_equal. apply map_ext_Forall.
    rewrite Forall_forall in *. intros a Hin. rewrite (Hn _ Hin). apply (H _ Hin), (Hc _ Hin).
  - (* slice *) apply orb_false_iff in Hc as [_ Hc]. apply existsb_false_Forall in Hc.
    cbn [fmt]. f_equal. apply flat_map_ext_Forall.
    rewrite Forall_forall in *. intros x0 Hin. apply (H _ Hin), (Hc _ Hin).
  - (* brk *) apply orb_false_iff in Hc as [_ Hc]. apply existsb_false_Forall in Hc.
    cbn [fmt]. rewrite (map_ext_Forall (fmt true) f ixs); [reflexivity|].
    rewrite Forall_forall in *. intros x Hin. apply (H _ Hin), (Hc _ Hin).
  - (* range *) apply orb_false_iff in Hc as [Hany Hc]. apply orb_false_iff in Hc as [Hc Hi]. apply orb_false_iff in Hc as [Ha Hb].
    destruct inc as [[i1 s]|]; [discriminate Hany|].
    cbn [fmt]. rewrite IHe1, IHe2 by assumption. reflexivity.
Qed.

Lemma fmt_subs_agree subs : existsb (exists_ex c_any) subs = false -> fmt_subs true subs = fmt_subs false subs.
Proof.
  intros H. apply existsb_false_Forall in H. unfold fmt_subs. apply flat_map_ext_Forall.
  eapply Forall_impl; [|exact H]. intros x Hx. apply fmt_agree, Hx.
Qed.

Lemma Forall_concat_in {A} (P : A -> Prop) (ls : list (list A)) l : Forall P (List.concat ls) -> In l ls -> Forall P l.
Proof.
  induction ls as [|x ls IH]; intros H Hin; [contradiction|]. cbn [List.concat] in H. apply Forall_app in H as [H1 H2].
  destruct Hin as [->|Hin]; [exact H1|apply IH; assumption].
Qed.

Definition clean (e : ex) : Prop := exists_ex c_any e = false.

Lemma fmt_header_agree fn args : fmt true (ECall fn (map arg_ex args)) = fmt false (ECall fn (map arg_ex args)).
Proof.
  cbn [fmt]. f_equal. f_equal. f_equal. f_equal. rewrite !map_map. apply map_ext. intros [x k]. reflexivity.
Qed.

Lemma fmt_rhs_agree r : Forall clean (rhs_exprs r) -> fmt_rhs true r = fmt_rhs false r.
Proof.
  intros H. destruct r as [e|fs rows|src arms|mat e qs]; cbn [rhs_exprs fmt_rhs] in *.
  - inversion H; subst. apply fmt_agree. assumption.
  - f_equal. f_equal. f_equal. f_equal. f_equal. apply flat_map_ext_Forall. rewrite Forall_forall. intros row Hin.
    unfold fmt_row. f_equal. f_equal. f_equal. apply map_ext_Forall.
    pose proof (Forall_concat_in _ _ _ H Hin) as Hr. eapply Forall_impl; [|exact Hr]. intros c Hc. apply fmt_agree, Hc.
  - inversion H as [|? ? Hs Ha]; subst. rewrite (fmt_agree src Hs). f_equal. f_equal. f_equal. f_equal. f_equal. f_equal.
    apply map_ext_Forall. rewrite Forall_forall. intros a Hin.
    assert (Hall : Forall clean (marm_exprs a)).
    { rewrite Forall_forall in *. intros x Hx. apply Ha. apply in_flat_map. exists a. split; assumption. }
    destruct a as [[[last p] g] e]. unfold marm_exprs in Hall. cbn [fst snd] in Hall. unfold fmt_marm.
    destruct g as [g|].
    + inversion Hall as [|? ? Hg Hall']; subst. inversion Hall' as [|? ? He _]; subst.
      rewrite (fmt_agree g Hg), (fmt_agree e He). reflexivity.
    + inversion Hall as [|? ? He _]; subst. rewrite (fmt_agree e He). reflexivity.
  - inversion H as [|? ? He Hq]; subst. rewrite (fmt_agree e He).
    assert (map (fmt_qual true) qs = map (fmt_qual false) qs) as ->; [|reflexivity].
    apply map_ext_Forall. rewrite Forall_forall in *. intros q Hin.
    assert (Hqe : clean (qual_expr q)) by (apply Hq, in_map, Hin).
    destruct q as [p e'|x k e'|e']; cbn [qual_expr fmt_qual] in *; rewrite (fmt_agree _ Hqe); reflexivity.
Qed.

Lemma clean_of l : existsb (exists_ex c_any) l = false -> Forall clean l.
Proof. intros H. apply existsb_false_Forall in H. exact H. Qed.

Theorem holds_thm p : defect_free p = true -> fmt_prog true p = fmt_prog false p.
Proof.
  unfold defect_free, exists_prog. intros H. apply negb_true_iff in H. apply existsb_false_Forall in H.
  unfold fmt_prog. apply flat_map_ext_Forall. eapply Forall_impl; [|exact H].
  intros s Hs. f_equal. destruct s as [mu x k e|x subs e|x subs a e|e|c|nm vs|fn args out arms]; cbn [stmt_exprs fmt_stmt] in *.
  - rewrite fmt_rhs_agree by (apply clean_of, Hs). reflexivity.
  - rewrite existsb_app in Hs. apply orb_false_iff in Hs as [H1 H2].
    rewrite fmt_subs_agree by assumption. rewrite fmt_rhs_agree by (apply clean_of, H2). reflexivity.
  - rewrite existsb_app in Hs. apply orb_false_iff in Hs as [H1 H2].
    rewrite fmt_subs_agree by assumption. rewrite fmt_rhs_agree by (apply clean_of, H2). reflexivity.
  - apply fmt_rhs_agree, clean_of, Hs.
  - reflexivity.
  - reflexivity.
  - rewrite fmt_header_agree.
    assert (map (fmt_farm true) arms = map (fmt_farm false) arms) as ->; [|reflexivity].
    apply map_ext_Forall. apply clean_of in Hs. rewrite Forall_forall in *. intros a Hin.
    assert (Ha : clean (snd a)) by (apply Hs, in_map, Hin).
    destruct a as [[last pp] e]. unfold fmt_farm. cbn [snd] in Ha. rewrite (fmt_agree e Ha). reflexivity.
Qed.

Corollary holds_roundtrip p : wf_prog p = true -> defect_free p = true -> parse_tok (fmt_prog true p) = Some p.
Proof. intros Hw Hd. rewrite holds_thm by exact Hd. apply fmt_parse_thm, Hw. Qed.

(* ------------------------------------------------------------------ the defect classes are real: witnesses *)
Open Scope string_scope.
Definition lnum (s : string) : ex := ELit (LNum s) None.
Definition w_matrix : prog := [SExpr (EMat [[lnum "1"; lnum "2"; lnum "3"]; [lnum "4"; lnum "5"; lnum "6"]])].
Definition w_named : prog := [SDefine false "y" None (ECall "f" [(Some "k", lnum "1")])].
Definition w_range : prog := [SExpr (ERange (lnum "1") (Some (false, lnum "2")) false (lnum "10"))].
Definition w_sneq : prog := [SExpr (ETerm (EVar "a" None) [(OSNeq, EVar "b" None)])].
Definition w_subset : prog := [SExpr (ETerm (EVar "a" None) [(OSubset, EVar "b" None)])].
Definition w_cross : prog := [SExpr (ETerm (EVar "a" None) [(OCross, EVar "b" None)])].
Definition w_jagged : prog := [SExpr (EMat [[lnum "1"; lnum "2"]; [lnum "3"]])].

(* formatter.rs turns the 2x3 literal into the text of a 1x6 literal (column-major order) *)
Lemma refuted_matrix_rows :
  wf_prog w_matrix = true /\ class_of w_matrix = Some "matrix-rows" /\
  render (fmt_prog true w_matrix) = "[1 4 2 5 3 6]" ++ nl /\
  parse_tok (fmt_prog true w_matrix) =
    Some [SExpr (EMat [[lnum "1"; lnum "4"; lnum "2"; lnum "5"; lnum "3"; lnum "6"]])] /\
  parse_tok (fmt_prog true w_matrix) <> Some w_matrix.
Proof. repeat split; try (vm_compute; reflexivity). vm_compute. discriminate. Qed.

Lemma refuted_named_arg :
  wf_prog w_named = true /\ class_of w_named = Some "named-arg-colon" /\
  render (fmt_prog true w_named) = "y := f(k1)" ++ nl /\ parse_tok (fmt_prog true w_named) <> Some w_named.
Proof. repeat split; try (vm_compute; reflexivity). vm_compute. discriminate. Qed.

Lemma refuted_range_inc :
  wf_prog w_range = true /\ class_of w_range = Some "range-increment-order" /\
  render (fmt_prog true w_range) = "1..10..2" ++ nl /\
  parse_tok (fmt_prog true w_range) = Some [SExpr (ERange (lnum "1") (Some (false, lnum "10")) false (lnum "2"))] /\
  parse_tok (fmt_prog true w_range) <> Some w_range.
Proof. repeat split; try (vm_compute; reflexivity). vm_compute. discriminate. Qed.

Lemma refuted_sneq :
  wf_prog w_sneq = true /\ class_of w_sneq = Some "strict-neq-spelling" /\
  render (fmt_prog true w_sneq) = "a =/= b" ++ nl /\ parse_tok (fmt_prog true w_sneq) <> Some w_sneq.
Proof. repeat split; try (vm_compute; reflexivity). vm_compute. discriminate. Qed.

Lemma refuted_subset :
  wf_prog w_subset = true /\ class_of w_subset = Some "subset-spelling" /\
  render (fmt_prog true w_subset) = "a ⊂ b" ++ nl /\ parse_tok (fmt_prog true w_subset) <> Some w_subset.
Proof. repeat split; try (vm_compute; reflexivity). vm_compute. discriminate. Qed.

Lemma refuted_cross :
  wf_prog w_cross = true /\ class_of w_cross = Some "cross-spelling" /\
  render (fmt_prog true w_cross) = "a × b" ++ nl /\ parse_tok (fmt_prog true w_cross) <> Some w_cross.
Proof. repeat split; try (vm_compute; reflexivity). vm_compute. discriminate. Qed.

Lemma refuted_jagged :
  wf_prog w_jagged = true /\ existsb is_panic (fmt_prog true w_jagged) = true /\
  parse_tok (fmt_prog false w_jagged) = Some w_jagged.
Proof. repeat split; vm_compute; reflexivity. Qed.
Close Scope string_scope.

Definition refutes (id : string) (p : prog) : Prop :=
  wf_prog p = true /\ class_of p = Some id /\ parse_tok (fmt_prog true p) <> Some p.

Lemma refuted_ex_matrix_rows : exists p, refutes "matrix-rows" p /\
  exists r1 r2 flat, p = [SExpr (EMat [r1; r2])] /\ List.length r1 = 3 /\ List.length r2 = 3 /\
    parse_tok (fmt_prog true p) = Some [SExpr (EMat [flat])] /\ List.length flat = 6.
Proof.
  exists w_matrix. destruct refuted_matrix_rows as (H1 & H2 & _ & H4 & H5). split; [repeat split; assumption|].
  eexists _, _, _. split; [reflexivity|]. split; [reflexivity|]. split; [reflexivity|]. split; [exact H4|reflexivity].
Qed.
Lemma refuted_ex_named_arg : exists p, refutes "named-arg-colon" p.
Proof. exists w_named. destruct refuted_named_arg as (H1 & H2 & _ & H4). repeat split; assumption. Qed.
Lemma refuted_ex_range_inc : exists p, refutes "range-increment-order" p.
Proof. exists w_range. destruct refuted_range_inc as (H1 & H2 & _ & _ & H4). repeat split; assumption. Qed.
Lemma refuted_ex_sneq : exists p, refutes "strict-neq-spelling" p.
Proof. exists w_sneq. destruct refuted_sneq as (H1 & H2 & _ & H4). repeat split; assumption. Qed.
Lemma refuted_ex_subset : exists p, refutes "subset-spelling" p.
Proof. exists w_subset. destruct refuted_subset as (H1 & H2 & _ & H4). repeat split; assumption. Qed.
Lemma refuted_ex_cross : exists p, refutes "cross-spelling" p.
Proof. exists w_cross. destruct refuted_cross as (H1 & H2 & _ & H4). repeat split; assumption. Qed.
Lemma refuted_ex_jagged : exists p, wf_prog p = true /\ existsb is_panic (fmt_prog true p) = true /\
  parse_tok (fmt_prog false p) = Some p.
Proof. exists w_jagged. exact refuted_jagged. Qed.

(* the texts of the symbols of the vocabulary are pairwise different: a token is determined by its text *)
Definition in_vocab (s : sym) : bool := match s with SOther _ | SPanic => false | _ => true end.

Lemma sym_text_inj a b : in_vocab a = true -> in_vocab b = true -> sym_text a = sym_text b -> a = b.
Proof.
  intros Ha Hb H.
  destruct a; try discriminate Ha; destruct b; try discriminate Hb; try reflexivity; try discriminate H;
    repeat match goal with o : binop |- _ => destruct o | x : aop |- _ => destruct x end;
    try reflexivity; discriminate H.
Qed.

(* ------------------------------------------------------------------ judge soundness *)
(* what an observation must say for the property to hold on this input *)
Definition observed_roundtrip (o : obs8) : Prop :=
  exists ob, o = O8Fmt ob /\ o_reparse ob = "ok"%string /\ o_same ob = 1%Z /\ o_idem ob = 1%Z.

Lemma all_good_spec ob : all_good ob = true -> o_reparse ob = "ok"%string /\ o_same ob = 1%Z /\ o_idem ob = 1%Z.
Proof.
  unfold all_good. intros H. apply andb_prop in H as [H H3]. apply andb_prop in H as [H1 H2].
  apply String.eqb_eq in H1. apply Z.eqb_eq in H2, H3. auto.
Qed.

Lemma judge_prog_sound p o tag :
  judge_prog p o = v_ok tag ->
  observed_roundtrip o /\
  (tag = "roundtrip"%string -> exists ob, o = O8Fmt ob /\ o_text ob = render (fmt_prog false p)).
Proof.
  unfold judge_prog. destruct o as [|feat|ob|]; try discriminate.
  - destruct (existsb is_panic (fmt_prog true p)); discriminate.
  - destruct (mem "Paragraph" (o_feat ob)); [discriminate|].
    destruct (String.eqb (o_text ob) (render (fmt_prog false p))) eqn:Hc.
    + destruct (all_good ob) eqn:Hg.
      * intros H. injection H as <-. apply all_good_spec in Hg. split; [exists ob; tauto|].
        intros _. exists ob. split; [reflexivity|]. apply String.eqb_eq in Hc. exact Hc.
      * destruct (lex_class_of p); discriminate.
    + destruct (negb (existsb is_panic (fmt_prog true p)) && String.eqb (o_text ob) (render (fmt_prog true p)));
        [|destruct (lex_class_of p); [destruct (all_good ob)|]; discriminate].
      destruct (all_good ob) eqn:Hg.
      * intros H. injection H as <-. apply all_good_spec in Hg. split; [exists ob; tauto|]. discriminate.
      * destruct (class_of p); discriminate.
Qed.

Lemma judge_diff_sound cls o tag : judge_diff cls o = v_ok tag -> observed_roundtrip o.
Proof.
  unfold judge_diff. destruct o as [|feat|ob|]; try discriminate.
  - destruct (find_class cls feat "fmtpanic"); discriminate.
  - destruct (all_good ob) eqn:Hg.
    + intros _. apply all_good_spec in Hg. exists ob; tauto.
    + destruct (find_class cls (o_feat ob) (symptom ob)); discriminate.
Qed.
