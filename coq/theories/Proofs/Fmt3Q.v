(* C08, second part: patterns, right-hand sides, state machines, statements, programs; formatter.rs vs canonical printer;
   witnesses of the defect classes; judge soundness.  (Model/Fmt3.v) *)
From Coq Require Import List Arith Lia PeanoNat Bool ZArith.
From Coq Require Import String Ascii.
From MechV Require Import Base.Sexp Base.Obs Model.Fmt3 Proofs.Fmt3P.
Import ListNotations.
Local Open Scope list_scope.

(* ------------------------------------------------------------------ generalised list lemmas (separator test may look ahead) *)
Lemma psep_ok_g {A} (g : A -> list tok) (septoks : list tok) (sepf : list tok -> option (list tok))
      (p : parser A) (R : list tok -> Prop) :
  forall xs m rest,
    (forall x r, In x xs -> sepf (septoks ++ g x ++ r) = Some (g x ++ r)) ->
    List.length xs <= m ->
    (forall x r, In x xs -> R r -> p (g x ++ r) = Some (x, r)) ->
    (forall x r, In x xs -> R (septoks ++ g x ++ r)) ->
    R rest ->
    match sepf rest with Some r => p r = None | None => True end ->
    psep m sepf p (flat_map (fun x => septoks ++ g x) xs ++ rest) = (xs, rest).
Proof.
  induction xs as [|x xs IH]; intros m rest Hsep Hm Hp HR Hrest Hstop.
  - cbn [flat_map app]. destruct m as [|m]; [reflexivity|]. cbn [psep].
    destruct (sepf rest) as [r|]; [|reflexivity]. rewrite Hstop. reflexivity.
  - destruct m as [|m]; [cbn in Hm; lia|].
    cbn [flat_map]. rewrite <- !app_assoc. cbn [psep]. rewrite (Hsep x _ (or_introl eq_refl)).
    assert (HR1 : R (flat_map (fun x0 => septoks ++ g x0) xs ++ rest)).
    { destruct xs as [|y ys]; [exact Hrest|].
      cbn [flat_map]. rewrite <- !app_assoc. apply HR. right; left; reflexivity. }
    rewrite (Hp x _ (or_introl eq_refl) HR1).
    rewrite IH; [reflexivity| | cbn in Hm; lia | | | exact Hrest | exact Hstop].
    + intros y r Hy. apply Hsep. right; exact Hy.
    + intros y r Hy. apply Hp. right; exact Hy.
    + intros y r Hy. apply HR. right; exact Hy.
Qed.

Lemma plist1_ok_g {A} (g : A -> list tok) (septoks : list tok) (sepf : list tok -> option (list tok))
      (p : parser A) (R : list tok -> Prop) :
  forall x xs m rest,
    (forall y r, In y xs -> sepf (septoks ++ g y ++ r) = Some (g y ++ r)) ->
    List.length xs <= m ->
    (forall y r, In y (x :: xs) -> R r -> p (g y ++ r) = Some (y, r)) ->
    (forall y r, In y xs -> R (septoks ++ g y ++ r)) ->
    R rest ->
    match sepf rest with Some r => p r = None | None => True end ->
    plist1 m sepf p (join septoks (map g (x :: xs)) ++ rest) = Some (x :: xs, rest).
Proof.
  intros x xs m rest Hsep Hm Hp HR Hrest Hstop.
  rewrite join_map_cons, <- app_assoc. unfold plist1.
  assert (HR1 : R (flat_map (fun y => septoks ++ g y) xs ++ rest)).
  { destruct xs as [|y ys]; [exact Hrest|].
    cbn [flat_map]. rewrite <- !app_assoc. apply HR. left; reflexivity. }
  rewrite (Hp x _ (or_introl eq_refl) HR1).
  rewrite (psep_ok_g g septoks sepf p R xs m rest Hsep Hm); [reflexivity| | exact HR | exact Hrest | exact Hstop].
  intros y r Hy. apply Hp. right; exact Hy.
Qed.

Lemma flat_map_join_nil {A B} (g : A -> list B) (l : list A) : flat_map g l = join [] (map g l).
Proof.
  destruct l as [|x xs]; [reflexivity|]. rewrite join_map_cons. cbn [flat_map]. f_equal.
Qed.

(* ------------------------------------------------------------------ patterns *)
Section PatInd.
  Variable P : pat -> Prop.
  Hypothesis HItem : forall i, P (PItem i).
  Hypothesis HTup : forall ps, Forall P ps -> P (PTup ps).
  Hypothesis HTupS : forall nm ps, Forall P ps -> P (PTupS nm ps).
  Hypothesis HArr : forall pre tl, P (PArr pre tl).
  Fixpoint pat_ind' (p : pat) : P p :=
    let fl := fix fl (l : list pat) : Forall P l :=
      match l with [] => Forall_nil _ | x :: r => Forall_cons _ (pat_ind' x) (fl r) end in
    match p with
    | PItem i => HItem i
    | PTup ps => HTup ps (fl ps)
    | PTupS n ps => HTupS n ps (fl ps)
    | PArr pre tl => HArr pre tl
    end.
End PatInd.

Lemma pitem_ok i rest : post0 rest = true -> pitem_p (fmt_item i ++ rest) = Some (i, rest).
Proof.
  intros Hp. destruct i as [|l k|x k]; [reflexivity| |].
  - cbn [fmt_item]. rewrite <- app_assoc.
    destruct l; cbn [fmt_lit app pitem_p]; rewrite optkind_ok by auto; reflexivity.
  - cbn [fmt_item app pitem_p]. rewrite optkind_ok by auto. reflexivity.
Qed.

Lemma fmt_item_len_pos i : 1 <= List.length (fmt_item i).
Proof. destruct i as [|[] k|x k]; cbn; lia. Qed.

Lemma fmt_apart_len_pos a : 1 <= List.length (fmt_apart a).
Proof. destruct a; cbn [fmt_apart]; [apply fmt_item_len_pos | cbn; lia | cbn; lia]. Qed.

Lemma fmt_pat_len_pos p : 1 <= List.length (fmt_pat p).
Proof. destruct p; cbn [fmt_pat]; [apply fmt_item_len_pos | cbn; lia | cbn; lia | cbn; lia]. Qed.

Lemma papart_ok a rest : post0 rest = true -> papart (fmt_apart a ++ rest) = Some (a, rest).
Proof.
  intros Hp. destruct a as [i| |]; [|reflexivity|reflexivity].
  pose proof (pitem_ok i rest Hp) as H. cbn [fmt_apart] in *. unfold papart.
  destruct i as [|l k|x k]; [reflexivity| |].
  - destruct l; cbn [fmt_item fmt_lit app] in *; rewrite <- ?app_assoc in *; cbn [app] in *; rewrite H; reflexivity.
  - cbn [fmt_item app] in *. rewrite H. reflexivity.
Qed.

Lemma all_items_map l : all_items (map AI l) = Some l.
Proof. induction l as [|i l IH]; cbn; [reflexivity|]. rewrite IH. reflexivity. Qed.

Lemma assemble_parts pre tl : assemble (parts pre tl) = Some (pre, tl).
Proof.
  unfold parts. induction pre as [|i pre IH]; cbn [map app assemble].
  - destruct tl as [|suf|b]; cbn [assemble]; [reflexivity| rewrite all_items_map; reflexivity | reflexivity].
  - rewrite IH. reflexivity.
Qed.

Definition pat_ok (p : pat) : Prop := forall n rest,
  List.length (fmt_pat p) <= n -> post0 rest = true -> ppat n (fmt_pat p ++ rest) = Some (p, rest).

Lemma post0_sepclose r : hd_is sepclose r = true -> post0 r = true.
Proof. intros H. apply post_ok_post0. apply (sepclose_R r H). Qed.

Lemma pat_list_ok m x xs rest :
  Forall pat_ok (x :: xs) ->
  List.length (join [TSym Comma; TSp] (map fmt_pat (x :: xs))) <= m ->
  plist1 m sep_comma_sp (ppat m) (join [TSym Comma; TSp] (map fmt_pat (x :: xs)) ++ TSym RP :: rest)
  = Some (x :: xs, TSym RP :: rest).
Proof.
  intros IH Hm.
  apply (plist1_ok fmt_pat [TSym Comma; TSp] sep_comma_sp (ppat m) (fun r => post0 r = true)); try reflexivity.
  - pose proof (join_len_count [TSym Comma; TSp] fmt_pat (x :: xs) (fun y _ => fmt_pat_len_pos y)) as Hc.
    cbn [List.length] in Hc. lia.
  - intros y r Hin Hr. rewrite Forall_forall in IH.
    pose proof (join_len_in [TSym Comma; TSp] fmt_pat (x :: xs) y Hin). apply (IH _ Hin); [lia|exact Hr].
Qed.

Theorem pat_all_ok : forall p, wf_pat p = true -> pat_ok p.
Proof.
  induction p using pat_ind'; intros Hw n rest Hn Hp.
  - (* item *)
    pose proof (fmt_item_len_pos i). cbn [fmt_pat] in *. destruct n as [|n]; [lia|].
    pose proof (pitem_ok i rest Hp) as Hi. cbn [ppat]. rewrite Hi.
    destruct i as [|l k|x k]; [reflexivity| |reflexivity].
    destruct l; try reflexivity.
    cbn [fmt_item fmt_lit]. rewrite <- app_assoc. cbn [app].
    rewrite (proj1 (okind_follow k rest Hp)). reflexivity.
  - (* tuple *)
    cbn [wf_pat] in Hw. apply andb_prop in Hw as [Hlen Hw].
    destruct ps as [|x xs]; [discriminate|].
    cbn [fmt_pat] in *. cbn [List.length] in Hn. rewrite app_length in Hn. cbn [List.length] in Hn.
    destruct n as [|n]; [lia|]. cbn [app ppat]. rewrite <- app_assoc. cbn [app].
    rewrite pat_list_ok; [reflexivity| |lia].
    rewrite forallb_forall in Hw. rewrite Forall_forall in *. intros y Hy. apply (H _ Hy), Hw, Hy.
  - (* tuple-struct *)
    cbn [wf_pat] in Hw. apply andb_prop in Hw as [Hlen Hw].
    destruct ps as [|x xs]; [discriminate|].
    cbn [fmt_pat] in *. cbn [List.length] in Hn. rewrite app_length in Hn. cbn [List.length] in Hn.
    destruct n as [|n]; [lia|]. cbn [app ppat hd_is t_lp List.tl]. rewrite <- app_assoc. cbn [app].
    rewrite pat_list_ok; [reflexivity| |lia].
    rewrite forallb_forall in Hw. rewrite Forall_forall in *. intros y Hy. apply (H _ Hy), Hw, Hy.
  - (* array *)
    cbn [fmt_pat] in *. cbn [List.length] in Hn. rewrite app_length in Hn. cbn [List.length] in Hn.
    destruct n as [|n]; [lia|]. cbn [app ppat]. rewrite <- app_assoc. cbn [app].
    pose proof (assemble_parts pre tl) as Hasm.
    destruct (parts pre tl) as [|a0 l0] eqn:Hparts.
    + cbn [map join app].
      assert (pre = [] /\ tl = ANone) as [-> ->].
      { unfold parts in Hparts. destruct pre; [|discriminate]. destruct tl; try discriminate. split; reflexivity. }
      reflexivity.
    + rewrite (plist1_ok fmt_apart [TSp] sep_sp papart (fun r => post0 r = true)); try reflexivity.
      * rewrite Hasm. reflexivity.
      * pose proof (join_len_count [TSp] fmt_apart (a0 :: l0) (fun y _ => fmt_apart_len_pos y)) as Hc.
        cbn [List.length] in Hc. lia.
      * intros y r _ Hr. apply papart_ok, Hr.
Qed.

(* ------------------------------------------------------------------ right-hand sides *)
Lemma R_sym s r : (forall o, s <> SOp o) -> s <> LP -> s <> LB -> s <> Apos -> s <> Dot -> s <> DD -> s <> DDE -> R_exp (TSym s :: r).
Proof.
  intros H1 H2 H3 H4 H5 H6 H7. destruct s; try (repeat split; fail); try contradiction.
  exfalso. eapply H1. reflexivity.
Qed.

Lemma R_dot_nl r : R_exp (TSym Dot :: TNl :: r).
Proof. repeat split. Qed.

Lemma R_quest r : R_exp (TSym Quest :: r).
Proof. repeat split. Qed.

Lemma wfe_spec e : wfe e = true -> wf e = true /\ is_expr e = true.
Proof. unfold wfe. intros H. apply andb_prop in H. exact H. Qed.

Lemma pexpr_wfe e n r : wfe e = true -> List.length (f e) <= n -> R_exp r -> pexpr n (f e ++ r) = Some (e, r).
Proof. intros H. apply wfe_spec in H as [H1 H2]. apply pexpr_at; assumption. Qed.

Lemma pfac_tok_none n t r :
  match t with TSym Bar | TSym Quest | TSym FatArrow | TSym DArrow | TSym BrT | TSym BrL | TSym LArrow | TSym Ellip | TCom _ => True | _ => False end ->
  pfac n (t :: r) = None.
Proof.
  intros H. destruct n as [|n]; [reflexivity|].
  destruct t as [| | | | | |s|]; try contradiction; [|reflexivity]. destruct s; try contradiction; reflexivity.
Qed.

Lemma pexpr_bar n r : pexpr n (TSym Bar :: r) = None.
Proof. unfold pexpr. apply pexp_none; [apply pfac_tok_none; exact I | reflexivity]. Qed.

Lemma pexpr_lc_sp n r : pexpr n (TSym LC :: TSp :: r) = None.
Proof.
  unfold pexpr. apply pexp_none; [|reflexivity]. destruct n as [|n]; [reflexivity|]. cbn [pfac pcore].
  rewrite (plist1_none n sep_comma_sp (pbind n (pfac n))) by (apply pbind_closer; reflexivity).
  rewrite (plist1_none n sep_comma_sp (pmapping n (pfac n))) by (apply pmapping_closer; reflexivity).
  rewrite plist1_none by (apply pexp_closer; reflexivity). reflexivity.
Qed.

Lemma pexpr_lb_sp n r : pexpr n (TSym LB :: TSp :: r) = None.
Proof.
  unfold pexpr. apply pexp_none; [|reflexivity]. destruct n as [|n]; [reflexivity|]. cbn [pfac pcore].
  rewrite plist1_none by (apply plist1_none, pexp_closer; reflexivity). reflexivity.
Qed.

Lemma pfield_ok fk r : pfield (fmt_field fk ++ r) = Some (fk, r).
Proof. destruct fk as [nm k]. unfold fmt_field, pfield. cbn [fst snd app]. rewrite pkind_ok. reflexivity. Qed.

Lemma fmt_field_len fk : 1 <= List.length (fmt_field fk).
Proof. unfold fmt_field. cbn. lia. Qed.

Lemma sep_cell_ok e r : sep_cell ([TSp] ++ f e ++ r) = Some (f e ++ r).
Proof.
  destruct (fmt_head_st e r) as (t & tl & -> & Hst). cbn [app sep_cell].
  destruct t as [| | | | | |s|]; try discriminate; try reflexivity. destruct s; try discriminate; reflexivity.
Qed.

Definition cell_ok (c : ex) : bool := wfe c && negb (is_kvar c).

Lemma prow_ok n row r :
  row <> [] -> forallb cell_ok row = true -> List.length (fmt_row false row) <= n ->
  prow n (fmt_row false row ++ r) = Some (row, r).
Proof.
  intros Hne Hw Hn. destruct row as [|c cs]; [contradiction|].
  unfold fmt_row in *. cbn [List.length] in Hn. rewrite app_length in Hn. cbn [List.length] in Hn.
  cbn [app prow]. rewrite <- app_assoc. cbn [app].
  rewrite (plist1_ok_g f [TSp] sep_cell (pexpr n) R_exp).
  - reflexivity.
  - intros y r0 _. apply sep_cell_ok.
  - pose proof (join_len_count [TSp] f (c :: cs) (fun y _ => fmt_len_pos y)) as Hc. cbn [List.length] in Hc. lia.
  - intros y r0 Hin Hr. rewrite forallb_forall in Hw. specialize (Hw _ Hin). unfold cell_ok in Hw.
    apply andb_prop in Hw as [Hw _]. pose proof (join_len_in [TSp] f (c :: cs) y Hin).
    apply pexpr_wfe; [exact Hw | lia | exact Hr].
  - intros y r0 _. apply R_after_sp.
  - repeat split.
  - exact I.
Qed.

Lemma fmt_row_len row : 1 <= List.length (fmt_row false row).
Proof. unfold fmt_row. cbn. lia. Qed.

Definition marm_ok (a : bool * pat * option ex * ex) : bool :=
  let '(_, p, g, e) := a in wf_pat p && match g with Some g => wfe g | None => true end && wfe e.

Lemma pbr_ok b r : pbr (br b :: r) = Some (b, r).
Proof. destruct b; reflexivity. Qed.

Lemma pmarm_ok n a r :
  marm_ok a = true -> List.length (fmt_marm false a) <= n -> R_exp r ->
  pmarm n (fmt_marm false a ++ r) = Some (a, r).
Proof.
  destruct a as [[[last p] g] e]. unfold marm_ok, fmt_marm. intros Hw Hn Hr.
  apply andb_prop in Hw as [Hw He]. apply andb_prop in Hw as [Hp Hg].
  cbn [List.length] in Hn. rewrite !app_length in Hn. cbn [List.length] in Hn.
  cbn [app]. unfold pmarm. rewrite pbr_ok. rewrite <- !app_assoc.
  destruct g as [g|].
  - cbn [app]. rewrite ?app_length in Hn. cbn [List.length] in Hn.
    rewrite (pat_all_ok p Hp n) by (try lia; reflexivity).
    rewrite <- ?app_assoc. cbn [app].
    rewrite (pexpr_wfe g n) by (try assumption; try lia; apply R_stmt_op; discriminate).
    rewrite (pexpr_wfe e n) by (try assumption; lia). reflexivity.
  - cbn [app]. rewrite (pat_all_ok p Hp n) by (try lia; reflexivity).
    rewrite (pexpr_wfe e n) by (try assumption; lia). reflexivity.
Qed.

Lemma fmt_marm_len a : 1 <= List.length (fmt_marm false a).
Proof. destruct a as [[[last p] g] e]. unfold fmt_marm. cbn. lia. Qed.

Definition farm_ok (a : bool * pat * ex) : bool := wf_pat (snd (fst a)) && wfe (snd a).

Lemma pfarm_ok n a r :
  farm_ok a = true -> List.length (fmt_farm false a) <= n -> R_exp r ->
  pfarm n (fmt_farm false a ++ r) = Some (a, r).
Proof.
  destruct a as [[last p] e]. unfold farm_ok, fmt_farm. cbn [fst snd]. intros Hw Hn Hr.
  apply andb_prop in Hw as [Hp He].
  cbn [List.length] in Hn. rewrite !app_length in Hn. cbn [List.length] in Hn.
  cbn [app]. unfold pfarm. rewrite pbr_ok. rewrite <- !app_assoc. cbn [app].
  rewrite (pat_all_ok p Hp n) by (try lia; reflexivity).
  rewrite (pexpr_wfe e n) by (try assumption; lia). reflexivity.
Qed.

Lemma fmt_farm_len a : 1 <= List.length (fmt_farm false a).
Proof. destruct a as [[last p] e]. unfold fmt_farm. cbn. lia. Qed.

Lemma R_sp_sym s r : (forall o, s <> SOp o) -> R_exp (TSp :: TSym s :: r).
Proof. apply R_stmt_op. Qed.

Lemma pqual_ok n q r :
  wf_qual q = true -> List.length (fmt_qual false q) <= n -> R_exp r ->
  pqual n (fmt_qual false q ++ r) = Some (q, r).
Proof.
  intros Hw Hn Hr. destruct q as [p e|x k e|e]; cbn [wf_qual fmt_qual] in *.
  - apply andb_prop in Hw as [Hp He]. rewrite app_length in Hn. cbn [List.length] in Hn.
    unfold pqual. rewrite <- app_assoc. cbn [app].
    rewrite (pat_all_ok p Hp n) by (try lia; reflexivity).
    rewrite (pexpr_wfe e n) by (try assumption; lia). reflexivity.
  - cbn [List.length] in Hn. rewrite app_length in Hn. cbn [List.length] in Hn.
    unfold pqual.
    cbn [app]. rewrite <- app_assoc. cbn [app].
    change (TId x :: fmt_okind k ++ TSp :: TSym Define :: TSp :: f e ++ r)
      with (fmt_pat (PItem (IVar x k)) ++ TSp :: TSym Define :: TSp :: f e ++ r).
    rewrite (pat_all_ok (PItem (IVar x k)) eq_refl n) by (try reflexivity; cbn [fmt_pat fmt_item List.length]; lia).
    change (fmt_pat (PItem (IVar x k))) with (f (EVar x k)).
    rewrite (pexpr_at (EVar x k) n) by (try reflexivity; try (cbn [fmt List.length]; lia); apply R_stmt_op; discriminate).
    rewrite (pexpr_wfe e n) by (try assumption; lia). reflexivity.
  - apply andb_prop in Hw as [He Hf].
    destruct e as [ | | | | | |l rr| | | | | | | | | | | | | ]; try discriminate Hf. destruct l as [ |x k| | | | | | | | | | | | | | | | | | ]; try discriminate Hf.
    pose proof He as He'. apply wfe_spec in He' as [Hwf _]. cbn [wf] in Hwf.
    destruct rr as [|[o y] rr]; [discriminate Hwf|].
    unfold pqual.
    assert (Hpp : ppat n (f (ETerm (EVar x k) ((o, y) :: rr)) ++ r) =
                  Some (PItem (IVar x k), TSp :: TSym (SOp o) :: TSp :: f y ++ flat_map (fun p => TSp :: TSym (opsym false (fst p)) :: TSp :: f (snd p)) rr ++ r)).
    { cbn [fmt flat_map fst snd opsym]. rewrite <- ?app_assoc. cbn [app]. rewrite <- ?app_assoc.
      change (TId x :: fmt_okind k ++ TSp :: TSym (SOp o) :: TSp :: f y ++ flat_map (fun p => TSp :: TSym (SOp (fst p)) :: TSp :: f (snd p)) rr ++ r)
        with (fmt_pat (PItem (IVar x k)) ++ TSp :: TSym (SOp o) :: TSp :: f y ++ flat_map (fun p => TSp :: TSym (SOp (fst p)) :: TSp :: f (snd p)) rr ++ r).
      apply (pat_all_ok (PItem (IVar x k)) eq_refl); [|reflexivity].
      cbn [fmt flat_map fst snd] in Hn. cbn [fmt_pat fmt_item List.length] in *. rewrite !app_length in Hn. cbn [List.length] in Hn. lia. }
    rewrite Hpp. rewrite (pexpr_wfe _ n) by assumption. reflexivity.
Qed.

Lemma fmt_qual_len q : 1 <= List.length (fmt_qual false q).
Proof.
  destruct q as [p e|x k e|e]; cbn [fmt_qual].
  - rewrite app_length. pose proof (fmt_pat_len_pos p). lia.
  - cbn. lia.
  - apply fmt_len_pos.
Qed.

Lemma last_flags_ne {A} (g : A -> bool) (l : list A) : last_flags (map g l) = true -> l <> [].
Proof. destruct l; [discriminate|discriminate]. Qed.

Lemma prhs_ok r n rest :
  wf_rhs r = true -> List.length (fmt_rhs false r) <= n ->
  prhs n (fmt_rhs false r ++ TNl :: rest) = Some (r, TNl :: rest).
Proof.
  intros Hw Hn. destruct r as [e|fs rows|src arms|mat e qs]; cbn [wf_rhs fmt_rhs] in *.
  - (* expression *)
    apply andb_prop in Hw as [Hwe Hee]. unfold prhs.
    rewrite (pexprF_at e n) by (try assumption; apply R_nl). reflexivity.
  - (* table *)
    apply andb_prop in Hw as [Hw Hrows]. apply andb_prop in Hw as [Hfs Hrs].
    destruct fs as [|f0 fs']; [discriminate|]. destruct rows as [|row0 rows']; [discriminate|].
    cbn [List.length] in Hn. rewrite !app_length in Hn. cbn [List.length] in Hn.
    unfold prhs. cbn [app]. rewrite pexpr_bar. unfold ptable. rewrite <- ?app_assoc. cbn [app].
    rewrite (plist1_ok fmt_field [TSp] sep_sp pfield (fun _ => True)); try reflexivity; auto.
    + rewrite (flat_map_join_nil (fmt_row false) (row0 :: rows')). rewrite <- ?app_assoc.
      rewrite (plist1_ok (fmt_row false) [] sep_none (prow n) (fun _ => True)); try reflexivity; auto.
      * pose proof (length_flat_map_ge (fmt_row false) (row0 :: rows') fmt_row_len). cbn [List.length] in *. lia.
      * intros row r Hin _. rewrite forallb_forall in Hrows. specialize (Hrows _ Hin).
        apply andb_prop in Hrows as [Hne Hcells].
        pose proof (flat_len_in (fmt_row false) (row0 :: rows') row Hin).
        apply prow_ok; [destruct row; [discriminate|discriminate] | exact Hcells | lia].
    + pose proof (join_len_count [TSp] fmt_field (f0 :: fs') (fun y _ => fmt_field_len y)) as Hc. cbn [List.length] in Hc. lia.
    + intros fk r _ _. apply pfield_ok.
  - (* match *)
    apply andb_prop in Hw as [Hw Harms]. apply andb_prop in Hw as [Hw Hflags]. apply andb_prop in Hw as [Hws Hfs].
    pose proof (last_flags_ne _ _ Hflags) as Hne. destruct arms as [|a0 arms']; [contradiction|].
    rewrite !app_length in Hn. cbn [List.length] in Hn. rewrite !app_length in Hn. cbn [List.length] in Hn.
    unfold prhs. rewrite <- ?app_assoc. cbn [app].
    assert (Hes : is_expr src = true) by (unfold is_expr, is_formula; rewrite Hfs; reflexivity).
    rewrite (pexpr_at src n _ Hws Hes) by (try lia; apply R_quest).
    rewrite <- ?app_assoc. cbn [app].
    rewrite (plist1_ok (fmt_marm false) [TNl] sep_nl (pmarm n) R_exp); try reflexivity.
    + pose proof (join_len_count [TNl] (fmt_marm false) (a0 :: arms') (fun y _ => fmt_marm_len y)) as Hc. cbn [List.length] in Hc. lia.
    + intros a r Hin Hr. rewrite forallb_forall in Harms. specialize (Harms _ Hin).
      pose proof (join_len_in [TNl] (fmt_marm false) (a0 :: arms') a Hin).
      apply pmarm_ok; [exact Harms | lia | exact Hr].
    + intros; apply R_nl.
    + apply R_dot_nl.
  - (* comprehension *)
    apply andb_prop in Hw as [Hw Hqs]. apply andb_prop in Hw as [He Hlen].
    destruct qs as [|q0 qs']; [discriminate|].
    cbn [List.length] in Hn. rewrite !app_length in Hn. cbn [List.length] in Hn. rewrite !app_length in Hn. cbn [List.length] in Hn.
    unfold prhs. cbn [app].
    assert (Hnone : pexpr n (TSym (if mat then LB else LC) :: TSp :: (f e ++ TSp :: TSym Bar :: TSp ::
               join [TSym Comma; TSp] (map (fmt_qual false) (q0 :: qs')) ++ [TSp; TSym (if mat then RB else RC)]) ++ TNl :: rest) = None).
    { destruct mat; [apply pexpr_lb_sp | apply pexpr_lc_sp]. }
    rewrite Hnone.
    assert (Hc : pcompr n mat ((f e ++ TSp :: TSym Bar :: TSp ::
               join [TSym Comma; TSp] (map (fmt_qual false) (q0 :: qs')) ++ [TSp; TSym (if mat then RB else RC)]) ++ TNl :: rest)
               = Some (RCompr mat e (q0 :: qs'), TNl :: rest)).
    { unfold pcompr. rewrite <- ?app_assoc. cbn [app].
      rewrite (pexpr_wfe e n) by (try assumption; try lia; apply R_stmt_op; discriminate).
      rewrite <- ?app_assoc. cbn [app].
      rewrite (plist1_ok (fmt_qual false) [TSym Comma; TSp] sep_comma_sp (pqual n) R_exp); try reflexivity.
      - destruct mat; reflexivity.
      - pose proof (join_len_count [TSym Comma; TSp] (fmt_qual false) (q0 :: qs') (fun y _ => fmt_qual_len y)) as Hc. cbn [List.length] in Hc. lia.
      - intros q r Hin Hr. rewrite forallb_forall in Hqs. specialize (Hqs _ Hin).
        pose proof (join_len_in [TSym Comma; TSp] (fmt_qual false) (q0 :: qs') q Hin).
        apply pqual_ok; [exact Hqs | lia | exact Hr].
      - intros; apply sepclose_R; reflexivity.
      - destruct mat; apply R_stmt_op; discriminate. }
    destruct mat; exact Hc.
Qed.

Lemma pstmt_disp n t tl :
  match t with TCom _ | TSym (SOp OLt) => False | _ => True end -> pstmt n (t :: tl) = pstmt_main n (t :: tl).
Proof.
  intros H. unfold pstmt. destruct t as [| | | | | |s|]; try reflexivity; try contradiction.
  destruct s; try reflexivity. destruct o; try reflexivity. contradiction.
Qed.

Lemma main_default n ts :
  match ts with TSym Tilde :: _ => False | _ => True end ->
  (forall e r, pexpr n ts <> Some (e, TSp :: r)) ->
  pstmt_main n ts = match prhs n ts with Some (v, r) => Some (SExpr v, r) | None => None end.
Proof.
  intros Ht Hx. unfold pstmt_main.
  assert ((match ts with TSym Tilde :: r => (true, r) | _ => (false, ts) end) = (false, ts)) as ->.
  { destruct ts as [|[| | | | | |[]|] tl]; try reflexivity; contradiction. }
  destruct (pexpr n ts) as [[e [|t r]]|] eqn:E; try reflexivity.
  destruct t; try reflexivity. exfalso. exact (Hx _ _ eq_refl).
Qed.

Definition st2 (t : tok) : bool := starter t || match t with TSym Bar => true | _ => false end.

Lemma rhs_head r rest : exists t tl, fmt_rhs false r ++ rest = t :: tl /\ st2 t = true.
Proof.
  destruct r as [e|fs rows|src arms|mat e qs]; cbn [fmt_rhs].
  - destruct (fmt_head_st e rest) as (t & tl & H & Hs). exists t, tl. split; [exact H|]. unfold st2. rewrite Hs. reflexivity.
  - eexists _, _. split; reflexivity.
  - rewrite <- app_assoc. destruct (fmt_head_st src (TSym Quest :: TNl :: TNl :: join [TNl] (map (fmt_marm false) arms) ++ [TSym Dot; TNl] ++ rest)) as (t & tl & H & Hs).
    exists t, tl. split; [|unfold st2; rewrite Hs; reflexivity]. rewrite <- H. cbn [app]. rewrite <- app_assoc. reflexivity.
  - destruct mat; eexists _, _; split; reflexivity.
Qed.

Lemma rhs_follow r n rest :
  wf_rhs r = true -> List.length (fmt_rhs false r) <= n ->
  forall e r0, pexpr n (fmt_rhs false r ++ TNl :: rest) <> Some (e, TSp :: r0).
Proof.
  intros Hw Hn e0 r0. destruct r as [e|fs rows|src arms|mat e qs]; cbn [wf_rhs fmt_rhs] in *.
  - apply andb_prop in Hw as [Hwe Hee]. rewrite (pexprF_at e n) by (try assumption; apply R_nl). discriminate.
  - cbn [app]. rewrite pexpr_bar. discriminate.
  - apply andb_prop in Hw as [Hw Harms]. apply andb_prop in Hw as [Hw Hflags]. apply andb_prop in Hw as [Hws Hfs].
    rewrite !app_length in Hn. cbn [List.length] in Hn.
    assert (Hes : is_expr src = true) by (unfold is_expr, is_formula; rewrite Hfs; reflexivity).
    rewrite <- ?app_assoc. cbn [app].
    rewrite (pexpr_at src n _ Hws Hes) by (try lia; apply R_quest). discriminate.
  - cbn [app]. destruct mat; [rewrite pexpr_lb_sp | rewrite pexpr_lc_sp]; discriminate.
Qed.

Lemma cvt_args_ok args : cvt_args (map arg_ex args) = Some args.
Proof. induction args as [|[x k] args IH]; cbn; [reflexivity|]. rewrite IH. reflexivity. Qed.

Lemma wf_header fn args : wf (ECall fn (map arg_ex args)) = true.
Proof. cbn [wf]. induction args as [|[x k] args IH]; cbn; [reflexivity|exact IH]. Qed.

Lemma pvariant_ok v r : post0 r = true -> pvariant (fmt_variant v ++ r) = Some (v, r).
Proof.
  intros Hp. destruct v as [a k]. unfold fmt_variant, pvariant. cbn [fst snd app]. rewrite optkind_ok by auto. reflexivity.
Qed.

Lemma fmt_variant_len v : 1 <= List.length (fmt_variant v).
Proof. unfold fmt_variant. cbn. lia. Qed.

(* ------------------------------------------------------------------ state machines: patterns *)
Section FpatInd.
  Variable P : fpat -> Prop.
  Hypothesis HWild : P FWild.
  Hypothesis HExp : forall e, P (FExp e).
  Hypothesis HTup : forall ps, Forall P ps -> P (FTup ps).
  Hypothesis HTupS : forall nm ps, Forall P ps -> P (FTupS nm ps).
  Hypothesis HArr : forall pre tl, P (FArr pre tl).
  Fixpoint fpat_ind' (p : fpat) : P p :=
    let fl := fix fl (l : list fpat) : Forall P l :=
      match l with [] => Forall_nil _ | x :: r => Forall_cons _ (fpat_ind' x) (fl r) end in
    match p with
    | FWild => HWild
    | FExp e => HExp e
    | FTup ps => HTup ps (fl ps)
    | FTupS n ps => HTupS n ps (fl ps)
    | FArr pre tl => HArr pre tl
    end.
End FpatInd.

Notation ff := (fmt_fpat false).

(* an expression whose text does not begin like a tuple / array / tuple-struct pattern is read as an expression *)
Lemma pfpat_leaf m ts rest : head_ok ts = true -> post0 rest = true -> pfpat (S m) (ts ++ rest) = pfexp m (ts ++ rest).
Proof.
  intros H Hp. destruct ts as [|t tl]; [discriminate|].
  destruct t as [| | | | | |s|]; try reflexivity.
  destruct s; try discriminate H; try reflexivity.
  - (* colon *) destruct tl as [|t2 tl2]; [discriminate H|].
    destruct t2 as [| |a| | | |s2|]; try reflexivity.
    destruct tl2 as [|t3 tl3].
    + cbn [app pfpat]. rewrite (hd_lp_post0 _ Hp). reflexivity.
    + destruct t3 as [| | | | | |s3|]; try reflexivity. destruct s3; try reflexivity. discriminate H.
  - (* operator *) destruct o; try reflexivity. discriminate H.
Qed.

Lemma fmt_fpat_len_pos p : 1 <= List.length (ff p).
Proof. destruct p; cbn [fmt_fpat]; [cbn; lia | apply fmt_len_pos | cbn; lia | cbn; lia | cbn; lia]. Qed.

Definition fpat_ok (p : fpat) : Prop := forall n rest,
  List.length (ff p) < n -> R_exp rest -> pfpat n (ff p ++ rest) = Some (p, rest).

Lemma R_exp_post0 r : R_exp r -> post0 r = true.
Proof. intros (H & _). apply post_ok_post0, H. Qed.

Lemma fpat_list_ok m x xs rest :
  Forall fpat_ok (x :: xs) ->
  List.length (join [TSym Comma; TSp] (map ff (x :: xs))) < m ->
  plist1 m sep_comma_sp (pfpat m) (join [TSym Comma; TSp] (map ff (x :: xs)) ++ TSym RP :: rest)
  = Some (x :: xs, TSym RP :: rest).
Proof.
  intros IH Hm.
  apply (plist1_ok ff [TSym Comma; TSp] sep_comma_sp (pfpat m) R_exp); try reflexivity.
  - pose proof (join_len_count [TSym Comma; TSp] ff (x :: xs) (fun y _ => fmt_fpat_len_pos y)) as Hc.
    cbn [List.length] in Hc. lia.
  - intros y r Hin Hr. rewrite Forall_forall in IH.
    pose proof (join_len_in [TSym Comma; TSp] ff (x :: xs) y Hin). apply (IH _ Hin); [lia|exact Hr].
  - intros y r _. apply sepclose_R. reflexivity.
  - apply sepclose_R. reflexivity.
Qed.

Theorem fpat_all_ok : forall p v, wf_fpat v p = true -> fpat_ok p.
Proof.
  induction p using fpat_ind'; intros v Hw n rest Hn Hr.
  - (* wildcard *) destruct n as [|n]; [cbn in Hn; lia|]. reflexivity.
  - (* expression *)
    cbn [wf_fpat] in Hw. apply andb_prop in Hw as [Hw Hh]. apply andb_prop in Hw as [Hwe _].
    cbn [fmt_fpat] in *. destruct n as [|m]; [lia|].
    rewrite pfpat_leaf by (first [exact Hh | apply R_exp_post0, Hr]).
    unfold pfexp. rewrite (pexpr_wfe e m) by (try assumption; lia). reflexivity.
  - (* tuple *)
    cbn [wf_fpat] in Hw. apply andb_prop in Hw as [Hlen Hw].
    destruct ps as [|x xs]; [discriminate|].
    cbn [fmt_fpat] in *. cbn [List.length] in Hn. rewrite app_length in Hn. cbn [List.length] in Hn.
    destruct n as [|n]; [lia|]. cbn [app pfpat]. rewrite <- app_assoc. cbn [app].
    rewrite fpat_list_ok; [reflexivity| |lia].
    rewrite forallb_forall in Hw. rewrite Forall_forall in *. intros y Hy. apply (H _ Hy v), Hw, Hy.
  - (* tuple-struct *)
    cbn [wf_fpat] in Hw. apply andb_prop in Hw as [Hlen Hw].
    destruct ps as [|x xs]; [discriminate|].
    cbn [fmt_fpat] in *. cbn [List.length] in Hn. rewrite app_length in Hn. cbn [List.length] in Hn.
    destruct n as [|n]; [lia|]. cbn [app pfpat hd_is t_lp List.tl]. rewrite <- app_assoc. cbn [app].
    rewrite fpat_list_ok; [reflexivity| |lia].
    rewrite forallb_forall in Hw. rewrite Forall_forall in *. intros y Hy. apply (H _ Hy v), Hw, Hy.
  - (* array *)
    cbn [fmt_fpat] in *. cbn [List.length] in Hn. rewrite app_length in Hn. cbn [List.length] in Hn.
    destruct n as [|n]; [lia|]. cbn [app pfpat]. rewrite <- app_assoc. cbn [app].
    pose proof (assemble_parts pre tl) as Hasm.
    destruct (parts pre tl) as [|a0 l0] eqn:Hparts.
    + cbn [map join app].
      assert (pre = [] /\ tl = ANone) as [-> ->].
      { unfold parts in Hparts. destruct pre; [|discriminate]. destruct tl; try discriminate. split; reflexivity. }
      reflexivity.
    + rewrite (plist1_ok fmt_apart [TSp] sep_sp papart (fun r => post0 r = true)); try reflexivity.
      * rewrite Hasm. reflexivity.
      * pose proof (join_len_count [TSp] fmt_apart (a0 :: l0) (fun y _ => fmt_apart_len_pos y)) as Hc.
        cbn [List.length] in Hc. lia.
      * intros y r _ Hr0. apply papart_ok, Hr0.
Qed.

Lemma ff_head_nsp p r : exists t tl, ff p ++ r = t :: tl /\ t <> TSp.
Proof.
  destruct p; cbn [fmt_fpat app]; try (eexists _, _; split; [reflexivity|discriminate]).
  apply fmt_head_nsp.
Qed.

(* ------------------------------------------------------------------ state machines: transitions, guards, arms *)
Fixpoint chainP {A} (ok : A -> A -> Prop) (l : list A) : Prop :=
  match l with x :: ((y :: _) as r) => ok x y /\ chainP ok r | _ => True end.

(* list lemma for printers whose follow condition depends on the next element *)
Lemma psep_ok_chain {A} (g : A -> list tok) (septoks : list tok) (sepf : list tok -> option (list tok))
      (p : parser A) (F : A -> list tok -> Prop) (ok : A -> A -> Prop) :
  (forall r, sepf (septoks ++ r) = Some r) ->
  forall xs m rest,
    List.length xs <= m ->
    chainP ok xs ->
    (forall x r, In x xs -> F x r -> p (g x ++ r) = Some (x, r)) ->
    (forall x y r, ok x y -> F x (septoks ++ g y ++ r)) ->
    (forall x, In x xs -> F x rest) ->
    match sepf rest with Some r => p r = None | None => True end ->
    psep m sepf p (flat_map (fun x => septoks ++ g x) xs ++ rest) = (xs, rest).
Proof.
  intros Hsep. induction xs as [|x xs IH]; intros m rest Hm Hch Hp HF Hlast Hstop.
  - cbn [flat_map app]. destruct m as [|m]; [reflexivity|]. cbn [psep].
    destruct (sepf rest) as [r|]; [|reflexivity]. rewrite Hstop. reflexivity.
  - destruct m as [|m]; [cbn in Hm; lia|].
    cbn [flat_map]. rewrite <- !app_assoc. cbn [psep]. rewrite Hsep.
    assert (HF1 : F x (flat_map (fun x0 => septoks ++ g x0) xs ++ rest)).
    { destruct xs as [|y ys]; [apply Hlast; left; reflexivity|].
      cbn [flat_map]. rewrite <- !app_assoc. apply HF. destruct Hch as [Hxy _]. exact Hxy. }
    rewrite (Hp x _ (or_introl eq_refl) HF1).
    rewrite IH; [reflexivity| cbn in Hm; lia | | | exact HF | | exact Hstop].
    + destruct xs as [|y ys]; [exact I|]. destruct Hch as [_ Hc]. exact Hc.
    + intros y r Hy. apply Hp. right; exact Hy.
    + intros y Hy. apply Hlast. right; exact Hy.
Qed.

Lemma plist1_ok_chain {A} (g : A -> list tok) (septoks : list tok) (sepf : list tok -> option (list tok))
      (p : parser A) (F : A -> list tok -> Prop) (ok : A -> A -> Prop) :
  (forall r, sepf (septoks ++ r) = Some r) ->
  forall x xs m rest,
    List.length xs <= m ->
    chainP ok (x :: xs) ->
    (forall y r, In y (x :: xs) -> F y r -> p (g y ++ r) = Some (y, r)) ->
    (forall y z r, ok y z -> F y (septoks ++ g z ++ r)) ->
    (forall y, In y (x :: xs) -> F y rest) ->
    match sepf rest with Some r => p r = None | None => True end ->
    plist1 m sepf p (join septoks (map g (x :: xs)) ++ rest) = Some (x :: xs, rest).
Proof.
  intros Hsep x xs m rest Hm Hch Hp HF Hlast Hstop.
  rewrite join_map_cons, <- app_assoc. unfold plist1.
  assert (HF1 : F x (flat_map (fun y => septoks ++ g y) xs ++ rest)).
  { destruct xs as [|y ys]; [apply Hlast; left; reflexivity|].
    cbn [flat_map]. rewrite <- !app_assoc. apply HF. destruct Hch as [Hxy _]. exact Hxy. }
  rewrite (Hp x _ (or_introl eq_refl) HF1).
  rewrite (psep_ok_chain g septoks sepf p F ok Hsep xs m rest Hm); [reflexivity| | | exact HF | | exact Hstop].
  - destruct xs as [|y ys]; [exact I|]. destruct Hch as [_ Hc]. exact Hc.
  - intros y r Hy. apply Hp. right; exact Hy.
  - intros y Hy. apply Hlast. right; exact Hy.
Qed.

Lemma tkind_of_tsym k : tkind_of (tsym false k) = Some k.
Proof. destruct k; reflexivity. Qed.

Lemma tsym_nop k : forall o, tsym false k <> SOp o.
Proof. destruct k; discriminate. Qed.

Lemma fmt_trans_len t : 4 <= List.length (fmt_trans false t).
Proof. unfold fmt_trans. cbn [List.length]. pose proof (fmt_fpat_len_pos (snd t)). lia. Qed.

Lemma ptrans_ok n t r v :
  wf_fpat v (snd t) = true -> List.length (fmt_trans false t) < n -> R_exp r ->
  ptrans n (fmt_trans false t ++ r) = Some (t, r).
Proof.
  destruct t as [k p]. unfold fmt_trans. cbn [fst snd]. intros Hw Hn Hr.
  cbn [List.length] in Hn. cbn [app]. unfold ptrans. rewrite tkind_of_tsym.
  rewrite (fpat_all_ok p v Hw n r) by (try lia; assumption). reflexivity.
Qed.

(* what follows a guard or an arm: a line break, or the final period of the implementation *)
Definition fsm_follow (r : list tok) : Prop :=
  match r with TNl :: _ => True | TSym Dot :: TNl :: _ => True | _ => False end.

Lemma follow_cases r : fsm_follow r -> (exists r0, r = TNl :: r0) \/ (exists r0, r = TSym Dot :: TNl :: r0).
Proof.
  intros H. destruct r as [|t r]; [contradiction|]. destruct t as [| | | | | |s|]; try contradiction.
  - left. eexists. reflexivity.
  - destruct s; try contradiction. destruct r as [|t2 r]; [contradiction|]. destruct t2; try contradiction.
    right. eexists. reflexivity.
Qed.

Lemma follow_R r : fsm_follow r -> R_exp r.
Proof. intros H. destruct (follow_cases r H) as [[r0 ->]|[r0 ->]]; [apply R_nl | apply R_dot_nl]. Qed.
Lemma follow_ptrans n r : fsm_follow r -> ptrans n r = None.
Proof. intros H. destruct (follow_cases r H) as [[r0 ->]|[r0 ->]]; reflexivity. Qed.
Lemma follow_fat r : fsm_follow r -> starts_fat r = false.
Proof. intros H. destruct (follow_cases r H) as [[r0 ->]|[r0 ->]]; reflexivity. Qed.
Lemma follow_pguard n r : fsm_follow r -> pguard n r = None.
Proof. intros H. destruct (follow_cases r H) as [[r0 ->]|[r0 ->]]; reflexivity. Qed.

Lemma R_transs t ts r : R_exp (fmt_transs false (t :: ts) ++ r).
Proof. unfold fmt_transs, fmt_trans. cbn [flat_map app]. apply R_stmt_op, tsym_nop. Qed.

Lemma hd_transs t ts r : hd_is t_nl (fmt_transs false (t :: ts) ++ r) = false.
Proof. reflexivity. Qed.

(* the transitions of a plain arm *)
Lemma transs_ok n ts r :
  wf_transs ts = true -> List.length (fmt_transs false ts) < n -> fsm_follow r ->
  plist1 n sep_none (ptrans n) (fmt_transs false ts ++ r) = Some (ts, r).
Proof.
  intros Hw Hn Hr. unfold wf_transs in Hw. apply andb_prop in Hw as [Hne Hv].
  destruct ts as [|t ts]; [discriminate|]. unfold fmt_transs in *.
  rewrite (flat_map_join_nil (fmt_trans false) (t :: ts)).
  apply (plist1_ok (fmt_trans false) [] sep_none (ptrans n) R_exp); try reflexivity.
  - pose proof (length_flat_map_ge (fmt_trans false) (t :: ts) (fun y => Nat.le_trans _ _ _ (le_S _ _ (le_S _ _ (le_S _ _ (le_n 1)))) (fmt_trans_len y))) as Hc.
    cbn [List.length] in Hc. lia.
  - intros y r0 Hin Hr0. rewrite forallb_forall in Hv. specialize (Hv _ Hin). apply andb_prop in Hv as [Hv _].
    pose proof (flat_len_in (fmt_trans false) (t :: ts) y Hin).
    apply (ptrans_ok n y r0 true); [exact Hv | lia | exact Hr0].
  - intros y r0 _. unfold fmt_trans. cbn [app]. apply R_stmt_op, tsym_nop.
  - apply follow_R, Hr.
  - unfold sep_none. apply follow_ptrans, Hr.
Qed.

(* the transitions of a guard: `-> target` must not be followed by ` =>` *)
Definition gok (t1 t2 : trans) : Prop := next_target t1 = true -> tsym false (fst t2) <> FatArrow.
Definition gF (t : trans) (r : list tok) : Prop := R_exp r /\ (next_target t = true -> starts_fat r = false).

Lemma gchain_chainP ts : gchain ts = true -> chainP gok ts.
Proof.
  induction ts as [|t1 ts IH]; [intros _; exact I|]. destruct ts as [|t2 ts']; [intros _; exact I|].
  cbn [gchain]. intros H. apply andb_prop in H as [H1 H2]. split; [|apply IH, H2].
  intros Hn. rewrite Hn in H1. cbn [andb] in H1. apply Bool.eqb_prop in H1.
  destruct t2 as [k2 p2]. unfold is_koutd in H1. cbn [fst] in *.
  destruct k2; first [discriminate H1 | (cbn [tsym]; discriminate)].
Qed.

Lemma ptrans_g_ok n t r v :
  wf_fpat v (snd t) = true -> List.length (fmt_trans false t) < n -> gF t r ->
  ptrans_g n (fmt_trans false t ++ r) = Some (t, r).
Proof.
  intros Hw Hn [Hr Hf]. unfold ptrans_g. rewrite (ptrans_ok n t r v Hw Hn Hr).
  destruct (next_target t) eqn:E; [rewrite (Hf eq_refl)|]; reflexivity.
Qed.

Lemma gtranss_ok n ts r :
  wf_gtranss ts = true -> List.length (fmt_transs false ts) < n -> fsm_follow r ->
  plist1 n sep_none (ptrans_g n) (fmt_transs false ts ++ r) = Some (ts, r).
Proof.
  intros Hw Hn Hr. destruct ts as [|t ts]; [discriminate|].
  cbn [wf_gtranss] in Hw. apply andb_prop in Hw as [Hw Hch]. apply andb_prop in Hw as [_ Hv].
  unfold fmt_transs in *. rewrite (flat_map_join_nil (fmt_trans false) (t :: ts)).
  apply (plist1_ok_chain (fmt_trans false) [] sep_none (ptrans_g n) gF gok); try reflexivity.
  - pose proof (length_flat_map_ge (fmt_trans false) (t :: ts) (fun y => Nat.le_trans _ _ _ (le_S _ _ (le_S _ _ (le_S _ _ (le_n 1)))) (fmt_trans_len y))) as Hc.
    cbn [List.length] in Hc. lia.
  - apply gchain_chainP, Hch.
  - intros y r0 Hin HF0. rewrite forallb_forall in Hv.
    pose proof (flat_len_in (fmt_trans false) (t :: ts) y Hin).
    apply (ptrans_g_ok n y r0 true); [apply Hv, Hin | lia | exact HF0].
  - intros y z r0 Hok. split.
    + unfold fmt_trans. cbn [app]. apply R_stmt_op, tsym_nop.
    + intros Hy. specialize (Hok Hy). unfold fmt_trans. cbn [app starts_fat].
      destruct (tsym false (fst z)); first [reflexivity | (exfalso; apply Hok; reflexivity)].
  - intros y _. split; [apply follow_R, Hr | intros _; apply follow_fat, Hr].
  - unfold sep_none, ptrans_g. rewrite follow_ptrans by exact Hr. reflexivity.
Qed.

Lemma fmt_guard_len g : 7 <= List.length (fmt_guard false g).
Proof. destruct g as [[last c] ts]. unfold fmt_guard. cbn [List.length]. rewrite app_length. pose proof (fmt_fpat_len_pos c). lia. Qed.

Lemma pguard_ok n g r :
  wf_guard g = true -> List.length (fmt_guard false g) < n -> fsm_follow r ->
  pguard n (fmt_guard false g ++ r) = Some (g, r).
Proof.
  destruct g as [[last c] ts]. unfold wf_guard, fmt_guard. intros Hw Hn Hr.
  apply andb_prop in Hw as [Hc Hts].
  cbn [List.length] in Hn. rewrite app_length in Hn.
  cbn [app]. unfold pguard. rewrite pbr_ok. rewrite <- app_assoc.
  destruct ts as [|t ts']; [discriminate Hts|].
  rewrite (fpat_all_ok c false Hc n) by (try lia; apply R_transs).
  rewrite (gtranss_ok n (t :: ts') r Hts) by (try lia; assumption). reflexivity.
Qed.

Definition arm_follow (n : nat) (r : list tok) : Prop :=
  (exists r0, r = TNl :: r0 /\ pguard n r0 = None) \/ (exists r0, r = TSym Dot :: TNl :: r0).

Lemma arm_follow_follow n r : arm_follow n r -> fsm_follow r.
Proof. intros [(r0 & -> & _)|(r0 & ->)]; exact I. Qed.

Lemma fmt_arm_len a : 3 <= List.length (fmt_arm false a).
Proof.
  destruct a as [p ts|p gs]; cbn [fmt_arm List.length]; rewrite app_length; pose proof (fmt_fpat_len_pos p); lia.
Qed.

Lemma pguard_arm_none n a r : pguard n (fmt_arm false a ++ r) = None.
Proof.
  destruct a as [p ts|p gs]; cbn [fmt_arm app]; rewrite <- app_assoc.
  - destruct (ff_head_nsp p (fmt_transs false ts ++ r)) as (t & tl & -> & Ht). destruct t; try reflexivity. contradiction.
  - destruct (ff_head_nsp p ((TNl :: join [TNl] (map (fmt_guard false) gs) ++ match gs with [_] => [TNl] | _ => [] end) ++ r)) as (t & tl & -> & Ht).
    destruct t; try reflexivity. contradiction.
Qed.

Lemma parm_ok n a r :
  wf_arm a = true -> List.length (fmt_arm false a) < n -> arm_follow n r ->
  parm n (fmt_arm false a ++ r) = Some (a, r).
Proof.
  intros Hw Hn Hr. pose proof (arm_follow_follow n r Hr) as Hfol.
  destruct a as [p ts|p gs]; cbn [wf_arm fmt_arm] in *.
  - (* transitions *)
    apply andb_prop in Hw as [Hp Hts].
    cbn [List.length] in Hn. rewrite app_length in Hn.
    cbn [app]. unfold parm. rewrite <- app_assoc.
    assert (Hne : ts <> []) by (intros ->; discriminate Hts). destruct ts as [|t ts']; [contradiction|].
    rewrite (fpat_all_ok p false Hp n) by (try lia; apply R_transs).
    rewrite hd_transs.
    rewrite (transs_ok n (t :: ts') r Hts) by (try lia; assumption). reflexivity.
  - (* guards *)
    apply andb_prop in Hw as [Hw Hgs]. apply andb_prop in Hw as [Hp Hfl].
    cbn [List.length] in Hn. rewrite !app_length in Hn. cbn [List.length] in Hn. rewrite app_length in Hn.
    cbn [app]. unfold parm. rewrite <- app_assoc.
    rewrite (fpat_all_ok p false Hp n) by (try lia; cbn [app]; apply R_nl).
    cbn [app hd_is t_nl List.tl]. rewrite <- app_assoc.
    destruct gs as [|g0 gs']; [discriminate Hfl|].
    rewrite (plist1_ok (fmt_guard false) [TNl] sep_nl (pguard n) fsm_follow); try reflexivity.
    + destruct gs' as [|g1 gs'']; [|reflexivity]. reflexivity.
    + pose proof (join_len_count [TNl] (fmt_guard false) (g0 :: gs') (fun y _ => Nat.le_trans _ _ _ (le_S _ _ (le_S _ _ (le_S _ _ (le_S _ _ (le_S _ _ (le_S _ _ (le_n 1))))))) (fmt_guard_len y))) as Hc.
      cbn [List.length] in Hc. lia.
    + intros g r0 Hin Hr0. rewrite forallb_forall in Hgs.
      pose proof (join_len_in [TNl] (fmt_guard false) (g0 :: gs') g Hin).
      apply pguard_ok; [apply Hgs, Hin | lia | exact Hr0].
    + destruct gs' as [|g1 gs'']; [exact I | exact Hfol].
    + destruct gs' as [|g1 gs''].
      * cbn [app sep_nl]. apply follow_pguard, Hfol.
      * cbn [app]. destruct Hr as [(r0 & -> & Hg)|(r0 & ->)]; [exact Hg | exact I].
Qed.

(* ------------------------------------------------------------------ state machines: header, state definitions *)
Lemma cvt_vars_ok ins : cvt_vars (map var_arg ins) = Some ins.
Proof. induction ins as [|[x k] ins IH]; cbn; [reflexivity|]. rewrite IH. reflexivity. Qed.

Lemma fsm_header_ok nm ins : fsm_header (fsm_head nm ins) = Some (nm, ins).
Proof. unfold fsm_header, fsm_head. rewrite cvt_vars_ok. reflexivity. Qed.

Lemma wf_fsm_head nm ins : wf (fsm_head nm ins) = true.
Proof. unfold fsm_head. cbn [wf]. induction ins as [|[x k] ins IH]; cbn; [reflexivity|exact IH]. Qed.

Lemma pfvar_ok v r : post0 r = true -> pfvar (fmt_fvar v ++ r) = Some (v, r).
Proof.
  intros Hp. destruct v as [x k]. unfold fmt_fvar, pfvar. cbn [fst snd app]. rewrite optkind_ok by auto. reflexivity.
Qed.

Lemma fmt_fvar_len v : 1 <= List.length (fmt_fvar v).
Proof. unfold fmt_fvar. cbn. lia. Qed.

Lemma fmt_state_len s : 8 <= List.length (fmt_state s).
Proof. destruct s as [[last nm] vs]. unfold fmt_state. cbn [List.length]. lia. Qed.

Lemma pstate_ok n s r :
  wf_state s = true -> List.length (fmt_state s) <= n -> fsm_follow r ->
  pstate n (fmt_state s ++ r) = Some (s, r).
Proof.
  destruct s as [[last nm] vs]. unfold wf_state, fmt_state. cbn [snd]. intros Hw Hn Hr.
  cbn [app]. unfold pstate. rewrite pbr_ok.
  destruct vs as [vs|].
  - destruct vs as [|v0 vs']; [discriminate|].
    cbn [List.length] in Hn. rewrite app_length in Hn. cbn [List.length] in Hn.
    cbn [app hd_is t_lp List.tl]. rewrite <- app_assoc. cbn [app].
    rewrite (plist1_ok fmt_fvar [TSym Comma; TSp] sep_comma_sp pfvar (fun r0 => post0 r0 = true)); try reflexivity.
    + pose proof (join_len_count [TSym Comma; TSp] fmt_fvar (v0 :: vs') (fun y _ => fmt_fvar_len y)) as Hc.
      cbn [List.length] in Hc. lia.
    + intros v r0 _ Hr0. apply pfvar_ok, Hr0.
  - cbn [app]. rewrite (hd_lp_post0 _ (R_exp_post0 _ (follow_R _ Hr))). reflexivity.
Qed.

Lemma pstates_ok n states rest :
  states <> [] -> forallb wf_state states = true -> List.length (join [TNl] (map fmt_state states)) <= n ->
  plist1 n sep_nl (pstate n) (join [TNl] (map fmt_state states) ++ TSym Dot :: TNl :: rest)
  = Some (states, TSym Dot :: TNl :: rest).
Proof.
  intros Hne Hsts Hn. destruct states as [|s0 states']; [contradiction|].
  apply (plist1_ok fmt_state [TNl] sep_nl (pstate n) fsm_follow); try reflexivity.
  - pose proof (join_len_count [TNl] fmt_state (s0 :: states') (fun y _ => Nat.le_trans _ _ _ (le_S _ _ (le_S _ _ (le_S _ _ (le_S _ _ (le_S _ _ (le_S _ _ (le_S _ _ (le_n 1)))))))) (fmt_state_len y))) as Hc.
    cbn [List.length] in Hc. lia.
  - intros s r Hin Hr. rewrite forallb_forall in Hsts.
    pose proof (join_len_in [TNl] fmt_state (s0 :: states') s Hin).
    apply pstate_ok; [apply Hsts, Hin | lia | exact Hr].
Qed.

Lemma parms_ok n arms rest :
  arms <> [] -> forallb wf_arm arms = true -> List.length (join [TNl] (map (fmt_arm false) arms)) < n ->
  plist1 n sep_nl (parm n) (join [TNl] (map (fmt_arm false) arms) ++ TSym Dot :: TNl :: rest)
  = Some (arms, TSym Dot :: TNl :: rest).
Proof.
  intros Hne Harms Hn. destruct arms as [|a0 arms']; [contradiction|].
  apply (plist1_ok (fmt_arm false) [TNl] sep_nl (parm n) (arm_follow n)); try reflexivity.
  - pose proof (join_len_count [TNl] (fmt_arm false) (a0 :: arms') (fun y _ => Nat.le_trans _ _ _ (le_S _ _ (le_S _ _ (le_n 1))) (fmt_arm_len y))) as Hc.
    cbn [List.length] in Hc. lia.
  - intros a r Hin Hr. rewrite forallb_forall in Harms.
    pose proof (join_len_in [TNl] (fmt_arm false) (a0 :: arms') a Hin).
    apply parm_ok; [apply Harms, Hin | lia | exact Hr].
  - intros a r _. left. eexists. split; [reflexivity|]. apply pguard_arm_none.
  - right. eexists. reflexivity.
Qed.

Lemma fsm_head_cons nm ins r : exists tl, f (fsm_head nm ins) ++ r = TSym Hash :: tl.
Proof. unfold fsm_head. cbn [fmt app]. eexists. reflexivity. Qed.

Lemma pstmt_ok s n rest :
  wf_stmt s = true -> List.length (fmt_stmt false s) <= n ->
  pstmt n (fmt_stmt false s ++ TNl :: rest) = Some (s, TNl :: rest).
Proof.
  intros Hw Hn. destruct s as [mu x k e|x subs e|x subs a e|e|c|nm vs|fn args out arms|nm ins out states|nm ins start arms]; cbn [wf_stmt fmt_stmt] in *.
  - (* define *)
    assert (Hlen : List.length (f (EVar x k)) + 3 + List.length (fmt_rhs false e) <= n).
    { destruct mu; cbn [app List.length fmt] in *; rewrite app_length in Hn; cbn [List.length] in Hn; lia. }
    destruct mu; cbn [app].
    + rewrite pstmt_disp by exact I. unfold pstmt_main. rewrite <- app_assoc. cbn [app].
      change (TId x :: fmt_okind k ++ TSp :: TSym Define :: TSp :: fmt_rhs false e ++ TNl :: rest)
        with (f (EVar x k) ++ TSp :: TSym Define :: TSp :: fmt_rhs false e ++ TNl :: rest).
      rewrite (pexpr_at (EVar x k) n) by (try reflexivity; try lia; apply R_stmt_op; discriminate).
      rewrite (prhs_ok e n) by (try assumption; lia). reflexivity.
    + rewrite pstmt_disp by exact I. unfold pstmt_main. rewrite <- app_assoc. cbn [app].
      change (TId x :: fmt_okind k ++ TSp :: TSym Define :: TSp :: fmt_rhs false e ++ TNl :: rest)
        with (f (EVar x k) ++ TSp :: TSym Define :: TSp :: fmt_rhs false e ++ TNl :: rest).
      rewrite (pexpr_at (EVar x k) n) by (try reflexivity; try lia; apply R_stmt_op; discriminate).
      rewrite (prhs_ok e n) by (try assumption; lia). reflexivity.
  - (* assign *)
    apply andb_prop in Hw as [Hwt Hwe].
    cbn [List.length] in Hn. rewrite app_length in Hn. cbn [List.length] in Hn.
    cbn [app]. rewrite pstmt_disp by exact I. unfold pstmt_main. rewrite <- app_assoc. cbn [app].
    rewrite (target_ok x subs n) by (first [assumption | cbn [List.length]; lia | apply R_stmt_op; discriminate]).
    destruct subs as [|s0 ss]; rewrite (prhs_ok e n) by (try assumption; lia); reflexivity.
  - (* op-assign *)
    apply andb_prop in Hw as [Hwt Hwe].
    cbn [List.length] in Hn. rewrite app_length in Hn. cbn [List.length] in Hn.
    cbn [app]. rewrite pstmt_disp by exact I. unfold pstmt_main. rewrite <- app_assoc. cbn [app].
    rewrite (target_ok x subs n) by (first [assumption | cbn [List.length]; lia | apply R_stmt_op; discriminate]).
    destruct subs as [|s0 ss]; rewrite (prhs_ok e n) by (try assumption; lia); reflexivity.
  - (* expression / table / match / comprehension statement *)
    destruct (rhs_head e (TNl :: rest)) as (t & tl & Heq & Hst).
    pose proof (rhs_follow e n rest Hw Hn) as Hfol. pose proof (prhs_ok e n rest Hw Hn) as Hrhs.
    rewrite Heq in *.
    rewrite pstmt_disp.
    + rewrite main_default; [rewrite Hrhs; reflexivity | | exact Hfol].
      destruct t as [| | | | | |[]|]; try exact I; discriminate Hst.
    + destruct t as [| | | | | |[]|]; try exact I; try discriminate Hst. destruct o; try exact I; discriminate Hst.
  - (* comment *) reflexivity.
  - (* enum *)
    destruct vs as [|v0 vs']; [discriminate|].
    cbn [List.length] in Hn. rewrite ?app_length in Hn.
    cbn [app pstmt].
    rewrite (plist1_ok fmt_variant [TSp; TSym Bar; TSp] sep_bar pvariant (fun r => post0 r = true)); try reflexivity.
    + pose proof (join_len_count [TSp; TSym Bar; TSp] fmt_variant (v0 :: vs') (fun y _ => fmt_variant_len y)) as Hc.
      cbn [List.length] in Hc. lia.
    + intros v r _ Hr. apply pvariant_ok, Hr.
  - (* function definition with arms *)
    apply andb_prop in Hw as [Hflags Harms].
    pose proof (last_flags_ne _ _ Hflags) as Hne. destruct arms as [|a0 arms']; [contradiction|].
    rewrite !app_length in Hn. cbn [List.length] in Hn. rewrite !app_length in Hn. cbn [List.length] in Hn.
    repeat (progress (try rewrite <- !app_assoc; cbn [app])).
    destruct (fmt_head_st (ECall fn (map arg_ex args))
                (TSp :: TSym FatArrow :: TSp :: fmt_kind out ++ TNl :: join [TNl] (map (fmt_farm false) (a0 :: arms')) ++ [TSym Dot] ++ TNl :: rest))
      as (t & tl & Heq & Hst).
    cbn [app] in Heq. rewrite Heq. rewrite pstmt_disp by (destruct t as [| | | | | |[]|]; try exact I; try discriminate Hst; destruct o; try exact I; discriminate Hst).
    unfold pstmt_main. rewrite (no_tilde _ t tl eq_refl Hst). rewrite <- Heq.
    assert (Hl1 : List.length (f (ECall fn (map arg_ex args))) <= n) by lia.
    rewrite (pexpr_at (ECall fn (map arg_ex args)) n _ (wf_header fn args) eq_refl Hl1) by (apply R_stmt_op; discriminate).
    rewrite cvt_args_ok, pkind_ok.
    rewrite (plist1_ok (fmt_farm false) [TNl] sep_nl (pfarm n) R_exp); try reflexivity.
    + rewrite ?app_length in Hn. pose proof (join_len_count [TNl] (fmt_farm false) (a0 :: arms') (fun y _ => fmt_farm_len y)) as Hc. cbn [List.length] in Hc. lia.
    + intros a r Hin Hr. rewrite forallb_forall in Harms. specialize (Harms _ Hin).
      pose proof (join_len_in [TNl] (fmt_farm false) (a0 :: arms') a Hin).
      rewrite ?app_length in Hn. apply pfarm_ok; [exact Harms | lia | exact Hr].
    + intros; apply R_nl.
    + apply R_dot_nl.
  - (* state-machine specification *)
    apply andb_prop in Hw as [Hflags Hsts].
    pose proof (last_flags_ne _ _ Hflags) as Hne.
    destruct out as [k|].
    + rewrite !app_length in Hn. cbn [List.length] in Hn. rewrite !app_length in Hn. cbn [List.length] in Hn.
      repeat (progress (try rewrite <- !app_assoc; cbn [app])).
      match goal with |- pstmt _ (f _ ++ ?tail) = _ => destruct (fsm_head_cons nm ins tail) as (tl & Heq) end.
      rewrite Heq. rewrite pstmt_disp by exact I. unfold pstmt_main.
      rewrite <- Heq.
      rewrite (pexprF_at (fsm_head nm ins) n _ (wf_fsm_head nm ins) eq_refl) by (try lia; apply R_stmt_op; discriminate).
      rewrite fsm_header_ok, pkind_ok. unfold pspec_states.
      rewrite pstates_ok by (first [exact Hne | exact Hsts | lia]). reflexivity.
    + rewrite !app_length in Hn. cbn [List.length] in Hn. rewrite !app_length in Hn. cbn [List.length] in Hn.
      repeat (progress (try rewrite <- !app_assoc; cbn [app])).
      match goal with |- pstmt _ (f _ ++ ?tail) = _ => destruct (fsm_head_cons nm ins tail) as (tl & Heq) end.
      rewrite Heq. rewrite pstmt_disp by exact I. unfold pstmt_main.
      rewrite <- Heq.
      rewrite (pexprF_at (fsm_head nm ins) n _ (wf_fsm_head nm ins) eq_refl) by (try lia; apply R_stmt_op; discriminate).
      rewrite fsm_header_ok. unfold pspec_states.
      rewrite pstates_ok by (first [exact Hne | exact Hsts | lia]). reflexivity.
  - (* state-machine implementation *)
    apply andb_prop in Hw as [Hw Harms]. apply andb_prop in Hw as [Hst Hlen].
    assert (Hne : arms <> []) by (intros ->; discriminate Hlen).
    rewrite !app_length in Hn. cbn [List.length] in Hn. rewrite !app_length in Hn. cbn [List.length] in Hn.
    rewrite !app_length in Hn. cbn [List.length] in Hn.
    repeat (progress (try rewrite <- !app_assoc; cbn [app])).
    match goal with |- pstmt _ (f _ ++ ?tail) = _ => destruct (fsm_head_cons nm ins tail) as (tl & Heq) end.
    rewrite Heq. rewrite pstmt_disp by exact I. unfold pstmt_main.
    rewrite <- Heq.
    rewrite (pexprF_at (fsm_head nm ins) n _ (wf_fsm_head nm ins) eq_refl) by (try lia; apply R_stmt_op; discriminate).
    rewrite fsm_header_ok. unfold pimpl.
    rewrite (fpat_all_ok start true Hst n) by (try lia; apply R_nl).
    rewrite parms_ok by (first [exact Hne | exact Harms | lia]). reflexivity.
Qed.

Theorem fmt_parse_thm p : wf_prog p = true -> parse_tok (fmt_prog false p) = Some p.
Proof.
  intros Hw. unfold parse_tok, fmt_prog.
  set (g := fun s => fmt_stmt false s ++ [TNl]). set (n := List.length (flat_map g p)).
  assert (H : psep n sep_none (pline n) (flat_map g p ++ []) = (p, [])).
  { apply (psep_ok g [] sep_none (pline n) (fun _ => True)); auto.
    - unfold n. apply length_flat_map_ge. intros s. unfold g. rewrite app_length. cbn. lia.
    - intros s r Hin _. unfold g, pline. rewrite <- ?app_assoc. cbn [app].
      unfold wf_prog in Hw. rewrite forallb_forall in Hw.
      rewrite pstmt_ok; [reflexivity | apply Hw, Hin |].
      pose proof (flat_len_in g p s Hin) as Hl. unfold g at 1 in Hl. rewrite app_length in Hl. fold n in Hl. lia.
    - unfold sep_none, pline, pstmt, pstmt_main, prhs, pexpr. cbn [app]. rewrite !pexp_none by (first [apply pfac_nil | reflexivity]). reflexivity. }
  rewrite app_nil_r in H. rewrite H. reflexivity.
Qed.

Theorem fmt_idempotent_thm p p' :
  wf_prog p = true -> parse_tok (fmt_prog false p) = Some p' -> fmt_prog false p' = fmt_prog false p.
Proof. intros Hw H. rewrite fmt_parse_thm in H by exact Hw. injection H as <-. reflexivity. Qed.

(* the row structure of a matrix literal survives printing and re-reading *)
Theorem matrix_rows_preserved_thm rows rows' :
  wf (EMat rows) = true ->
  parse_tok (fmt_prog false [SExpr (EMat rows)]) = Some [SExpr (EMat rows')] ->
  map (@List.length ex) rows' = map (@List.length ex) rows /\ rows' = rows.
Proof.
  intros Hw H. rewrite fmt_parse_thm in H.
  - injection H as <-. split; reflexivity.
  - cbn [wf_prog forallb wf_stmt wf_rhs is_expr is_formula is_fac]. rewrite Hw. reflexivity.
Qed.

Theorem table_rows_preserved_thm mu x k fs rows s' :
  wf_rhs (RTable fs rows) = true ->
  parse_tok (fmt_prog false [SDefine mu x k (RTable fs rows)]) = Some [s'] ->
  s' = SDefine mu x k (RTable fs rows).
Proof.
  intros Hw H. rewrite fmt_parse_thm in H.
  - injection H as <-. reflexivity.
  - cbn [wf_prog forallb wf_stmt]. rewrite Hw. reflexivity.
Qed.

(* ------------------------------------------------------------------ formatter.rs agrees with the canonical printer outside the defect classes *)
Lemma nth_seq_id {A} (pan : A) (l : list A) :
  flat_map (fun c => [nth c l pan]) (seq 0 (List.length l)) = l.
Proof.
  induction l as [|a l IH]; [reflexivity|].
  cbn [List.length seq flat_map nth app]. f_equal.
  rewrite <- seq_shift, flat_map_map. cbn [nth]. exact IH.
Qed.

Lemma col_major_single {A} (pan : A) (l : list A) : col_major pan [l] = l.
Proof. unfold col_major. cbn [map]. apply nth_seq_id. Qed.

Lemma map_ext_Forall {A B} (g h : A -> B) (l : list A) : Forall (fun x => g x = h x) l -> map g l = map h l.
Proof. induction 1; cbn; congruence. Qed.

Lemma flat_map_ext_Forall {A B} (g h : A -> list B) (l : list A) :
  Forall (fun x => g x = h x) l -> flat_map g l = flat_map h l.
Proof. induction 1; cbn; congruence. Qed.

Lemma existsb_false_Forall {A} (P : A -> bool) (l : list A) : existsb P l = false -> Forall (fun x => P x = false) l.
Proof.
  induction l as [|x l IH]; cbn; intros H; constructor; apply orb_false_iff in H; tauto.
Qed.

Lemma Forall_impl2 {A} (P Q R : A -> Prop) (l : list A) :
  (forall x, P x -> Q x -> R x) -> Forall P l -> Forall Q l -> Forall R l.
Proof. intros H HP. induction HP; intros HQ; inversion HQ; subst; constructor; auto. Qed.

Lemma opsym_clean o : c_any (ETerm EAll [(o, EAll)]) = false -> opsym true o = SOp o.
Proof. destruct o; cbn; intros H; try reflexivity; discriminate. Qed.

Lemma c_any_term_ops l r : c_any (ETerm l r) = false -> Forall (fun p => opsym true (fst p) = SOp (fst p)) r.
Proof.
  intros H. induction r as [|[o x] r IH]; constructor.
  - cbn [fst]. apply opsym_clean. unfold c_any, model_classes in *. cbn in *.
    destruct o; try reflexivity; cbn in H; try discriminate;
      repeat (rewrite ?orb_true_r, ?orb_true_l in H; cbn in H); discriminate.
  - apply IH. unfold c_any, model_classes in *. cbn in *.
    repeat (apply orb_false_iff in H as [? H] || apply orb_false_iff in H as [H ?]).
    repeat (match goal with Hx : _ || _ = false |- _ => apply orb_false_iff in Hx as [? ?] end).
    repeat (apply orb_false_iff; split); auto.
Qed.

Lemma fmt_agree : forall e, exists_ex c_any e = false -> fmt true e = fmt false e.
Proof.
  induction e using ex_ind'; intros Hc; cbn [exists_ex] in Hc; try reflexivity.
  - (* paren *) apply orb_false_iff in Hc as [_ Hc]. cbn [fmt]. rewrite IHe by exact Hc. reflexivity.
  - apply orb_false_iff in Hc as [_ Hc]. cbn [fmt]. rewrite IHe by exact Hc. reflexivity.
  - apply orb_false_iff in Hc as [_ Hc]. cbn [fmt]. rewrite IHe by exact Hc. reflexivity.
  - apply orb_false_iff in Hc as [_ Hc]. cbn [fmt]. rewrite IHe by exact Hc. reflexivity.
  - (* term *) apply orb_false_iff in Hc as [Hany Hc]. apply orb_false_iff in Hc as [Hl Hr].
    cbn [fmt]. rewrite IHe by exact Hl. f_equal.
    apply flat_map_ext_Forall.
    pose proof (c_any_term_ops _ _ Hany) as Hops. apply existsb_false_Forall in Hr.
    rewrite Forall_forall in *. intros p Hin. rewrite (Hops _ Hin), (H _ Hin (Hr _ Hin)). reflexivity.
  - (* mat *) apply orb_false_iff in Hc as [Hany Hc].
    destruct rows as [|r1 [|r2 rs]]; [reflexivity| |discriminate Hany].
    cbn [fmt map]. rewrite col_major_single. cbn [join].
    cbn [existsb] in Hc. rewrite orb_false_r in Hc. apply existsb_false_Forall in Hc.
    inversion H as [|? ? H1 _]; subst.
    rewrite (map_ext_Forall (fmt true) f r1); [reflexivity|].
    rewrite Forall_forall in *. intros x Hin. apply (H1 _ Hin), (Hc _ Hin).
  - (* set *) apply orb_false_iff in Hc as [_ Hc]. apply existsb_false_Forall in Hc.
    cbn [fmt]. rewrite (map_ext_Forall (fmt true) f es); [reflexivity|].
    rewrite Forall_forall in *. intros x Hin. apply (H _ Hin), (Hc _ Hin).
  - (* tup *) apply orb_false_iff in Hc as [_ Hc]. apply existsb_false_Forall in Hc.
    cbn [fmt]. rewrite (map_ext_Forall (fmt true) f es); [reflexivity|].
    rewrite Forall_forall in *. intros x Hin. apply (H _ Hin), (Hc _ Hin).
  - (* rec *) apply orb_false_iff in Hc as [_ Hc]. apply existsb_false_Forall in Hc.
    cbn [fmt]. f_equal. f_equal. f_equal. apply map_ext_Forall.
    rewrite Forall_forall in *. intros b Hin. rewrite (H _ Hin (Hc _ Hin)). reflexivity.
  - (* map *) apply orb_false_iff in Hc as [_ Hc]. apply existsb_false_Forall in Hc.
    cbn [fmt]. destruct ms as [|m0 ms']; [reflexivity|]. f_equal. f_equal. f_equal. apply map_ext_Forall.
    rewrite Forall_forall in *. intros mp Hin. specialize (Hc _ Hin). apply orb_false_iff in Hc as [Hk Hv].
    destruct (H _ Hin) as [H1 H2]. rewrite (H1 Hk), (H2 Hv). reflexivity.
  - (* tuple-struct *) apply orb_false_iff in Hc as [_ Hc]. cbn [fmt]. rewrite IHe by exact Hc. reflexivity.
  - (* call *) apply orb_false_iff in Hc as [Hany Hc]. apply existsb_false_Forall in Hc.
    assert (Hn : Forall (fun a => fst a = None) args).
    { unfold c_any, model_classes in Hany. cbn in Hany. rewrite orb_false_r in Hany.
      apply existsb_false_Forall in Hany. eapply Forall_impl; [|exact Hany].
      intros [[nm|] v]; cbn; [discriminate|reflexivity]. }
    cbn [fmt]. f_equal. f_equal. f_equal. f_equal. apply map_ext_Forall.
    rewrite Forall_forall in *. intros a Hin. rewrite (Hn _ Hin). apply (H _ Hin), (Hc _ Hin).
  - (* slice *) apply orb_false_iff in Hc as [_ Hc]. apply existsb_false_Forall in Hc.
    cbn [fmt]. f_equal. apply flat_map_ext_Forall.
    rewrite Forall_forall in *. intros x0 Hin. apply (H _ Hin), (Hc _ Hin).
  - (* brk *) apply orb_false_iff in Hc as [_ Hc]. apply existsb_false_Forall in Hc.
    cbn [fmt]. rewrite (map_ext_Forall (fmt true) f ixs); [reflexivity|].
    rewrite Forall_forall in *. intros x Hin. apply (H _ Hin), (Hc _ Hin).
  - (* range *) apply orb_false_iff in Hc as [Hany Hc]. apply orb_false_iff in Hc as [Hc Hi]. apply orb_false_iff in Hc as [Ha Hb].
    destruct inc as [[i1 s]|]; [discriminate Hany|].
    cbn [fmt]. rewrite IHe1, IHe2 by assumption. reflexivity.
  - (* state-machine instance *)
    destruct args as [l|]; [|reflexivity].
    cbn [exists_ex] in Hc. apply orb_false_iff in Hc as [_ Hc]. apply existsb_false_Forall in Hc.
    cbn [fmt]. f_equal. f_equal. f_equal. f_equal. f_equal. apply map_ext_Forall.
    cbn [fsm_args] in H. rewrite Forall_forall in *. intros a Hin. rewrite (H _ Hin (Hc _ Hin)). reflexivity.
Qed.

Lemma fmt_subs_agree subs : existsb (exists_ex c_any) subs = false -> fmt_subs true subs = fmt_subs false subs.
Proof.
  intros H. apply existsb_false_Forall in H. unfold fmt_subs. apply flat_map_ext_Forall.
  eapply Forall_impl; [|exact H]. intros x Hx. apply fmt_agree, Hx.
Qed.

Lemma Forall_concat_in {A} (P : A -> Prop) (ls : list (list A)) l : Forall P (List.concat ls) -> In l ls -> Forall P l.
Proof.
  induction ls as [|x ls IH]; intros H Hin; [contradiction|]. cbn [List.concat] in H. apply Forall_app in H as [H1 H2].
  destruct Hin as [->|Hin]; [exact H1|apply IH; assumption].
Qed.

Definition clean (e : ex) : Prop := exists_ex c_any e = false.

Lemma fmt_header_agree fn args : fmt true (ECall fn (map arg_ex args)) = fmt false (ECall fn (map arg_ex args)).
Proof.
  cbn [fmt]. f_equal. f_equal. f_equal. f_equal. rewrite !map_map. apply map_ext. intros [x k]. reflexivity.
Qed.

Lemma fmt_rhs_agree r : Forall clean (rhs_exprs r) -> fmt_rhs true r = fmt_rhs false r.
Proof.
  intros H. destruct r as [e|fs rows|src arms|mat e qs]; cbn [rhs_exprs fmt_rhs] in *.
  - inversion H; subst. apply fmt_agree. assumption.
  - f_equal. f_equal. f_equal. f_equal. f_equal. apply flat_map_ext_Forall. rewrite Forall_forall. intros row Hin.
    unfold fmt_row. f_equal. f_equal. f_equal. apply map_ext_Forall.
    pose proof (Forall_concat_in _ _ _ H Hin) as Hr. eapply Forall_impl; [|exact Hr]. intros c Hc. apply fmt_agree, Hc.
  - inversion H as [|? ? Hs Ha]; subst. rewrite (fmt_agree src Hs). f_equal. f_equal. f_equal. f_equal. f_equal. f_equal.
    apply map_ext_Forall. rewrite Forall_forall. intros a Hin.
    assert (Hall : Forall clean (marm_exprs a)).
    { rewrite Forall_forall in *. intros x Hx. apply Ha. apply in_flat_map. exists a. split; assumption. }
    destruct a as [[[last p] g] e]. unfold marm_exprs in Hall. cbn [fst snd] in Hall. unfold fmt_marm.
    destruct g as [g|].
    + inversion Hall as [|? ? Hg Hall']; subst. inversion Hall' as [|? ? He _]; subst.
      rewrite (fmt_agree g Hg), (fmt_agree e He). reflexivity.
    + inversion Hall as [|? ? He _]; subst. rewrite (fmt_agree e He). reflexivity.
  - inversion H as [|? ? He Hq]; subst. rewrite (fmt_agree e He).
    assert (map (fmt_qual true) qs = map (fmt_qual false) qs) as ->; [|reflexivity].
    apply map_ext_Forall. rewrite Forall_forall in *. intros q Hin.
    assert (Hqe : clean (qual_expr q)) by (apply Hq, in_map, Hin).
    destruct q as [p e'|x k e'|e']; cbn [qual_expr fmt_qual] in *; rewrite (fmt_agree _ Hqe); reflexivity.
Qed.

Lemma clean_of l : existsb (exists_ex c_any) l = false -> Forall clean l.
Proof. intros H. apply existsb_false_Forall in H. exact H. Qed.

(* ---- state machines: formatter.rs prints them as the canonical printer does, except the marked output transitions *)
Lemma fmt_fpat_agree : forall p, Forall clean (fpat_exprs p) -> fmt_fpat true p = fmt_fpat false p.
Proof.
  induction p using fpat_ind'; intros Hc; cbn [fpat_exprs fmt_fpat] in *; try reflexivity.
  - inversion Hc; subst. apply fmt_agree. assumption.
  - f_equal. f_equal. f_equal. apply map_ext_Forall. rewrite Forall_forall in *. intros q Hin.
    apply (H _ Hin). rewrite Forall_forall. intros x Hx. apply Hc. apply in_flat_map. exists q. split; assumption.
  - f_equal. f_equal. f_equal. f_equal. f_equal. apply map_ext_Forall. rewrite Forall_forall in *. intros q Hin.
    apply (H _ Hin). rewrite Forall_forall. intros x Hx. apply Hc. apply in_flat_map. exists q. split; assumption.
Qed.

Lemma fmt_transs_agree ts :
  Forall clean (transs_exprs ts) -> existsb is_koutd ts = false -> fmt_transs true ts = fmt_transs false ts.
Proof.
  intros Hc Hk. apply existsb_false_Forall in Hk. unfold fmt_transs. apply flat_map_ext_Forall.
  rewrite Forall_forall in *. intros t Hin. unfold fmt_trans.
  rewrite fmt_fpat_agree.
  - specialize (Hk _ Hin). destruct t as [k p]. unfold is_koutd in Hk. cbn [fst] in *. destruct k; try reflexivity. discriminate Hk.
  - rewrite Forall_forall. intros x Hx. apply Hc. unfold transs_exprs. apply in_flat_map. exists t. split; assumption.
Qed.

Lemma fmt_arm_agree a : Forall clean (arm_exprs a) -> arm_koutd a = false -> fmt_arm true a = fmt_arm false a.
Proof.
  intros Hc Hk. destruct a as [p ts|p gs]; cbn [arm_exprs arm_koutd fmt_arm] in *; apply Forall_app in Hc as [Hp Hr].
  - rewrite (fmt_fpat_agree p Hp), (fmt_transs_agree ts Hr Hk). reflexivity.
  - rewrite (fmt_fpat_agree p Hp).
    assert (map (fmt_guard true) gs = map (fmt_guard false) gs) as ->; [|reflexivity].
    apply map_ext_Forall. apply existsb_false_Forall in Hk. rewrite Forall_forall in *. intros g Hin.
    assert (Hg : Forall clean (guard_exprs g)).
    { rewrite Forall_forall. intros x Hx. apply Hr. apply in_flat_map. exists g. split; assumption. }
    specialize (Hk _ Hin). destruct g as [[last c] ts]. unfold guard_exprs, guard_koutd, fmt_guard in *. cbn [fst snd] in *.
    apply Forall_app in Hg as [Hc1 Hc2]. rewrite (fmt_fpat_agree c Hc1), (fmt_transs_agree ts Hc2 Hk). reflexivity.
Qed.

Lemma fmt_fsm_head_agree nm ins : fmt true (fsm_head nm ins) = fmt false (fsm_head nm ins).
Proof.
  unfold fsm_head. cbn [fmt]. f_equal. f_equal. f_equal. f_equal. f_equal. rewrite !map_map. apply map_ext. intros [x k]. reflexivity.
Qed.

Theorem holds_thm p : defect_free p = true -> fmt_prog true p = fmt_prog false p.
Proof.
  unfold defect_free, exists_prog, prog_koutd. intros H. apply andb_prop in H as [H Hk].
  apply negb_true_iff in H. apply existsb_false_Forall in H.
  apply negb_true_iff in Hk. apply existsb_false_Forall in Hk.
  unfold fmt_prog. apply flat_map_ext_Forall.
  apply (Forall_impl2 (fun s => existsb (exists_ex c_any) (stmt_exprs s) = false) (fun s => stmt_koutd s = false)); [|exact H|exact Hk].
  intros s Hs Hks. f_equal. destruct s as [mu x k e|x subs e|x subs a e|e|c|nm vs|fn args out arms|nm ins out states|nm ins start arms]; cbn [stmt_exprs fmt_stmt stmt_koutd] in *.
  - rewrite fmt_rhs_agree by (apply clean_of, Hs). reflexivity.
  - rewrite existsb_app in Hs. apply orb_false_iff in Hs as [H1 H2].
    rewrite fmt_subs_agree by assumption. rewrite fmt_rhs_agree by (apply clean_of, H2). reflexivity.
  - rewrite existsb_app in Hs. apply orb_false_iff in Hs as [H1 H2].
    rewrite fmt_subs_agree by assumption. rewrite fmt_rhs_agree by (apply clean_of, H2). reflexivity.
  - apply fmt_rhs_agree, clean_of, Hs.
  - reflexivity.
  - reflexivity.
  - rewrite fmt_header_agree.
    assert (map (fmt_farm true) arms = map (fmt_farm false) arms) as ->; [|reflexivity].
    apply map_ext_Forall. apply clean_of in Hs. rewrite Forall_forall in *. intros a Hin.
    assert (Ha : clean (snd a)) by (apply Hs, in_map, Hin).
    destruct a as [[last pp] e]. unfold fmt_farm. cbn [snd] in Ha. rewrite (fmt_agree e Ha). reflexivity.
  - rewrite fmt_fsm_head_agree. reflexivity.
  - rewrite fmt_fsm_head_agree. apply clean_of in Hs. apply Forall_app in Hs as [Hst Harms].
    rewrite (fmt_fpat_agree start Hst).
    assert (map (fmt_arm true) arms = map (fmt_arm false) arms) as ->; [|reflexivity].
    apply map_ext_Forall. apply existsb_false_Forall in Hks. rewrite Forall_forall in *. intros a Hin.
    apply fmt_arm_agree; [|apply Hks, Hin].
    rewrite Forall_forall. intros x Hx. apply Harms. apply in_flat_map. exists a. split; assumption.
Qed.

Corollary holds_roundtrip p : wf_prog p = true -> defect_free p = true -> parse_tok (fmt_prog true p) = Some p.
Proof. intros Hw Hd. rewrite holds_thm by exact Hd. apply fmt_parse_thm, Hw. Qed.

(* ------------------------------------------------------------------ the defect classes are real: witnesses *)
Open Scope string_scope.
Definition lnum (s : string) : ex := ELit (LNum s) None.
Definition w_matrix : prog := [SExpr (EMat [[lnum "1"; lnum "2"; lnum "3"]; [lnum "4"; lnum "5"; lnum "6"]])].
Definition w_named : prog := [SDefine false "y" None (ECall "f" [(Some "k", lnum "1")])].
Definition w_range : prog := [SExpr (ERange (lnum "1") (Some (false, lnum "2")) false (lnum "10"))].
Definition w_sneq : prog := [SExpr (ETerm (EVar "a" None) [(OSNeq, EVar "b" None)])].
Definition w_subset : prog := [SExpr (ETerm (EVar "a" None) [(OSubset, EVar "b" None)])].
Definition w_cross : prog := [SExpr (ETerm (EVar "a" None) [(OCross, EVar "b" None)])].
Definition w_jagged : prog := [SExpr (EMat [[lnum "1"; lnum "2"]; [lnum "3"]])].

(* formatter.rs turns the 2x3 literal into the text of a 1x6 literal (column-major order) *)
Lemma refuted_matrix_rows :
  wf_prog w_matrix = true /\ class_of w_matrix = Some "matrix-rows" /\
  render (fmt_prog true w_matrix) = "[1 4 2 5 3 6]" ++ nl /\
  parse_tok (fmt_prog true w_matrix) =
    Some [SExpr (EMat [[lnum "1"; lnum "4"; lnum "2"; lnum "5"; lnum "3"; lnum "6"]])] /\
  parse_tok (fmt_prog true w_matrix) <> Some w_matrix.
Proof. repeat split; try (vm_compute; reflexivity). vm_compute. discriminate. Qed.

Lemma refuted_named_arg :
  wf_prog w_named = true /\ class_of w_named = Some "named-arg-colon" /\
  render (fmt_prog true w_named) = "y := f(k1)" ++ nl /\ parse_tok (fmt_prog true w_named) <> Some w_named.
Proof. repeat split; try (vm_compute; reflexivity). vm_compute. discriminate. Qed.

Lemma refuted_range_inc :
  wf_prog w_range = true /\ class_of w_range = Some "range-increment-order" /\
  render (fmt_prog true w_range) = "1..10..2" ++ nl /\
  parse_tok (fmt_prog true w_range) = Some [SExpr (ERange (lnum "1") (Some (false, lnum "10")) false (lnum "2"))] /\
  parse_tok (fmt_prog true w_range) <> Some w_range.
Proof. repeat split; try (vm_compute; reflexivity). vm_compute. discriminate. Qed.

Lemma refuted_sneq :
  wf_prog w_sneq = true /\ class_of w_sneq = Some "strict-neq-spelling" /\
  render (fmt_prog true w_sneq) = "a =/= b" ++ nl /\ parse_tok (fmt_prog true w_sneq) <> Some w_sneq.
Proof. repeat split; try (vm_compute; reflexivity). vm_compute. discriminate. Qed.

Lemma refuted_subset :
  wf_prog w_subset = true /\ class_of w_subset = Some "subset-spelling" /\
  render (fmt_prog true w_subset) = "a ⊂ b" ++ nl /\ parse_tok (fmt_prog true w_subset) <> Some w_subset.
Proof. repeat split; try (vm_compute; reflexivity). vm_compute. discriminate. Qed.

Lemma refuted_cross :
  wf_prog w_cross = true /\ class_of w_cross = Some "cross-spelling" /\
  render (fmt_prog true w_cross) = "a × b" ++ nl /\ parse_tok (fmt_prog true w_cross) <> Some w_cross.
Proof. repeat split; try (vm_compute; reflexivity). vm_compute. discriminate. Qed.

Lemma refuted_jagged :
  wf_prog w_jagged = true /\ existsb is_panic (fmt_prog true w_jagged) = true /\
  parse_tok (fmt_prog false w_jagged) = Some w_jagged.
Proof. repeat split; vm_compute; reflexivity. Qed.

(* state machines: in a guard, formatter.rs prints `-> a => 1`; fsm_guard tries the statement transition `a = > 1` first *)
Definition w_guardout : prog :=
  [SFsmImpl "A" [("x", None)] (FTupS "S" [FExp (EVar "x" None)])
     [AGuard (FTupS "T" [FExp (EVar "x" None)])
        [(false, FExp (ETerm (EVar "z" None) [(OGt, lnum "1")]), [(KNext, FExp (EVar "a" None)); (KOutD, FExp (lnum "1"))]);
         (true, FWild, [(KOut, FExp (lnum "1"))])]]].

Lemma refuted_guardout :
  wf_prog w_guardout = true /\ lex_ok w_guardout = true /\
  class_of w_guardout = Some "fsm-guard-arrow-reads-as-assignment" /\
  render (fmt_prog true w_guardout) =
    "#A(x) -> :S(x)" ++ nl ++ "  :T(x)" ++ nl ++ "    ├ z > 1 -> a => 1" ++ nl ++ "    └ * => 1." ++ nl /\
  parse_tok (fmt_prog true w_guardout) = None /\
  render (fmt_prog false w_guardout) =
    "#A(x) -> :S(x)" ++ nl ++ "  :T(x)" ++ nl ++ "    ├ z > 1 -> a ⇒ 1" ++ nl ++ "    └ * => 1." ++ nl /\
  parse_tok (fmt_prog false w_guardout) = Some w_guardout.
Proof. repeat split; vm_compute; reflexivity. Qed.

(* the two lexical clashes found with the state machines (below the token level: the token parser reads the `*` of an array
   pattern as the wildcard and `=:=` as one operator, the grapheme-level grammar does not) *)
Definition w_arrwild : prog :=
  [SDefine false "y" None
     (RMatch (EVar "x" None) [(false, PArr [IVar "a" None; IWild; IVar "b" None] ANone, None, lnum "1");
                              (true, PItem IWild, None, lnum "2")])].
Definition w_guardassign : prog :=
  [SFsmImpl "A" [("x", None)] (FTupS "S" [FExp (EVar "x" None)])
     [AGuard (FTupS "T" [FExp (EVar "x" None)])
        [(false, FExp (ETerm (EVar "z" None) [(OGt, lnum "1")]),
          [(KNext, FExp (ETerm (EVar "a" None) [(OSEq, ELit (LBool true) None)]))]);
         (true, FWild, [(KOut, FExp (lnum "1"))])]]].

Lemma clash_arrwild :
  wf_prog w_arrwild = true /\ lex_ok w_arrwild = true /\ defect_free w_arrwild = true /\
  lex_class_of w_arrwild = Some "array-pattern-item-then-wildcard" /\
  render (fmt_prog true w_arrwild) = "y := x?" ++ nl ++ nl ++ "├[a * b] ⇒ 1" ++ nl ++ "└* ⇒ 2." ++ nl ++ nl /\
  (* the text of the three-item pattern is the text of the ONE-item pattern whose item is the product a * b *)
  fmt_pat (PArr [IVar "a" None; IWild; IVar "b" None] ANone)
    = TSym LB :: fmt false (ETerm (EVar "a" None) [(OMul, EVar "b" None)]) ++ [TSym RB].
Proof. repeat split; vm_compute; reflexivity. Qed.

Lemma clash_guardassign :
  wf_prog w_guardassign = true /\ lex_ok w_guardassign = true /\ defect_free w_guardassign = true /\
  lex_class_of w_guardassign = Some "fsm-guard-arrow-reads-as-assignment" /\
  render (fmt_prog true w_guardassign) =
    "#A(x) -> :S(x)" ++ nl ++ "  :T(x)" ++ nl ++ "    ├ z > 1 -> a =:= true" ++ nl ++ "    └ * => 1." ++ nl.
Proof. repeat split; vm_compute; reflexivity. Qed.
Close Scope string_scope.

Definition refutes (id : string) (p : prog) : Prop :=
  wf_prog p = true /\ class_of p = Some id /\ parse_tok (fmt_prog true p) <> Some p.

Lemma refuted_ex_matrix_rows : exists p, refutes "matrix-rows" p /\
  exists r1 r2 flat, p = [SExpr (EMat [r1; r2])] /\ List.length r1 = 3 /\ List.length r2 = 3 /\
    parse_tok (fmt_prog true p) = Some [SExpr (EMat [flat])] /\ List.length flat = 6.
Proof.
  exists w_matrix. destruct refuted_matrix_rows as (H1 & H2 & _ & H4 & H5). split; [repeat split; assumption|].
  eexists _, _, _. split; [reflexivity|]. split; [reflexivity|]. split; [reflexivity|]. split; [exact H4|reflexivity].
Qed.
Lemma refuted_ex_named_arg : exists p, refutes "named-arg-colon" p.
Proof. exists w_named. destruct refuted_named_arg as (H1 & H2 & _ & H4). repeat split; assumption. Qed.
Lemma refuted_ex_range_inc : exists p, refutes "range-increment-order" p.
Proof. exists w_range. destruct refuted_range_inc as (H1 & H2 & _ & _ & H4). repeat split; assumption. Qed.
Lemma refuted_ex_sneq : exists p, refutes "strict-neq-spelling" p.
Proof. exists w_sneq. destruct refuted_sneq as (H1 & H2 & _ & H4). repeat split; assumption. Qed.
Lemma refuted_ex_subset : exists p, refutes "subset-spelling" p.
Proof. exists w_subset. destruct refuted_subset as (H1 & H2 & _ & H4). repeat split; assumption. Qed.
Lemma refuted_ex_cross : exists p, refutes "cross-spelling" p.
Proof. exists w_cross. destruct refuted_cross as (H1 & H2 & _ & H4). repeat split; assumption. Qed.
Lemma refuted_ex_guardout : exists p, refutes "fsm-guard-arrow-reads-as-assignment" p /\ parse_tok (fmt_prog true p) = None /\
  parse_tok (fmt_prog false p) = Some p.
Proof.
  exists w_guardout. destruct refuted_guardout as (H1 & _ & H3 & _ & H5 & _ & H7).
  split; [|split; assumption]. split; [exact H1|]. split; [exact H3|]. rewrite H5. discriminate.
Qed.
Lemma refuted_ex_jagged : exists p, wf_prog p = true /\ existsb is_panic (fmt_prog true p) = true /\
  parse_tok (fmt_prog false p) = Some p.
Proof. exists w_jagged. exact refuted_jagged. Qed.

(* the texts of the symbols of the vocabulary are pairwise different: a token is determined by its text *)
Definition in_vocab (s : sym) : bool := match s with SOther _ | SPanic => false | _ => true end.

Lemma sym_text_inj a b : in_vocab a = true -> in_vocab b = true -> sym_text a = sym_text b -> a = b.
Proof.
  intros Ha Hb H.
  destruct a; try discriminate Ha; destruct b; try discriminate Hb; try reflexivity; try discriminate H;
    repeat match goal with o : binop |- _ => destruct o | x : aop |- _ => destruct x end;
    try reflexivity; discriminate H.
Qed.

(* ------------------------------------------------------------------ judge soundness *)
(* what an observation must say for the property to hold on this input *)
Definition observed_roundtrip (o : obs8) : Prop :=
  exists ob, o = O8Fmt ob /\ o_reparse ob = "ok"%string /\ o_same ob = 1%Z /\ o_idem ob = 1%Z.

Lemma all_good_spec ob : all_good ob = true -> o_reparse ob = "ok"%string /\ o_same ob = 1%Z /\ o_idem ob = 1%Z.
Proof.
  unfold all_good. intros H. apply andb_prop in H as [H H3]. apply andb_prop in H as [H1 H2].
  apply String.eqb_eq in H1. apply Z.eqb_eq in H2, H3. auto.
Qed.

Lemma judge_prog_sound p o tag :
  judge_prog p o = v_ok tag ->
  observed_roundtrip o /\
  (tag = "roundtrip"%string -> exists ob, o = O8Fmt ob /\ o_text ob = render (fmt_prog false p)).
Proof.
  unfold judge_prog. destruct o as [|feat|ob|]; try discriminate.
  - destruct (existsb is_panic (fmt_prog true p)); discriminate.
  - destruct (read_as_prose (o_feat ob)); [discriminate|].
    destruct (String.eqb (o_text ob) (render (fmt_prog false p))) eqn:Hc.
    + destruct (all_good ob) eqn:Hg.
      * intros H. injection H as <-. apply all_good_spec in Hg. split; [exists ob; tauto|].
        intros _. exists ob. split; [reflexivity|]. apply String.eqb_eq in Hc. exact Hc.
      * destruct (lex_class_of p); discriminate.
    + destruct (negb (existsb is_panic (fmt_prog true p)) && String.eqb (o_text ob) (render (fmt_prog true p)));
        [|destruct (lex_class_of p); [destruct (all_good ob)|]; discriminate].
      destruct (all_good ob) eqn:Hg.
      * intros H. injection H as <-. apply all_good_spec in Hg. split; [exists ob; tauto|]. discriminate.
      * destruct (class_of p); discriminate.
Qed.

Lemma judge_diff_sound cls o tag : judge_diff cls o = v_ok tag -> observed_roundtrip o.
Proof.
  unfold judge_diff. destruct o as [|feat|ob|]; try discriminate.
  - destruct (find_class cls feat "fmtpanic"); discriminate.
  - destruct (all_good ob) eqn:Hg.
    + intros _. apply all_good_spec in Hg. exists ob; tauto.
    + destruct (find_class cls (o_feat ob) (symptom ob)); discriminate.
Qed.
