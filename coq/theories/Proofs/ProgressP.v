(* C09 (deepening) — proofs about the progress analysis of Model/Progress.v.

   All three main results are proved by induction on the evaluator's fuel (its recursion depth), never by induction
   on the syntax, for an arbitrary grammar, arbitrary oracles satisfying `oracle_ok`, and ANY pair (nu, rk) that passes
   the boolean/list checks — how the pair was computed is irrelevant:

   nullable_sound     nu_bad nu G = []  ->  a successful run of a parser that the analysis calls non-nullable
                      returns a strict suffix of its input (and every result is a suffix);
   eval_terminates    nu_bad nu G = [] /\ rank_bad nu rk G = []  ->  evaluation never runs out of fuel once the fuel
                      exceeds (|input| + 1) * R * S + size, R = 1 + max rank, S = 1 + max body size;
   guards_dead        ... /\ guards_live nu G = []  ->  removing nom's infinite-loop guards changes no result. *)
From Coq Require Import List Arith String Bool Lia.
From MechV Require Import Model.Progress.
Import ListNotations.
Open Scope list_scope.

(* ---------------------------------------------------------------------- *)
(* suffixes                                                                *)
(* ---------------------------------------------------------------------- *)
Definition suffix (s i : input) : Prop := exists p, i = p ++ s.
Definition strict_suffix (s i : input) : Prop := exists p, p <> [] /\ i = p ++ s.

Lemma suffix_refl : forall i, suffix i i.
Proof. intros i. exists []. reflexivity. Qed.

Lemma suffix_trans : forall a b c, suffix a b -> suffix b c -> suffix a c.
Proof. intros a b c [p Hp] [q Hq]. exists (q ++ p). subst. now rewrite app_assoc. Qed.

Lemma suffix_nil : forall i, suffix [] i.
Proof. intros i. exists i. now rewrite app_nil_r. Qed.

Lemma suffix_length : forall s i, suffix s i -> List.length s <= List.length i.
Proof. intros s i [p Hp]. subst. rewrite app_length. lia. Qed.

Lemma suffix_strict : forall s i, suffix s i -> List.length s < List.length i -> strict_suffix s i.
Proof.
  intros s i [p Hp] Hl. exists p. split; [|exact Hp].
  intro Hn. subst. cbn in Hl. lia.
Qed.

(* ---------------------------------------------------------------------- *)
(* what is assumed about the oracles                                       *)
(* ---------------------------------------------------------------------- *)
Record oracle_ok (O : oracle) : Prop := {
  ok_leaf_suffix : forall nm c i, suffix (pos (o_leaf O nm c i)) i;
  ok_leaf_consumes : forall nm i j, o_leaf O nm true i = ROk j -> List.length j < List.length i;
  ok_unk_suffix : forall s n i, suffix (pos (o_unk O s n i)) i
}.

(* ---------------------------------------------------------------------- *)
(* unfolding                                                               *)
(* ---------------------------------------------------------------------- *)
Lemma evalp_S : forall O G gd n p i,
  evalp O G gd (S n) p i =
  match p with
  | PLeaf nm c => Some (o_leaf O nm c i)
  | PUnknown s => Some (o_unk O s n i)
  | PCall f => match lookup f G with
               | Some b => evalp O G gd n b i
               | None => Some (RErr i)
               end
  | PEof => Some (match i with [] => ROk i | _ :: _ => RErr i end)
  | PAltBest fl l =>
      match all_some (map (fun q => evalp O G gd n q i) l) with
      | Some rs => Some (ab_scan i fl rs None None None)
      | None => None
      end
  | PBlock s => evals O G gd n s i (fun _ => ROk i)
  end.
Proof. reflexivity. Qed.

Lemma evals_S : forall O G gd n s e0 r,
  evals O G gd (S n) s e0 r =
  match s with
  | SReturn m x => Some (retv m (r x))
  | SApp p x y e kok kerr kfail =>
      match evalp O G gd n p (pos (r x)) with
      | None => None
      | Some (ROk j) => evals O G gd n kok e0 (upd r y (ROk j))
      | Some (RErr j) => evals O G gd n kerr e0 (upd r e (RErr j))
      | Some (RFail j) => evals O G gd n (match kfail with Some kf => kf | None => kerr end) e0 (upd r e (RFail j))
      | Some RPanic => Some RPanic
      end
  | SIf site a b => if o_cond O site n e0 then evals O G gd n a e0 r else evals O G gd n b e0 r
  | SGuard nom site y a k =>
      if nom && negb (gd site) then evals O G gd n k e0 r
      else if List.length (pos (r y)) =? List.length e0 then evals O G gd n a e0 r
      else evals O G gd n k e0 r
  | SUnknown site => Some (o_unk O site n e0)
  | SPanic _ => Some RPanic
  end.
Proof. reflexivity. Qed.

(* ---------------------------------------------------------------------- *)
(* list helpers                                                            *)
(* ---------------------------------------------------------------------- *)
Lemma lookup_in : forall f G b, lookup f G = Some b -> In (f, b) G.
Proof.
  intros f G. induction G as [|[g c] G IH]; intros b H; cbn in H; [discriminate|].
  destruct (String.eqb f g) eqn:E.
  - apply String.eqb_eq in E. inversion H; subst. now left.
  - right. now apply IH.
Qed.

Lemma flat_map_nil : forall {A B} (f : A -> list B) l, flat_map f l = [] -> forall x, In x l -> f x = [].
Proof.
  intros A B f l. induction l as [|a l IH]; intros H x Hx; [contradiction|].
  cbn in H. apply app_eq_nil in H. destruct H as [H1 H2].
  destruct Hx as [->|Hx]; [exact H1|now apply IH].
Qed.

Lemma filter_nil : forall {A} (f : A -> bool) l, filter f l = [] -> forall x, In x l -> f x = false.
Proof.
  intros A f l. induction l as [|a l IH]; intros H x Hx; [contradiction|].
  cbn in H. destruct (f a) eqn:E; [discriminate|].
  destruct Hx as [->|Hx]; [exact E|now apply IH].
Qed.

Lemma all_some_in : forall {A B} (f : A -> option B) l rs,
  all_some (map f l) = Some rs -> forall r, In r rs -> exists q, In q l /\ f q = Some r.
Proof.
  intros A B f l. induction l as [|a l IH]; intros rs H r Hr; cbn in H.
  - inversion H; subst. contradiction.
  - destruct (f a) eqn:Ea; [|discriminate].
    destruct (all_some (map f l)) eqn:El; [|discriminate].
    inversion H; subst. destruct Hr as [->|Hr].
    + exists a. split; [now left|exact Ea].
    + destruct (IH _ eq_refl _ Hr) as [q [Hq1 Hq2]]. exists q. split; [now right|exact Hq2].
Qed.

Lemma all_some_total : forall {A B} (f : A -> option B) l,
  (forall q, In q l -> exists r, f q = Some r) -> exists rs, all_some (map f l) = Some rs.
Proof.
  intros A B f l. induction l as [|a l IH]; intros H; cbn.
  - now exists [].
  - destruct (H a (or_introl eq_refl)) as [r Hr]. rewrite Hr.
    destruct IH as [rs Hrs]; [intros q Hq; apply H; now right|].
    rewrite Hrs. now exists (r :: rs).
Qed.

Lemma existsb_false : forall {A} (f : A -> bool) l, existsb f l = false -> forall x, In x l -> f x = false.
Proof.
  intros A f l. induction l as [|a l IH]; intros H x Hx; [contradiction|].
  cbn in H. apply orb_false_iff in H. destruct H as [H1 H2].
  destruct Hx as [->|Hx]; [exact H1|now apply IH].
Qed.

(* ---------------------------------------------------------------------- *)
(* alt_best returns one of the alternatives' results (or an error at the input, or a panic)  *)
(* ---------------------------------------------------------------------- *)
Definition opt_in (o : option input) (mk : input -> res) (rs : list res) : Prop :=
  match o with Some j => In (mk j) rs | None => True end.

Lemma better_in : forall j b mk rs, In (mk j) rs -> opt_in b mk rs -> opt_in (better j b) mk rs.
Proof.
  intros j b mk rs Hj Hb. unfold better, opt_in in *. destruct b as [k|]; [|exact Hj].
  destruct (List.length j <? List.length k); assumption.
Qed.

Definition ab_result (i : input) (rs : list res) (r : res) : Prop :=
  r = RPanic \/ r = RErr i \/ In r rs.

Lemma ab_final_result : forall i rs bs bf be,
  opt_in bs ROk rs -> opt_in bf RFail rs -> opt_in be RErr rs -> ab_result i rs (ab_final i bs bf be).
Proof.
  intros i rs bs bf be Hs Hf He. unfold ab_final, ab_result, opt_in in *.
  destruct bs as [s|]; destruct bf as [f|].
  - destruct (List.length s <? List.length f); right; right; assumption.
  - right; right; assumption.
  - right; right; assumption.
  - destruct be as [e|]; [right; right; assumption|right; left; reflexivity].
Qed.

Lemma ab_scan_result : forall i rs0 rs fl bs bf be,
  incl rs rs0 -> opt_in bs ROk rs0 -> opt_in bf RFail rs0 -> opt_in be RErr rs0 ->
  ab_result i rs0 (ab_scan i fl rs bs bf be).
Proof.
  intros i rs0 rs. induction rs as [|r rs IH]; intros fl bs bf be Hi Hs Hf He; cbn.
  - now apply ab_final_result.
  - assert (Hr : In r rs0) by (apply Hi; now left).
    assert (Hi' : incl rs rs0) by (intros x Hx; apply Hi; now right).
    destruct r as [j|j|j|].
    + destruct (hd false fl).
      * right; right; exact Hr.
      * apply IH; try assumption. now apply better_in.
    + apply IH; try assumption. now apply better_in.
    + apply IH; try assumption. now apply better_in.
    + left; reflexivity.
Qed.

(* ---------------------------------------------------------------------- *)
(* invariants of the environments                                          *)
(* ---------------------------------------------------------------------- *)
Definition env_ok (e0 : input) (r : env) : Prop := forall x, suffix (pos (r x)) e0.
Definition aenv_ok (e0 : input) (r : env) (a : aenv) : Prop :=
  forall x, (fst (a x) = true -> List.length (pos (r x)) < List.length e0) /\
            (snd (a x) = false -> is_ok (r x) = false).

Lemma env_ok_init : forall i, env_ok i (fun _ => ROk i).
Proof. intros i x. apply suffix_refl. Qed.

Lemma aenv_ok_init : forall i, aenv_ok i (fun _ => ROk i) a0.
Proof. intros i x. unfold a0. cbn. split; intro H; discriminate. Qed.

Lemma env_ok_upd : forall e0 r x v, env_ok e0 r -> suffix (pos v) e0 -> env_ok e0 (upd r x v).
Proof. intros e0 r x v H Hv z. unfold upd. destruct (Nat.eqb z x); [exact Hv|apply H]. Qed.

Lemma aenv_ok_upd : forall e0 r a x v c o,
  aenv_ok e0 r a ->
  (c = true -> List.length (pos v) < List.length e0) -> (o = false -> is_ok v = false) ->
  aenv_ok e0 (upd r x v) (aupd a x (c, o)).
Proof.
  intros e0 r a x v c o H Hc Ho z. unfold upd, aupd. destruct (Nat.eqb z x); [cbn; split; assumption|apply H].
Qed.

Lemma aenv_ok_cons : forall e0 r a y, aenv_ok e0 r a ->
  List.length (pos (r y)) < List.length e0 -> aenv_ok e0 r (a_cons a y).
Proof.
  intros e0 r a y H Hl z. unfold a_cons, aupd. destruct (Nat.eqb z y) eqn:E.
  - apply Nat.eqb_eq in E. subst. cbn. split; [intros _; exact Hl|apply H].
  - apply H.
Qed.

(* the consistency of nu, entry by entry *)
Definition nu_ok (nu : string -> bool) (G : grammar_t) : Prop :=
  forall f b, In (f, b) G -> nu f = false -> nullp nu b = false.

Lemma nu_bad_nil : forall nu G, nu_bad nu G = [] -> nu_ok nu G.
Proof.
  intros nu G H f b Hin Hf. unfold nu_bad in H.
  pose proof (flat_map_nil _ _ H (f, b) Hin) as H1. cbn in H1. rewrite Hf in H1. cbn in H1.
  destruct (nullp nu b); [discriminate|reflexivity].
Qed.

(* ====================================================================== *)
(* 1. soundness of the nullability analysis                                *)
(* ====================================================================== *)
Definition sound_p (O : oracle) (G : grammar_t) (nu : string -> bool) (n : nat) : Prop :=
  forall p i r, evalp O G all_on n p i = Some r ->
    suffix (pos r) i /\ (is_ok r = true -> nullp nu p = false -> List.length (pos r) < List.length i).
Definition sound_s (O : oracle) (G : grammar_t) (nu : string -> bool) (n : nat) : Prop :=
  forall s e0 rr a r, evals O G all_on n s e0 rr = Some r -> env_ok e0 rr -> aenv_ok e0 rr a ->
    suffix (pos r) e0 /\ (is_ok r = true -> nulls nu a s = false -> List.length (pos r) < List.length e0).

Lemma retv_pos : forall m v, suffix (pos (retv m v)) (pos v).
Proof. intros m v. destruct v; destruct m; cbn; try apply suffix_refl; apply suffix_nil. Qed.

Lemma retv_asis : forall v, retv AsIs v = v.
Proof. intros v. now destruct v. Qed.

Lemma sret_sound : forall nu e0 rr a m x, aenv_ok e0 rr a ->
  is_ok (retv m (rr x)) = true -> nulls nu a (SReturn m x) = false ->
  List.length (pos (retv m (rr x))) < List.length e0.
Proof.
  intros nu e0 rr a m x Ha Hok Hn. destruct (Ha x) as [Hc Ho]. destruct m.
  - cbn in Hn. apply negb_false_iff in Hn. specialize (Hc Hn).
    destruct (rr x); cbn in *; try discriminate Hok; exact Hc.
  - destruct (rr x); cbn in Hok; discriminate Hok.
  - destruct (rr x); cbn in Hok; discriminate Hok.
  - rewrite retv_asis in *. cbn in Hn. destruct (snd (a x)) eqn:Es.
    + rewrite andb_true_r in Hn. apply negb_false_iff in Hn. exact (Hc Hn).
    + rewrite (Ho eq_refl) in Hok. discriminate Hok.
Qed.

Lemma sound_step : forall O G nu n, oracle_ok O -> nu_ok nu G ->
  sound_p O G nu n -> sound_s O G nu n -> sound_p O G nu (S n) /\ sound_s O G nu (S n).
Proof.
  intros O G nu n HO Hnu IHp IHs. split.
  - (* parsers *)
    intros p i r H. rewrite evalp_S in H. destruct p as [nm c|site|f| |fl l|s].
    + inversion H; subst. split; [apply (ok_leaf_suffix O HO)|].
      intros Hok Hn. cbn in Hn. destruct c; [|discriminate].
      destruct (o_leaf O nm true i) eqn:E; try discriminate. cbn. now apply (ok_leaf_consumes O HO nm).
    + inversion H; subst. split; [apply (ok_unk_suffix O HO)|]. intros _ Hn. discriminate.
    + destruct (lookup f G) as [b|] eqn:El.
      * destruct (IHp _ _ _ H) as [H1 H2]. split; [exact H1|].
        intros Hok Hn. cbn in Hn. apply H2; [exact Hok|]. apply (Hnu f b); [now apply lookup_in|exact Hn].
      * inversion H; subst. cbn. split; [apply suffix_refl|intros Hc; discriminate Hc].
    + inversion H; subst. split; [destruct i; cbn; apply suffix_refl|]. intros _ Hn. discriminate.
    + destruct (all_some (map (fun q => evalp O G all_on n q i) l)) as [rs|] eqn:Ea; [|discriminate].
      inversion H; subst. clear H.
      pose proof (ab_scan_result i rs rs fl None None None (incl_refl _) I I I) as Hr.
      destruct Hr as [Hr|[Hr|Hr]].
      * rewrite Hr. cbn. split; [apply suffix_nil|intros Hc; discriminate Hc].
      * rewrite Hr. cbn. split; [apply suffix_refl|intros Hc; discriminate Hc].
      * destruct (all_some_in _ _ _ Ea _ Hr) as [q [Hq1 Hq2]].
        destruct (IHp _ _ _ Hq2) as [H1 H2]. split; [exact H1|].
        intros Hok Hn. apply H2; [exact Hok|]. cbn in Hn. now apply (existsb_false _ _ Hn).
    + destruct (IHs _ _ _ a0 _ H (env_ok_init i) (aenv_ok_init i)) as [H1 H2]. split; [exact H1|].
      intros Hok Hn. now apply H2.
  - (* statements *)
    intros s e0 rr a r H He Ha. rewrite evals_S in H. destruct s as [m x|p x y e kok kerr kfail|site s1 s2|nom site y s1 s2|site|site].
    + inversion H; subst. clear H. split.
      * eapply suffix_trans; [apply retv_pos|apply He].
      * intros Hok Hn. now apply (sret_sound nu e0 rr a m x).
    + destruct (evalp O G all_on n p (pos (rr x))) as [r1|] eqn:Ep; [|discriminate].
      destruct (IHp _ _ _ Ep) as [Hp1 Hp2].
      assert (Hsx : suffix (pos r1) e0) by (eapply suffix_trans; [exact Hp1|apply He]).
      pose proof (suffix_length _ _ Hp1) as Hl1. pose proof (suffix_length _ _ (He x)) as Hl2.
      cbn [nulls].
      destruct r1 as [j|j|j|].
      * assert (Ha' : aenv_ok e0 (upd rr y (ROk j)) (a_ok a x y (nullp nu p))).
        { apply aenv_ok_upd; [exact Ha| |intros Hc; discriminate Hc].
          intros Hc. apply orb_true_iff in Hc. destruct Hc as [Hc|Hc].
          - destruct (Ha x) as [Hcx _]. specialize (Hcx Hc). cbn in *. lia.
          - apply negb_true_iff in Hc. specialize (Hp2 eq_refl Hc). cbn in *. lia. }
        destruct (IHs _ _ _ _ _ H (env_ok_upd _ _ _ _ He Hsx) Ha') as [H1 H2]. split; [exact H1|].
        intros Hok Hn. apply H2; [exact Hok|]. apply orb_false_iff in Hn. destruct Hn as [Hn _].
        apply orb_false_iff in Hn. now destruct Hn.
      * assert (Ha' : aenv_ok e0 (upd rr e (RErr j)) (a_err a x e)).
        { apply aenv_ok_upd; [exact Ha| |intros _; reflexivity].
          intros Hc. destruct (Ha x) as [Hcx _]. specialize (Hcx Hc). cbn in *. lia. }
        destruct (IHs _ _ _ _ _ H (env_ok_upd _ _ _ _ He Hsx) Ha') as [H1 H2]. split; [exact H1|].
        intros Hok Hn. apply H2; [exact Hok|]. apply orb_false_iff in Hn. destruct Hn as [Hn _].
        apply orb_false_iff in Hn. now destruct Hn.
      * assert (Ha' : aenv_ok e0 (upd rr e (RFail j)) (a_err a x e)).
        { apply aenv_ok_upd; [exact Ha| |intros _; reflexivity].
          intros Hc. destruct (Ha x) as [Hcx _]. specialize (Hcx Hc). cbn in *. lia. }
        destruct (IHs _ _ _ _ _ H (env_ok_upd _ _ _ _ He Hsx) Ha') as [H1 H2]. split; [exact H1|].
        intros Hok Hn. apply H2; [exact Hok|]. apply orb_false_iff in Hn. destruct Hn as [Hn Hn3].
        apply orb_false_iff in Hn. destruct Hn as [_ Hn2]. destruct kfail; assumption.
      * inversion H; subst. cbn. split; [apply suffix_nil|intros Hc; discriminate Hc].
    + cbn [nulls]. destruct (o_cond O site n e0).
      * destruct (IHs _ _ _ _ _ H He Ha) as [H1 H2]. split; [exact H1|].
        intros Hok Hn. apply H2; [exact Hok|]. apply orb_false_iff in Hn. now destruct Hn.
      * destruct (IHs _ _ _ _ _ H He Ha) as [H1 H2]. split; [exact H1|].
        intros Hok Hn. apply H2; [exact Hok|]. apply orb_false_iff in Hn. now destruct Hn.
    + cbn [nulls]. replace (nom && negb (all_on site)) with false in H by (destruct nom; reflexivity).
      destruct (List.length (pos (rr y)) =? List.length e0) eqn:El.
      * destruct (IHs _ _ _ _ _ H He Ha) as [H1 H2]. split; [exact H1|].
        intros Hok Hn. apply H2; [exact Hok|]. apply orb_false_iff in Hn. now destruct Hn.
      * apply Nat.eqb_neq in El. pose proof (suffix_length _ _ (He y)) as Hly.
        assert (Ha' : aenv_ok e0 rr (a_cons a y)) by (apply aenv_ok_cons; [exact Ha|lia]).
        destruct (IHs _ _ _ _ _ H He Ha') as [H1 H2]. split; [exact H1|].
        intros Hok Hn. apply H2; [exact Hok|]. apply orb_false_iff in Hn. now destruct Hn.
    + inversion H; subst. split; [apply (ok_unk_suffix O HO)|]. intros _ Hn. discriminate.
    + inversion H; subst. cbn. split; [apply suffix_nil|intros Hc; discriminate Hc].
Qed.

Lemma sound_all : forall O G nu, oracle_ok O -> nu_ok nu G -> forall n, sound_p O G nu n /\ sound_s O G nu n.
Proof.
  intros O G nu HO Hnu n. induction n as [|n [IHp IHs]].
  - split; [intros p i r H|intros s e0 rr a r H]; discriminate.
  - now apply sound_step.
Qed.

Theorem nullable_sound : forall O G nu, oracle_ok O -> nu_bad nu G = [] ->
  forall n p i r, evalp O G all_on n p i = Some r ->
    suffix (pos r) i /\ (is_ok r = true -> nullp nu p = false -> strict_suffix (pos r) i).
Proof.
  intros O G nu HO Hnu n p i r H.
  destruct (sound_all O G nu HO (nu_bad_nil _ _ Hnu) n) as [Hp _].
  destruct (Hp _ _ _ H) as [H1 H2]. split; [exact H1|].
  intros Hok Hn. apply suffix_strict; [exact H1|now apply H2].
Qed.

(* ====================================================================== *)
(* 2. termination, with an explicit bound on the evaluation depth          *)
(* ====================================================================== *)
Definition rank_ok (nu : string -> bool) (rk : string -> nat) (G : grammar_t) : Prop :=
  forall f b, In (f, b) G -> Forall (fun g => rk g < rk f) (fcallsp nu b).

Lemma rank_bad_nil : forall nu rk G, rank_bad nu rk G = [] -> rank_ok nu rk G.
Proof.
  intros nu rk G H f b Hin. unfold rank_bad in H.
  pose proof (flat_map_nil _ _ H (f, b) Hin) as H1. cbn in H1.
  apply map_eq_nil in H1. apply Forall_forall. intros g Hg.
  pose proof (filter_nil _ _ H1 g Hg) as H2. apply negb_false_iff in H2. now apply Nat.ltb_lt in H2.
Qed.

Lemma max_rank_ge : forall rk G f b, In (f, b) G -> rk f <= max_rank rk G.
Proof.
  intros rk G f b. unfold max_rank. induction G as [|[g c] G IH]; intros H; [contradiction|].
  cbn. destruct H as [H|H].
  - inversion H; subst. apply Nat.le_max_l.
  - etransitivity; [now apply IH|apply Nat.le_max_r].
Qed.

Lemma max_size_ge : forall G f b, In (f, b) G -> sizep b <= max_size G.
Proof.
  intros G f b. unfold max_size. induction G as [|[g c] G IH]; intros H; [contradiction|].
  cbn. destruct H as [H|H].
  - inversion H; subst. apply Nat.le_max_l.
  - etransitivity; [now apply IH|apply Nat.le_max_r].
Qed.

Lemma in_list_sum : forall (l : list pexp) q, In q l -> sizep q <= list_sum (map sizep l).
Proof.
  intros l q. induction l as [|a l IH]; intros H; [contradiction|].
  cbn [map list_sum fold_right]. fold (list_sum (map sizep l)).
  destruct H as [->|H]; [lia|]. specialize (IH H). lia.
Qed.

(* the calls that can happen before consumption are allowed at rank budget r: either r is the top budget R
   (we are strictly inside the input of the enclosing function) or they all have a smaller rank *)
Definition calls_ok (rk : string -> nat) (R r : nat) (l : list string) : Prop :=
  r = R \/ Forall (fun g => rk g < r) l.

Lemma calls_ok_app : forall rk R r l1 l2, calls_ok rk R r (l1 ++ l2) -> calls_ok rk R r l1 /\ calls_ok rk R r l2.
Proof.
  intros rk R r l1 l2 [H|H]; [split; now left|].
  apply Forall_app in H. destruct H as [H1 H2]. split; now right.
Qed.

Lemma calls_ok_flat_map : forall rk R r (f : pexp -> list string) l,
  calls_ok rk R r (flat_map f l) -> forall q, In q l -> calls_ok rk R r (f q).
Proof.
  intros rk R r f l. induction l as [|a l IH]; intros H q Hq; [contradiction|].
  cbn in H. apply calls_ok_app in H. destruct H as [H1 H2].
  destruct Hq as [->|Hq]; [exact H1|now apply IH].
Qed.

Section Termination.
  Context (O : oracle) (G : grammar_t) (nu : string -> bool) (rk : string -> nat) (R Sz : nat).
  Context (HO : oracle_ok O) (Hnu : nu_ok nu G) (Hrk : rank_ok nu rk G).
  Context (HR : forall f b, In (f, b) G -> rk f < R) (HS : forall f b, In (f, b) G -> sizep b < Sz).

  Definition term_p (n : nat) : Prop :=
    forall p i r, r <= R -> calls_ok rk R r (fcallsp nu p) ->
      List.length i * (R * Sz) + r * Sz + sizep p < n -> exists res, evalp O G all_on n p i = Some res.
  Definition term_s (n : nat) : Prop :=
    forall s e0 rr a r, r <= R -> env_ok e0 rr -> aenv_ok e0 rr a -> calls_ok rk R r (fcallss nu a s) ->
      List.length e0 * (R * Sz) + r * Sz + sizes s < n -> exists res, evals O G all_on n s e0 rr = Some res.

  Lemma term_step : forall n, term_p n -> term_s n -> term_p (S n) /\ term_s (S n).
  Proof.
    intros n IHp IHs.
    destruct (sound_all O G nu HO Hnu n) as [Sp Ss].
    split.
    - intros p i r Hr Hc Hm. rewrite evalp_S. destruct p as [nm c|site|f| |fl l|s].
      + eexists; reflexivity.
      + eexists; reflexivity.
      + destruct (lookup f G) as [b|] eqn:El; [|eexists; reflexivity].
        pose proof (lookup_in _ _ _ El) as Hin.
        assert (Hf : rk f < r).
        { destruct Hc as [Hc|Hc]; [subst; now apply (HR f b)|]. cbn in Hc. now inversion Hc. }
        apply (IHp b i (rk f)); [specialize (HR f b Hin); lia|right; now apply (Hrk f b)|].
        specialize (HS f b Hin). cbn [sizep] in Hm.
        assert (S (rk f) * Sz <= r * Sz) by (apply Nat.mul_le_mono_r; lia).
        cbn [Nat.mul] in H. lia.
      + eexists; reflexivity.
      + cbn [sizep] in Hm. cbn [fcallsp] in Hc.
        destruct (all_some_total (fun q => evalp O G all_on n q i) l) as [rs Hrs].
        * intros q Hq. apply (IHp q i r); [exact Hr|now apply (calls_ok_flat_map rk R r (fcallsp nu) l)|].
          pose proof (in_list_sum l q Hq). lia.
        * rewrite Hrs. eexists; reflexivity.
      + cbn [sizep] in Hm. cbn [fcallsp] in Hc.
        apply (IHs s i (fun _ => ROk i) a0 r); [exact Hr|apply env_ok_init|apply aenv_ok_init|exact Hc|lia].
    - intros s e0 rr a r Hr He Ha Hc Hm. rewrite evals_S.
      destruct s as [m x|p x y e kok kerr kfail|site s1 s2|nom site y s1 s2|site|site].
      + eexists; reflexivity.
      + cbn [sizes] in Hm. cbn [fcallss] in Hc.
        apply calls_ok_app in Hc. destruct Hc as [Hc1 Hc]. apply calls_ok_app in Hc. destruct Hc as [Hc2 Hc].
        apply calls_ok_app in Hc. destruct Hc as [Hc3 Hc4].
        pose proof (suffix_length _ _ (He x)) as Hlx.
        assert (Hp : exists r1, evalp O G all_on n p (pos (rr x)) = Some r1).
        { destruct (fst (a x)) eqn:Ecx.
          - destruct (Ha x) as [Hcx _]. specialize (Hcx Ecx).
            apply (IHp p (pos (rr x)) R); [lia|now left|].
            assert (S (List.length (pos (rr x))) * (R * Sz) <= List.length e0 * (R * Sz)) by (apply Nat.mul_le_mono_r; lia).
            cbn [Nat.mul] in H. lia.
          - apply (IHp p (pos (rr x)) r); [exact Hr|exact Hc1|].
            assert (List.length (pos (rr x)) * (R * Sz) <= List.length e0 * (R * Sz)) by (apply Nat.mul_le_mono_r; lia).
            lia. }
        destruct Hp as [r1 Hp]. rewrite Hp.
        destruct (Sp _ _ _ Hp) as [Hp1 Hp2].
        assert (Hsx : suffix (pos r1) e0) by (eapply suffix_trans; [exact Hp1|apply He]).
        pose proof (suffix_length _ _ Hp1) as Hl1.
        destruct r1 as [j|j|j|].
        * apply (IHs kok e0 _ (a_ok a x y (nullp nu p)) r); [exact Hr|now apply env_ok_upd| |exact Hc2|lia].
          apply aenv_ok_upd; [exact Ha| |intros Hx; discriminate Hx].
          intros Hx. apply orb_true_iff in Hx. destruct Hx as [Hx|Hx].
          -- destruct (Ha x) as [Hcx _]. specialize (Hcx Hx). cbn in *. lia.
          -- apply negb_true_iff in Hx. specialize (Hp2 eq_refl Hx). cbn in *. lia.
        * apply (IHs kerr e0 _ (a_err a x e) r); [exact Hr|now apply env_ok_upd| |exact Hc3|lia].
          apply aenv_ok_upd; [exact Ha| |intros _; reflexivity].
          intros Hx. destruct (Ha x) as [Hcx _]. specialize (Hcx Hx). cbn in *. lia.
        * assert (Ha' : aenv_ok e0 (upd rr e (RFail j)) (a_err a x e)).
          { apply aenv_ok_upd; [exact Ha| |intros _; reflexivity].
            intros Hx. destruct (Ha x) as [Hcx _]. specialize (Hcx Hx). cbn in *. lia. }
          destruct kfail as [kf|].
          -- apply (IHs kf e0 _ (a_err a x e) r); [exact Hr|now apply env_ok_upd|exact Ha'|exact Hc4|lia].
          -- apply (IHs kerr e0 _ (a_err a x e) r); [exact Hr|now apply env_ok_upd|exact Ha'|exact Hc3|lia].
        * eexists; reflexivity.
      + cbn [sizes] in Hm. cbn [fcallss] in Hc. apply calls_ok_app in Hc. destruct Hc as [Hc1 Hc2].
        destruct (o_cond O site n e0).
        * apply (IHs s1 e0 rr a r); try assumption. lia.
        * apply (IHs s2 e0 rr a r); try assumption. lia.
      + cbn [sizes] in Hm. cbn [fcallss] in Hc. apply calls_ok_app in Hc. destruct Hc as [Hc1 Hc2].
        replace (nom && negb (all_on site)) with false by (destruct nom; reflexivity).
        destruct (List.length (pos (rr y)) =? List.length e0) eqn:El.
        * apply (IHs s1 e0 rr a r); try assumption. lia.
        * apply Nat.eqb_neq in El. pose proof (suffix_length _ _ (He y)) as Hly.
          apply (IHs s2 e0 rr (a_cons a y) r); try assumption; [apply aenv_ok_cons; [exact Ha|lia]|lia].
      + eexists; reflexivity.
      + eexists; reflexivity.
  Qed.

  Lemma term_all : forall n, term_p n /\ term_s n.
  Proof.
    induction n as [|n [IHp IHs]].
    - split; [intros p i r _ _ Hm|intros s e0 rr a r _ _ _ _ Hm]; lia.
    - now apply term_step.
  Qed.
End Termination.

Theorem eval_terminates : forall O G nu rk, oracle_ok O -> nu_bad nu G = [] -> rank_bad nu rk G = [] ->
  forall p i n, (List.length i + 1) * (S (max_rank rk G) * S (max_size G)) + sizep p < n ->
    exists r, evalp O G all_on n p i = Some r.
Proof.
  intros O G nu rk HO Hnu Hrk p i n Hn.
  set (R := S (max_rank rk G)) in *. set (Sz := S (max_size G)) in *.
  destruct (term_all O G nu rk R Sz HO (nu_bad_nil _ _ Hnu) (rank_bad_nil _ _ _ Hrk)) with (n := n) as [Hp _].
  - intros f b Hin. pose proof (max_rank_ge rk G f b Hin). unfold R. lia.
  - intros f b Hin. pose proof (max_size_ge G f b Hin). unfold Sz. lia.
  - apply (Hp p i R); [lia|now left|]. lia.
Qed.

(* ====================================================================== *)
(* 3. nom's infinite-loop guards are dead code (except the listed ones)    *)
(* ====================================================================== *)
(* L: the guards that the analysis cannot show dead.  Removing any of the OTHER guards changes no result. *)
Definition guards_in (nu : string -> bool) (G : grammar_t) (L : list string) : Prop :=
  forall f b, In (f, b) G -> incl (guardsp nu b) L.

Lemma guards_live_incl : forall nu G, guards_in nu G (guards_live nu G).
Proof.
  intros nu G f b Hin x Hx. unfold guards_live. apply in_flat_map. exists (f, b). split; assumption.
Qed.

Lemma incl_app_l : forall {A} (l1 l2 L : list A), incl (l1 ++ l2) L -> incl l1 L.
Proof. intros A l1 l2 L H x Hx. apply H. apply in_or_app. now left. Qed.
Lemma incl_app_r : forall {A} (l1 l2 L : list A), incl (l1 ++ l2) L -> incl l2 L.
Proof. intros A l1 l2 L H x Hx. apply H. apply in_or_app. now right. Qed.

Lemma incl_flat_map : forall {A B} (f : A -> list B) l L, incl (flat_map f l) L -> forall q, In q l -> incl (f q) L.
Proof. intros A B f l L H q Hq x Hx. apply H. apply in_flat_map. exists q. split; assumption. Qed.

Section Guards.
  Context (O : oracle) (G : grammar_t) (nu : string -> bool) (L : list string) (gd : string -> bool).
  Context (HO : oracle_ok O) (Hnu : nu_ok nu G) (Hg : guards_in nu G L).
  Context (Hgd : forall site, In site L -> gd site = true).

  Definition dead_p (n : nat) : Prop :=
    forall p i, incl (guardsp nu p) L -> evalp O G gd n p i = evalp O G all_on n p i.
  Definition dead_s (n : nat) : Prop :=
    forall s e0 rr a, env_ok e0 rr -> aenv_ok e0 rr a -> incl (guardss nu a s) L ->
      evals O G gd n s e0 rr = evals O G all_on n s e0 rr.

  Lemma dead_step : forall n, dead_p n -> dead_s n -> dead_p (S n) /\ dead_s (S n).
  Proof.
    intros n IHp IHs.
    destruct (sound_all O G nu HO Hnu n) as [Sp Ss].
    split.
    - intros p i Hgp. rewrite !evalp_S. destruct p as [nm c|site|f| |fl l|s]; try reflexivity.
      + destruct (lookup f G) as [b|] eqn:El; [|reflexivity].
        apply IHp. apply (Hg f b). now apply lookup_in.
      + cbn [guardsp] in Hgp.
        rewrite (map_ext_in (fun q => evalp O G gd n q i) (fun q => evalp O G all_on n q i)); [reflexivity|].
        intros q Hq. apply IHp. exact (incl_flat_map _ _ _ Hgp q Hq).
      + cbn [guardsp] in Hgp. apply (IHs s i _ a0); [apply env_ok_init|apply aenv_ok_init|exact Hgp].
    - intros s e0 rr a He Ha Hgs. rewrite !evals_S.
      destruct s as [m x|p x y e kok kerr kfail|site s1 s2|nom site y s1 s2|site|site]; try reflexivity.
      + cbn [guardss] in Hgs.
        pose proof (incl_app_l _ _ _ Hgs) as G1. apply incl_app_r in Hgs.
        pose proof (incl_app_l _ _ _ Hgs) as G2. apply incl_app_r in Hgs.
        pose proof (incl_app_l _ _ _ Hgs) as G3. pose proof (incl_app_r _ _ _ Hgs) as G4.
        rewrite (IHp p (pos (rr x)) G1).
        destruct (evalp O G all_on n p (pos (rr x))) as [r1|] eqn:Ep; [|reflexivity].
        destruct (Sp _ _ _ Ep) as [Hp1 Hp2].
        assert (Hsx : suffix (pos r1) e0) by (eapply suffix_trans; [exact Hp1|apply He]).
        pose proof (suffix_length _ _ Hp1) as Hl1. pose proof (suffix_length _ _ (He x)) as Hlx.
        destruct r1 as [j|j|j|]; [| | |reflexivity].
        * apply (IHs kok e0 _ (a_ok a x y (nullp nu p))); [now apply env_ok_upd| |exact G2].
          apply aenv_ok_upd; [exact Ha| |intros Hx; discriminate Hx].
          intros Hx. apply orb_true_iff in Hx. destruct Hx as [Hx|Hx].
          -- destruct (Ha x) as [Hcx _]. specialize (Hcx Hx). cbn in *. lia.
          -- apply negb_true_iff in Hx. specialize (Hp2 eq_refl Hx). cbn in *. lia.
        * apply (IHs kerr e0 _ (a_err a x e)); [now apply env_ok_upd| |exact G3].
          apply aenv_ok_upd; [exact Ha| |intros _; reflexivity].
          intros Hx. destruct (Ha x) as [Hcx _]. specialize (Hcx Hx). cbn in *. lia.
        * assert (Ha' : aenv_ok e0 (upd rr e (RFail j)) (a_err a x e)).
          { apply aenv_ok_upd; [exact Ha| |intros _; reflexivity].
            intros Hx. destruct (Ha x) as [Hcx _]. specialize (Hcx Hx). cbn in *. lia. }
          destruct kfail as [kf|].
          -- apply (IHs kf e0 _ (a_err a x e)); [now apply env_ok_upd|exact Ha'|exact G4].
          -- apply (IHs kerr e0 _ (a_err a x e)); [now apply env_ok_upd|exact Ha'|exact G3].
      + cbn [guardss] in Hgs. pose proof (incl_app_l _ _ _ Hgs) as G1. pose proof (incl_app_r _ _ _ Hgs) as G2.
        destruct (o_cond O site n e0); now apply (IHs _ e0 rr a).
      + cbn [guardss] in Hgs. pose proof (incl_app_l _ _ _ Hgs) as G0. apply incl_app_r in Hgs.
        pose proof (incl_app_l _ _ _ Hgs) as G1. pose proof (incl_app_r _ _ _ Hgs) as G2.
        replace (nom && negb (all_on site)) with false by (destruct nom; reflexivity).
        assert (Hk : List.length (pos (rr y)) =? List.length e0 = false ->
                     evals O G gd n s2 e0 rr = evals O G all_on n s2 e0 rr).
        { intros El. apply Nat.eqb_neq in El. pose proof (suffix_length _ _ (He y)) as Hly.
          apply (IHs s2 e0 rr (a_cons a y)); [exact He|apply aenv_ok_cons; [exact Ha|lia]|exact G2]. }
        destruct nom; cbn [andb].
        * destruct (fst (a y)) eqn:Ecy.
          -- (* shown dead by the analysis: the check cannot succeed, with or without it the loop goes on *)
             destruct (Ha y) as [Hcy _]. specialize (Hcy Ecy).
             assert (El : (List.length (pos (rr y)) =? List.length e0) = false) by (apply Nat.eqb_neq; lia).
             rewrite El. destruct (negb (gd site)); now apply Hk.
          -- (* not shown dead: it is one of L, hence kept *)
             cbn [negb andb] in G0. rewrite (Hgd site (G0 site (or_introl eq_refl))). cbn [negb].
             destruct (List.length (pos (rr y)) =? List.length e0) eqn:El; [now apply (IHs s1 e0 rr a)|now apply Hk].
        * destruct (List.length (pos (rr y)) =? List.length e0) eqn:El; [now apply (IHs s1 e0 rr a)|now apply Hk].
  Qed.

  Lemma dead_all : forall n, dead_p n /\ dead_s n.
  Proof.
    induction n as [|n [IHp IHs]].
    - split; [intros p i _|intros s e0 rr a _ _ _]; reflexivity.
    - now apply dead_step.
  Qed.
End Guards.

Theorem guards_dead : forall O G nu gd, oracle_ok O -> nu_bad nu G = [] ->
  (forall site, In site (guards_live nu G) -> gd site = true) ->
  forall n f i, evalp O G gd n (PCall f) i = evalp O G all_on n (PCall f) i.
Proof.
  intros O G nu gd HO Hnu Hgd n f i.
  destruct (dead_all O G nu (guards_live nu G) gd HO (nu_bad_nil _ _ Hnu) (guards_live_incl nu G) Hgd n) as [Hp _].
  apply Hp. cbn. intros x Hx. contradiction.
Qed.
