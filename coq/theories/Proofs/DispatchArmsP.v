(* C01 — the dispatch table of the model against the arm lists REGENERATED from the Rust source
   (Gen/DispatchArms.v, written by translators/dispatch_arms.py on every run).

   [src_dispatch] interprets the extracted `match` of impl_binop_match_arms! the way Rust does:
   first arm (source order) that is compiled in and whose patterns match, inside a wildcard arm the
   first compiled-in inner arm for the storage form of the wildcard side, no fall-through.
   The theorems say that for every pair of storage forms of the buildable configuration this is the
   arm class, the kernel macro and the shape guard the model [Elemwise.dispatch] uses, and that the
   kernels of the non-commutative operators combine their operands in the order lhs, rhs. *)
From Coq Require Import List Arith Bool String.
From MechV Require Import Base.Sexp Base.Obs Model.Elemwise Gen.DispatchArms.
Import ListNotations.
Open Scope string_scope.

(* storage forms compiled into the buildable configuration *)
Definition config : list string := ["matrixd"; "vectord"; "row_vectord"].
Definition enabled (fs : list string) : bool := forallb (fun f => existsb (String.eqb f) config) fs.

Definition form_name (f : form) : string :=
  match f with FS => "S" | FRD => "RowDVector" | FVD => "DVector" | FDM => "DMatrix" end.

Definition pat_matches (p : string) (f : form) : bool :=
  if String.eqb p "Any" then match f with FS => false | _ => true end else String.eqb p (form_name f).

(* (struct suffix, guards) selected by the extracted match, None = an error arm *)
Definition src_dispatch (fa fb : form) : option (string * list string) :=
  match find (fun a => let '(fs, pl, pr, _, _) := a in enabled fs && pat_matches pl fa && pat_matches pr fb) binop_arms with
  | None => None
  | Some (_, pl, pr, gs, ts) =>
      let wild := if String.eqb pl "Any" then form_name fa else if String.eqb pr "Any" then form_name fb else "" in
      match find (fun t => let '(tfs, inner, _) := t in enabled tfs && String.eqb inner wild) ts with
      | Some (_, _, s) => Some (s, gs)
      | None => None
      end
  end.

(* kernel macro suffix of a generated struct (impl_fxns!) *)
Definition src_kernel (s : string) : option string :=
  match find (fun e => let '(fs, s', _) := e in enabled fs && String.eqb s s') fxn_kernels with
  | Some (_, _, k) => Some k
  | None => None
  end.

Definition src_dispatch_kernel (fa fb : form) : option (string * list string) :=
  match src_dispatch fa fb with
  | Some (s, gs) => match src_kernel s with Some k => Some (k, gs) | None => None end
  | None => None
  end.

(* ---- the model's dispatch at the level of storage forms -------------------------------- *)
Inductive guard : Type := GNo | GLhsDM | GRhsDM.

Definition fdispatch (fa fb : form) : option (arm * guard) :=
  match fa, fb with
  | FS, FS => Some (ASS, GNo)
  | FS, _ => Some (ASM, GNo)
  | _, FS => Some (AMS, GNo)
  | FDM, FDM => Some (AVV, GNo)
  | FRD, FRD => Some (AVV, GNo)
  | FVD, FVD => Some (AVV, GNo)
  | FDM, FVD => Some (AMV, GLhsDM)
  | FDM, FRD => Some (AMR, GLhsDM)
  | FVD, FDM => Some (AVM, GRhsDM)
  | FRD, FDM => Some (ARM, GRhsDM)
  | _, _ => None
  end.

Definition guard_ok (g : guard) (a b : shape) : bool :=
  match g, a, b with
  | GNo, _, _ => true
  | GLhsDM, Mx r1 c1, Mx r2 c2 => guard_lhs_dm r1 c1 r2 c2
  | GRhsDM, Mx r1 c1, Mx r2 c2 => guard_rhs_dm r1 c1 r2 c2
  | _, _, _ => false
  end.

Lemma form_of_mx_not_scalar r c : form_of (Mx r c) <> FS.
Proof. unfold form_of. destruct (Nat.eqb r 1 && Nat.eqb c 1), (Nat.eqb r 1), (Nat.eqb c 1); discriminate. Qed.

(* [dispatch] is [fdispatch] on the storage forms plus the numeric guard of the wildcard arms *)
Theorem dispatch_by_forms a b :
  dispatch a b = match fdispatch (form_of a) (form_of b) with
                 | Some (arm, g) => if guard_ok g a b then Some arm else None
                 | None => None
                 end.
Proof.
  destruct a as [|r1 c1], b as [|r2 c2].
  - reflexivity.
  - cbn [dispatch]. pose proof (form_of_mx_not_scalar r2 c2). change (form_of Sc) with FS.
    destruct (form_of (Mx r2 c2)); try contradiction; reflexivity.
  - cbn [dispatch]. pose proof (form_of_mx_not_scalar r1 c1). change (form_of Sc) with FS.
    destruct (form_of (Mx r1 c1)); try contradiction; reflexivity.
  - unfold dispatch. pose proof (form_of_mx_not_scalar r1 c1). pose proof (form_of_mx_not_scalar r2 c2).
    destruct (form_of (Mx r1 c1)), (form_of (Mx r2 c2)); try contradiction; cbn [fdispatch guard_ok];
      try reflexivity;
      try (destruct (guard_lhs_dm r1 c1 r2 c2); reflexivity);
      try (destruct (guard_rhs_dm r1 c1 r2 c2); reflexivity).
Qed.

(* ---- model table = source table ------------------------------------------------------------ *)
Definition arm_kernel (a : arm) : string :=
  match a with
  | ASS => "_op" | ASM => "_scalar_rhs_op" | AMS => "_scalar_lhs_op" | AVV => "_vec_op"
  | AMV => "_mat_vec_op" | AVM => "_vec_mat_op" | AMR => "_mat_row_op" | ARM => "_row_mat_op"
  end.

(* the source text of the guards the model functions guard_lhs_dm / guard_rhs_dm stand for *)
Definition guard_text (g : guard) : list string :=
  match g with
  | GNo => []
  | GLhsDM => ["on (rows,cols,rhs_shape[0],rhs_shape[1])"; "(n,_,m,1) if n == m"; "(_,n,1,m) if n == m"]
  | GRhsDM => ["on (lhs_shape[0],lhs_shape[1],rows,cols)"; "(m,1,n,_) if n == m"; "(1,m,_,n) if n == m"]
  end.

Definition all_forms : list form := [FS; FRD; FVD; FDM].

Theorem dispatch_table_matches_source : forall fa fb : form,
  src_dispatch_kernel fa fb = option_map (fun ag => (arm_kernel (fst ag), guard_text (snd ag))) (fdispatch fa fb).
Proof. intros fa fb. destruct fa, fb; vm_compute; reflexivity. Qed.

(* ---- operand order of the kernels ------------------------------------------------------------ *)
Definition commutative_op (o : string) : bool :=
  existsb (String.eqb o) ["add"; "mul"; "eq"; "neq"; "and"; "or"; "xor"].
Definition op_names : list string :=
  ["add"; "sub"; "mul"; "div"; "mod"; "pow"; "eq"; "neq"; "lt"; "lte"; "gt"; "gte"; "and"; "or"; "xor"; "concat"].
Definition kernel_names : list string :=
  ["op"; "vec_op"; "scalar_lhs_op"; "scalar_rhs_op"; "mat_vec_op"; "vec_mat_op"; "mat_row_op"; "row_mat_op"].

(* every kernel of every operator was found, and every kernel of a non-commutative operator
   (- / % ^ < <= > >= and string concatenation) computes `lhs-element op rhs-element` *)
Theorem kernels_keep_operand_order :
  forallb (fun o => forallb (fun k =>
     existsb (fun e => let '(o', k', ord) := e in
                String.eqb o o' && String.eqb k k' && (commutative_op o || String.eqb ord "LR")) kernel_order)
     kernel_names) op_names = true.
Proof. vm_compute. reflexivity. Qed.
