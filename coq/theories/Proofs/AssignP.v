(* Lemmas and theorems for C04 (Model/Assign.v). *)
From Coq Require Import List Arith ZArith Lia PeanoNat Bool.
From Coq Require String.
From MechV Require Import Base.Sexp Base.Obs Model.Assign Proofs.SexpP.
Import ListNotations.

(* ================================================================== *)
(* 1. updates of lists, any element type                                *)
(* ================================================================== *)
Section UpdP.
  Context {A : Type}.
  Implicit Types (d l : list A) (ps : list nat) (vs : list A) (f : A -> A -> option A).

  Lemma upd_nth_length p v l : length (upd_nth p v l) = length l.
  Proof. revert p; induction l as [|x l IH]; intros [|p]; cbn; auto. Qed.

  Lemma nth_error_upd_nth_eq p v l : p < length l -> nth_error (upd_nth p v l) p = Some v.
  Proof.
    revert p; induction l as [|x l IH]; intros [|p] H; cbn in *; try lia; auto.
    apply IH; lia.
  Qed.

  Lemma nth_error_upd_nth_neq p q v l : p <> q -> nth_error (upd_nth p v l) q = nth_error l q.
  Proof.
    revert p q; induction l as [|x l IH]; intros [|p] [|q] H; cbn; auto; try congruence.
  Qed.

  Lemma nth_error_ext (l l' : list A) : (forall i, nth_error l i = nth_error l' i) -> l = l'.
  Proof.
    revert l'; induction l as [|x l IH]; intros [|y l'] H.
    - reflexivity.
    - specialize (H 0); discriminate.
    - specialize (H 0); discriminate.
    - f_equal.
      + specialize (H 0); cbn in H; congruence.
      + apply IH. intro i. exact (H (S i)).
  Qed.

  (* ---------- app_each: shape, frame, addressed elements ---------- *)
  Lemma app_each_length f ps : forall vs d d', app_each f ps vs d = Some d' -> length d' = length d.
  Proof.
    induction ps as [|p ps IH]; intros [|v vs] d d' H; cbn in H; try (injection H as <-; reflexivity).
    destruct (nth_error d p) as [old|]; [|discriminate].
    destruct (f old v) as [new|]; [|discriminate].
    apply IH in H. rewrite H. apply upd_nth_length.
  Qed.

  (* frame: a position that is not addressed keeps its element *)
  Lemma app_each_frame f ps : forall vs d d' q,
      app_each f ps vs d = Some d' -> ~ In q ps -> nth_error d' q = nth_error d q.
  Proof.
    induction ps as [|p ps IH]; intros [|v vs] d d' q H Hq; cbn in H; try (injection H as <-; reflexivity).
    destruct (nth_error d p) as [old|]; [|discriminate].
    destruct (f old v) as [new|]; [|discriminate].
    rewrite (IH _ _ _ q H) by (intro; apply Hq; right; assumption).
    apply nth_error_upd_nth_neq. intro; subst. apply Hq; left; reflexivity.
  Qed.

  (* every addressed element becomes f old source, for distinct positions *)
  Lemma app_each_sets f ps : forall vs d d',
      NoDup ps -> length ps = length vs -> app_each f ps vs d = Some d' ->
      forall i p v, nth_error ps i = Some p -> nth_error vs i = Some v ->
        exists old new, nth_error d p = Some old /\ f old v = Some new /\ nth_error d' p = Some new.
  Proof.
    induction ps as [|p0 ps IH]; intros [|v0 vs] d d' Hnd Hlen H i p v Hp Hv; cbn in Hlen; try discriminate.
    - destruct i; discriminate.
    - cbn in H.
      destruct (nth_error d p0) as [old|] eqn:Hold; [|discriminate].
      destruct (f old v0) as [new|] eqn:Hf; [|discriminate].
      inversion Hnd as [|? ? Hnotin Hnd']; subst.
      destruct i as [|i]; cbn in Hp, Hv.
      + injection Hp as <-. injection Hv as <-.
        exists old, new. repeat split; auto.
        rewrite (app_each_frame _ _ _ _ _ p0 H Hnotin).
        apply nth_error_upd_nth_eq. apply nth_error_Some. congruence.
      + destruct (IH vs _ _ Hnd' (eq_add_S _ _ Hlen) H i p v Hp Hv) as (o & n & Ho & Hfn & Hn).
        exists o, n. repeat split; auto.
        rewrite <- Ho. symmetry. apply nth_error_upd_nth_neq.
        intro; subst. apply Hnotin. eapply nth_error_In; eassumption.
  Qed.

  (* defined whenever every position is inside the list and f is defined on what it meets *)
  Lemma app_each_set_defined ps : forall vs d,
      Forall (fun p => p < length d) ps -> exists d', app_each f_set ps vs d = Some d'.
  Proof.
    induction ps as [|p ps IH]; intros [|v vs] d Hall; cbn; eauto.
    inversion Hall as [|? ? Hp Hall']; subst.
    destruct (nth_error d p) as [old|] eqn:Hold.
    - unfold f_set at 1. apply IH. rewrite upd_nth_length. assumption.
    - apply nth_error_None in Hold. lia.
  Qed.

  (* plain assignment of one value: every addressed element is that value, repeats allowed *)
  Lemma set_all_sets ps : forall v d d' p,
      set_all ps v d = Some d' -> In p ps -> nth_error d' p = Some v.
  Proof.
    unfold set_all.
    induction ps as [|p0 ps IH]; intros v d d' p H Hin; [destruct Hin|].
    cbn in H.
    destruct (nth_error d p0) as [old|] eqn:Hold; [|discriminate].
    unfold f_set at 1 in H.
    destruct (in_dec Nat.eq_dec p ps) as [Hi|Hni].
    - eapply IH; eassumption.
    - destruct Hin as [->|Hin]; [|contradiction].
      rewrite (app_each_frame _ _ _ _ _ p H Hni).
      apply nth_error_upd_nth_eq. apply nth_error_Some. congruence.
  Qed.

  Lemma set_all_frame ps v d d' q : set_all ps v d = Some d' -> ~ In q ps -> nth_error d' q = nth_error d q.
  Proof. apply app_each_frame. Qed.

  Lemma set_all_length ps v d d' : set_all ps v d = Some d' -> length d' = length d.
  Proof. apply app_each_length. Qed.

  (* the result of a plain scalar assignment depends only on WHICH positions are addressed *)
  Lemma set_all_ext ps ps' v d d1 d2 :
    set_all ps v d = Some d1 -> set_all ps' v d = Some d2 ->
    (forall p, In p ps <-> In p ps') -> d1 = d2.
  Proof.
    intros H1 H2 Hiff. apply nth_error_ext. intro i.
    destruct (in_dec Nat.eq_dec i ps) as [Hi|Hni].
    - rewrite (set_all_sets _ _ _ _ _ H1 Hi). symmetry. apply (set_all_sets _ _ _ _ _ H2). apply Hiff; assumption.
    - rewrite (set_all_frame _ _ _ _ _ H1 Hni). symmetry. apply (set_all_frame _ _ _ _ _ H2).
      intro; apply Hni; apply Hiff; assumption.
  Qed.

  (* ---------- read after write ---------- *)
  Lemma read_at_repeat ps : forall v d, (forall p, In p ps -> nth_error d p = Some v) ->
      read_at ps d = Some (repeat v (length ps)).
  Proof.
    unfold read_at. induction ps as [|p ps IH]; intros v d H; cbn; [reflexivity|].
    rewrite (H p (or_introl eq_refl)). rewrite (IH v d) by (intros; apply H; right; assumption). reflexivity.
  Qed.

  Lemma set_all_read_back ps v d d' :
    set_all ps v d = Some d' -> read_at ps d' = Some (repeat v (length ps)).
  Proof. intro H. apply read_at_repeat. intros p Hp. eapply set_all_sets; eassumption. Qed.

  Lemma read_at_pointwise ps : forall vs d, length ps = length vs ->
      (forall i p v, nth_error ps i = Some p -> nth_error vs i = Some v -> nth_error d p = Some v) ->
      read_at ps d = Some vs.
  Proof.
    unfold read_at. induction ps as [|p ps IH]; intros [|v vs] d Hlen H; cbn in *; try discriminate; [reflexivity|].
    rewrite (H 0 p v eq_refl eq_refl).
    rewrite (IH vs d) by (try lia; intros i p' v' Hp Hv; exact (H (S i) p' v' Hp Hv)). reflexivity.
  Qed.

  (* a vector written through distinct positions is read back through the same index *)
  Lemma assign_vec_read_back ps vs d d' :
    NoDup ps -> length ps = length vs -> app_each f_set ps vs d = Some d' -> read_at ps d' = Some vs.
  Proof.
    intros Hnd Hlen H. apply read_at_pointwise; [assumption|].
    intros i p v Hp Hv.
    destruct (app_each_sets _ _ _ _ _ Hnd Hlen H i p v Hp Hv) as (o & n & _ & Hf & Hn).
    unfold f_set in Hf. congruence.
  Qed.
End UpdP.

(* ================================================================== *)
(* 2. index forms: what is addressed                                    *)
(* ================================================================== *)
Lemma chk_spec n z p : chk n z = Some p <-> ((1 <= z <= Z.of_nat n)%Z /\ p = Z.to_nat (z - 1)).
Proof.
  unfold chk. destruct (Z.leb_spec 1 z) as [H1|H1], (Z.leb_spec z (Z.of_nat n)) as [H2|H2]; cbn [andb]; split; intro E;
    try discriminate; try (injection E as <-; split; [lia|reflexivity]);
    try (destruct E as [E ->]; first [reflexivity | lia]).
Qed.

Lemma chk_lt n z p : chk n z = Some p -> p < n.
Proof. intro H. apply chk_spec in H. lia. Qed.

Lemma chk_none n z : chk n z = None <-> (z < 1 \/ Z.of_nat n < z)%Z.
Proof.
  unfold chk. destruct (Z.leb_spec 1 z) as [H1|H1], (Z.leb_spec z (Z.of_nat n)) as [H2|H2]; cbn [andb]; split; intro E;
    try discriminate; try reflexivity; lia.
Qed.

Lemma map_opt_Forall2 {B C} (f : B -> option C) l : forall ps,
    map_opt f l = Some ps -> Forall2 (fun a b => f a = Some b) l ps.
Proof.
  induction l as [|a l IH]; intros ps H; cbn in H.
  - injection H as <-. constructor.
  - destruct (f a) as [b|] eqn:Hf; [|discriminate].
    destruct (map_opt f l) as [bs|]; [|discriminate]. injection H as <-. constructor; auto.
Qed.

Lemma map_opt_map {B C} (f : B -> option C) l ps : map_opt f l = Some ps -> map f l = map Some ps.
Proof.
  intro H. apply map_opt_Forall2 in H. induction H; cbn; [reflexivity|]. congruence.
Qed.

Lemma map_opt_none {B C} (f : B -> option C) l : map_opt f l = None -> exists a, In a l /\ f a = None.
Proof.
  induction l as [|a l IH]; cbn; [discriminate|].
  destruct (f a) eqn:Hf.
  - destruct (map_opt f l); [discriminate|]. intros _. destruct (IH eq_refl) as (b & Hb & Hfb). exists b; auto.
  - intros _. exists a; auto.
Qed.

Lemma mask_pos_spec l : forall i p, In p (mask_pos i l) <-> (i <= p /\ nth_error l (p - i) = Some true).
Proof.
  induction l as [|b l IH]; intros i p; cbn [mask_pos].
  - split; [intros []|]. intros [_ H]. destruct (p - i); discriminate.
  - rewrite in_app_iff, IH. split.
    + intros [H|[H1 H2]].
      * destruct b; [|destruct H]. destruct H as [<-|[]]. rewrite Nat.sub_diag. split; [lia|reflexivity].
      * split; [lia|]. replace (p - i) with (S (p - S i)) by lia. exact H2.
    + intros [H1 H2]. destruct (Nat.eq_dec p i) as [->|Hne].
      * rewrite Nat.sub_diag in H2. cbn in H2. injection H2 as ->. left; left; reflexivity.
      * right. split; [lia|]. replace (p - i) with (S (p - S i)) in H2 by lia. exact H2.
Qed.

Lemma mask_pos_lt l i p : In p (mask_pos i l) -> p < i + length l.
Proof.
  intro H. apply mask_pos_spec in H as [H1 H2].
  assert (p - i < length l) by (apply nth_error_Some; congruence). lia.
Qed.

Lemma mask_pos_NoDup l : forall i, NoDup (mask_pos i l).
Proof.
  induction l as [|b l IH]; intro i; cbn [mask_pos]; [constructor|].
  destruct b; cbn; [|apply IH]. constructor; [|apply IH].
  intro H. apply mask_pos_spec in H. lia.
Qed.

Lemma nodupb_NoDup l : nodupb l = true <-> NoDup l.
Proof.
  induction l as [|x l IH]; cbn; [split; [constructor|reflexivity]|].
  rewrite andb_true_iff, negb_true_iff, IH. split.
  - intros [H1 H2]. constructor; [|assumption]. intro Hin.
    assert (existsb (Nat.eqb x) l = true) by (apply existsb_exists; exists x; split; [assumption|apply Nat.eqb_refl]).
    congruence.
  - intro H. inversion H as [|? ? Hn Hd]; subst. split; [|assumption].
    destruct (existsb (Nat.eqb x) l) eqn:E; [|reflexivity].
    apply existsb_exists in E as (y & Hy & Hxy). apply Nat.eqb_eq in Hxy. subst. contradiction.
Qed.

(* every addressed position is inside the dimension *)
Lemma comp_status_lt n c ps : comp_status n c = CValid ps -> Forall (fun p => p < n) ps.
Proof.
  destruct c as [z|l|a b| |l]; cbn [comp_status]; intro H.
  - destruct (chk n z) as [p|] eqn:E; [|discriminate]. injection H as <-. constructor; [eapply chk_lt; eassumption|constructor].
  - destruct (map_opt (chk n) l) as [qs|] eqn:E; [|discriminate]. injection H as <-.
    apply map_opt_Forall2 in E. induction E; constructor; [eapply chk_lt; eassumption|assumption].
  - destruct (Z.leb b a); [discriminate|].
    destruct (map_opt (chk n) (range_list a b)) as [qs|] eqn:E; [|discriminate]. injection H as <-.
    apply map_opt_Forall2 in E. induction E; constructor; [eapply chk_lt; eassumption|assumption].
  - injection H as <-. apply Forall_forall. intros p Hp. apply in_seq in Hp. lia.
  - destruct (Nat.eqb (length l) n) eqn:E.
    + injection H as <-. apply Nat.eqb_eq in E. apply Forall_forall. intros p Hp. apply mask_pos_lt in Hp. lia.
    + destruct (existsb _ _); discriminate.
Qed.

Lemma in_lin2 r ri cj p : In p (lin2 r ri cj) <-> exists rr cc, In rr ri /\ In cc cj /\ p = cc * r + rr.
Proof.
  unfold lin2. rewrite in_flat_map. split.
  - intros (cc & Hc & H). apply in_map_iff in H as (rr & <- & Hr). eauto.
  - intros (rr & cc & Hr & Hc & ->). exists cc. split; [assumption|]. apply in_map_iff. eauto.
Qed.

Lemma target_status_T2_valid r c i j ps :
  target_status r c (T2 i j) = CValid ps ->
  exists ri cj, comp_status r i = CValid ri /\ comp_status c j = CValid cj /\ ps = lin2 r ri cj.
Proof.
  cbn [target_status].
  destruct (comp_status r i) as [ri| |w]; destruct (comp_status c j) as [cj| |w']; intro H;
    try discriminate; try (destruct ri; discriminate); try (destruct cj; discriminate).
  destruct ri; injection H as <-; eauto.
Qed.

Lemma target_status_lt r c t ps : target_status r c t = CValid ps -> Forall (fun p => p < r * c) ps.
Proof.
  destruct t as [|i|i j]; intro H.
  - cbn in H. injection H as <-. apply Forall_forall. intros p Hp. apply in_seq in Hp. lia.
  - eapply comp_status_lt; eassumption.
  - apply target_status_T2_valid in H as (ri & cj & Ei & Ej & ->).
    apply Forall_forall. intros p Hp.
    apply in_lin2 in Hp as (rr & cc & Hr & Hc & ->).
    apply comp_status_lt in Ei, Ej. rewrite Forall_forall in Ei, Ej.
    specialize (Ei _ Hr). specialize (Ej _ Hc). nia.
Qed.

Lemma target_status_T2_meaning r c i j ps :
  target_status r c (T2 i j) = CValid ps ->
  exists ri cj, comp_status r i = CValid ri /\ comp_status c j = CValid cj /\
    forall p, In p ps <-> exists rr cc, In rr ri /\ In cc cj /\ p = cc * r + rr.
Proof.
  intro H. apply target_status_T2_valid in H as (ri & cj & Hi & Hj & ->).
  exists ri, cj. repeat split; auto; apply in_lin2.
Qed.

(* the surface meaning of the linear positions: 1-based, column-major *)
Theorem comp_status_scalar n z ps :
  comp_status n (IS z) = CValid ps <-> ((1 <= z <= Z.of_nat n)%Z /\ ps = [Z.to_nat (z - 1)]).
Proof.
  cbn. destruct (chk n z) as [p|] eqn:E.
  - apply chk_spec in E as [E ->]. split; [intro H; injection H as <-; auto|intros [_ ->]; reflexivity].
  - apply chk_none in E. split; [discriminate|]. intros [H _]. lia.
Qed.

Theorem comp_status_vector n l ps :
  comp_status n (IV l) = CValid ps <->
  (Forall (fun z => (1 <= z <= Z.of_nat n)%Z) l /\ ps = map (fun z => Z.to_nat (z - 1)) l).
Proof.
  cbn. revert ps. induction l as [|z l IH]; intro ps; cbn.
  - split; [intro H; injection H as <-; auto|intros [_ ->]; reflexivity].
  - destruct (chk n z) as [p|] eqn:E.
    + apply chk_spec in E as [E ->].
      destruct (map_opt (chk n) l) as [qs|] eqn:E2.
      * destruct (IH qs) as [IH1 _]. destruct (IH1 eq_refl) as [Hall ->].
        split; [intro H; injection H as <-; split; [constructor; assumption|reflexivity]|].
        intros [_ ->]. reflexivity.
      * split; [discriminate|]. intros [Hall _]. inversion Hall as [|? ? _ Hall']; subst.
        destruct (IH (map (fun z => Z.to_nat (z - 1)) l)) as [_ IH2]. specialize (IH2 (conj Hall' eq_refl)). discriminate.
    + apply chk_none in E. split; [discriminate|]. intros [Hall _]. inversion Hall; subst. lia.
Qed.

Theorem comp_status_mask n l ps :
  comp_status n (IM l) = CValid ps <-> (length l = n /\ ps = mask_pos 0 l).
Proof.
  cbn. destruct (Nat.eqb_spec (length l) n) as [E|E].
  - split; [intro H; injection H as <-; auto|intros [_ ->]; reflexivity].
  - split; [destruct (existsb _ _); discriminate|]. intros [H _]. contradiction.
Qed.

Theorem comp_status_all n ps : comp_status n IAll = CValid ps <-> ps = seq 0 n.
Proof. cbn. split; [intro H; injection H as <-; reflexivity|intros ->; reflexivity]. Qed.

(* element (i,j) (0-based) of a well-formed matrix is the element at linear position j*rows+i *)
Lemma mget_lin {A} (m : mat A) i j : i < mrows m -> j < mcols m -> mget m i j = nth_error (mdata m) (j * mrows m + i).
Proof.
  intros Hi Hj. unfold mget.
  destruct (Nat.ltb_spec i (mrows m)), (Nat.ltb_spec j (mcols m)); try lia. reflexivity.
Qed.

(* ================================================================== *)
(* 3. the property at statement level                                   *)
(* ================================================================== *)
Local Open Scope string_scope.

Lemma arith_set k : arith k OSet = @f_set sx.
Proof. reflexivity. Qed.

Lemma spec_update_ok k o ps vs d d' :
  spec_update k o ps vs d = OkNew d' -> app_each (arith k o) ps vs d = Some d'.
Proof. unfold spec_update. destruct (app_each _ _ _ _); [intro H; injection H as <-; reflexivity|discriminate]. Qed.

(* what a successful scalar statement means *)
Lemma spec_step_scalar_inv k x o t k' e d :
  spec_step k x (SAsg o t (SSc k' e)) = OkNew d ->
  exists ps, target_status (mrows x) (mcols x) t = CValid ps /\ k' = k /\
             (is_set o = false -> NoDup ps) /\
             app_each (arith k o) ps (repeat e (length ps)) (mdata x) = Some d.
Proof.
  unfold spec_step. cbn [src_kind].
  destruct (String.eqb k' k) eqn:Ek; cbn [negb].
  2:{ destruct (andb _ _); discriminate. }
  apply String.eqb_eq in Ek. subst k'.
  destruct (andb (is_set o) _); [discriminate|].
  destruct (andb (negb (is_set o)) (negb (is_numeric k))); [discriminate|].
  cbn [source_form_soft].
  destruct (target_status (mrows x) (mcols x) t) as [ps| |w]; try discriminate.
  destruct (andb (negb (is_set o)) (negb (nodupb ps))) eqn:En; [discriminate|].
  intro H. apply spec_update_ok in H. exists ps. repeat split; auto.
  intro Hs. rewrite Hs in En. cbn in En. apply negb_false_iff in En. apply nodupb_NoDup. assumption.
Qed.

(* assign_sets + assign_frame for `x[...] = scalar` (repeated indices allowed) *)
Theorem assign_scalar_sets_frame k x t k' e d :
  spec_step k x (SAsg OSet t (SSc k' e)) = OkNew d ->
  exists ps, target_status (mrows x) (mcols x) t = CValid ps /\
    (forall p, In p ps -> nth_error d p = Some e) /\
    (forall q, ~ In q ps -> nth_error d q = nth_error (mdata x) q) /\
    length d = length (mdata x).
Proof.
  intro H. apply spec_step_scalar_inv in H as (ps & Ht & _ & _ & H).
  rewrite arith_set in H. exists ps. split; [assumption|]. repeat split.
  - intros p Hp. eapply set_all_sets; eassumption.
  - intros q Hq. eapply app_each_frame; eassumption.
  - eapply app_each_length; eassumption.
Qed.

(* opassign_relative for a scalar operand: new = old op v on the addressed elements, frame elsewhere *)
Theorem opassign_scalar_relative k x o t k' e d :
  is_set o = false ->
  spec_step k x (SAsg o t (SSc k' e)) = OkNew d ->
  exists ps, target_status (mrows x) (mcols x) t = CValid ps /\ NoDup ps /\
    (forall p, In p ps -> exists old new, nth_error (mdata x) p = Some old /\ arith k o old e = Some new /\
                                          nth_error d p = Some new) /\
    (forall q, ~ In q ps -> nth_error d q = nth_error (mdata x) q) /\
    length d = length (mdata x).
Proof.
  intros Ho H. apply spec_step_scalar_inv in H as (ps & Ht & _ & Hnd & H).
  specialize (Hnd Ho). exists ps. split; [assumption|]. split; [assumption|]. repeat split.
  - intros p Hp. apply In_nth_error in Hp as (i & Hi).
    assert (Hv : nth_error (repeat e (length ps)) i = Some e).
    { assert (i < length ps) by (apply nth_error_Some; congruence).
      rewrite nth_error_repeat by assumption. reflexivity. }
    eapply app_each_sets; try eassumption. rewrite repeat_length. reflexivity.
  - intros q Hq. eapply app_each_frame; eassumption.
  - eapply app_each_length; eassumption.
Qed.

Lemma spec_step_vector_inv k x o t k' col vs d :
  spec_step k x (SAsg o t (SVec k' col vs)) = OkNew d ->
  exists ps, target_status (mrows x) (mcols x) t = CValid ps /\ k' = k /\ NoDup ps /\ length ps = length vs /\
             app_each (arith k o) ps vs (mdata x) = Some d.
Proof.
  unfold spec_step. cbn [src_kind].
  destruct (String.eqb k' k) eqn:Ek; cbn [negb].
  2:{ destruct (andb _ _); discriminate. }
  apply String.eqb_eq in Ek. subst k'.
  destruct (andb (is_set o) _); [discriminate|].
  destruct (andb (negb (is_set o)) (negb (is_numeric k))); [discriminate|].
  destruct (source_form_soft t x (SVec k col vs)); [discriminate|].
  destruct (target_status (mrows x) (mcols x) t) as [ps| |w] eqn:Et; try discriminate.
  destruct (Nat.ltb_spec (length vs) (length ps)) as [Hl1|Hl1]; [discriminate|].
  destruct (Nat.ltb_spec (length ps) (length vs)) as [Hl2|Hl2]; [discriminate|].
  destruct (nodupb ps) eqn:En; cbn [negb]; [|discriminate].
  intro Hs; apply spec_update_ok in Hs; exists ps; repeat split; auto; try lia.
  apply nodupb_NoDup; assumption.
Qed.

(* a vector source through distinct positions: the i-th addressed element gets (old op) the i-th source element *)
Theorem assign_vector_sets_frame k x o t k' col vs d :
  spec_step k x (SAsg o t (SVec k' col vs)) = OkNew d ->
  exists ps, target_status (mrows x) (mcols x) t = CValid ps /\ NoDup ps /\ length ps = length vs /\
    (forall i p v, nth_error ps i = Some p -> nth_error vs i = Some v ->
       exists old new, nth_error (mdata x) p = Some old /\ arith k o old v = Some new /\ nth_error d p = Some new) /\
    (forall q, ~ In q ps -> nth_error d q = nth_error (mdata x) q) /\
    length d = length (mdata x).
Proof.
  intro H. apply spec_step_vector_inv in H as (ps & Ht & _ & Hnd & Hlen & H).
  exists ps. repeat split; auto.
  - intros i p v Hp Hv. eapply app_each_sets; eassumption.
  - intros q Hq. eapply app_each_frame; eassumption.
  - eapply app_each_length; eassumption.
Qed.

(* shape is kept by every successful statement *)
Lemma spec_step_length k x s d : spec_step k x s = OkNew d -> length d = length (mdata x).
Proof.
  destruct s as [o t [k' e|k' col vs]|t]; [| |discriminate]; intro H.
  - apply spec_step_scalar_inv in H as (ps & _ & _ & _ & H). eapply app_each_length; eassumption.
  - apply spec_step_vector_inv in H as (ps & _ & _ & _ & _ & H). eapply app_each_length; eassumption.
Qed.

(* read after write, scalar source: reading the index just written gives the written value everywhere *)
Theorem read_after_write_scalar k x t k' e d :
  spec_step k x (SAsg OSet t (SSc k' e)) = OkNew d ->
  forall ps, target_status (mrows x) (mcols x) t = CValid ps ->
    read_at ps d = Some (repeat e (length ps)).
Proof.
  intros H ps Ht. apply spec_step_scalar_inv in H as (ps' & Ht' & _ & _ & H).
  rewrite Ht in Ht'. injection Ht' as <-. rewrite arith_set in H. eapply set_all_read_back. exact H.
Qed.

Theorem read_after_write_vector k x t k' col vs d :
  spec_step k x (SAsg OSet t (SVec k' col vs)) = OkNew d ->
  forall ps, target_status (mrows x) (mcols x) t = CValid ps -> read_at ps d = Some vs.
Proof.
  intros H ps Ht. apply spec_step_vector_inv in H as (ps' & Ht' & _ & Hnd & Hlen & H).
  rewrite Ht in Ht'. injection Ht' as <-. rewrite arith_set in H. eapply assign_vec_read_back; eassumption.
Qed.

(* the judge's read check is this read: spec_read on the updated matrix *)
Corollary spec_read_after_write k x t k' e d :
  spec_step k x (SAsg OSet t (SSc k' e)) = OkNew d ->
  forall ps, target_status (mrows x) (mcols x) t = CValid ps -> ps <> [] ->
    spec_read (Mat (mrows x) (mcols x) d) t = Some (repeat e (length ps)).
Proof.
  intros H ps Ht Hne. unfold spec_read. cbn [mrows mcols mdata]. rewrite Ht.
  destruct ps; [congruence|]. eapply read_after_write_scalar; eassumption.
Qed.

(* an out-of-range target or a source of a kind the matrix cannot hold is an error *)
Theorem out_of_range_is_error k x o t src :
  src_kind src = k ->
  target_status (mrows x) (mcols x) t = COut ->
  match spec_step k x (SAsg o t src) with OkNew _ => False | _ => True end.
Proof.
  intros Hk Ht. unfold spec_step. rewrite Hk, String.eqb_refl. cbn [negb].
  destruct (andb (is_set o) _); [exact I|].
  destruct (andb (negb (is_set o)) _); [exact I|].
  destruct (source_form_soft t x src); [exact I|]. rewrite Ht. exact I.
Qed.

Theorem wrong_kind_is_error k x o t src :
  src_kind src <> k -> (is_numeric (src_kind src) && is_numeric k = false)%bool ->
  spec_step k x (SAsg o t src) = MustErr.
Proof.
  intros Hk Hn. unfold spec_step.
  destruct (String.eqb (src_kind src) k) eqn:E; [apply String.eqb_eq in E; contradiction|].
  cbn [negb]. rewrite Hn. reflexivity.
Qed.

(* assign_error_atomic + history invariant *)
Theorem assign_error_atomic st s :
  (forall d, spec_step (fst st) (snd st) s <> OkNew d) -> spec_exec st s = st.
Proof. unfold spec_exec. destruct (spec_step _ _ _) as [d| |w]; intro H; [exfalso; apply (H d); reflexivity|reflexivity|reflexivity]. Qed.

Lemma spec_exec_inv st s :
  wf_mat (snd st) ->
  let st' := spec_exec st s in
  fst st' = fst st /\ mrows (snd st') = mrows (snd st) /\ mcols (snd st') = mcols (snd st) /\ wf_mat (snd st').
Proof.
  intro Hwf. unfold spec_exec. destruct (spec_step (fst st) (snd st) s) as [d| |w] eqn:E; cbn; auto.
  repeat split. unfold wf_mat in *. cbn. apply spec_step_length in E. congruence.
Qed.

Theorem assign_history_inv ss : forall st,
  wf_mat (snd st) ->
  let st' := spec_run st ss in
  fst st' = fst st /\ mrows (snd st') = mrows (snd st) /\ mcols (snd st') = mcols (snd st) /\ wf_mat (snd st').
Proof.
  unfold spec_run. induction ss as [|s ss IH]; intros st Hwf; cbn [fold_left]; [auto|].
  destruct (spec_exec_inv st s Hwf) as (Hk & Hr & Hc & Hw).
  destruct (IH _ Hw) as (Hk' & Hr' & Hc' & Hw'). cbv zeta. repeat split; congruence || assumption.
Qed.

(* ================================================================== *)
(* 4. soundness of the judge                                            *)
(* ================================================================== *)
(* What an `ok` verdict asserts about the observed session: after every statement the property fixes,
   the statement's result and the variable x are what the property demands; a statement the property
   does not fix only moves the reference point to the observed x (if that still is a matrix of the
   same kind and shape). *)
Fixpoint spec_trace (k : String.string) (x : mat sx) (ss : list stmt) (os : list stepobs) {struct ss} : Prop :=
  match ss, os with
  | [], [] => True
  | s :: ss', o :: os' =>
      match s with
      | SRead t =>
          match spec_read x t with
          | Some es => so_x o = Some (KM k x) /\ obs_elems (so_res o) = Some (k, es) /\ spec_trace k x ss' os'
          | None => match resync o k x with Some x' => spec_trace k x' ss' os' | None => True end
          end
      | SAsg _ _ _ =>
          match spec_step k x s with
          | OkNew d => is_val (so_res o) = true /\ so_x o = Some (KM k (Mat (mrows x) (mcols x) d)) /\
                       spec_trace k (Mat (mrows x) (mcols x) d) ss' os'
          | MustErr => is_err (so_res o) = true /\ so_x o = Some (KM k x) /\ spec_trace k x ss' os'
          | NotFixed _ => match resync o k x with Some x' => spec_trace k x' ss' os' | None => True end
          end
      end
  | _, _ => False
  end.

Definition C04_spec (cs : case) (steps : list stepobs) : Prop :=
  exists o0 os, steps = o0 :: os /\ so_x o0 = Some (KM (c_kind cs) (c_x cs)) /\
                spec_trace (c_kind cs) (c_x cs) (c_stmts cs) os.

Definition benign (v : sverdict) : Prop := match v with VOk _ | VAdv _ => True | _ => False end.

Lemma mat_eta {A} (m : mat A) : Mat (mrows m) (mcols m) (mdata m) = m.
Proof. destruct m; reflexivity. Qed.

Lemma x_is_sound o k r c d : x_is o k r c d = true -> so_x o = Some (KM k (Mat r c d)).
Proof.
  unfold x_is. destruct (so_x o) as [v|]; [|discriminate]. intro H. apply kval_eqb_eq in H. congruence.
Qed.

Lemma try_kf_kf k x s o fx r : try_kf k x s o fx = Some r -> exists id m, r = (VKf id, m).
Proof.
  unfold try_kf. destruct (kf_class fx k x s) as [id|]; [|discriminate].
  destruct (mech_step fx k x s) as [[fin pat]|]; [|discriminate].
  destruct (resync o k x) as [x'|]; [|discriminate].
  destruct (andb _ _); [|discriminate]. intro Hr. injection Hr as <-. eauto.
Qed.

Lemma via_kf_not_benign k x s o exp why v nx : benign v -> via_kf k x s o exp why = (v, nx) -> False.
Proof.
  intros Hb E. unfold via_kf in E.
  destruct (try_kf k x s o false) as [r|] eqn:E1.
  - destruct (try_kf_kf _ _ _ _ _ _ E1) as (id & m & ->). injection E as <- _. exact Hb.
  - destruct (try_kf k x s o true) as [r|] eqn:E2.
    + destruct (try_kf_kf _ _ _ _ _ _ E2) as (id & m & ->). injection E as <- _. exact Hb.
    + injection E as <- _. exact Hb.
Qed.

Lemma judge_step_sound k x s o v nx :
  judge_step k x s o = (v, nx) -> benign v ->
  match s with
  | SRead t =>
      match spec_read x t with
      | Some es => so_x o = Some (KM k x) /\ obs_elems (so_res o) = Some (k, es) /\ nx = Some x
      | None => nx = resync o k x
      end
  | SAsg _ _ _ =>
      match spec_step k x s with
      | OkNew d => is_val (so_res o) = true /\ so_x o = Some (KM k (Mat (mrows x) (mcols x) d)) /\
                   nx = Some (Mat (mrows x) (mcols x) d)
      | MustErr => is_err (so_res o) = true /\ so_x o = Some (KM k x) /\ nx = Some x
      | NotFixed _ => nx = resync o k x
      end
  end.
Proof.
  intros E Hb. destruct s as [op t src|t]; cbn [judge_step] in E.
  - destruct (spec_step k x (SAsg op t src)) as [d| |w].
    + destruct (andb (is_val (so_res o)) (x_is o k (mrows x) (mcols x) d)) eqn:C.
      * injection E as <- <-. apply andb_prop in C as [C1 C2]. apply x_is_sound in C2. auto.
      * exfalso. eapply via_kf_not_benign; eassumption.
    + destruct (andb (is_err (so_res o)) (x_is o k (mrows x) (mcols x) (mdata x))) eqn:C.
      * injection E as <- <-. apply andb_prop in C as [C1 C2]. apply x_is_sound in C2.
        rewrite mat_eta in C2. auto.
      * exfalso. eapply via_kf_not_benign; eassumption.
    + injection E as _ <-. reflexivity.
  - destruct (spec_read x t) as [es|].
    + destruct (x_is o k (mrows x) (mcols x) (mdata x)) eqn:C; cbn [negb] in E.
      2:{ injection E as <- _. destruct Hb. }
      apply x_is_sound in C. rewrite mat_eta in C.
      destruct (obs_elems (so_res o)) as [[k' es']|]; [|injection E as <- _; destruct Hb].
      destruct (andb (String.eqb k k') (sxs_eqb es es')) eqn:C2; [|injection E as <- _; destruct Hb].
      injection E as _ <-. apply andb_prop in C2 as [C3 C4].
      apply String.eqb_eq in C3. apply sxs_eqb_eq in C4. subst. auto.
    + injection E as _ <-. reflexivity.
Qed.

Lemma judge_steps_sound ss : forall k x os, Forall benign (judge_steps k x ss os) -> spec_trace k x ss os.
Proof.
  induction ss as [|s ss IH]; intros k x [|o os] H; cbn [judge_steps spec_trace] in *.
  - exact I.
  - inversion H as [|? ? Hb _]; subst. destruct Hb.
  - inversion H as [|? ? Hb _]; subst. destruct Hb.
  - destruct (judge_step k x s o) as [v nx] eqn:E.
    inversion H as [|? ? Hb Hrest]; subst.
    pose proof (judge_step_sound _ _ _ _ _ _ E Hb) as S.
    destruct s as [op t src|t].
    + destruct (spec_step k x (SAsg op t src)) as [d| |w].
      * destruct S as (S1 & S2 & ->). repeat split; auto.
      * destruct S as (S1 & S2 & ->). repeat split; auto.
      * subst nx. destruct (resync o k x); [apply IH; assumption|exact I].
    + destruct (spec_read x t) as [es|].
      * destruct S as (S1 & S2 & ->). repeat split; auto.
      * subst nx. destruct (resync o k x); [apply IH; assumption|exact I].
Qed.

Lemma first_bad_none vs : first_bad vs = None -> Forall (fun v => match v with VBad _ _ => False | _ => True end) vs.
Proof. induction vs as [|[t|t|i|w e] vs IH]; cbn; intro H; try discriminate; constructor; auto. Qed.
Lemma first_kf_none vs : first_kf vs = None -> Forall (fun v => match v with VKf _ => False | _ => True end) vs.
Proof. induction vs as [|[t|t|i|w e] vs IH]; cbn; intro H; try discriminate; constructor; auto. Qed.

Lemma summarize_ok vs tag : summarize vs = v_ok tag -> Forall benign vs.
Proof.
  unfold summarize. destruct (first_bad vs) as [b|] eqn:Eb.
  - intro H. exfalso. clear - Eb H. induction vs as [|[t|t|i|w e] vs IH]; cbn in Eb; try discriminate; auto.
    injection Eb as <-. discriminate.
  - destruct (first_kf vs) as [f|] eqn:Ef.
    + intro H. exfalso. clear - Ef H. induction vs as [|[t|t|i|w e] vs IH]; cbn in Ef; try discriminate; auto.
      injection Ef as <-. discriminate.
    + intros _. apply first_bad_none in Eb. apply first_kf_none in Ef.
      rewrite Forall_forall in *. intros v Hv. specialize (Eb v Hv). specialize (Ef v Hv).
      destruct v; cbn; auto.
Qed.

Theorem judge_case_sound cs steps tag : judge_case cs steps = v_ok tag -> C04_spec cs steps.
Proof.
  unfold judge_case, C04_spec. destruct steps as [|o0 os]; [discriminate|].
  destruct (x_is o0 (c_kind cs) (mrows (c_x cs)) (mcols (c_x cs)) (mdata (c_x cs))) eqn:E; [|discriminate].
  intro H. apply summarize_ok in H. apply judge_steps_sound in H.
  apply x_is_sound in E. rewrite mat_eta in E. eauto.
Qed.

(* the whole line: an `ok` of the extracted judge means the decoded session satisfies C04_spec *)
Theorem judge_assign_sound c steps tag :
  judge_assign (session_line c steps) = v_ok tag ->
  exists cs os, decode_case c = Some cs /\ map_opt decode_step steps = Some os /\ C04_spec cs os.
Proof.
  unfold session_line. cbn [judge_assign]. destruct (decode_case c) as [cs|]; [|discriminate].
  destruct (map_opt decode_step steps) as [os|]; [|discriminate].
  intro H. apply judge_case_sound in H. eauto.
Qed.

(* ================================================================== *)
(* 5. the known findings: the faithful model violates the property      *)
(* ================================================================== *)
(* [refutes id w]: w lies in class id, and on w the faithful model of mech does not do what the
   property demands. *)
Definition refutes (id : String.string) (w : String.string * mat sx * stmt) : Prop :=
  let '(k, x, s) := w in
  wf_mat x /\ kf_class false k x s = Some id /\
  match spec_step k x s with
  | OkNew d => mech_step false k x s <> Some (true, map Some d)
  | MustErr => mech_step false k x s <> Some (false, map Some (mdata x))
  | NotFixed _ => False
  end.

Ltac show_refutes := unfold refutes; vm_compute; repeat split; discriminate.

Lemma refuted_opassign_scalar : refutes id_opassign_scalar w_opassign_scalar. Proof. show_refutes. Qed.
Lemma refuted_partial_write : refutes id_partial_write w_partial_write. Proof. show_refutes. Qed.
Lemma refuted_whole_short : refutes id_whole_short w_whole_short. Proof. show_refutes. Qed.
Lemma refuted_mask_rows_all : refutes id_mask_rows_all w_mask_rows_all. Proof. show_refutes. Qed.
Lemma refuted_rows_ignored : refutes id_rows_ignored w_rows_ignored. Proof. show_refutes. Qed.
Lemma refuted_mask_vector : refutes id_mask_vector w_mask_vector. Proof. show_refutes. Qed.
Lemma refuted_div_all : refutes id_div_all w_div_all. Proof. show_refutes. Qed.
Lemma refuted_not_implemented : refutes id_not_implemented w_not_implemented. Proof. show_refutes. Qed.

(* what exactly goes wrong on the witnesses (expected by the property / done by the model of mech) *)
Lemma witness_values :
  (let '(k, x, s) := w_opassign_scalar in
   spec_step k x s = OkNew (zs [6; 2; 3]%Z) /\ mech_step false k x s = Some (true, map Some (zs [5; 2; 3]%Z))) /\
  (let '(k, x, s) := w_partial_write in
   spec_step k x s = MustErr /\ mech_step false k x s = Some (false, map Some (zs [7; 3; 3]%Z))) /\
  (let '(k, x, s) := w_whole_short in
   spec_step k x s = MustErr /\ mech_step false k x s = Some (true, map Some (zs [10; 10; 10; 9]%Z))) /\
  (let '(k, x, s) := w_mask_rows_all in
   spec_step k x s = OkNew (zs [1; 18; 2; 18; 3; 18]%Z) /\
   mech_step false k x s = Some (true, map Some (zs [18; 4; 18; 5; 18; 6]%Z))) /\
  (let '(k, x, s) := w_mask_vector in
   spec_step k x s = OkNew (zs [50; 2; 3; 60]%Z) /\ mech_step false k x s = Some (false, map Some (zs [50; 2; 3; 4]%Z))) /\
  (let '(k, x, s) := w_div_all in
   spec_step k x s = OkNew (zs [4; 3; 4]%Z) /\ mech_step false k x s = Some (true, map Some (zs [4; 3; 2]%Z))) /\
  (let '(k, x, s) := w_not_implemented in
   spec_step k x s = OkNew (zs [1; 2; 8; 4]%Z) /\ mech_step false k x s = Some (false, map Some (zs [1; 2; 3; 4]%Z))).
Proof. vm_compute. repeat split. Qed.

(* ================================================================== *)
(* 6. the faithful model of mech: kernel loops                          *)
(* ================================================================== *)
Section RunP.
  Context {A : Type}.
  Implicit Types (g : option A -> A -> option (option A)) (f : A -> A -> option A).

  Definition pairs (ps : list nat) (vs : list A) : list (option nat * option A) :=
    map (fun pv => (Some (fst pv), Some (snd pv))) (combine ps vs).

  Lemma upd_nth_map {B C} (h : B -> C) p v (l : list B) : upd_nth p (h v) (map h l) = map h (upd_nth p v l).
  Proof. revert p; induction l as [|x l IH]; intros [|p]; cbn; auto. f_equal. apply IH. Qed.

  (* a loop whose accesses are all valid does what app_each does *)
  Lemma run_attempts_ok g f :
    (forall old v new, f old v = Some new -> g (Some old) v = Some (Some new)) ->
    forall ps vs d d', app_each f ps vs d = Some d' ->
      run_attempts g (pairs ps vs) (map Some d) = (true, map Some d').
  Proof.
    intros Hgf. induction ps as [|p ps IH]; intros [|v vs] d d' H; cbn in H;
      try (injection H as <-; reflexivity).
    destruct (nth_error d p) as [old|] eqn:Hold; [|discriminate].
    destruct (f old v) as [new|] eqn:Hf; [|discriminate].
    unfold pairs; cbn [combine map fst snd run_attempts].
    rewrite nth_error_map, Hold. cbn [option_map]. rewrite (Hgf _ _ _ Hf).
    rewrite (upd_nth_map Some). apply IH. exact H.
  Qed.

  (* a loop with an access outside the storage (or a missing source element) panics *)
  Lemma run_attempts_fail g ats : forall d,
      (exists a, In a ats /\ (fst a = None \/ snd a = None)) -> fst (run_attempts g ats d) = false.
  Proof.
    induction ats as [|[[p|] [v|]] ats IH]; intros d (a & Hin & Hbad); cbn [run_attempts]; try reflexivity.
    - destruct Hin.
    - assert (Htail : exists a, In a ats /\ (fst a = None \/ snd a = None)).
      { destruct Hin as [<-|Hin]; [cbn in Hbad; destruct Hbad; discriminate|eauto]. }
      destruct (nth_error d p) as [old|]; [|reflexivity].
      destruct (g old v) as [[new|]|]; try reflexivity; apply IH; assumption.
  Qed.

  Lemma pairs_repeat ps (e : A) : map (fun p => (p, Some e)) (map Some ps) = pairs ps (repeat e (length ps)).
  Proof. unfold pairs. induction ps as [|p ps IH]; cbn; [reflexivity|]. f_equal. exact IH. Qed.
End RunP.

Lemma with_src_pairs e ps : with_src e (map Some ps) = pairs ps (repeat e (length ps)).
Proof. apply pairs_repeat. Qed.

Lemma zip_src_pairs ps : forall vs0 vs, length ps = length vs ->
    zip_src (length vs0) (map Some ps) (vs0 ++ vs) = pairs ps vs.
Proof.
  unfold pairs. induction ps as [|p ps IH]; intros vs0 [|v vs] Hlen; cbn in Hlen; try discriminate; [reflexivity|].
  cbn [map zip_src combine fst snd]. f_equal.
  - f_equal. rewrite nth_error_app2 by lia. rewrite Nat.sub_diag. reflexivity.
  - replace (vs0 ++ v :: vs) with ((vs0 ++ [v]) ++ vs) by (rewrite <- app_assoc; reflexivity).
    replace (S (length vs0)) with (length (vs0 ++ [v])) by (rewrite app_length; cbn; lia).
    apply IH. lia.
Qed.

Lemma zip_src_pairs0 ps vs : length ps = length vs -> zip_src 0 (map Some ps) vs = pairs ps vs.
Proof. intro H. exact (zip_src_pairs ps [] vs H). Qed.

Lemma zip_src_In ats : forall i vs j a, nth_error ats j = Some a -> In (a, nth_error vs (i + j)) (zip_src i ats vs).
Proof.
  induction ats as [|b ats IH]; intros i vs [|j] a H; cbn in H; try discriminate.
  - injection H as ->. left. rewrite Nat.add_0_r. reflexivity.
  - right. replace (i + S j) with (S i + j) by lia. apply IH. exact H.
Qed.

Lemma zip_src_short ats vs : length vs < length ats ->
  exists a, In a (zip_src 0 ats vs) /\ (fst a = None \/ snd a = None).
Proof.
  intro H. destruct (nth_error ats (length vs)) as [a|] eqn:E.
  - exists (a, nth_error vs (0 + length vs)). split; [apply zip_src_In; assumption|].
    right. cbn. apply nth_error_None. lia.
  - apply nth_error_None in E. lia.
Qed.

Lemma zip_src_None ats vs : In None ats -> exists a, In a (zip_src 0 ats vs) /\ (fst a = None \/ snd a = None).
Proof.
  intro H. apply In_nth_error in H as (j & Hj).
  exists (None, nth_error vs (0 + j)). split; [apply zip_src_In; assumption|left; reflexivity].
Qed.

Lemma with_src_None e ats : In None ats -> exists a, In a (with_src e ats) /\ (fst a = None \/ snd a = None).
Proof. intro H. exists (None, Some e). split; [apply in_map_iff; eauto|left; reflexivity]. Qed.

(* ---------- per dimension: the kernel visits exactly the addressed positions ---------- *)
Lemma dim_attempts_valid n c ps :
  comp_status n c = CValid ps -> comp_of c <> CBad -> dim_attempts n (comp_of c) = map Some ps.
Proof.
  destruct c as [z|l|a b| |l]; cbn [comp_status comp_of]; intros H Hb.
  - destruct (chk n z) as [p|] eqn:E; [|discriminate]. injection H as <-. cbn. rewrite E. reflexivity.
  - destruct (Nat.ltb (length l) 2); [contradiction|].
    destruct (map_opt (chk n) l) as [qs|] eqn:E; [|discriminate]. injection H as <-. cbn. apply map_opt_map. exact E.
  - destruct (Z.leb b a); [discriminate|].
    cbv zeta in Hb |- *. destruct (Nat.ltb (length (range_list a b)) 2); [contradiction|].
    destruct (map_opt (chk n) (range_list a b)) as [qs|] eqn:E; [|discriminate]. injection H as <-.
    cbn. apply map_opt_map. exact E.
  - injection H as <-. reflexivity.
  - destruct (Nat.ltb (length l) 2); [contradiction|].
    destruct (Nat.eqb_spec (length l) n) as [E|E]; [|destruct (existsb _ _); discriminate].
    injection H as <-. cbn. apply map_ext_in. intros p Hp. unfold posn.
    apply mask_pos_lt in Hp. destruct (Nat.ltb_spec p n); [reflexivity|lia].
Qed.

Lemma dim_attempts_out n c :
  comp_status n c = COut -> comp_of c <> CBad -> In None (dim_attempts n (comp_of c)).
Proof.
  destruct c as [z|l|a b| |l]; cbn [comp_status comp_of]; intros H Hb.
  - destruct (chk n z) as [p|] eqn:E; [discriminate|]. cbn. rewrite E. left; reflexivity.
  - destruct (Nat.ltb (length l) 2); [contradiction|].
    destruct (map_opt (chk n) l) as [qs|] eqn:E; [discriminate|].
    apply map_opt_none in E as (z & Hz & Hc). cbn. apply in_map_iff. eauto.
  - destruct (Z.leb b a); [discriminate|].
    cbv zeta in Hb |- *. destruct (Nat.ltb (length (range_list a b)) 2); [contradiction|].
    destruct (map_opt (chk n) (range_list a b)) as [qs|] eqn:E; [discriminate|].
    apply map_opt_none in E as (z & Hz & Hc). cbn. apply in_map_iff. eauto.
  - discriminate.
  - destruct (Nat.ltb (length l) 2); [contradiction|].
    destruct (Nat.eqb (length l) n); [discriminate|].
    destruct (existsb (fun p => Nat.leb n p) (mask_pos 0 l)) eqn:E; [|discriminate].
    apply existsb_exists in E as (p & Hp & Hle). apply Nat.leb_le in Hle.
    cbn. apply in_map_iff. exists p. split; [|assumption]. unfold posn.
    destruct (Nat.ltb_spec p n); [lia|reflexivity].
Qed.

(* ---------- two dimensions ---------- *)
Definition lin2r (r : nat) (ri cj : list nat) : list nat :=
  flat_map (fun rr => map (fun cc => cc * r + rr) cj) ri.

Lemma in_lin2r r ri cj p : In p (lin2r r ri cj) <-> exists rr cc, In rr ri /\ In cc cj /\ p = cc * r + rr.
Proof.
  unfold lin2r. rewrite in_flat_map. split.
  - intros (rr & Hr & H). apply in_map_iff in H as (cc & <- & Hc). eauto.
  - intros (rr & cc & Hr & Hc & ->). exists rr. split; [assumption|]. apply in_map_iff. eauto.
Qed.

Lemma col_outer_valid r ri cj : col_outer r (map Some ri) (map Some cj) = map Some (lin2 r ri cj).
Proof.
  unfold col_outer, lin2. induction cj as [|cc cj IH]; cbn; [reflexivity|].
  rewrite map_app, IH. f_equal. rewrite !map_map. reflexivity.
Qed.

Lemma row_outer_valid r ri cj : row_outer r (map Some ri) (map Some cj) = map Some (lin2r r ri cj).
Proof.
  unfold row_outer, lin2r. induction ri as [|rr ri IH]; cbn; [reflexivity|].
  rewrite map_app, IH. f_equal. rewrite !map_map. reflexivity.
Qed.

Lemma col_outer_None r ra ca :
  (In None ra /\ ca <> []) \/ (In None ca /\ ra <> []) -> In None (col_outer r ra ca).
Proof.
  unfold col_outer. intros [[H Hne]|[H Hne]]; apply in_flat_map.
  - destruct ca as [|b ca]; [congruence|]. exists b. split; [left; reflexivity|].
    apply in_map_iff. exists None. split; [reflexivity|assumption].
  - exists None. split; [assumption|]. destruct ra as [|a ra]; [congruence|].
    left. destruct a; reflexivity.
Qed.

Lemma row_outer_None r ra ca :
  (In None ra /\ ca <> []) \/ (In None ca /\ ra <> []) -> In None (row_outer r ra ca).
Proof.
  unfold row_outer. intros [[H Hne]|[H Hne]]; apply in_flat_map.
  - exists None. split; [assumption|]. destruct ca as [|b ca]; [congruence|]. left. reflexivity.
  - destruct ra as [|a ra]; [congruence|]. exists a. split; [left; reflexivity|].
    apply in_map_iff. exists None. split; [destruct a; reflexivity|assumption].
Qed.

(* ================================================================== *)
(* 7. outside the known-finding classes the faithful model of mech      *)
(*    satisfies the property (both for the tree as it is, fx = false,  *)
(*    and with the proposed repairs, fx = true)                         *)
(* ================================================================== *)
Ltac comp_of_inv :=
  let H := fresh "H" in
  cbn [comp_of]; cbv zeta; intro H; try discriminate; try congruence;
  match type of H with context [if ?b then _ else _] => destruct b; discriminate end.

Lemma comp_of_CS j w : comp_of j = CS w -> j = IS w.
Proof. destruct j as [z|l|a b| |l]; comp_of_inv. Qed.

Lemma comp_of_CA j : comp_of j = CA -> j = IAll.
Proof. destruct j as [z|l|a b| |l]; comp_of_inv. Qed.

Lemma target_status_T2_out r c i j :
  target_status r c (T2 i j) = COut ->
  (comp_status r i = COut /\ comp_status c j = COut) \/
  (comp_status r i = COut /\ exists a l, comp_status c j = CValid (a :: l)) \/
  (comp_status c j = COut /\ exists a l, comp_status r i = CValid (a :: l)).
Proof.
  cbn [target_status].
  destruct (comp_status r i) as [ri| |w]; destruct (comp_status c j) as [cj| |w']; intro H;
    repeat match type of H with context [match ?l with [] => _ | _ => _ end] => destruct l end;
    try discriminate;
    first [left; solve [eauto] | right; left; solve [eauto 6] | right; right; solve [eauto 6]].
Qed.

Lemma dim_nonempty_valid n c a l : comp_status n c = CValid (a :: l) -> comp_of c <> CBad -> dim_attempts n (comp_of c) <> [].
Proof. intros H Hb. rewrite (dim_attempts_valid _ _ _ H Hb). discriminate. Qed.
Lemma dim_nonempty_out n c : comp_status n c = COut -> comp_of c <> CBad -> dim_attempts n (comp_of c) <> [].
Proof. intros H Hb E. pose proof (dim_attempts_out _ _ H Hb) as Hin. rewrite E in Hin. destruct Hin. Qed.

Definition covers (ats : list (option nat)) (ps : list nat) : Prop :=
  exists qs, ats = map Some qs /\ forall p, In p qs <-> In p ps.

Lemma outer_generic (rowmajor : bool) r c i j :
  comp_of i <> CBad -> comp_of j <> CBad ->
  let ats := (if rowmajor then row_outer else col_outer) r (dim_attempts r (comp_of i)) (dim_attempts c (comp_of j)) in
  (forall ps, target_status r c (T2 i j) = CValid ps -> covers ats ps) /\
  (target_status r c (T2 i j) = COut -> In None ats).
Proof.
  intros Hi Hj ats. split.
  - intros ps H. apply target_status_T2_valid in H as (ri & cj & Ei & Ej & ->).
    unfold ats. rewrite (dim_attempts_valid _ _ _ Ei Hi), (dim_attempts_valid _ _ _ Ej Hj).
    destruct rowmajor.
    + rewrite row_outer_valid. exists (lin2r r ri cj). split; [reflexivity|].
      intro p. rewrite in_lin2r, in_lin2. reflexivity.
    + rewrite col_outer_valid. exists (lin2 r ri cj). split; [reflexivity|]. reflexivity.
  - intro H. apply target_status_T2_out in H.
    assert (G : (In None (dim_attempts r (comp_of i)) /\ dim_attempts c (comp_of j) <> []) \/
                (In None (dim_attempts c (comp_of j)) /\ dim_attempts r (comp_of i) <> [])).
    { destruct H as [[H1 H2]|[[H1 (a & l & H2)]|[H1 (a & l & H2)]]].
      - left. split; [apply dim_attempts_out; assumption|apply dim_nonempty_out; assumption].
      - left. split; [apply dim_attempts_out; assumption|eapply dim_nonempty_valid; eassumption].
      - right. split; [apply dim_attempts_out; assumption|eapply dim_nonempty_valid; eassumption]. }
    unfold ats. destruct rowmajor; [apply row_outer_None|apply col_outer_None]; exact G.
Qed.

Lemma single_vec_scalar_inv i j z w : single_vec_scalar i j = Some (z, w) -> i = IV [z] /\ j = IS w.
Proof.
  destruct i as [?|[|z' [|? ?]]|? ?| |?]; cbn; try discriminate.
  destruct j; cbn; try discriminate. intro H. injection H as -> ->. auto.
Qed.

Lemma is_uvec_CU i l : comp_of i = CU l -> is_uvec i = true.
Proof. unfold is_uvec. intros ->. reflexivity. Qed.
Lemma is_bmask_CB i l : comp_of i = CB l -> is_bmask i = true.
Proof. unfold is_bmask. intros ->. reflexivity. Qed.

Lemma mech_positions_T2 fx k r c i j ats :
  (fx = false -> is_bmask i = true -> j = IAll -> False) ->
  (fx = false -> mixed_ok k = true -> is_uvec i = true -> is_bmask j = true -> False) ->
  mech_positions fx k r c (T2 i j) = Some ats ->
  (forall ps, target_status r c (T2 i j) = CValid ps -> covers ats ps) /\
  (target_status r c (T2 i j) = COut -> In None ats).
Proof.
  intros Hs1 Hs2 H. cbn [mech_positions] in H.
  destruct (single_vec_scalar i j) as [[z w]|] eqn:Es.
  - apply single_vec_scalar_inv in Es as [-> ->]. injection H as <-.
    cbn [target_status comp_status map_opt].
    destruct (chk r z) as [p|], (chk c w) as [q|]; cbn; split; intros; try discriminate; auto.
    match goal with H : CValid _ = CValid _ |- _ => injection H as <- end.
    exists [q * r + p]. split; [reflexivity|]. cbn. tauto.
  - destruct (comp_of i) as [z|l|l| |] eqn:Ei; destruct (comp_of j) as [w|m|m| |] eqn:Ej; cbn [mech_pos2] in H;
      try discriminate H.
    all: try (rewrite <- ?Ei, <- ?Ej in H; injection H as <-;
              first [apply (outer_generic true) | apply (outer_generic false)]; rewrite ?Ei, ?Ej; discriminate).
    + (* CU, CS *)
      destruct (chk c w) as [cc|] eqn:Ec.
      * replace [Some cc] with (dim_attempts c (comp_of j)) in H by (rewrite Ej; cbn; rewrite Ec; reflexivity).
        rewrite <- Ei in H. injection H as <-. apply (outer_generic false); rewrite ?Ei, ?Ej; discriminate.
      * injection H as <-. apply comp_of_CS in Ej. subst j. split.
        -- intros ps Hv. apply target_status_T2_valid in Hv as (ri & cj & _ & Hj & _).
           cbn in Hj. rewrite Ec in Hj. discriminate.
        -- intros _. left; reflexivity.
    + (* CU, CB *)
      destruct (mixed_ok k) eqn:Em; [|discriminate]. destruct fx.
      * rewrite <- Ei, <- Ej in H. injection H as <-. apply (outer_generic true); rewrite ?Ei, ?Ej; discriminate.
      * exfalso. apply Hs2; auto; [eapply is_uvec_CU|eapply is_bmask_CB]; eassumption.
    + (* CU, CA *)
      destruct (String.eqb k _); [discriminate|].
      rewrite <- Ei, <- Ej in H. injection H as <-. apply (outer_generic false); rewrite ?Ei, ?Ej; discriminate.
    + (* CB, CS *)
      destruct (chk c w) as [cc|] eqn:Ec.
      * replace [Some cc] with (dim_attempts c (comp_of j)) in H by (rewrite Ej; cbn; rewrite Ec; reflexivity).
        rewrite <- Ei in H. injection H as <-. apply (outer_generic false); rewrite ?Ei, ?Ej; discriminate.
      * injection H as <-. apply comp_of_CS in Ej. subst j. split.
        -- intros ps Hv. apply target_status_T2_valid in Hv as (ri & cj & _ & Hj & _).
           cbn in Hj. rewrite Ec in Hj. discriminate.
        -- intros _. left; reflexivity.
    + (* CB, CU *)
      destruct (mixed_ok k); [|discriminate].
      rewrite <- Ei, <- Ej in H. injection H as <-. apply (outer_generic true); rewrite ?Ei, ?Ej; discriminate.
    + (* CB, CA *)
      destruct fx.
      * rewrite <- Ei, <- Ej in H. injection H as <-. apply (outer_generic false); rewrite ?Ei, ?Ej; discriminate.
      * exfalso. apply Hs1; auto; [eapply is_bmask_CB; eassumption|apply comp_of_CA; assumption].
Qed.

Lemma single_mask_inv i b : single_mask i = Some b -> i = IM [b].
Proof. destruct i as [?|?|? ?| |[|b' [|? ?]]]; cbn; try discriminate. intro H; injection H as ->; reflexivity. Qed.

Lemma mech_positions_T1 fx k r c i ats :
  1 <= r * c ->
  mech_positions fx k r c (T1 i) = Some ats ->
  (forall ps, target_status r c (T1 i) = CValid ps -> ats = map Some ps) /\
  (target_status r c (T1 i) = COut -> In None ats).
Proof.
  intros Hn H. cbn [mech_positions target_status] in *. remember (r * c) as n eqn:En. clear En.
  destruct (single_mask i) as [b|] eqn:Es.
  - apply single_mask_inv in Es. subst i. injection H as <-. cbn [comp_status length].
    destruct (Nat.eqb_spec 1 n) as [<-|Hne].
    + split; [|discriminate]. intros ps Hv. injection Hv as <-. destruct b; reflexivity.
    + assert (E : existsb (fun p => Nat.leb n p) (mask_pos 0 [b]) = false).
      { destruct b; cbn; [|reflexivity]. destruct n; [lia|reflexivity]. }
      rewrite E. split; discriminate.
  - assert (G : forall ci, comp_of i = ci -> ci <> CBad ->
                  (forall ps, comp_status n i = CValid ps -> dim_attempts n ci = map Some ps) /\
                  (comp_status n i = COut -> In None (dim_attempts n ci))).
    { intros ci <- Hb. split; [intros; apply dim_attempts_valid; assumption|intro; apply dim_attempts_out; assumption]. }
    destruct (comp_of i) as [z|l|l| |] eqn:Ei; try discriminate H; injection H as <-;
      exact (G _ eq_refl ltac:(discriminate)).
Qed.

(* ---------- running the kernels on valid accesses ---------- *)
Lemma arith_m_of_arith k o a b v : arith k o a b = Some v -> arith_m k o a b = Some (Some v).
Proof.
  intro H. destruct (kind_bits k) as [sw|] eqn:Ek.
  - destruct o; [cbn in *; injection H as <-; reflexivity| | | |];
      unfold arith in H; unfold arith_m; rewrite Ek in *;
      (destruct a as [x| | |]; try discriminate; destruct b as [y| | |]; try discriminate);
      unfold arith_int in H;
      (destruct (in_range (int_lo sw) (int_hi sw) x); cbn [andb negb] in *;
       [destruct (in_range (int_lo sw) (int_hi sw) y); cbn [andb negb] in *|]);
      repeat match type of H with
             | context [if ?c then _ else _] => destruct c; cbn [option_map] in H
             end; try discriminate; injection H as <-; reflexivity.
  - destruct o; [cbn in *; injection H as <-; reflexivity| | | |];
      unfold arith_m; rewrite Ek, H; reflexivity.
Qed.

Lemma lift_m_of_arith k o old v new : arith k o old v = Some new -> lift_m k o (Some old) v = Some (Some new).
Proof.
  intro H. unfold lift_m. destruct o; try (apply arith_m_of_arith; assumption).
  cbn in H. injection H as <-. reflexivity.
Qed.

(* op kernels on exactly the addressed positions *)
Lemma run_op_exact k o ps vs d d' :
  app_each (arith k o) ps vs d = Some d' ->
  run_attempts (lift_m k o) (pairs ps vs) (map Some d) = (true, map Some d').
Proof. apply run_attempts_ok. intros old v new. apply lift_m_of_arith. Qed.

Lemma run_set_exact ps (vs d d' : list sx) :
  app_each f_set ps vs d = Some d' ->
  run_attempts m_set (pairs ps vs) (map Some d) = (true, map Some d').
Proof. apply run_attempts_ok. intros old v new H. unfold f_set in H. injection H as <-. reflexivity. Qed.

(* plain scalar assignment: the order of the kernel's loop does not matter *)
Lemma run_set_covers ats ps (e : sx) d d' :
  covers ats ps -> Forall (fun p => p < length d) ps ->
  set_all ps e d = Some d' ->
  run_attempts m_set (with_src e ats) (map Some d) = (true, map Some d').
Proof.
  intros (qs & -> & Hiff) Hlt H.
  assert (Hq : Forall (fun p => p < length d) qs).
  { rewrite Forall_forall in *. intros p Hp. apply Hlt. apply Hiff. assumption. }
  destruct (app_each_set_defined qs (repeat e (length qs)) d Hq) as (d1 & H1).
  rewrite with_src_pairs. rewrite (run_set_exact _ _ _ _ H1). f_equal. f_equal.
  eapply set_all_ext; [exact H1|exact H|exact Hiff].
Qed.

Lemma wf_lt (x : mat sx) ps : wf_mat x -> Forall (fun p => p < mrows x * mcols x) ps -> Forall (fun p => p < length (mdata x)) ps.
Proof. unfold wf_mat. intros ->. auto. Qed.

Definition good (m : mres) (sp : outcome) : Prop :=
  exists fin pat, m = Some (fin, pat) /\ (fin = true -> exists d, sp = OkNew d /\ pat = map Some d).

Lemma good_refused d sp : good (refused d) sp.
Proof. exists false, d. split; [reflexivity|discriminate]. Qed.

Lemma good_fail g ats d sp :
  (exists a, In a ats /\ (fst a = None \/ snd a = None)) -> good (runm g ats d) sp.
Proof.
  intro H. unfold runm. destruct (run_attempts g ats d) as [fin pat] eqn:E.
  exists fin, pat. split; [reflexivity|]. intros ->.
  pose proof (run_attempts_fail g ats d H) as F. rewrite E in F. discriminate.
Qed.

Lemma good_exact g ats d d' :
  run_attempts g ats (map Some d) = (true, map Some d') -> good (runm g ats (map Some d)) (OkNew d').
Proof. intro H. unfold runm. rewrite H. exists true, (map Some d'). split; [reflexivity|eauto]. Qed.

Lemma set_all_total ps (e : sx) d : Forall (fun p => p < length d) ps -> exists d', set_all ps e d = Some d'.
Proof. intro H. unfold set_all. apply app_each_set_defined. assumption. Qed.

Definition not_soft (s : cstat) : Prop := match s with CSoft _ => False | _ => True end.

Lemma ml_set_scalar fx k x t k' e sp :
  wf_mat x ->
  t <> TWhole ->
  kf_structural fx k OSet t (SSc k' e) (mrows x * mcols x) = None ->
  1 <= mrows x * mcols x ->
  not_soft (target_status (mrows x) (mcols x) t) ->
  (target_status (mrows x) (mcols x) t = COut -> sp = MustErr) ->
  (forall ps, target_status (mrows x) (mcols x) t = CValid ps ->
              sp = spec_update k OSet ps (repeat e (length ps)) (mdata x)) ->
  good (mech_set_scalar fx k (mrows x) (mcols x) t e (map Some (mdata x))) sp.
Proof.
  intros Hwf Ht Hkf Hn Hns Hout Hval.
  assert (Hm : mech_set_scalar fx k (mrows x) (mcols x) t e (map Some (mdata x)) =
               match mech_positions fx k (mrows x) (mcols x) t with
               | Some ps => runm m_set (with_src e ps) (map Some (mdata x))
               | None => refused (map Some (mdata x))
               end) by (destruct t; [contradiction|reflexivity|reflexivity]).
  rewrite Hm. clear Hm.
  destruct (mech_positions fx k (mrows x) (mcols x) t) as [ats|] eqn:Em; [|apply good_refused].
  assert (Hpos : (forall ps, target_status (mrows x) (mcols x) t = CValid ps -> covers ats ps) /\
                 (target_status (mrows x) (mcols x) t = COut -> In None ats)).
  { destruct t as [|i|i j]; [contradiction| |].
    - destruct (mech_positions_T1 _ _ _ _ _ _ Hn Em) as [Hv Ho]. split; [|assumption].
      intros ps Hps. exists ps. split; [apply Hv; assumption|reflexivity].
    - apply (mech_positions_T2 fx k); [| |assumption].
      + intros -> Hb ->. cbn [kf_structural is_set is_all] in Hkf. rewrite Hb in Hkf. cbn in Hkf. discriminate.
      + intros -> Hm Hu Hb. cbn [kf_structural is_set] in Hkf. destruct j; try discriminate Hb; cbn [is_all] in Hkf; rewrite Hm, Hu, Hb in Hkf; cbn in Hkf; discriminate. }
  destruct Hpos as [Hv Ho].
  destruct (target_status (mrows x) (mcols x) t) as [ps| |w] eqn:Et; [| |destruct Hns].
  - specialize (Hv ps eq_refl). rewrite (Hval ps eq_refl).
    assert (Hlt : Forall (fun p => p < length (mdata x)) ps).
    { apply wf_lt; [assumption|]. eapply target_status_lt; eassumption. }
    destruct (set_all_total ps e (mdata x) Hlt) as (d' & Hd).
    unfold spec_update. rewrite arith_set. unfold set_all in Hd. rewrite Hd.
    apply good_exact. eapply run_set_covers; eassumption.
  - rewrite (Hout eq_refl). apply good_fail. apply with_src_None. apply Ho. reflexivity.
Qed.

Definition fixed (sp : outcome) : Prop := match sp with NotFixed _ => False | _ => True end.

Lemma good_op_exact k o ps e d sp w :
  sp = (if andb (negb (is_set o)) (negb (nodupb ps)) then NotFixed w
        else spec_update k o ps (repeat e (length ps)) d) ->
  fixed sp ->
  good (runm (lift_m k o) (with_src e (map Some ps)) (map Some d)) sp.
Proof.
  intros -> Hf. destruct (andb _ _); [destruct Hf|].
  unfold spec_update in *. destruct (app_each (arith k o) ps (repeat e (length ps)) d) as [d'|] eqn:E; [|destruct Hf].
  apply good_exact. rewrite with_src_pairs. apply run_op_exact. exact E.
Qed.

Lemma col_outer_exact r c i j ps :
  comp_of i <> CBad -> comp_of j <> CBad ->
  target_status r c (T2 i j) = CValid ps ->
  col_outer r (dim_attempts r (comp_of i)) (dim_attempts c (comp_of j)) = map Some ps.
Proof.
  intros Hi Hj H. apply target_status_T2_valid in H as (ri & cj & Ei & Ej & ->).
  rewrite (dim_attempts_valid _ _ _ Ei Hi), (dim_attempts_valid _ _ _ Ej Hj). apply col_outer_valid.
Qed.

(* one dimension addressed through comp_of i, op kernel *)
Lemma good_op_dim k o n i e d sp w :
  comp_of i <> CBad ->
  sp = match comp_status n i with
       | CValid ps => if andb (negb (is_set o)) (negb (nodupb ps)) then NotFixed w
                      else spec_update k o ps (repeat e (length ps)) d
       | COut => MustErr
       | CSoft w' => NotFixed w'
       end ->
  fixed sp ->
  good (runm (lift_m k o) (with_src e (dim_attempts n (comp_of i))) (map Some d)) sp.
Proof.
  intros Hb -> Hf. destruct (comp_status n i) as [ps| |w'] eqn:Es; [| |destruct Hf].
  - rewrite (dim_attempts_valid _ _ _ Es Hb). eapply good_op_exact; [reflexivity|assumption].
  - apply good_fail. apply with_src_None. apply dim_attempts_out; assumption.
Qed.

Lemma good_op_2d k o r c i j e d sp w :
  comp_of i <> CBad -> comp_of j <> CBad ->
  sp = match target_status r c (T2 i j) with
       | CValid ps => if andb (negb (is_set o)) (negb (nodupb ps)) then NotFixed w
                      else spec_update k o ps (repeat e (length ps)) d
       | COut => MustErr
       | CSoft w' => NotFixed w'
       end ->
  fixed sp ->
  good (runm (lift_m k o) (with_src e (col_outer r (dim_attempts r (comp_of i)) (dim_attempts c (comp_of j)))) (map Some d)) sp.
Proof.
  intros Hi Hj -> Hf. destruct (target_status r c (T2 i j)) as [ps| |w'] eqn:Es; [| |destruct Hf].
  - rewrite (col_outer_exact _ _ _ _ _ Hi Hj Es). eapply good_op_exact; [reflexivity|assumption].
  - apply good_fail. apply with_src_None. apply (outer_generic false r c i j Hi Hj). assumption.
Qed.


Lemma is_scalar_CS i z : comp_of i = CS z -> i = IS z /\ is_scalar_ix i = true.
Proof. intro H. apply comp_of_CS in H. subst. auto. Qed.

Lemma comp_status_T1 r c i : target_status r c (T1 i) = comp_status (r * c) i.
Proof. reflexivity. Qed.

Lemma ml_op_scalar fx k x o t e :
  wf_mat x -> 1 <= mrows x -> 1 <= mcols x ->
  is_set o = false -> is_numeric k = true ->
  kf_structural fx k o t (SSc k e) (mrows x * mcols x) = None ->
  fixed (spec_step k x (SAsg o t (SSc k e))) ->
  good (mech_op_scalar fx k (mrows x) (mcols x) o t e (map Some (mdata x))) (spec_step k x (SAsg o t (SSc k e))).
Proof.
  intros Hwf Hr Hc Ho Hnum Hkf Hfix.
  unfold spec_step in *. cbn [src_kind] in *. rewrite String.eqb_refl in *. cbn [negb] in *.
  rewrite Ho, Hnum in *. cbn [andb negb source_form_soft] in *.
  cbn [kf_structural] in Hkf. rewrite Ho in Hkf.
  destruct t as [|i|i j]; cbn [mech_op_scalar].
  - (* x op= e *)
    cbn [target_status] in *.
    destruct (op_kind_ok fx k); [|apply good_refused].
    eapply good_op_exact; [|assumption]. rewrite Ho. reflexivity.
  - (* x[i] op= e *)
    destruct (single_mask i) as [b|]; [discriminate|].
    rewrite comp_status_T1 in *.
    destruct (comp_of i) as [z|l|l| |] eqn:Ei; try apply good_refused.
    + destruct (is_scalar_CS _ _ Ei) as [-> Hs]. rewrite Hs in Hkf.
      destruct fx; [|discriminate]. destruct (op_kind_ok true k); [|apply good_refused].
      rewrite <- Ei. eapply good_op_dim; [rewrite Ei; discriminate| |assumption]. rewrite Ho. reflexivity.
    + destruct (op_kind_ok fx k); [|apply good_refused].
      rewrite <- Ei. eapply good_op_dim; [rewrite Ei; discriminate| |assumption]. rewrite Ho. reflexivity.
  - (* x[i,j] op= e *)
    destruct (is_all j) eqn:Ej; cbn [negb]; [|apply good_refused].
    assert (j = IAll) by (destruct j; try discriminate; reflexivity). subst j.
    destruct (comp_of i) as [z|l|l| |] eqn:Ei; try apply good_refused.
    + destruct (is_scalar_CS _ _ Ei) as [-> Hs]. rewrite Hs in Hkf. cbn [is_scalar_ix] in Hkf.
      destruct fx; [|discriminate]. cbv zeta. destruct (op_kind_ok true k); [|apply good_refused].
      change (CS z) with (comp_of (IS z)). change CA with (comp_of IAll).
      eapply good_op_2d; try (cbn; discriminate); [|assumption]. rewrite Ho. reflexivity.
    + destruct (op_kind_ok fx k); [|apply good_refused].
      assert (Hd : andb (is_div o) (negb fx) = false).
      { destruct (is_div o) eqn:Ed, fx; try reflexivity. exfalso.
        rewrite (is_uvec_CU _ _ Ei) in Hkf. destruct (is_scalar_ix i); discriminate. }
      rewrite Hd. rewrite <- Ei. change CA with (comp_of IAll).
      eapply good_op_2d; try (rewrite ?Ei; cbn; discriminate); [|assumption]. rewrite Ho. reflexivity.
Qed.

Lemma same_orientation_whole x col : same_orientation x col = whole_shape_ok TWhole x col.
Proof.
  unfold same_orientation, whole_shape_ok, x_is_row, x_is_col. destruct col; cbn [negb].
  - rewrite andb_false_r, andb_true_r. reflexivity.
  - rewrite andb_false_r, andb_true_r, orb_false_r. reflexivity.
Qed.

Lemma good_vec_dim k o n i vs d sp w1 w2 :
  comp_of i <> CBad ->
  sp = match comp_status n i with
       | CValid ps => if Nat.ltb (length vs) (length ps) then MustErr
                      else if Nat.ltb (length ps) (length vs) then NotFixed w1
                      else if negb (nodupb ps) then NotFixed w2
                      else spec_update k o ps vs d
       | COut => MustErr
       | CSoft w' => NotFixed w'
       end ->
  fixed sp ->
  good (runm (lift_m k o) (zip_src 0 (dim_attempts n (comp_of i)) vs) (map Some d)) sp.
Proof.
  intros Hb -> Hf. destruct (comp_status n i) as [ps| |w'] eqn:Es; [| |destruct Hf].
  - rewrite (dim_attempts_valid _ _ _ Es Hb).
    destruct (Nat.ltb_spec (length vs) (length ps)) as [H1|H1].
    + apply good_fail. apply zip_src_short. rewrite map_length. assumption.
    + destruct (Nat.ltb_spec (length ps) (length vs)) as [H2|H2]; [destruct Hf|].
      destruct (negb (nodupb ps)); [destruct Hf|].
      unfold spec_update in *. destruct (app_each (arith k o) ps vs d) as [d'|] eqn:E; [|destruct Hf].
      apply good_exact. rewrite zip_src_pairs0 by lia. apply run_op_exact. exact E.
  - apply good_fail. apply zip_src_None. apply dim_attempts_out; assumption.
Qed.

Lemma run_set_as_lift k ats d : run_attempts m_set ats d = run_attempts (lift_m k OSet) ats d.
Proof. reflexivity. Qed.

Lemma ml_vec fx k x o t col vs :
  wf_mat x ->
  kf_structural fx k o t (SVec k col vs) (mrows x * mcols x) = None ->
  fixed (spec_step k x (SAsg o t (SVec k col vs))) ->
  good (mech_vec fx k x o t col vs (map Some (mdata x))) (spec_step k x (SAsg o t (SVec k col vs))).
Proof.
  intros Hwf Hkf Hfix.
  unfold spec_step in *. cbn [src_kind] in *. rewrite String.eqb_refl in *. cbn [negb] in *.
  destruct (andb (is_set o) match t with TWhole => true | _ => false end) eqn:E1; [destruct Hfix|].
  destruct (andb (negb (is_set o)) (negb (is_numeric k))) eqn:E2; [destruct Hfix|].
  unfold mech_vec. cbn [kf_structural] in Hkf.
  destruct t as [|i|i j]; cbn [source_form_soft] in *; [| |destruct Hfix].
  - (* x op= vs *)
    rewrite andb_true_r in E1. rewrite E1 in *.
    destruct (Nat.ltb (length vs) 2); [destruct Hfix|].
    rewrite same_orientation_whole.
    destruct (whole_shape_ok TWhole x col); cbn [negb] in *; [|destruct Hfix].
    cbn [target_status] in *. rewrite seq_length in *.
    destruct (Nat.ltb_spec (length vs) (mrows x * mcols x)) as [H1|H1]; [discriminate|].
    destruct (Nat.ltb_spec (mrows x * mcols x) (length vs)) as [H2|H2]; [destruct Hfix|].
    destruct (negb (op_kind_ok fx k)); [apply good_refused|].
    destruct (negb (nodupb _)); [destruct Hfix|].
    unfold spec_update in *.
    destruct (app_each (arith k o) (seq 0 (mrows x * mcols x)) vs (mdata x)) as [d'|] eqn:E; [|destruct Hfix].
    apply good_exact. rewrite Nat.min_l by lia.
    rewrite zip_src_pairs0 by (rewrite seq_length; lia). apply run_op_exact. exact E.
  - (* x[i] op= vs *)
    destruct (Nat.ltb (length vs) 2); [destruct Hfix|].
    cbn [whole_shape_ok negb] in *. rewrite comp_status_T1 in *.
    destruct (comp_of i) as [z|l|l| |] eqn:Ei; try apply good_refused.
    + rewrite <- Ei.
      destruct (is_set o) eqn:Eo.
      * assert (o = OSet) by (destruct o; try discriminate; reflexivity). subst o.
        change (@m_set sx) with (lift_m k OSet).
        eapply good_vec_dim; [rewrite Ei; discriminate|reflexivity|assumption].
      * destruct (op_kind_ok fx k); [|apply good_refused].
        eapply good_vec_dim; [rewrite Ei; discriminate|reflexivity|assumption].
    + destruct (is_set o) eqn:Eo; cbn [andb]; [|apply good_refused].
      rewrite (is_bmask_CB _ _ Ei) in Hkf. discriminate.
Qed.

(* ---------- assembling ---------- *)
Lemma spec_step_set_scalar k x t e :
  t <> TWhole ->
  spec_step k x (SAsg OSet t (SSc k e)) =
  match target_status (mrows x) (mcols x) t with
  | CValid ps => spec_update k OSet ps (repeat e (length ps)) (mdata x)
  | COut => MustErr
  | CSoft w => NotFixed w
  end.
Proof.
  intro Ht. unfold spec_step. cbn [src_kind]. rewrite String.eqb_refl. cbn [negb is_set andb source_form_soft].
  destruct t; [contradiction| |]; reflexivity.
Qed.

Theorem mech_model_correct fx k x s :
  wf_mat x -> 1 <= mrows x -> 1 <= mcols x ->
  fixed (spec_step k x s) ->
  (forall o t src, s = SAsg o t src -> kf_structural fx k o t src (mrows x * mcols x) = None) ->
  good (mech_step fx k x s) (spec_step k x s).
Proof.
  intros Hwf Hr Hc Hfix Hkf.
  destruct s as [o t src|t]; [|destruct Hfix].
  specialize (Hkf o t src eq_refl).
  unfold mech_step.
  destruct (String.eqb (src_kind src) k) eqn:Ek; cbn [negb]; [|apply good_refused].
  apply String.eqb_eq in Ek.
  destruct (andb (negb (is_set o)) (negb (is_numeric k))) eqn:E2.
  { exfalso. unfold spec_step in Hfix. rewrite Ek, String.eqb_refl in Hfix. cbn [negb] in Hfix.
    destruct (andb (is_set o) _); [exact Hfix|]. rewrite E2 in Hfix. exact Hfix. }
  destruct src as [k' e|k' col vs]; cbn [src_kind] in Ek; subst k'.
  - destruct (is_set o) eqn:Eo.
    + assert (o = OSet) by (destruct o; try discriminate; reflexivity). subst o.
      assert (Ht : t <> TWhole).
      { intros ->. unfold spec_step in Hfix. cbn [src_kind] in Hfix. rewrite String.eqb_refl in Hfix. exact Hfix. }
      rewrite (spec_step_set_scalar k x t e Ht) in *.
      apply (ml_set_scalar fx k x t k e); auto.
      * nia.
      * destruct (target_status (mrows x) (mcols x) t); [exact I|exact I|exact Hfix].
      * intros ->. reflexivity.
      * intros ps ->. reflexivity.
    + apply ml_op_scalar; auto.
      cbn [negb andb] in E2. destruct (is_numeric k); [reflexivity|discriminate].
  - apply ml_vec; auto.
Qed.

Fixpoint sx_eqb_refl (a : sx) : sx_eqb a a = true.
Proof.
  destruct a as [z|s|s|l]; cbn.
  - apply Z.eqb_refl.
  - apply String.eqb_refl.
  - apply String.eqb_refl.
  - induction l as [|x l IH]; [reflexivity|]. rewrite sx_eqb_refl. exact IH.
Qed.

Lemma pat_match_refl d : sx_pat_match (map Some d) d = true.
Proof. unfold sx_pat_match. induction d as [|a d IH]; cbn; [reflexivity|]. rewrite sx_eqb_refl. exact IH. Qed.

Lemma all_known_map d : all_known (map Some d) = true.
Proof. unfold all_known. induction d; cbn; auto. Qed.

Lemma pat_match_eq pat : forall d, all_known pat = true -> sx_pat_match pat d = true -> pat = map Some d.
Proof.
  unfold all_known, sx_pat_match. induction pat as [|[a|] pat IH]; intros [|b d] Hk Hm; cbn in *; try discriminate.
  - reflexivity.
  - apply andb_prop in Hm as [H1 H2]. apply sx_eqb_eq in H1. subst. f_equal. apply IH; assumption.
Qed.

Theorem mech_holds fx k x s :
  wf_mat x -> 1 <= mrows x -> 1 <= mcols x ->
  kf_class fx k x s = None ->
  match spec_step k x s with
  | OkNew d => mech_step fx k x s = Some (true, map Some d)
  | MustErr => mech_step fx k x s = Some (false, map Some (mdata x))
  | NotFixed _ => True
  end.
Proof.
  intros Hwf Hr Hc H.
  destruct s as [o t src|t]; [|exact I].
  unfold kf_class in H.
  pose proof (mech_model_correct fx k x (SAsg o t src) Hwf Hr Hc) as ML.
  destruct (spec_step k x (SAsg o t src)) as [d| |w] eqn:Es; [| |exact I].
  - destruct (agrees (OkNew d) (mech_step fx k x (SAsg o t src)) (mdata x)) eqn:Ea.
    + unfold agrees in Ea. destruct (mech_step fx k x (SAsg o t src)) as [[[|] pat]|]; try discriminate.
      apply andb_prop in Ea as [E1 E2]. rewrite (pat_match_eq _ _ E1 E2). reflexivity.
    + destruct (kf_structural fx k o t src (mrows x * mcols x)) eqn:Eks; [discriminate|].
      destruct (ML I) as (fin & pat & Em & Hfin).
      { intros o' t' src' E. injection E as <- <- <-. exact Eks. }
      rewrite Em in *. destruct fin.
      * destruct (Hfin eq_refl) as (d' & Ed & ->). injection Ed as <-.
        cbn in Ea. rewrite all_known_map, pat_match_refl in Ea. discriminate.
      * destruct (andb (all_known pat) (sx_pat_match pat (mdata x))); discriminate.
  - destruct (agrees MustErr (mech_step fx k x (SAsg o t src)) (mdata x)) eqn:Ea.
    + unfold agrees in Ea. destruct (mech_step fx k x (SAsg o t src)) as [[[|] pat]|]; try discriminate.
      apply andb_prop in Ea as [E1 E2]. rewrite (pat_match_eq _ _ E1 E2). reflexivity.
    + destruct (kf_structural fx k o t src (mrows x * mcols x)) eqn:Eks; [discriminate|].
      destruct (ML I) as (fin & pat & Em & Hfin).
      { intros o' t' src' E. injection E as <- <- <-. exact Eks. }
      rewrite Em in *. destruct fin.
      * destruct (Hfin eq_refl) as (d' & Ed & _). discriminate.
      * cbn in Ea. rewrite Ea in H. discriminate.
Qed.
